#!/usr/bin/env python3
"""Regenerates MANIFEST.json from the table below (single source of truth for the interface)."""
import json, subprocess

HOOK_COMMITS = subprocess.run(["git", "-C", "/repo", "log", "--format=%H %s", "--grep=^verif:"],
                              stdout=subprocess.PIPE, text=True).stdout.strip().split("\n")
HOOK_COMMITS = [l.split()[0] for l in HOOK_COMMITS if l]

NOTE_COMMON = ("Trusted base: Lean 4.33.0 kernel; axioms propext/Classical.choice/Quot.sound only (audited every run); "
               "the hand-written Lean model is tied to /repo by regenerated tables (reflection under -tags verif) and by the "
               "differential correspondence run, not by proof; Go runtime/library behaviour (reflect, encoding/binary, io, time) is modelled.")

CHECKS = {
    "C14": dict(
        text="Lean theorems over the model of dyncrc16.go: the nibble-table update equals the reflected bit-serial CRC-16 (poly 0xA001, init 0) "
             "for every register and byte, for every byte string; any write partition equals one write; Reset/New give the initial state; "
             "appending the sum little-endian yields residue 0 from any state. Tie: all 65536x256 transitions and random partitions through the real package are compared with the model on every run (exhaustive).",
        technique="Lean 4 proof (BitVec algebra: XOR-linearity + nibble decomposition) + exhaustive differential correspondence of all 2^24 transitions",
        design="6/C14"),
}

NOT_YET = {}

def main():
    props = [json.loads(l) for l in open("/verif/properties.jsonl") if l.strip()]
    checks, na = [], []
    for p in props:
        pid = p["id"]
        if pid in CHECKS:
            c = CHECKS[pid]
            checks.append({
                "property_id": pid,
                "quick_cmd": f"bin/check {pid} --tier quick",
                "thorough_cmd": f"bin/check {pid} --tier thorough",
                "evidence_file": f"evidence/{pid}.json",
                "replay_cmd_template": "bin/check replay {path}",
                "engine": "lean+harness",
                "level_claimed": {"category": "proof", "text": c["text"], "design_ref": "DESIGN.md section " + c["design"]},
                "level_note": c.get("note", NOTE_COMMON),
                "technique": c["technique"],
            })
        else:
            na.append({"property_id": pid, "reason": NOT_YET.get(pid, "check under construction in this session: model/theorems/correspondence not yet registered; the technique applies (see DESIGN.md section 6)")})
    m = {
        "version": 1,
        "setup_cmd": "bin/check --setup",
        "hooks": {
            "guard": "verif",
            "enable": "go build -tags verif (the harness module replaces github.com/tormoder/fit with /repo)",
            "baseline_off_cmd": "cd /repo && GOFLAGS=-mod=mod GOPROXY=off GOSUMDB=off GOTOOLCHAIN=local go test -vet=off -count=1 ./...",
            "source_commits": HOOK_COMMITS,
            "add_only": True,
        },
        "engines": [
            {"name": "lean", "path": "lean/", "serves_properties": [c["property_id"] for c in checks],
             "kind_free_text": "Lean 4 model (FitModel), helper lemmas (FitProofs), property theorems (FitProps), driver executable fitmodel"},
            {"name": "harness", "path": "go/cmd/harness", "serves_properties": [c["property_id"] for c in checks],
             "kind_free_text": "Go: fact extraction from /repo, generators, real-code drivers, differential comparison with the Lean driver"},
            {"name": "orchestrator", "path": "bin/check", "serves_properties": [c["property_id"] for c in checks],
             "kind_free_text": "builds, regenerates facts, audits axioms, runs the correspondence, writes evidence, reports violations"},
        ],
        "checks": checks,
        "not_applicable": na,
        "notes": "Every check rebuilds the harness from /repo's working tree with -tags verif, regenerates lean/FitModel/Gen from it and re-checks the theorems.",
    }
    json.dump(m, open("/verif/MANIFEST.json", "w"), indent=1)

main()
