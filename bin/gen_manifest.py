#!/usr/bin/env python3
"""Regenerates MANIFEST.json from the table below (single source of truth for the interface)."""
import json, subprocess

HOOK_COMMITS = subprocess.run(["git", "-C", "/repo", "log", "--format=%H %s", "--grep=^verif:"],
                              stdout=subprocess.PIPE, text=True).stdout.strip().split("\n")
HOOK_COMMITS = [l.split()[0] for l in HOOK_COMMITS if l]

NOTE_COMMON = ("Trusted base: Lean 4.33.0 kernel; axioms propext/Classical.choice/Quot.sound only (audited every run); "
               "the hand-written Lean model is tied to /repo by regenerated tables (reflection under -tags verif) and by the "
               "differential correspondence run, not by proof; Go runtime/library behaviour (reflect, encoding/binary, io, time) is modelled.")

CHECKS = {
    "C14": dict(
        text="Lean theorems over the model of dyncrc16.go: the nibble-table update equals the reflected bit-serial CRC-16 (poly 0xA001, init 0) "
             "for every register and byte, for every byte string; any write partition equals one write; Reset/New give the initial state; "
             "appending the sum little-endian yields residue 0 from any state. Tie: all 65536x256 transitions and random partitions through the real package are compared with the model on every run (exhaustive).",
        technique="Lean 4 proof (BitVec algebra: XOR-linearity + nibble decomposition) + exhaustive differential correspondence of all 2^24 transitions",
        design="6/C14"),
}

def chk(text, technique, design, note=None):
    d = dict(text=text, technique=technique, design=design)
    if note:
        d["note"] = note
    return d

CORR = " Tie: the executable model and the real code (in-process, -tags verif) are run on the same generated inputs on every run and the canonical dumps are diffed; the profile tables the model uses are regenerated from the live tables by reflection."
CHECKS.update({
    "C01": chk("Proof. decode_never_panics: for every profile satisfying the decidable predicate ProfileWF — which the regenerated profile does (gen_wf, kernel evaluation on every run) — every mode (Decode, DecodeHeader, DecodeHeaderAndFileID, CheckIntegrity), every input, package state, option set and read schedule gives a result or an error, never a panic outcome (a Hoare logic over the record-phase programs with the invariant: a File is attached, every stored definition passed validateFieldDef, the byte counter only grows; applyField_good does the reflection case analysis); chained_never_panics for DecodeChained; no over-read (C10). Every loop of the model is structural or fuel-bounded and the fuel is proved never to end the record loop. Modelled, not verified: that the model's panic sites are all of the real code's — checked by the correspondence run under recover with a per-case timeout." + CORR,
               "Lean 4 proof (weakest-precondition logic over decoder programs, reflection case analysis under a kernel-checked well-formedness predicate) + differential correspondence incl. single-field and size-extreme sweeps", "6/C01"),
    "C02": chk("Proof. For every definition base type, both byte orders and every struct-field width the profile allows, parseFitField stores exactly the value the wire bytes denote (signed_field_denotes, unsigned_field_denotes, string_field_denotes, widen_signed/unsigned); byte_parser_is_record_machine (Framing): on the serialisation of any list of items that fit the live definitions, the byte-level record loop arrives at exactly the state of the record machine, which applies these functions to each field's own bytes and skips developer fields — so neighbouring fields and messages are undisturbed; whole_file_framing (header of any of the three layouts, file_id prelude, records, file CRC); absent_fields_stay_invalid (every struct field that no field number of the definition designates holds, in the decoded message, the constructor's value — its type's invalid value), field_writes_own_position, unknown_field_skipped." + CORR,
               "Lean 4 proof of per-field value semantics + framing theorem by induction over items + differential correspondence", "6/C02"),
    "C03": chk("Proof: route_spec — folding the container's add over any message sequence leaves in each slot exactly the (expanded) messages of the type the slot holds, in stream order (slice) or the last one (pointer), other types have no effect; common_first; kernel-checked facts over the regenerated tables: RoutersWF, init_rejects (all 256 file-type values), accessor_exact, container_of_type_injective." + CORR,
               "Lean 4 proof by induction over the message list + decide over the regenerated 256-entry tables + differential correspondence of covering interleavings", "6/C03"),
    "C10": chk("Proof. run_refines (buffered interpreter = list-consuming specification for every program and reader), chunk_independent, never_overreads, consumes_exactly / decode_consumes_exactly (success ⇒ exactly header + data + 2 bytes consumed and pulled, under any read schedule), decode_ignores_tail, chained_eq_chain_over_bytes (DecodeChained = decoding file after file over the byte list), chained_concat (the chain over a concatenation of valid files is the files decoded one by one), chained_clean_end, header_fileid_agree (on a well-formed frame DecodeHeader reports the frame's header, DecodeHeaderAndFileID that header and the message of the first data record, and the File Decode returns carries the same header; a later file_id record replaces the file_id Decode reports, so the run compares the two on streams with one file_id record)." + CORR,
               "Lean 4 refinement proof (induction over programs and read schedules) + accounting lemmas + differential correspondence over chunk schedules behind a counting reader", "6/C10"),
    "C11": chk("Proof. short_input_never_succeeds / cut_is_error (any stream cut before the end of the frame it declares makes Decode and CheckIntegrity fail, for both ways of ending and any read schedule), header_cut_is_error (every entry point), chained_cut_is_error (DecodeChained never returns silently unless the input ends exactly on a file boundary; a reader error is never swallowed), failed reads map to unexpected-EOF / reader error / format error, early exits are never successes; partial_file_on_cut (a frame cut inside a record, ended by EOF or a reader error under any read schedule: Decode returns an error, never panics, and the File it returns has exactly the file_id, file_creator, timestamp_correlation, container and slots the record machine holds after the complete records — nothing of the cut record; proved through DProg.bind / loop_step: the loop is one record then the loop, ExitsKeep: every early exit of one record carries the File as it was, and cut_record: a strict prefix of a record's bytes cannot complete it; all three header layouts); chained_partial_on_cut (DecodeChained reaching such a frame returns the files decoded so far followed by exactly that partial File). Partial files are also compared with the model's on every cut and fault offset by the harness, and an oracle checks that the File does not depend on whether the reader delivers its error with the last bytes or in a call of its own." + CORR,
               "Lean 4 proof (exact-consumption and conservation lemmas over the specification interpreter, refinement for the buffered run) + exhaustive cut/fault enumeration per stream", "6/C11"),
    "C12": chk("Proof: compressed_rule (5-bit offset with 32 s rollover = tsSpec), compressed_keeps_inv, run_accumulates (any run of compressed records = scan of tsSpec), datetime_decode, explicit_rebases, reference_only_from_timestamp_field, local_wallclock, no_reference_skips — about the functions the decoder model and the record machine call for every time field and compressed header." + CORR,
               "Lean 4 proof (omega on modular arithmetic, induction over offset lists) + differential correspondence of timestamp sequences", "6/C12"),
    "C13": chk("Proof over the record machine: definition_wins, redefinition_is_local, undefined_slot_is_error (both header forms), header_bits (all 256 header bytes), defs_length." + CORR,
               "Lean 4 proof (list update lemmas, decide over 256 header bytes) + differential correspondence of redefinition interleavings", "6/C13"),
    "C15": chk("Proof: gen_wf — kernel evaluation of the decidable well-formedness predicate over every entry of the regenerated tables (distinct struct index of the Go type the base type/array flag/kind call for, constructor value = that type's invalid value, sizes fit one byte, every struct field named by exactly one entry, known ⇒ type+constructor+row, container members known, field 253 is a date_time), with readable projections. SDK assignment: every (message, field number) shared with the newest bundled SDK workbook must designate the struct field of the workbook's name and type (harness, own xlsx reader); the 23 entries newer than that workbook are compared with a pinned snapshot. Two further oracles name the failing pair when the tables are wrong: every (message, field) entry's constructor value against the invalid value of its own type code, and every container field's message number against the known-message set." + CORR,
               "Lean 4 decide +kernel over tables regenerated by reflection on every run + workbook / snapshot comparison + differential correspondence of every profile entry", "6/C15"),
    "C16": chk("Proof: options_transparent (error, panic, bytes pulled, File apart from the two lists, accumulators are identical under every option set — the decoder program does not take the options), logger_irrelevant, lists_only_when_asked, bump_counts (reported count = number of occurrences counted), bump_keys_nodup, unknown_lists_sorted (insertion sort is sorted and a permutation), unknown_counts_exact (whole files, any of the three header layouts: after a successful Decode the unknown-message counter of n is the number of data records whose live definition names the unknown message n, and the unknown-field counter of (message, field) is the number of records of that known message that carried that unlisted field number — stepItem_unk / stepItems_unk / runItems_unk over the record machine, decode_frame_ok for the bytes)." + CORR,
               "Lean 4 proof (structure of finalize, counting and sorting lemmas) + differential correspondence under all 8 option sets", "6/C16"),
    "C18": chk("Proof with recorded findings. expand_eq_spec: for every message of any type whose component sources hold the kinds of value the decoder stores (typedB, decidable), the statement-by-statement model of the generated expandComponents equals the generic, rule-driven interpretation of the profile's component rules with exactly the deviations D10 (distance half of compressed_speed_distance loses its top nibble) and D11 (total_cycles / accumulated_power accumulators with mask 0) switched on — message and accumulators alike, for record (record_eq), event (event_eq), lap, session and segment_lap; nothing else separates the code from the rules. Also invalid_source_untouched, valid_source_copied, csd_speed_slice, csd_distance_partial, accumulate_spec, gear_bytes, score_halves, containers_expand, and counterexample theorems for the known findings D10, D11, D12 (accumulator lifetime). The specification is also replayed per decoded message on every run and every deviation must be one of the recorded ones." + CORR,
               "Lean 4 proof + counterexample theorems + rule-driven specification replay + differential correspondence incl. source-value sweeps", "6/C18"),
})

CHECKS.update({
    "C04": chk("Proof. burst_detected_bits/bytes (two streams agreeing outside a window of at most 16 bits and differing inside it have different CRC registers from any state), accepted_residue_zero (the decoder's running checksum equals the checksum of exactly the bytes consumed on every path of the record phase, so whatever Decode or CheckIntegrity accepts has frame residue 0), accepted_passes_integrity (Decode accepts ⇒ CheckIntegrity accepts), burst_rejected (any accepted stream, corrupted within 16 bits outside the size and data-size fields, is rejected by both), header_crc_agreement (Header.CheckIntegrity and decodeHeader agree on every header value)." + CORR,
               "Lean 4 proof (GF(2)-linearity of the shift register over BitVec 16; counter-tracking invariant through the decoder programs) + header and burst sweeps against the real entry points", "6/C04"),
    "C17": chk("Proof (integer part kernel-only; float step under an explicit rounding hypothesis): lat_invalid_iff_partial with lat_pole_counterexample (known finding D14: +90° flagged invalid), lng_invalid_iff, semicircles_id, degrees_exact (|s·180| < 2^53 so the float64 product is exact), time_bijection, time_roundtrip, base_time_iff, from_degrees_within_one (two roundings of relative error ≤ 2^-53 followed by truncation stay within one semicircle; the IEEE-754 standard model is a hypothesis of the theorem). The printed-form clause is checked by enumeration only: every 32-bit value in the thorough tier (printed form for every 61st value and for every value within 4096 of zero, the poles, the ends of the range and the system-time marker), a strided sample plus those windows in the quick tier." + CORR,
               "Lean 4 proof (omega; Mathlib linarith/floor lemmas for the rational bound) + Go-side oracle over all 2^32 values (thorough) with model cross-check", "6/C17"),
})

CHECKS.update({
    "C05": chk("Proof of the framing and self-description clauses, partial on values. encode_frame / encode_residue_zero / header_residue_zero / header_declares_data_size (shape of the output, sizes and CRCs written back into the File, output passes the whole-file CRC check); encode_one_self_describing and encode_group_self_describing (what Encode writes for one message, and for a slice of messages under the union definition, is a definition record followed by data records with exactly the declared number of bytes per field — writeField_length covers every field kind; the union definition is strictly ordered by struct index, so never longer than the struct); encode_wellformed (the whole output is a 12-byte header or 14-byte header with CRC, items that fit their definitions, file CRC); encoder_definitions_validate; decode_accepts_encode (Decode succeeds on what Encode wrote, followed by anything, through any reader) and encode_passes_integrity (so does CheckIntegrity). Values on the wire: proved for the fields of C06's domain (decode_encode_content), and decided on every run by an independent wire-value oracle in the harness (own record parser; every field on the wire against the File's value, array tails against the base type's invalid value, valid scalars present)." + CORR,
               "Lean 4 proof over the encoder model + framing theorem + byte-exact differential correspondence + independent grammar recogniser and wire-value oracle", "6/C05"),
    "C06": chk("Proof on a decidable domain, correspondence outside it. Value and field level: unsigned/signed/string/time/coordinate round trips through the real writeField and applyField with the definition Encode writes; message level: message_roundtrip; File level: decode_encode_content — for every File with fileRTB (12- or 14-byte header, every written field an unsigned or signed scalar, string, date_time, coordinate, or array of unsigned, signed or byte elements in range no longer than the profile length; fields a slice's union definition carries for a message that leaves them unset may be scalars, the empty string, date_times, coordinates or nil arrays) and of the typed API's shape (fileShapeB) that Encode accepts, in either byte order, Decode of the bytes (followed by anything, any reader, options and package state) succeeds and returns the same file_id, file_creator, timestamp_correlation and container and, slot by slot, the File's own messages in order, each with the array fields its record carries padded with the base type's invalid value to the profile length (wireFile / padVal_spec: the normal form of 'compared up to trailing invalid padding') and passed through expandComponents where its type has component fields, accumulators threaded in file order; decode_encode_identity — without component-bearing types exactly the padded slots. A kernel-evaluated six-message example (12- and 14-byte headers, both byte orders, union definitions with invalid fillers, a short array, nil arrays as fillers) shows the premises are satisfiable and what comes back. Outside the domain (string arrays, which Encode refuses; local times; times in a zone other than UTC) the property is decided by the correspondence run (real Encode then real Decode under the property's equivalence)." + CORR,
               "Lean 4 proof of codec inverses lifted to fields, messages and whole Files (replay of File.add) + differential round-trip correspondence with equivalence oracle", "6/C06"),
    "C07": chk("Proof of the no-panic clause, recorded finding for the no-failure clause, run for the rest. reencode_never_panics: for every input, read schedule, option set, package state and byte order, Encode of the File a successful Decode returned does not panic — decoded_file_typed (every message of a decoded File is of a known type, every struct field holds a value of its Go type, every container field holds messages of its element type, and the attached container is the one the file type selects; an invariant of the decoder proved through every parser of the record phase, FitProofs/Typed*.lean) and encode_no_panic (Encode cannot panic on a well-typed File). reencode_counterexample_utf8 (known finding D13: a stream Decode accepts and Encode rejects). second_trip_fixpoint: for a File in C06's decidable domain without component-bearing messages, the File F1 that Decode(Encode f) returns is a fixed point of the trip — re-encoded in either byte order, if Encode accepts it, Decode succeeds and returns the same file_id, file_creator, timestamp_correlation, container and slots (the domain is closed under the trip, padding to the profile length is idempotent under the slice's own definition). second_trip_total: and Encode does accept F1 in every byte order — no panic because decoded Files are well typed, no error because writeField refuses no value of the domain (encode_no_error); a kernel-evaluated example runs both trips. That the re-encoded bytes pass CheckIntegrity and decode to the same content is proved for Files in C06's decidable domain (C05/C06); all of it is otherwise checked on every run over every accepted input with a generation-1/2/3 oracle." + CORR,
               "Lean 4 proof (typing invariant of the decoder + no-panic of the encoder) + counterexample theorem + three-generation re-encode correspondence", "6/C07"),
})

CHECKS.update({
    "C08": chk("Partial proof with a recorded finding (D12). Proved: gen_written_globals (the regenerated static fact: exactly the three component accumulators are written on paths reachable from the decode/encode entry points), expand_other_pure, csd/cycles/power_invalid_pure, containerAdd_other_pure (only a record message with a valid accumulated source reads or writes them), decode_history_counterexample (D12). Encode's model has no access to package state. Process freshness and map-iteration randomness are runtime behaviour: exercised by random call histories compared with the model threading the accumulators, with the same call alone and in fresh processes, and by repeated Encode of equal Files." + CORR,
               "Lean 4 proof over the model with explicit Globals + static write-set fact regenerated from source + call-history / fresh-process / repeat correspondence", "6/C08"),
    "C09": chk("Partial: proof over a shared-state model, not of the binary. Proved: interleaving_keeps_memory / local_step_pure / runAlone_local (calls that do not touch the accumulators cannot influence each other under any schedule), race_counterexample (lost update on a package-level accumulator, D12), gen_written_globals (static write-set fact). The Go memory model, scheduler and the race detector's coverage are outside Lean: the real entry points are run concurrently under the race detector (2-32 goroutines, shared inputs) and compared with the sequential baseline on every run.",
               "Lean 4 proof over a small-step interleaving model + static write-set fact + race-detector runs of the real entry points", "6/C09",
               note="Trusted: the Go race detector and the scheduler's coverage of interleavings; the shared-state model abstracts accumulate as a non-atomic read followed by a write. " + NOTE_COMMON),
})

CHECKS.update({
    "C20": chk("Proof: gen_strings_wf (kernel evaluation, for every one of the 177 generated types, that the String method's extracted shape — case bounds, offsets, name constants, index arrays, map entries as written — yields for every covered value the trimmed name of a constant with that value, covers every constant and nothing else), uncovered_default (every other value of the type's range takes the default branch, including the unsigned wrap-around of the offset form), string_correct / gen_string_correct (for every value of the range String follows the specification). The tables are re-extracted from types.go / types_string.go / types_man.go on every run (the one syntactic extractor of this work; an unrecognised shape is a broken tie). Correspondence: every value of every 8- and 16-bit type and constants/neighbours/samples of wider types through the real String methods; the repository's stringer is re-run (hook) and compared byte for byte with types_string.go." + CORR,
               "Lean 4 proof (decide +kernel per table + generic lifting theorem) over syntactically regenerated tables + exhaustive String() correspondence + stringer re-run", "6/C20"),
})

CHECKS.update({
    "C19": chk("Partial: only the table-content clause is a theorem. Proved over GenCore (model of the row filter → struct index → lookup entry pipeline): gen_entries_exact (every enabled row has its entry with the row's field number and type code and struct index = number of enabled rows of the message before it), gen_one_per_enabled_row, gen_disabled_absent, gen_sindex_dense. Observed on the real command on every run (cannot be theorems: exit status, Go type checking, run-to-run determinism): the 5 bundled workbooks (xlsx and SDK-zip input) and dependency-closed product-profile variants built by editing the workbook XML, each generated twice — the second time into the directory that still holds the sources of the previous, larger selection — with byte-identical outputs; declared SDK version; tables extracted from the generated sources (go/ast) equal the tables computed from the independently read workbook rows (own zip/XML reader) and by the Lean model; compilation with the minimal support set. Compilation with the whole hand-written library fails for all bundled workbooks: known finding D16.",
               "Lean 4 proof over the generator-core model + real fitgen runs on workbook variants with an independent workbook reader", "6/C19",
               note="Trusted: the independent xlsx reader and the go/ast extractor of generated tables; the Go compiler for the compilation clause. " + NOTE_COMMON),
})

NOT_YET = {}

def main():
    props = [json.loads(l) for l in open("/verif/properties.jsonl") if l.strip()]
    checks, na = [], []
    for p in props:
        pid = p["id"]
        if pid in CHECKS:
            c = CHECKS[pid]
            checks.append({
                "property_id": pid,
                "quick_cmd": f"bin/check {pid} --tier quick",
                "thorough_cmd": f"bin/check {pid} --tier thorough",
                "evidence_file": f"evidence/{pid}.json",
                "replay_cmd_template": "bin/check replay {path}",
                "engine": "lean+harness",
                "level_claimed": {"category": "proof", "text": c["text"], "design_ref": "DESIGN.md section " + c["design"]},
                "level_note": c.get("note", NOTE_COMMON),
                "technique": c["technique"],
            })
        else:
            na.append({"property_id": pid, "reason": NOT_YET.get(pid, "check under construction in this session: model/theorems/correspondence not yet registered; the technique applies (see DESIGN.md section 6)")})
    m = {
        "version": 1,
        "setup_cmd": "bin/check --setup",
        "hooks": {
            "guard": "verif",
            "enable": "go build -tags verif (the harness module replaces github.com/tormoder/fit with /repo)",
            "baseline_off_cmd": "cd /repo && GOFLAGS=-mod=mod GOPROXY=off GOSUMDB=off GOTOOLCHAIN=local go test -vet=off -count=1 ./...",
            "source_commits": HOOK_COMMITS,
            "add_only": True,
        },
        "engines": [
            {"name": "lean", "path": "lean/", "serves_properties": [c["property_id"] for c in checks],
             "kind_free_text": "Lean 4 model (FitModel), helper lemmas (FitProofs), property theorems (FitProps), driver executable fitmodel"},
            {"name": "harness", "path": "go/cmd/harness", "serves_properties": [c["property_id"] for c in checks],
             "kind_free_text": "Go: fact extraction from /repo, generators, real-code drivers, differential comparison with the Lean driver"},
            {"name": "orchestrator", "path": "bin/check", "serves_properties": [c["property_id"] for c in checks],
             "kind_free_text": "builds, regenerates facts, audits axioms, runs the correspondence, writes evidence, reports violations"},
        ],
        "checks": checks,
        "not_applicable": na,
        "notes": "Every check rebuilds the harness from /repo's working tree with -tags verif, regenerates lean/FitModel/Gen from it and re-checks the theorems.",
    }
    json.dump(m, open("/verif/MANIFEST.json", "w"), indent=1)

main()
