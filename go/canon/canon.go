// Package canon renders fit values in the canonical text form shared with the Lean model.
package canon

import (
	"encoding/hex"
	"fmt"
	"math"
	"reflect"
	"strconv"
	"strings"
	"time"

	"github.com/tormoder/fit"
)

var (
	timeType = reflect.TypeOf(time.Time{})
	latType  = reflect.TypeOf(fit.Latitude{})
	lngType  = reflect.TypeOf(fit.Longitude{})
	// FIT epoch
	BaseUnix = time.Date(1989, time.December, 31, 0, 0, 0, 0, time.UTC).Unix()
)

// RenderTime renders a time as t<secs since FIT epoch>/<zone offset>/<0 UTC|1 FITLOCAL|2 other>.
func RenderTime(t time.Time) string {
	name, off := t.Zone()
	loc := 2
	switch name {
	case "UTC":
		loc = 0
	case "FITLOCAL":
		loc = 1
	}
	return "t" + strconv.FormatInt(t.Unix()-BaseUnix, 10) + "/" + strconv.Itoa(off) + "/" + strconv.Itoa(loc)
}

func scalar(v reflect.Value, pfx bool) string {
	switch v.Kind() {
	case reflect.Uint8, reflect.Uint16, reflect.Uint32, reflect.Uint64, reflect.Uint:
		s := strconv.FormatUint(v.Uint(), 10)
		if pfx {
			return "u" + s
		}
		return s
	case reflect.Int8, reflect.Int16, reflect.Int32, reflect.Int64, reflect.Int:
		s := strconv.FormatInt(v.Int(), 10)
		if pfx {
			return "i" + s
		}
		return s
	case reflect.Float32:
		s := strconv.FormatUint(uint64(math.Float32bits(float32(v.Float()))), 10)
		if pfx {
			return "f" + s
		}
		return s
	case reflect.Float64:
		s := strconv.FormatUint(math.Float64bits(v.Float()), 10)
		if pfx {
			return "f" + s
		}
		return s
	case reflect.String:
		s := hex.EncodeToString([]byte(v.String()))
		if pfx {
			return "s" + s
		}
		return s
	case reflect.Bool:
		if v.Bool() {
			return "u1"
		}
		return "u0"
	}
	return "?" + v.Kind().String()
}

// RenderVal renders one struct field value.
func RenderVal(v reflect.Value) string {
	switch v.Type() {
	case timeType:
		return RenderTime(v.Interface().(time.Time))
	case latType:
		return "a" + strconv.FormatInt(int64(v.Interface().(fit.Latitude).Semicircles()), 10)
	case lngType:
		return "o" + strconv.FormatInt(int64(v.Interface().(fit.Longitude).Semicircles()), 10)
	}
	if v.Kind() == reflect.Slice {
		if v.IsNil() {
			return "n"
		}
		var tag string
		switch v.Type().Elem().Kind() {
		case reflect.Uint8, reflect.Uint16, reflect.Uint32, reflect.Uint64, reflect.Uint:
			tag = "U"
		case reflect.Int8, reflect.Int16, reflect.Int32, reflect.Int64, reflect.Int:
			tag = "I"
		case reflect.Float32, reflect.Float64:
			tag = "F"
		case reflect.String:
			tag = "S"
		default:
			tag = "?"
		}
		parts := make([]string, v.Len())
		for i := 0; i < v.Len(); i++ {
			parts[i] = scalar(v.Index(i), false)
		}
		return tag + "[" + strings.Join(parts, ".") + "]"
	}
	return scalar(v, true)
}

// RenderMsg renders a message struct value as num:val,val,...
func RenderMsg(num int, v reflect.Value) string {
	v = reflect.Indirect(v)
	parts := make([]string, v.NumField())
	for i := 0; i < v.NumField(); i++ {
		parts[i] = RenderVal(v.Field(i))
	}
	return strconv.Itoa(num) + ":" + strings.Join(parts, ",")
}

func scKind(k reflect.Kind) string {
	switch k {
	case reflect.Uint8:
		return ".u 8"
	case reflect.Uint16:
		return ".u 16"
	case reflect.Uint32:
		return ".u 32"
	case reflect.Uint64:
		return ".u 64"
	case reflect.Int8:
		return ".i 8"
	case reflect.Int16:
		return ".i 16"
	case reflect.Int32:
		return ".i 32"
	case reflect.Int64:
		return ".i 64"
	case reflect.Float32:
		return ".f 32"
	case reflect.Float64:
		return ".f 64"
	case reflect.String:
		return ".s"
	}
	return ""
}

// SlotKindLean renders the Go type of a struct field as a Lean `SlotKind` term.
func SlotKindLean(t reflect.Type) string {
	switch t {
	case timeType:
		return ".time"
	case latType:
		return ".lat"
	case lngType:
		return ".lng"
	}
	if t.Kind() == reflect.Slice {
		if s := scKind(t.Elem().Kind()); s != "" {
			return ".sl (" + s + ")"
		}
		return ".other"
	}
	if s := scKind(t.Kind()); s != "" {
		return ".sc (" + s + ")"
	}
	return ".other"
}

// ValLean renders a struct field value as a Lean `Val` term.
func ValLean(v reflect.Value) string {
	switch v.Type() {
	case timeType:
		t := v.Interface().(time.Time)
		name, off := t.Zone()
		loc := 2
		switch name {
		case "UTC":
			loc = 0
		case "FITLOCAL":
			loc = 1
		}
		return fmt.Sprintf(".t (%d) (%d) %d", t.Unix()-BaseUnix, off, loc)
	case latType:
		return fmt.Sprintf(".lat (%d)", v.Interface().(fit.Latitude).Semicircles())
	case lngType:
		return fmt.Sprintf(".lng (%d)", v.Interface().(fit.Longitude).Semicircles())
	}
	switch v.Kind() {
	case reflect.Slice:
		if !v.IsNil() {
			return ".s [0x21]" // never expected from a constructor; makes the WF check fail
		}
		switch v.Type().Elem().Kind() {
		case reflect.Uint8, reflect.Uint16, reflect.Uint32, reflect.Uint64:
			return ".us none"
		case reflect.Int8, reflect.Int16, reflect.Int32, reflect.Int64:
			return ".is none"
		case reflect.Float32, reflect.Float64:
			return ".fs none"
		case reflect.String:
			return ".ss none"
		}
		return ".s [0x3f]"
	case reflect.Uint8, reflect.Uint16, reflect.Uint32, reflect.Uint64:
		return fmt.Sprintf(".u %d", v.Uint())
	case reflect.Int8, reflect.Int16, reflect.Int32, reflect.Int64:
		return fmt.Sprintf(".i (%d)", v.Int())
	case reflect.Float32:
		return fmt.Sprintf(".f %d", math.Float32bits(float32(v.Float())))
	case reflect.Float64:
		return fmt.Sprintf(".f %d", math.Float64bits(v.Float()))
	case reflect.String:
		b := []byte(v.String())
		parts := make([]string, len(b))
		for i, c := range b {
			parts[i] = strconv.Itoa(int(c))
		}
		return ".s [" + strings.Join(parts, ", ") + "]"
	}
	return ".s [0x3f]"
}
