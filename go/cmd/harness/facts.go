package main

import (
	"bytes"
	"encoding/json"
	"fmt"
	"os"
	"path/filepath"
	"reflect"
	"sort"
	"strings"

	"github.com/tormoder/fit"
	"verifharness/canon"
	"verifharness/strfacts"
)

// Facts extracted from the current tree (by reflection / behaviour, never by source text).
type factsMsg struct {
	Num      int      `json:"num"`
	Known    bool     `json:"known"`
	InFields bool     `json:"in_fields"`
	HasType  bool     `json:"has_type"`
	HasCtor  bool     `json:"has_ctor"`
	CtorOK   bool     `json:"ctor_ok"`
	Name     string   `json:"name"`
	Fields   [][4]int `json:"fields"` // sindex, num, tcode, length
	Layout   []string `json:"layout"`
	FNames   []string `json:"fnames"`
	Invalid  []string `json:"invalid"`
}

type factsSlot struct {
	Name string `json:"name"`
	Msg  int    `json:"msg"`
	Many bool   `json:"many"`
	OK   bool   `json:"ok"`
}

type factsContainer struct {
	Name  string      `json:"name"`
	Slots []factsSlot `json:"slots"`
}

type facts struct {
	Msgs           []factsMsg       `json:"msgs"`
	Containers     []factsContainer `json:"containers"`
	FileTypes      []string         `json:"file_types"` // 256 entries: "c<idx>" | format | notsupported | other
	ProfileVersion int              `json:"profile_version"`
	LenFields      int              `json:"len_fields"`
	LenTypes       int              `json:"len_types"`
	LenCtors       int              `json:"len_ctors"`
	KnownNums      []int            `json:"known_nums"`
	Consts         map[string]int   `json:"consts"`
	Accessors      []factsAccessor  `json:"accessors"`
	WrittenGlobals []string         `json:"written_globals"`
}

// factsAccessor: one accessor method of *File and the file-type values for which it answers
// without error on NewFile(t).
type factsAccessor struct {
	Name  string `json:"name"`
	Types []int  `json:"types"`
}

// fileAccessors lists the methods of *File of the form func() (*XxxFile, error), by name.
func fileAccessors() []reflect.Method {
	var ms []reflect.Method
	t := reflect.TypeOf(&fit.File{})
	errT := reflect.TypeOf((*error)(nil)).Elem()
	for i := 0; i < t.NumMethod(); i++ {
		m := t.Method(i)
		ft := m.Type
		if ft.NumIn() == 1 && ft.NumOut() == 2 && ft.Out(1) == errT && ft.Out(0).Kind() == reflect.Ptr &&
			strings.HasSuffix(ft.Out(0).Elem().Name(), "File") {
			ms = append(ms, m)
		}
	}
	return ms
}

// accessorAnswers: one character per accessor: c = container, n = nil without error, e = error.
func accessorAnswers(f *fit.File) string {
	var b strings.Builder
	for _, m := range fileAccessors() {
		out := m.Func.Call([]reflect.Value{reflect.ValueOf(f)})
		switch {
		case !out[1].IsNil():
			b.WriteByte('e')
		case out[0].IsNil():
			b.WriteByte('n')
		default:
			b.WriteByte('c')
		}
	}
	return b.String()
}

// newFileGuarded: NewFile under recover.
func newFileGuarded(t int) (file *fit.File, err error, panicked bool) {
	defer func() {
		if r := recover(); r != nil {
			panicked = true
		}
	}()
	file, err = fit.NewFile(fit.FileType(t), fit.NewHeader(fit.V20, true))
	return
}

func collectFacts() (*facts, error) {
	f := &facts{ProfileVersion: int(fit.ProfileVersion), Consts: map[string]int{}}
	f.LenFields, f.LenTypes, f.LenCtors = fit.VerifTableLens()
	f.KnownNums = fit.VerifKnownMsgNums()
	sort.Ints(f.KnownNums)
	seen := map[int]bool{}
	for _, m := range fit.VerifProfile() {
		seen[m.Num] = true
		fm := factsMsg{Num: m.Num, Known: m.Known, InFields: m.InFields, HasType: m.HasType, HasCtor: m.HasCtor}
		for _, pf := range m.Fields {
			fm.Fields = append(fm.Fields, [4]int{pf.Sindex, int(pf.Num), int(pf.Type), int(pf.Length)})
		}
		sort.Slice(fm.Fields, func(i, j int) bool { return fm.Fields[i][1] < fm.Fields[j][1] })
		if m.HasType {
			t := m.StructType
			fm.Name = t.Name()
			if t.Kind() == reflect.Struct {
				for i := 0; i < t.NumField(); i++ {
					fm.Layout = append(fm.Layout, canon.SlotKindLean(t.Field(i).Type))
					fm.FNames = append(fm.FNames, t.Field(i).Name)
				}
			}
		}
		if m.HasCtor {
			func() {
				defer func() {
					if r := recover(); r != nil {
						fm.CtorOK = false
					}
				}()
				v, ok := fit.VerifNewMesg(m.Num)
				if !ok || v.Kind() != reflect.Struct {
					return
				}
				for i := 0; i < v.NumField(); i++ {
					fm.Invalid = append(fm.Invalid, canon.ValLean(v.Field(i)))
				}
				fm.CtorOK = !m.HasType || v.Type() == m.StructType
			}()
		}
		f.Msgs = append(f.Msgs, fm)
	}
	// messages that are "known" beyond every table
	for _, k := range f.KnownNums {
		if !seen[k] {
			f.Msgs = append(f.Msgs, factsMsg{Num: k, Known: true})
		}
	}
	sort.Slice(f.Msgs, func(i, j int) bool { return f.Msgs[i].Num < f.Msgs[j].Num })

	// containers and NewFile answers for all 256 file-type values
	cidx := map[reflect.Type]int{}
	for t := 0; t < 256; t++ {
		file, err, panicked := newFileGuarded(t)
		if panicked {
			// NewFile itself panics for this type: recorded as its own answer (no model answer equals it,
			// so the profile check and the correspondence both see it)
			f.FileTypes = append(f.FileTypes, "other")
			continue
		}
		if err != nil {
			f.FileTypes = append(f.FileTypes, fit.VerifErrClass(err, nil))
			continue
		}
		c := fit.VerifContainer(file)
		if c == nil {
			f.FileTypes = append(f.FileTypes, "other")
			continue
		}
		ct := reflect.TypeOf(c).Elem()
		idx, ok := cidx[ct]
		if !ok {
			idx = len(f.Containers)
			cidx[ct] = idx
			fc := factsContainer{Name: ct.Name()}
			for i := 0; i < ct.NumField(); i++ {
				sf := ct.Field(i)
				sl := factsSlot{Name: sf.Name}
				et := sf.Type
				if et.Kind() == reflect.Slice {
					sl.Many = true
					et = et.Elem()
				}
				if et.Kind() == reflect.Ptr {
					et = et.Elem()
					if n, ok := fit.VerifMesgNumOf(et); ok {
						sl.Msg, sl.OK = n, true
					}
				}
				fc.Slots = append(fc.Slots, sl)
			}
			f.Containers = append(f.Containers, fc)
		}
		f.FileTypes = append(f.FileTypes, fmt.Sprintf("c%d", idx))
	}

	for _, m := range fileAccessors() {
		fa := factsAccessor{Name: m.Name}
		for t := 0; t < 256; t++ {
			file, err, panicked := newFileGuarded(t)
			if err != nil || panicked {
				// accessors only look at FileId.Type: probe with a bare File too
				file = &fit.File{}
				file.FileId.Type = fit.FileType(t)
			}
			answers := func() (ok bool) {
				defer func() {
					if r := recover(); r != nil {
						ok = false
					}
				}()
				out := m.Func.Call([]reflect.Value{reflect.ValueOf(file)})
				return out[1].IsNil()
			}()
			if answers {
				fa.Types = append(fa.Types, t)
			}
		}
		f.Accessors = append(f.Accessors, fa)
	}

	f.WrittenGlobals = repoWrittenGlobals()

	c := f.Consts
	c["mnFileId"] = int(fit.MesgNumFileId)
	c["mnFileCreator"] = int(fit.MesgNumFileCreator)
	c["mnTimestampCorrelation"] = int(fit.MesgNumTimestampCorrelation)
	c["mnFieldDescription"] = int(fit.MesgNumFieldDescription)
	c["mnDeveloperDataId"] = int(fit.MesgNumDeveloperDataId)
	c["mnSession"] = int(fit.MesgNumSession)
	c["mnLap"] = int(fit.MesgNumLap)
	c["mnRecord"] = int(fit.MesgNumRecord)
	c["mnEvent"] = int(fit.MesgNumEvent)
	c["mnSegmentLap"] = int(fit.MesgNumSegmentLap)
	c["mnInvalid"] = int(fit.MesgNumInvalid)
	c["protoMajor"] = int(fit.CurrentProtocolVersion().Major())
	c["evSportPoint"] = int(fit.EventSportPoint)
	c["evFrontGearChange"] = int(fit.EventFrontGearChange)
	c["evRearGearChange"] = int(fit.EventRearGearChange)
	return f, nil
}

func leanBool(b bool) string {
	if b {
		return "true"
	}
	return "false"
}

func renderProfileLean(f *facts) string {
	var b bytes.Buffer
	b.WriteString("-- GENERATED by `harness facts` from /repo on every run. DO NOT EDIT.\n")
	b.WriteString("import FitModel.Profile\nnamespace Fit.Gen\nopen Fit\n\n")
	var names []string
	for _, m := range f.Msgs {
		name := fmt.Sprintf("m%d", m.Num)
		names = append(names, name)
		fmt.Fprintf(&b, "def %s : PMsg := {\n  num := %d, known := %s, inFields := %s, hasType := %s, hasCtor := %s,\n",
			name, m.Num, leanBool(m.Known), leanBool(m.InFields), leanBool(m.HasType), leanBool(m.HasCtor && m.CtorOK))
		var fs []string
		for _, pf := range m.Fields {
			fs = append(fs, fmt.Sprintf("⟨%d, %d, %d, %d⟩", pf[0], pf[1], pf[2], pf[3]))
		}
		fmt.Fprintf(&b, "  fields := [%s],\n", strings.Join(fs, ", "))
		fmt.Fprintf(&b, "  layout := [%s],\n", strings.Join(m.Layout, ", "))
		var qn []string
		for _, n := range m.FNames {
			qn = append(qn, fmt.Sprintf("%q", n))
		}
		fmt.Fprintf(&b, "  fnames := [%s],\n", strings.Join(qn, ", "))
		fmt.Fprintf(&b, "  invalid := [%s] }\n\n", strings.Join(m.Invalid, ", "))
	}
	b.WriteString("def containers : List Container := [\n")
	for i, c := range f.Containers {
		var ss []string
		for _, s := range c.Slots {
			msg := s.Msg
			if !s.OK {
				msg = 65535
			}
			ss = append(ss, fmt.Sprintf("⟨%q, %d, %s⟩", s.Name, msg, leanBool(s.Many)))
		}
		sep := ","
		if i == len(f.Containers)-1 {
			sep = ""
		}
		fmt.Fprintf(&b, "  { name := %q, slots := [%s] }%s\n", c.Name, strings.Join(ss, ", "), sep)
	}
	b.WriteString("]\n\ndef fileTypes : List InitAns := [")
	for i, ft := range f.FileTypes {
		if i > 0 {
			b.WriteString(", ")
		}
		switch {
		case strings.HasPrefix(ft, "c"):
			fmt.Fprintf(&b, ".container %s", ft[1:])
		case ft == "notsupported":
			b.WriteString(".notsupported")
		default:
			b.WriteString(".format")
		}
	}
	b.WriteString("]\n\n")
	b.WriteString("/-- per accessor method of *File (by name): the file-type values it answers for -/\ndef accessors : List (String × List Nat) := [")
	for i, a := range f.Accessors {
		if i > 0 {
			b.WriteString(", ")
		}
		var ts []string
		for _, t := range a.Types {
			ts = append(ts, fmt.Sprint(t))
		}
		fmt.Fprintf(&b, "(%q, [%s])", a.Name, strings.Join(ts, ", "))
	}
	b.WriteString("]\n\n")
	fmt.Fprintf(&b, "def profile : Profile := {\n  msgs := [%s],\n  containers := containers, fileTypes := fileTypes, accessors := accessors, profileVersion := %d }\n\n",
		strings.Join(names, ", "), f.ProfileVersion)
	var wgs []string
	for _, g := range f.WrittenGlobals {
		wgs = append(wgs, fmt.Sprintf("%q", g))
	}
	fmt.Fprintf(&b, "/-- package-level variables assigned on paths reachable from the decode/encode entry points -/\ndef writtenGlobals : List String := [%s]\n\n", strings.Join(wgs, ", "))
	fmt.Fprintf(&b, "def lenFields : Nat := %d\ndef lenTypes : Nat := %d\ndef lenCtors : Nat := %d\n", f.LenFields, f.LenTypes, f.LenCtors)
	var kn []string
	for _, k := range f.KnownNums {
		kn = append(kn, fmt.Sprint(k))
	}
	fmt.Fprintf(&b, "def knownNums : List Nat := [%s]\n\n", strings.Join(kn, ", "))
	keys := make([]string, 0, len(f.Consts))
	for k := range f.Consts {
		keys = append(keys, k)
	}
	sort.Strings(keys)
	for _, k := range keys {
		fmt.Fprintf(&b, "def %s : Nat := %d\n", k, f.Consts[k])
	}
	b.WriteString("\nend Fit.Gen\n")
	return b.String()
}

// writeIfChanged writes content to path unless the file already has it.
func writeIfChanged(path, content string) (bool, error) {
	old, err := os.ReadFile(path)
	if err == nil && string(old) == content {
		return false, nil
	}
	if err := os.MkdirAll(filepath.Dir(path), 0o755); err != nil {
		return false, err
	}
	return true, os.WriteFile(path, []byte(content), 0o644)
}

// types whose String table was taken from String() outputs because the source shape was not recognised
var behaviouralShapes []string

// renderStringsLean: FitModel/Gen/Strings.lean from the extracted constants and String shapes.
func renderStringsLean() (map[string]string, error) {
	behaviouralShapes = nil
	types, err := strfacts.ParseTypes("/repo/types.go", "/repo/types_man.go")
	if err != nil {
		return nil, err
	}
	shapes, err := strfacts.ParseShapes("/repo/types_string.go", "/repo/types_man.go")
	if err != nil {
		return nil, err
	}
	const nChunks = 12
	weights := make([]int, nChunks)
	chunks := make([][]string, nChunks)
	var b bytes.Buffer
	b.WriteString("-- GENERATED by `harness facts` from /repo/types.go, types_man.go, types_string.go. DO NOT EDIT.\n")
	b.WriteString("import FitModel.Strings\nnamespace Fit.Gen.Str\nopen Fit.Str\n\n")
	var names []string
	for _, t := range types {
		sh, ok := shapes[t.Name]
		if !ok {
			// The String method exists but is not of a shape the extractor reads (the stringer's output
			// was restructured). Fall back to the table the code itself defines on the named values:
			// value -> what String() returns. The kernel still checks every entry against the constant
			// names of types.go; that values outside the table print Type(n) is then decided by the
			// exhaustive String() run alone (no structural reading of the default branch).
			fn, have := stringers[t.Name]
			if !have {
				return nil, fmt.Errorf("type %s has no generated String method", t.Name)
			}
			sh = strfacts.Shape{Type: t.Name, Kind: "map"}
			seen := map[int64]bool{}
			for _, c := range t.Consts {
				if !seen[c.Value] {
					seen[c.Value] = true
					sh.Map = append(sh.Map, strfacts.MapEntry{Key: c.Value, Str: guarded(func() string { return fn(c.Value) })})
				}
			}
			sort.Slice(sh.Map, func(a, b int) bool { return sh.Map[a].Key < sh.Map[b].Key })
			behaviouralShapes = append(behaviouralShapes, t.Name)
		}
		id := "t_" + t.Name
		names = append(names, id)
		// greedy balancing of the kernel-evaluation work over the chunk files
		w := 0
		for _, c := range t.Consts {
			w += len(c.Name)
		}
		w = w*len(t.Consts) + 50
		best := 0
		for k := range weights {
			if weights[k] < weights[best] {
				best = k
			}
		}
		weights[best] += w
		chunks[best] = append(chunks[best], id)
		// name constants can be long: hoist them into their own definitions
		var shape string
		hoist := func(tag string, s string) string {
			nm := id + "_" + tag
			fmt.Fprintf(&b, "def %s : Str := %s\n", nm, strfacts.LeanCodes(s))
			return nm
		}
		idxs := func(a []int) string {
			p := make([]string, len(a))
			for i, x := range a {
				p[i] = fmt.Sprint(x)
			}
			return "[" + strings.Join(p, ", ") + "]"
		}
		switch sh.Kind {
		case "runs":
			var rs []string
			for i, r := range sh.Runs {
				rs = append(rs, fmt.Sprintf("⟨%d, %d, %d, %s, %s⟩", r.Lo, r.Hi, r.Off, hoist(fmt.Sprintf("n%d", i), r.Name), idxs(r.Index)))
			}
			shape = ".runs [" + strings.Join(rs, ", ") + "]"
		case "single":
			shape = fmt.Sprintf(".single %d %s %s", sh.Single.Off, hoist("n", sh.Single.Name), idxs(sh.Single.Index))
		case "map":
			var es []string
			for _, e := range sh.Map {
				es = append(es, fmt.Sprintf("(%d, %s)", e.Key, strfacts.LeanCodes(e.Str)))
			}
			shape = ".map [" + strings.Join(es, ", ") + "]"
		}
		var cs []string
		for _, c := range t.Consts {
			cs = append(cs, fmt.Sprintf("(%s, %d)", strfacts.LeanCodes(c.Name), c.Value))
		}
		fmt.Fprintf(&b, "def %s : Table := {\n  tname := %s, bits := %d, signed := %s, keepPrefix := %s,\n  consts := [%s],\n  shape := %s }\n\n",
			id, strfacts.LeanCodes(t.Name), t.Bits, leanBool(t.Signed), leanBool(t.Manual), strings.Join(cs, ", "), shape)
	}
	files := map[string]string{}
	var chunkNames []string
	for k, c := range chunks {
		fmt.Fprintf(&b, "def chunk%d : List Table := [%s]\n", k, strings.Join(c, ", "))
		chunkNames = append(chunkNames, fmt.Sprintf("chunk%d", k))
		files[fmt.Sprintf("StrOK%d.lean", k)] = fmt.Sprintf("-- GENERATED. DO NOT EDIT.\nimport FitModel.Gen.Strings\nnamespace Fit.Gen.Str\nopen Fit.Str\n\n/-- kernel evaluation of the table check for this chunk of the generated string tables -/\ntheorem chunk%d_ok : chunk%d.all tableOK = true := by decide +kernel\n\nend Fit.Gen.Str\n", k, k)
	}
	fmt.Fprintf(&b, "\n/-- all generated types, grouped into chunks (the grouping only balances checking time) -/\ndef tables : List Table := %s\n\n", strings.Join(chunkNames, " ++ "))
	fmt.Fprintf(&b, "/-- the types in source order, for reference -/\ndef typeNames : List String := [%s]\n\nend Fit.Gen.Str\n", func() string {
		q := make([]string, len(types))
		for i, t := range types {
			q[i] = fmt.Sprintf("%q", t.Name)
		}
		return strings.Join(q, ", ")
	}())
	files["Strings.lean"] = b.String()
	// the combination
	var c bytes.Buffer
	c.WriteString("-- GENERATED. DO NOT EDIT.\nimport FitModel.Gen.Strings\n")
	for k := range chunks {
		fmt.Fprintf(&c, "import FitModel.Gen.StrOK%d\n", k)
	}
	c.WriteString("namespace Fit.Gen.Str\nopen Fit.Str\n\ntheorem tables_ok : tables.all tableOK = true := by\n  simp only [tables, List.all_append, Bool.and_eq_true]\n  exact ⟨")
	for k := range chunks {
		c.WriteString(strings.Repeat("⟨", 0))
		_ = k
	}
	// left-nested conjunction ((((c0 ∧ c1) ∧ c2) ...) ∧ cN)
	expr := "chunk0_ok"
	for k := 1; k < len(chunks); k++ {
		expr = fmt.Sprintf("⟨%s, chunk%d_ok⟩", expr, k)
	}
	c.Reset()
	c.WriteString("-- GENERATED. DO NOT EDIT.\nimport FitModel.Gen.Strings\n")
	for k := range chunks {
		fmt.Fprintf(&c, "import FitModel.Gen.StrOK%d\n", k)
	}
	fmt.Fprintf(&c, "namespace Fit.Gen.Str\nopen Fit.Str\n\ntheorem tables_ok : tables.all tableOK = true := by\n  simp only [tables, List.all_append, Bool.and_eq_true]\n  exact %s\n\nend Fit.Gen.Str\n", expr)
	files["StrOK.lean"] = c.String()
	return files, nil
}

func cmdFacts(args []string) int {
	leanDir := "/verif/lean/FitModel/Gen"
	out := "/verif/build/facts.json"
	if len(args) > 0 {
		leanDir = args[0]
	}
	if len(args) > 1 {
		out = args[1]
	}
	f, err := collectFacts()
	if err != nil {
		fmt.Fprintln(realStderr, "facts:", err)
		return 2
	}
	js, _ := json.MarshalIndent(f, "", " ")
	if _, err := writeIfChanged(out, string(js)); err != nil {
		fmt.Fprintln(realStderr, "facts:", err)
		return 2
	}
	ch, err := writeIfChanged(filepath.Join(leanDir, "Profile.lean"), renderProfileLean(f))
	if err != nil {
		fmt.Fprintln(realStderr, "facts:", err)
		return 2
	}
	fmt.Printf("facts: %d messages, %d containers, profile.lean changed=%v\n", len(f.Msgs), len(f.Containers), ch)
	sl, err := renderStringsLean()
	if err != nil {
		fmt.Fprintln(realStderr, "facts (string tables):", err)
		return 2
	}
	for name, content := range sl {
		if _, err := writeIfChanged(filepath.Join(leanDir, name), content); err != nil {
			fmt.Fprintln(realStderr, "facts:", err)
			return 2
		}
	}
	if len(behaviouralShapes) > 0 {
		fmt.Printf("facts: String tables of %d types taken from String() outputs (source shape not recognised): %s\n",
			len(behaviouralShapes), strings.Join(behaviouralShapes, ","))
	}
	return 0
}
