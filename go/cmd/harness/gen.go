package main

import (
	"encoding/hex"
	"fmt"
	"os"
	"path/filepath"
	"sort"
	"strings"
)

// ---- deterministic PRNG (splitmix64); every random choice derives from VERIF_SEED ----

type rng struct{ s uint64 }

func newRng(seed uint64) *rng { return &rng{seed*0x9E3779B97F4A7C15 + 0x1234567} }

func (r *rng) next() uint64 {
	r.s += 0x9E3779B97F4A7C15
	z := r.s
	z = (z ^ (z >> 30)) * 0xBF58476D1CE4E5B9
	z = (z ^ (z >> 27)) * 0x94D049BB133111EB
	return z ^ (z >> 31)
}
func (r *rng) intn(n int) int {
	if n <= 0 {
		return 0
	}
	return int(r.next() % uint64(n))
}
func (r *rng) bool() bool        { return r.next()&1 == 1 }
func (r *rng) chance(p int) bool { return r.intn(100) < p }
func (r *rng) bytes(n int) []byte {
	b := make([]byte, n)
	for i := range b {
		b[i] = byte(r.next())
	}
	return b
}
func (r *rng) fork() *rng { return &rng{r.next()} }

// ---- corpus ----

type corpusFile struct {
	Name string
	Data []byte
}

var corpusCache []corpusFile

func corpus() []corpusFile {
	if corpusCache != nil {
		return corpusCache
	}
	var files []string
	filepath.Walk("/repo/testdata", func(p string, info os.FileInfo, err error) error {
		if err == nil && !info.IsDir() && strings.HasSuffix(p, ".fit") {
			files = append(files, p)
		}
		return nil
	})
	extra, _ := filepath.Glob("/verif/corpus/*.fit")
	files = append(files, extra...)
	sort.Strings(files)
	for _, p := range files {
		b, err := os.ReadFile(p)
		if err == nil {
			corpusCache = append(corpusCache, corpusFile{strings.TrimPrefix(p, "/repo/testdata/"), b})
		}
	}
	return corpusCache
}

func smallCorpus(max int) []corpusFile {
	var res []corpusFile
	for _, c := range corpus() {
		if len(c.Data) <= max {
			res = append(res, c)
		}
	}
	return res
}

var entries = []string{"decode", "chained", "integ", "integhdr", "header", "headerfid"}

func decCase(entry, opts, rspec, accu string, data []byte) string {
	return fmt.Sprintf("dec %s %s %s %s %s", entry, opts, rspec, accu, hex.EncodeToString(data))
}

// every corpus file through every entry point, whole reader
func genCorpusAllEntries(maxSize int) CaseSet {
	cs := CaseSet{Name: "corpus-all-entries"}
	for _, c := range smallCorpus(maxSize) {
		for _, e := range entries {
			cs.Cases = append(cs.Cases, decCase(e, "000", "-", "-", c.Data))
		}
	}
	return cs
}
