package main

import (
	"encoding/binary"
	"encoding/hex"
	"fmt"
	"reflect"
	"strconv"
	"strings"
	"time"

	"github.com/tormoder/fit"
	"verifharness/canon"
)

// ---- random Files, written directly in the canonical dump format ----

type fileKnobs struct {
	inDomain   bool // strings valid UTF-8 that fit, arrays within the profile length, times/coords in range
	maxGroup   int
	fieldPct   int // chance that a field is set
	boundaries bool
}

func msgLayout(num int) (factsMsg, reflect.Type, bool) {
	for _, m := range fit.VerifProfile() {
		if m.Num == num && m.HasType {
			fm, _ := findMsg(num)
			return fm, m.StructType, true
		}
	}
	return factsMsg{}, nil, false
}

func invalidVals(num int) []string {
	v, ok := fit.VerifNewMesg(num)
	if !ok {
		return nil
	}
	r := make([]string, v.NumField())
	for i := range r {
		r[i] = canon.RenderVal(v.Field(i))
	}
	return r
}

func fieldForSindex(m factsMsg, i int) ([4]int, bool) {
	for _, f := range m.Fields {
		if f[0] == i {
			return f, true
		}
	}
	return [4]int{}, false
}

var utf8Samples = []string{"run", "Zürich", "日本", "a", "", "track-01", "naïve café", "0123456789abcdefghij"}

func randUintFor(r *rng, bits int, boundaries bool) uint64 {
	max := uint64(1)<<uint(bits) - 1
	if bits == 64 {
		max = ^uint64(0)
	}
	if boundaries || r.chance(30) {
		switch r.intn(5) {
		case 0:
			return 0
		case 1:
			return 1
		case 2:
			return max - 1
		case 3:
			return max
		case 4:
			return max >> 1
		}
	}
	return r.next() & max
}

func randFieldText(r *rng, t reflect.Type, pf [4]int, k fileKnobs) string {
	plen := pf[3]
	switch t {
	case reflect.TypeOf(time.Time{}):
		secs := int64(1 + r.next()%0xFFFFFFFE)
		if k.boundaries && r.chance(30) {
			secs = []int64{1, 0xFFFFFFFE, 0x10000000, 0x0FFFFFFF}[r.intn(4)]
		}
		if tcKind(pf[2]) == 2 { // local
			off := r.intn(2*43200) - 43200
			if !k.inDomain && r.chance(10) {
				return fmt.Sprintf("t%d/0/0", secs)
			}
			// wall clock must stay in range
			if secs+int64(off) < 1 || secs+int64(off) > 0xFFFFFFFE {
				off = 0
			}
			return fmt.Sprintf("t%d/%d/1", secs, off)
		}
		if !k.inDomain && r.chance(5) {
			return fmt.Sprintf("t%d/0/0", -int64(r.intn(1000)))
		}
		return fmt.Sprintf("t%d/0/0", secs)
	case reflect.TypeOf(fit.Latitude{}):
		v := int64(r.intn(1<<31)) - (1 << 30)
		if v > (1<<30)-1 {
			v = (1 << 30) - 1
		}
		if r.chance(25) {
			// the ends of the valid range (-90 degrees exactly; +90 degrees is finding D14) and zero
			v = []int64{-(1 << 30), -(1 << 30) + 1, (1 << 30) - 1, (1 << 30) - 2, 0, -1, 1}[r.intn(7)]
		}
		return "a" + strconv.FormatInt(v, 10)
	case reflect.TypeOf(fit.Longitude{}):
		v := int64(int32(r.next()))
		if r.chance(25) {
			// the ends of the valid range (-180 degrees exactly) and zero
			v = []int64{-(1 << 31), -(1 << 31) + 1, (1 << 31) - 2, (1 << 31) - 3, 0, -1, 1}[r.intn(7)]
		}
		if v == 0x7FFFFFFF {
			v = 1
		}
		return "o" + strconv.FormatInt(v, 10)
	}
	switch t.Kind() {
	case reflect.Uint8:
		return "u" + strconv.FormatUint(randUintFor(r, 8, k.boundaries), 10)
	case reflect.Uint16:
		return "u" + strconv.FormatUint(randUintFor(r, 16, k.boundaries), 10)
	case reflect.Uint32:
		return "u" + strconv.FormatUint(randUintFor(r, 32, k.boundaries), 10)
	case reflect.Uint64:
		return "u" + strconv.FormatUint(randUintFor(r, 64, k.boundaries), 10)
	case reflect.Int8:
		if k.boundaries && r.chance(25) {
			return "i" + strconv.FormatInt([]int64{-128, -127, 126, 0, -1}[r.intn(5)], 10)
		}
		return "i" + strconv.FormatInt(int64(int8(r.next())), 10)
	case reflect.Int16:
		if k.boundaries && r.chance(25) {
			return "i" + strconv.FormatInt([]int64{-32768, -32767, 32766, 0, -1}[r.intn(5)], 10)
		}
		return "i" + strconv.FormatInt(int64(int16(r.next())), 10)
	case reflect.Int32:
		if k.boundaries && r.chance(25) {
			return "i" + strconv.FormatInt([]int64{-2147483648, -2147483647, 2147483646, 0, -1}[r.intn(5)], 10)
		}
		return "i" + strconv.FormatInt(int64(int32(r.next())), 10)
	case reflect.Int64:
		return "i" + strconv.FormatInt(int64(r.next()), 10)
	case reflect.String:
		s := utf8Samples[r.intn(len(utf8Samples))]
		if r.chance(25) && plen >= 2 {
			// fills the field exactly (profile length minus the terminator), or leaves one byte, and
			// ends in a multi-byte character: the boundary cases of "valid UTF-8 strings that fit"
			fill := plen - 1 - r.intn(2)
			tail := []string{"é", "日", "𝄞", "z"}[r.intn(4)]
			if fill >= len(tail) {
				s = strings.Repeat("a", fill-len(tail)) + tail
			}
		}
		if k.inDomain {
			for len(s) > plen-1 && len(s) > 0 {
				s = s[:len(s)-1]
			}
			for !validUTF8(s) && len(s) > 0 {
				s = s[:len(s)-1]
			}
			if s == "" {
				s = "x"
				if plen < 2 {
					return "s"
				}
			}
		} else if r.chance(10) {
			s = string([]byte{0xFF, 0xFE})
		} else if r.chance(10) {
			s = strings.Repeat("é", 20)
		}
		return "s" + hex.EncodeToString([]byte(s))
	case reflect.Slice:
		n := 1 + r.intn(3)
		if k.inDomain {
			if n > plen {
				n = plen
			}
		} else if r.chance(20) {
			n = plen + 1 + r.intn(3)
		} else if r.chance(5) {
			n = 0
		} else if r.chance(4) {
			// far longer than any profile length, around the 8- and 9-bit boundaries of the element count
			n = []int{255, 256, 257, 258, 300, 511, 512, 513}[r.intn(8)]
		}
		parts := make([]string, n)
		tag := "U"
		for i := range parts {
			switch t.Elem().Kind() {
			case reflect.Uint8:
				parts[i] = strconv.FormatUint(randUintFor(r, 8, false), 10)
			case reflect.Uint16:
				parts[i] = strconv.FormatUint(randUintFor(r, 16, false), 10)
			case reflect.Uint32:
				parts[i] = strconv.FormatUint(randUintFor(r, 32, false), 10)
			case reflect.Int8:
				tag = "I"
				parts[i] = strconv.FormatInt(int64(int8(r.next())), 10)
			case reflect.Int16:
				tag = "I"
				parts[i] = strconv.FormatInt(int64(int16(r.next())), 10)
			case reflect.Int32:
				tag = "I"
				parts[i] = strconv.FormatInt(int64(int32(r.next())), 10)
			case reflect.String:
				tag = "S"
				parts[i] = hex.EncodeToString([]byte("ab"))
			default:
				parts[i] = "0"
			}
		}
		return tag + "[" + strings.Join(parts, ".") + "]"
	}
	return "u0"
}

func validUTF8(s string) bool {
	for _, r := range s {
		if r == 0xFFFD {
			return false
		}
	}
	return true
}

// randMsgText: a message of number num with a random subset of fields set.
func randMsgText(r *rng, num int, k fileKnobs, only int) string {
	fm, st, ok := msgLayout(num)
	if !ok {
		return ""
	}
	vals := invalidVals(num)
	for i := 0; i < st.NumField(); i++ {
		if only >= 0 && i != only {
			continue
		}
		if only < 0 && !r.chance(k.fieldPct) {
			continue
		}
		pf, ok := fieldForSindex(fm, i)
		if !ok {
			continue
		}
		ft := st.Field(i).Type
		if k.inDomain && ft.Kind() == reflect.Slice && ft.Elem().Kind() == reflect.String {
			continue // arrays of strings cannot be encoded
		}
		vals[i] = randFieldText(r, ft, pf, k)
	}
	return strconv.Itoa(num) + ":" + strings.Join(vals, ",")
}

func containerOf(ft byte) (factsContainer, bool) {
	f := theFacts()
	ans := f.FileTypes[ft]
	if !strings.HasPrefix(ans, "c") {
		return factsContainer{}, false
	}
	ci, _ := strconv.Atoi(ans[1:])
	return f.Containers[ci], true
}

// randFileText: a whole File as dump text.
func randFileText(r *rng, ft byte, k fileKnobs) string {
	c, ok := containerOf(ft)
	if !ok {
		return ""
	}
	size := 14
	if r.chance(35) {
		size = 12
	}
	proto := []int{0x10, 0x20, 0x20, 0x20, 0x00, 0x15, 0x21, 0x2F}[r.intn(8)]
	hdr := fmt.Sprintf("H%d/%d/%d/%d/2e464954/%d", size, proto, r.intn(65536), r.intn(100000), r.intn(65536))
	// file_id: type fixed, other fields random
	fidVals := invalidVals(0)
	fm, st, _ := msgLayout(0)
	for i := 1; i < st.NumField(); i++ {
		if pf, ok := fieldForSindex(fm, i); ok && r.chance(50) {
			fidVals[i] = randFieldText(r, st.Field(i).Type, pf, k)
		}
	}
	fidVals[0] = "u" + strconv.Itoa(int(ft))
	if k.inDomain {
		// NewFile leaves TimeCreated as Go's zero time, which is outside the domain: set it
		for i := 0; i < st.NumField(); i++ {
			if st.Field(i).Type == reflect.TypeOf(time.Time{}) && fidVals[i] == "t0/0/0" && r.chance(50) {
				fidVals[i] = fmt.Sprintf("t%d/0/0", 1+r.intn(1<<30))
			}
		}
	}
	parts := []string{hdr, "C" + strconv.Itoa(r.intn(65536)), "I0:" + strings.Join(fidVals, ",")}
	if r.chance(40) {
		parts = append(parts, "R"+randMsgText(r, 49, k, -1))
	} else {
		parts = append(parts, "R-")
	}
	if r.chance(20) {
		parts = append(parts, "Z"+randMsgText(r, 162, k, -1))
	} else {
		parts = append(parts, "Z-")
	}
	slots := make([]string, len(c.Slots))
	for i, s := range c.Slots {
		if s.Many {
			n := r.intn(k.maxGroup + 1)
			ms := make([]string, n)
			for j := range ms {
				ms[j] = randMsgText(r, s.Msg, k, -1)
			}
			slots[i] = "[" + strings.Join(ms, "|") + "]"
		} else if r.chance(60) {
			slots[i] = randMsgText(r, s.Msg, k, -1)
		} else {
			slots[i] = "-"
		}
	}
	parts = append(parts, "K"+c.Name+"{"+strings.Join(slots, "~")+"}")
	return strings.Join(parts, ";")
}

func genFiles(r *rng, name, op string, n int, k fileKnobs) CaseSet {
	cs := CaseSet{Name: name}
	fts := hostedFileTypes()
	for i := 0; i < n; i++ {
		ft := fts[i%len(fts)]
		kk := k
		kk.boundaries = r.chance(30)
		txt := randFileText(r, ft, kk)
		if txt == "" {
			continue
		}
		cs.Cases = append(cs.Cases, fmt.Sprintf("%s %d %s", op, r.intn(2), txt))
	}
	return cs
}

// every hosted message type with every field set alone, both byte orders
func genEveryFieldAlone(r *rng, op string, k fileKnobs) CaseSet {
	cs := CaseSet{Name: "every-field-alone"}
	for _, ft := range hostedFileTypes() {
		c, _ := containerOf(ft)
		for si, s := range c.Slots {
			_, st, ok := msgLayout(s.Msg)
			if !ok {
				continue
			}
			fidVals := invalidVals(0)
			fidVals[0] = "u" + strconv.Itoa(int(ft))
			var msgs []string
			for i := 0; i < st.NumField(); i++ {
				kk := k
				kk.boundaries = true
				if m := randMsgText(r, s.Msg, kk, i); m != "" {
					msgs = append(msgs, m)
				}
			}
			emit := func(slotText string) {
				slots := make([]string, len(c.Slots))
				for j, sj := range c.Slots {
					if sj.Many {
						slots[j] = "[]"
					} else {
						slots[j] = "-"
					}
				}
				slots[si] = slotText
				txt := fmt.Sprintf("H14/32/2115/0/2e464954/0;C0;I0:%s;R-;Z-;K%s{%s}", strings.Join(fidVals, ","), c.Name, strings.Join(slots, "~"))
				cs.Cases = append(cs.Cases, fmt.Sprintf("%s %d %s", op, len(cs.Cases)%2, txt))
			}
			if s.Many {
				emit("[" + strings.Join(msgs, "|") + "]")
			} else {
				for _, m := range msgs {
					emit(m)
				}
			}
		}
	}
	return cs
}

// ---- independent FIT grammar check of encoder output ----

type grammarInfo struct {
	dataSize   int
	records    int
	defs, data int
	recs       []wireRec // the data records, field by field (see props_c05wire.go)
}

// checkGrammar parses bytes under the FIT record grammar without using the library.
func checkGrammar(b []byte) (grammarInfo, error) {
	var gi grammarInfo
	if len(b) < 14 {
		return gi, fmt.Errorf("too short")
	}
	hs := int(b[0])
	if hs != 12 && hs != 14 {
		return gi, fmt.Errorf("header size %d", hs)
	}
	if string(b[8:12]) != ".FIT" {
		return gi, fmt.Errorf("tag")
	}
	ds := int(binary.LittleEndian.Uint32(b[4:8]))
	gi.dataSize = ds
	if len(b) != hs+ds+2 {
		return gi, fmt.Errorf("data size %d does not match %d record bytes", ds, len(b)-hs-2)
	}
	if hs == 14 {
		if c := binary.LittleEndian.Uint16(b[12:14]); c != ownCRC(b[:12]) {
			return gi, fmt.Errorf("header crc %d != %d", c, ownCRC(b[:12]))
		}
	}
	if c := binary.LittleEndian.Uint16(b[hs+ds:]); c != ownCRC(b[:hs+ds]) {
		return gi, fmt.Errorf("file crc")
	}
	type def struct {
		size   int
		global int
		big    bool
		fields []wireField
	}
	var defs [16]*def
	p := hs
	end := hs + ds
	for p < end {
		h := b[p]
		p++
		gi.records++
		switch {
		case h&0x80 != 0:
			return gi, fmt.Errorf("compressed header in encoder output")
		case h&0x40 != 0:
			if p+5 > end {
				return gi, fmt.Errorf("truncated definition")
			}
			arch := b[p+1]
			if arch > 1 {
				return gi, fmt.Errorf("arch")
			}
			nf := int(b[p+4])
			if p+5+3*nf > end {
				return gi, fmt.Errorf("truncated field definitions")
			}
			total := 0
			nd := &def{big: arch == 1}
			if nd.big {
				nd.global = int(binary.BigEndian.Uint16(b[p+2 : p+4]))
			} else {
				nd.global = int(binary.LittleEndian.Uint16(b[p+2 : p+4]))
			}
			p += 5
			for i := 0; i < nf; i++ {
				size, bt := int(b[p+3*i+1]), b[p+3*i+2]
				bs, ok := btSize[bt]
				if !ok {
					return gi, fmt.Errorf("base type %#x", bt)
				}
				if size%bs != 0 {
					return gi, fmt.Errorf("field size %d not a multiple of base size %d", size, bs)
				}
				total += size
				nd.fields = append(nd.fields, wireField{num: int(b[p+3*i]), size: size, bt: bt})
			}
			p += 3 * nf
			if h&0x20 != 0 {
				return gi, fmt.Errorf("developer fields in encoder output")
			}
			nd.size = total
			defs[h&0x0F] = nd
			gi.defs++
		default:
			d := defs[h&0x0F]
			if d == nil {
				return gi, fmt.Errorf("data record without definition")
			}
			if p+d.size > end {
				return gi, fmt.Errorf("data record overruns the data area")
			}
			rec := wireRec{global: d.global, big: d.big}
			q := p
			for _, f := range d.fields {
				f.raw = b[q : q+f.size]
				q += f.size
				rec.fields = append(rec.fields, f)
			}
			gi.recs = append(gi.recs, rec)
			p += d.size
			gi.data++
		}
	}
	if p != end {
		return gi, fmt.Errorf("records do not end at the data size")
	}
	return gi, nil
}

// fileTextWith: a File of type ft holding exactly the given message texts in one container slot.
func fileTextWith(ft byte, slot int, msgs []string) string {
	c, ok := containerOf(ft)
	if !ok || slot >= len(c.Slots) {
		return ""
	}
	fid := invalidVals(0)
	fid[0] = "u" + strconv.Itoa(int(ft))
	parts := []string{"H14/32/2115/0/2e464954/0", "C0", "I0:" + strings.Join(fid, ","), "R-", "Z-"}
	slots := make([]string, len(c.Slots))
	for i, s := range c.Slots {
		switch {
		case i == slot && s.Many:
			slots[i] = "[" + strings.Join(msgs, "|") + "]"
		case i == slot && len(msgs) > 0:
			slots[i] = msgs[0]
		case s.Many:
			slots[i] = "[]"
		default:
			slots[i] = "-"
		}
	}
	parts = append(parts, "K"+c.Name+"{"+strings.Join(slots, "~")+"}")
	return strings.Join(parts, ";")
}

// twinEncodeCalls: for message types with many struct fields, sets of Encode calls on Files that
// hold one message each and differ in exactly one late struct field (the base has only early fields
// set). Any per-process memo of encoder work keyed by less than the whole message shows up when the
// members of a set are encoded one after another.
func twinEncodeCalls(r *rng, perType int) [][]string {
	var sets [][]string
	for _, ft := range hostedFileTypes() {
		c, ok := containerOf(ft)
		if !ok {
			continue
		}
		for si, s := range c.Slots {
			fm, st, ok := msgLayout(s.Msg)
			if !ok || st.NumField() < 20 {
				continue
			}
			for rep := 0; rep < perType; rep++ {
				base := invalidVals(s.Msg)
				k := fileKnobs{inDomain: true, fieldPct: 30}
				for i := 0; i < 12 && i < st.NumField(); i++ {
					if pf, ok := fieldForSindex(fm, i); ok && r.chance(40) && st.Field(i).Type.Kind() != reflect.Slice {
						base[i] = randFieldText(r, st.Field(i).Type, pf, k)
					}
				}
				set := []string{fmt.Sprintf("enc %d %s", rep%2, fileTextWith(ft, si, []string{strconv.Itoa(s.Msg) + ":" + strings.Join(base, ",")}))}
				n := st.NumField()
				for _, j := range []int{16, 31, 32, 33, 47, 63, 64, 65, 66, 70, 80, 90, n - 2, n - 1} {
					if j < 12 || j >= n {
						continue
					}
					pf, ok := fieldForSindex(fm, j)
					if !ok || st.Field(j).Type.Kind() == reflect.Slice {
						continue
					}
					tw := append([]string{}, base...)
					tw[j] = randFieldText(r, st.Field(j).Type, pf, k)
					if tw[j] == base[j] {
						continue
					}
					set = append(set, fmt.Sprintf("enc %d %s", rep%2, fileTextWith(ft, si, []string{strconv.Itoa(s.Msg) + ":" + strings.Join(tw, ",")})))
				}
				if len(set) > 1 {
					sets = append(sets, set)
				}
			}
		}
	}
	return sets
}
