package main

import (
	"strconv"
	"strings"
)

func findMsg(num int) (factsMsg, bool) {
	for _, m := range theFacts().Msgs {
		if m.Num == num {
			return m, true
		}
	}
	return factsMsg{}, false
}

// fieldByName: (field number, type code) of the profile field stored in struct field `name`.
func fieldByName(m factsMsg, name string) (num int, tcode int, ok bool) {
	for _, f := range m.Fields {
		if f[0] < len(m.FNames) && m.FNames[f[0]] == name {
			return f[1], f[2], true
		}
	}
	return 0, 0, false
}

func hostHas(ft byte, msg int) bool {
	f := theFacts()
	ans := f.FileTypes[ft]
	if !strings.HasPrefix(ans, "c") {
		return false
	}
	ci, _ := strconv.Atoi(ans[1:])
	for _, s := range f.Containers[ci].Slots {
		if s.OK && s.Msg == msg {
			return true
		}
	}
	return false
}

// sw: record writer that remembers the live definitions, so data records always match.
type sw struct {
	recs
	defs [16]*defn
}

func (w *sw) define(d defn) {
	w.def(d)
	dd := d
	w.defs[d.local&0x0F] = &dd
}

// payload builds the data bytes for the live definition of `local`; val supplies each field.
func (w *sw) payload(local byte, val func(f fdef, arch byte) []byte) []byte {
	d := w.defs[local&0x0F]
	var p []byte
	if d == nil {
		return p
	}
	for _, f := range d.fields {
		v := val(f, d.arch)
		if len(v) != int(f.size) {
			vv := make([]byte, f.size)
			copy(vv, v)
			v = vv
		}
		p = append(p, v...)
	}
	for _, f := range d.dev {
		p = append(p, make([]byte, f.size)...)
	}
	return p
}

// ---- C12: timestamp sequences ----

func genTimestamps(r *rng, n int) CaseSet {
	cs := CaseSet{Name: "timestamp-sequences"}
	type lf struct{ msg, num int }
	var locals []lf
	for _, m := range knownMsgs() {
		for _, f := range m.Fields {
			if tcKind(f[2]) == 2 && hostFor(m.Num).ok {
				locals = append(locals, lf{m.Num, f[1]})
			}
		}
	}
	for i := 0; i < n; i++ {
		arch := byte(r.intn(2))
		w := &sw{}
		ft := byte(4)
		var lsel lf
		haveLocal := len(locals) > 0 && r.chance(70)
		if haveLocal {
			lsel = locals[r.intn(len(locals))]
			ft = hostFor(lsel.msg).ftype
		}
		w.Write(fileIdRecs(ft, arch))
		recMsg := 20
		if !hostHas(ft, 20) {
			recMsg = lsel.msg
		}
		tsSize, tsType := byte(4), byte(0x86)
		if r.chance(10) {
			tsSize, tsType = 2, 0x84 // narrow definition of the timestamp
		}
		w.define(defn{local: 1, arch: arch, global: uint16(recMsg), fields: []fdef{{253, tsSize, tsType}}})
		if r.chance(50) {
			w.define(defn{local: 2, arch: arch, global: uint16(recMsg), fields: []fdef{{254, 1, 2}}})
		} else {
			w.define(defn{local: 2, arch: arch, global: uint16(recMsg)})
		}
		if haveLocal {
			fs := []fdef{{byte(lsel.num), 4, 0x86}}
			if r.chance(50) {
				fs = append(fs, fdef{253, 4, 0x86})
			}
			w.define(defn{local: 3, arch: byte(r.intn(2)), global: uint16(lsel.msg), fields: fs})
		}
		// a message type without a timestamp field (or an unknown one) on a compressed-capable local type:
		// its compressed headers advance the running reference although nothing is stored in the message
		haveNoTs := false
		if !haveLocal {
			var cands []int
			for _, m := range knownMsgs() {
				has := false
				for _, f := range m.Fields {
					if f[1] == 253 {
						has = true
					}
				}
				if !has && m.Num != 0 {
					cands = append(cands, m.Num)
				}
			}
			g := 65000 + r.intn(200) // unknown global message
			if len(cands) > 0 && r.chance(60) {
				g = cands[r.intn(len(cands))]
			}
			w.define(defn{local: 3, arch: byte(r.intn(2)), global: uint16(g), fields: []fdef{{250, 1, 2}}})
			haveNoTs = true
		}
		steps := 3 + r.intn(40)
		if r.chance(4) {
			steps = 300
		}
		ref := uint64(0x30000000 + r.intn(1<<24))
		for s := 0; s < steps; s++ {
			switch r.intn(10) {
			case 0, 1: // explicit timestamp
				var v uint64
				switch r.intn(8) {
				case 0:
					v = 0xFFFFFFFF
				case 1:
					v = uint64(r.intn(0x10000000))
				case 2:
					v = 0
				case 3:
					v = 0xFFFFFFF0 + uint64(r.intn(15))
				default:
					ref += uint64(r.intn(100))
					v = ref
				}
				w.data(1, w.payload(1, func(f fdef, a byte) []byte { return putUint(a, int(f.size), v) }))
			case 2, 3: // local timestamp
				if !haveLocal {
					continue
				}
				lv := ref + uint64(r.intn(86400)) - 43200
				if r.chance(15) {
					lv = uint64(r.intn(0x10000000))
				}
				if r.chance(5) {
					lv = 0xFFFFFFFF
				}
				tv := ref + uint64(r.intn(50))
				if r.chance(10) {
					tv = 0xFFFFFFFF
				}
				w.data(3, w.payload(3, func(f fdef, a byte) []byte {
					if f.num == 253 {
						return putUint(a, 4, tv)
					}
					return putUint(a, 4, lv)
				}))
			default: // compressed-timestamp record
				l := byte(2)
				if r.chance(10) {
					l = 1
				}
				if haveNoTs && r.chance(35) {
					l = 3
				}
				w.cdata(l, byte(r.intn(32)), w.payload(l, func(f fdef, a byte) []byte { return r.bytes(int(f.size)) }))
			}
		}
		cs.Cases = append(cs.Cases, decCase("decode", "000", "-", "-", frame(w.Bytes(), defaultFrame())))
	}
	return cs
}

// ---- C18: component-bearing messages ----

var componentSources = map[int][]string{
	18:  {"AvgSpeed", "MaxSpeed", "AvgAltitude", "MaxAltitude", "MinAltitude", "EnhancedAvgSpeed", "EnhancedMaxAltitude"},
	19:  {"AvgSpeed", "MaxSpeed", "AvgAltitude", "MaxAltitude", "MinAltitude", "EnhancedMaxSpeed", "EnhancedMinAltitude"},
	20:  {"Altitude", "Speed", "CompressedSpeedDistance", "Cycles", "CompressedAccumulatedPower", "Distance", "EnhancedSpeed", "TotalCycles", "HeartRate"},
	21:  {"Event", "Data16", "Data", "Score", "RearGear"},
	142: {"AvgAltitude", "MaxAltitude", "MinAltitude", "EnhancedAvgAltitude"},
}

func genComponents(r *rng, n int) CaseSet {
	cs := CaseSet{Name: "component-messages"}
	fts := []byte{4, 6, 20, 34}
	for i := 0; i < n; i++ {
		ft := fts[r.intn(len(fts))]
		w := &sw{}
		arch := byte(r.intn(2))
		w.Write(fileIdRecs(ft, arch))
		var nums []int
		for mn := range componentSources {
			if hostHas(ft, mn) {
				nums = append(nums, mn)
			}
		}
		if len(nums) == 0 {
			continue
		}
		sortInts(nums)
		local := byte(1)
		for _, mn := range nums {
			m, ok := findMsg(mn)
			if !ok {
				continue
			}
			var fs []fdef
			for _, name := range componentSources[mn] {
				if !r.chance(65) {
					continue
				}
				num, tc, ok := fieldByName(m, name)
				if !ok {
					continue
				}
				sz := btSize[tcBase(tc)]
				if tcArray(tc) {
					sz *= 3
					if r.chance(15) {
						sz = btSize[tcBase(tc)] * (1 + r.intn(4))
					}
				}
				fs = append(fs, fdef{byte(num), byte(sz), tcBase(tc)})
			}
			w.define(defn{local: local, arch: byte(r.intn(2)), global: uint16(mn), fields: fs})
			local++
		}
		steps := 1 + r.intn(25)
		for s := 0; s < steps; s++ {
			l := byte(1 + r.intn(int(local)-1))
			d := w.defs[l]
			w.data(l, w.payload(l, func(f fdef, a byte) []byte {
				// events: pick the event kinds that have component rules often
				if d.global == 21 && f.size == 1 && f.btype == 0x00 && r.chance(60) {
					return []byte{[]byte{33, 42, 43, 0, 3}[r.intn(5)]}
				}
				switch r.intn(6) {
				case 0:
					b := make([]byte, f.size)
					for i := range b {
						b[i] = 0xFF
					}
					return b
				case 1:
					return make([]byte, f.size)
				}
				return r.bytes(int(f.size))
			}))
		}
		accu := "-"
		if r.chance(30) {
			accu = strconv.Itoa(1) + "," + strconv.Itoa(r.intn(5000)) + "," + strconv.Itoa(r.intn(4096)) + ",4095/0,0,0,0/1," + strconv.Itoa(r.intn(100)) + "," + strconv.Itoa(r.intn(65536)) + ",0"
		}
		cs.Cases = append(cs.Cases, decCase("decode", "000", "-", accu, frame(w.Bytes(), defaultFrame())))
	}
	return cs
}

func sortInts(a []int) {
	for i := 1; i < len(a); i++ {
		for j := i; j > 0 && a[j-1] > a[j]; j-- {
			a[j-1], a[j] = a[j], a[j-1]
		}
	}
}

// ---- C10 / C11: chains, chunk schedules, cuts, faults ----

func validFiles(r *rng, n int, maxCorpus int) [][]byte {
	var res [][]byte
	for _, c := range smallCorpus(maxCorpus) {
		if strings.Contains(c.Name, "corrupt") || strings.Contains(c.Name, "chained") || strings.Contains(c.Name, "broken") {
			continue
		}
		res = append(res, c.Data)
	}
	for i := 0; i < n; i++ {
		k := fullKnobs()
		k.badDefs = 0
		k.records = 1 + r.intn(30)
		res = append(res, frame(randomStream(r, k), randFrame(r)))
	}
	return res
}

var schedules = []string{"-", "s:1", "s:2", "s:3", "s:7", "s:13", "s:4095", "s:4096", "s:4097", "s:8192", "s:1.4096", "s:5.1.9.2", "e", "s:1+e", "s:4096+e", "z", "s:1+z", "s:7+z", "s:4096+e+z"}

func randSched(r *rng) string {
	if r.chance(60) {
		return schedules[r.intn(len(schedules))]
	}
	n := 1 + r.intn(6)
	parts := make([]string, n)
	for i := range parts {
		parts[i] = strconv.Itoa(1 + r.intn(6000))
	}
	s := "s:" + strings.Join(parts, ".")
	if r.chance(20) {
		s += "+e"
	}
	return s
}

func genChunked(r *rng, nfiles int, maxCorpus int, perFile int) CaseSet {
	cs := CaseSet{Name: "chunk-schedules"}
	files := validFiles(r, nfiles, maxCorpus)
	for _, f := range files {
		for _, e := range entries {
			for _, s := range schedules {
				if perFile > 0 && r.intn(len(schedules)*len(entries)) >= perFile {
					continue
				}
				cs.Cases = append(cs.Cases, decCase(e, "000", s, "-", f))
			}
		}
	}
	return cs
}

func genChains(r *rng, n int, maxCorpus int) CaseSet {
	cs := CaseSet{Name: "chains"}
	files := validFiles(r, 40, maxCorpus)
	// files whose records use the time reference before (or without) setting it, and files of
	// component-bearing records: what a file of a chain inherits from the one before it shows there
	for _, c := range genTimestamps(r, 16).Cases {
		if dc, ok := parseDecCase(c); ok && len(dc.data) < 3000 {
			files = append(files, dc.data)
		}
	}
	for i := 0; i < n; i++ {
		k := 1 + r.intn(4)
		var data []byte
		for j := 0; j < k; j++ {
			data = append(data, files[r.intn(len(files))]...)
		}
		spec := randSched(r)
		switch r.intn(8) {
		case 0: // garbage after the chain
			data = append(data, [][]byte{{0}, {0, 1, 2, 3}, {0xFF}, {14}, {12, 0x20}, r.bytes(1 + r.intn(20))}[r.intn(6)]...)
		case 1: // read fault exactly at the end
			if spec == "-" {
				spec = "f"
			} else {
				spec += "+f"
			}
		case 2: // trailing partial header
			data = append(data, files[r.intn(len(files))][:1+r.intn(13)]...)
		}
		cs.Cases = append(cs.Cases, decCase("chained", "000", spec, "-", data))
		if r.chance(30) {
			cs.Cases = append(cs.Cases, decCase("decode", "000", spec, "-", data))
			cs.Cases = append(cs.Cases, decCase("integ", "000", spec, "-", data))
		}
		// the entry points that stop before the end of the file, with more of the stream behind the
		// first file: none of them may pull a byte beyond the first frame
		if r.chance(40) {
			e := []string{"header", "headerfid", "integhdr"}[r.intn(3)]
			cs.Cases = append(cs.Cases, decCase(e, "000", spec, "-", data))
		}
	}
	return cs
}

// every cut offset and every fault offset of small valid streams, all entry points
func genCutsFaults(r *rng, nfiles int, maxLen int, stride int) CaseSet {
	cs := CaseSet{Name: "cuts-and-faults"}
	files := validFiles(r, nfiles, maxLen)
	var pool [][]byte
	for _, f := range files {
		if len(f) <= maxLen {
			pool = append(pool, f)
		}
	}
	// some chains of two
	for i := 0; i < 6 && len(pool) > 1; i++ {
		a, b := pool[r.intn(len(pool))], pool[r.intn(len(pool))]
		if len(a)+len(b) <= maxLen {
			pool = append(pool, append(append([]byte{}, a...), b...))
		}
	}
	// files whose trailing CRC (and, for some, header CRC) has a zero byte or is zero altogether: a
	// check that tolerates a partly missing CRC can only go wrong on such values
	pool = append(pool, specialCrcFiles(r)...)
	// records that end in bytes the decoder only skips (an unlisted field, developer data): a cut
	// inside them must still be an error, for the file_id record too
	for _, hs := range []int{12, 14} {
		var b recs
		b.def(defn{local: 0, global: 0, fields: []fdef{{0, 1, 0x00}, {1, 2, 0x84}, {250, 4, 0x86}}})
		b.data(0, []byte{4, 1, 0, 9, 8, 7, 6})
		b.def(defn{local: 1, global: 20, devBit: true, fields: []fdef{{253, 4, 0x86}, {3, 1, 0x02}, {200, 2, 0x84}},
			dev: []ddesc{{0, 3, 0}}})
		b.data(1, []byte{1, 2, 3, 4, 140, 5, 6, 7, 8, 9})
		b.data(1, []byte{2, 2, 3, 4, 141, 5, 6, 7, 8, 9})
		fo := defaultFrame()
		fo.hdrSize = hs
		pool = append(pool, frame(b.Bytes(), fo))
	}
	k := r.intn(stride)
	for _, f := range pool {
		for cut := 0; cut <= len(f); cut++ {
			k++
			if k%stride != 0 {
				continue
			}
			for _, e := range entries {
				for _, style := range []string{"-", "f", "e", "e+f"} {
					if e != "decode" && e != "chained" && style != "-" && style != "f" {
						continue
					}
					cs.Cases = append(cs.Cases, decCase(e, "011", style, "-", f[:cut]))
				}
			}
		}
	}
	return cs
}

// specialCrcFiles: small valid files, a free 16-bit value of which was searched so that the file CRC
// is 0x00xx, 0xxx00, 0x0000 or 0xFFFF (both header sizes).
func specialCrcFiles(r *rng) [][]byte {
	var out [][]byte
	want := []func(c uint16) bool{
		func(c uint16) bool { return c>>8 == 0 && c != 0 },
		func(c uint16) bool { return c&0xFF == 0 && c != 0 },
		func(c uint16) bool { return c == 0 },
		func(c uint16) bool { return c == 0xFFFF },
	}
	for i, ok := range want {
		fo := defaultFrame()
		if i%2 == 1 {
			fo.hdrSize = 12
		}
		arch := byte(r.intn(2))
		hr := byte(60 + r.intn(100))
		for v := 0; v < 65536; v++ {
			w := &sw{}
			w.Write(fileIdRecs(4, arch))
			w.define(defn{local: 1, arch: 0, global: 20, fields: []fdef{{3, 1, 2}, {7, 2, 0x84}}})
			w.data(1, []byte{hr, byte(v), byte(v >> 8)})
			f := frame(w.Bytes(), fo)
			c := uint16(f[len(f)-2]) | uint16(f[len(f)-1])<<8
			if ok(c) {
				out = append(out, f)
				break
			}
		}
	}
	return out
}

// ---- C03: routing ----

func genRouting(r *rng, nRandom int) CaseSet {
	cs := CaseSet{Name: "routing-interleavings"}
	msgs := knownMsgs()
	for _, ft := range hostedFileTypes() {
		for variant := 0; variant < 3; variant++ {
			w := &sw{}
			w.Write(fileIdRecs(ft, 0))
			// each known message gets a one-field definition carrying a marker where possible
			type ent struct {
				msg  int
				fd   fdef
				have bool
			}
			var es []ent
			for _, m := range msgs {
				e := ent{msg: m.Num}
				for _, f := range m.Fields {
					pb := tcBase(f[2])
					if !tcArray(f[2]) && pb != 0x07 && tcKind(f[2]) == 0 && m.Num != 0 {
						e.fd = fdef{byte(f[1]), byte(btSize[pb]), pb}
						e.have = true
						break
					}
				}
				if m.Num == 0 {
					continue
				}
				es = append(es, e)
			}
			emit := func(e ent, marker int) {
				var fs []fdef
				if e.have {
					fs = []fdef{e.fd}
				}
				w.define(defn{local: 1, arch: 0, global: uint16(e.msg), fields: fs})
				w.data(1, w.payload(1, func(f fdef, a byte) []byte { return putUint(a, int(f.size), uint64(marker)) }))
			}
			switch variant {
			case 0: // grouped
				for _, e := range es {
					for k := 1; k <= 3; k++ {
						emit(e, k)
					}
				}
			case 1: // round-robin
				for k := 1; k <= 3; k++ {
					for _, e := range es {
						emit(e, k)
					}
				}
			case 2: // reversed
				for k := 1; k <= 3; k++ {
					for i := len(es) - 1; i >= 0; i-- {
						emit(es[i], 4-k)
					}
				}
			}
			cs.Cases = append(cs.Cases, decCase("decode", "000", "-", "-", frame(w.Bytes(), defaultFrame())))
		}
	}
	// every file-type value with a short stream
	for t := 0; t < 256; t++ {
		w := &sw{}
		w.Write(fileIdRecs(byte(t), byte(t%2)))
		w.define(defn{local: 1, global: 20, fields: []fdef{{3, 1, 2}}})
		w.data(1, []byte{70})
		cs.Cases = append(cs.Cases, decCase("decode", "000", "-", "-", frame(w.Bytes(), defaultFrame())))
	}
	// random interleavings incl. repeated file_id messages
	k := fullKnobs()
	k.badDefs = 0
	k.multiFileId = true
	k.records = 120
	k.unknownMsgs = false
	rs := genRandomStreams(r, "", nRandom, k, "000")
	cs.Cases = append(cs.Cases, rs.Cases...)
	return cs
}

// ---- C13: near-identical redefinitions ----

// genRedefinitions: the same local type is redefined several times with definitions that differ
// from the previous one in exactly one respect (byte order only, one field's size, one field's
// base type, the global message with the same field triplets, developer fields added/removed,
// field order, nothing at all), with data records between — so that any caching or reuse of
// an older definition shows.
func genRedefinitions(r *rng, n int) CaseSet {
	cs := CaseSet{Name: "near-identical-redefinitions"}
	k := fullKnobs()
	k.badDefs = 0
	k.unknownMsgs = false
	k.devFields = false
	k.onlyMsgs = []int{20, 21, 19, 23, 34, 18}
	for i := 0; i < n; i++ {
		var b recs
		b.Write(fileIdRecs(4, byte(r.intn(2))))
		local := byte(1 + r.intn(15))
		if r.chance(40) {
			local = byte(1 + r.intn(3))
		}
		d := randomDef(r, k, local)
		for len(d.fields) == 0 {
			d = randomDef(r, k, local)
		}
		other := byte(1 + (int(local) % 15))
		rounds := 2 + r.intn(5)
		for j := 0; j < rounds; j++ {
			b.def(d)
			for q := 0; q < 1+r.intn(3); q++ {
				p := randomPayload(r, d, k)
				if local < 4 && r.chance(30) {
					b.cdata(local, byte(r.intn(32)), p)
				} else {
					b.data(local, p)
				}
			}
			nd := d
			nd.fields = append([]fdef(nil), d.fields...)
			switch r.intn(9) {
			case 0, 1, 2:
				nd.arch ^= 1
			case 3:
				f := &nd.fields[r.intn(len(nd.fields))]
				if bs := btSize[f.btype]; bs > 0 && int(f.size)+bs < 255 && f.btype != 0x07 {
					f.size += byte(bs)
				} else {
					f.size++
				}
			case 4:
				f := &nd.fields[r.intn(len(nd.fields))]
				for _, bt := range allBase {
					if bt != f.btype && btSize[bt] == btSize[f.btype] && r.chance(50) {
						f.btype = bt
						break
					}
				}
			case 5:
				nd.global = uint16(k.onlyMsgs[r.intn(len(k.onlyMsgs))])
			case 6:
				nd.devBit = !nd.devBit
				nd.dev = nil
				if nd.devBit && r.chance(50) {
					nd.dev = []ddesc{{0, byte(1 + r.intn(3)), 0}}
				}
			case 7:
				if len(nd.fields) > 1 {
					a, c := r.intn(len(nd.fields)), r.intn(len(nd.fields))
					nd.fields[a], nd.fields[c] = nd.fields[c], nd.fields[a]
				}
			case 8: // identical
			}
			if r.chance(25) { // another local type in between must not be affected, nor affect this one
				od := randomDef(r, k, other)
				b.def(od)
				b.data(other, randomPayload(r, od, k))
			}
			d = nd
		}
		b.def(d)
		b.data(local, randomPayload(r, d, k))
		cs.Cases = append(cs.Cases, decCase("decode", "000", "-", "-", frame(b.Bytes(), defaultFrame())))
	}
	return cs
}

// ---- size extremes: counts and byte totals around 8- and 16-bit boundaries ----

// genSizeExtremes: definitions whose native-field count, developer-field count, single sizes and
// summed sizes sit at and around 85/86, 127/128, 255/256, 510-513 and 765, each followed by
// matching data records and by a plain marker record of another local type (so that a mis-sized
// skip shows as a disturbed neighbour).
func genSizeExtremes(r *rng, n int) CaseSet {
	cs := CaseSet{Name: "size-extremes"}
	counts := []int{0, 1, 2, 3, 5, 84, 85, 86, 100, 127, 128, 200, 254, 255}
	sizes := []int{0, 1, 2, 3, 4, 8, 56, 100, 127, 128, 200, 254, 255}
	totals := []int{255, 256, 257, 300, 510, 511, 512, 513, 765, 766, 1024}
	rec, _ := findMsg(20)
	hrNum, _, _ := fieldByName(rec, "HeartRate")
	for i := 0; i < n; i++ {
		var b recs
		arch := byte(r.intn(2))
		b.Write(fileIdRecs(4, arch))
		marker := defn{local: 1, arch: arch, global: 20, fields: []fdef{{byte(hrNum), 1, 2}}}
		b.def(marker)
		d := defn{local: byte(2 + r.intn(14)), arch: byte(r.intn(2)), global: uint16([]int{20, 19, 18, 21, 0xFF00, 23}[r.intn(6)])}
		// native fields: a few real ones, then filler up to the chosen count
		nn := counts[r.intn(len(counts))]
		if r.chance(60) {
			nn = r.intn(6)
		}
		if m, ok := findMsg(int(d.global)); ok {
			for j := 0; j < nn && j < 3 && j < len(m.Fields); j++ {
				if fd, ok := compatibleField(r, m.Fields[r.intn(len(m.Fields))]); ok {
					d.fields = append(d.fields, fd)
				}
			}
		}
		for len(d.fields) < nn {
			bt := []byte{0x02, 0x00, 0x84, 0x0D, 0x07}[r.intn(5)]
			sz := btSize[bt]
			if r.chance(15) {
				sz = sizes[r.intn(len(sizes))] / btSize[bt] * btSize[bt]
			}
			d.fields = append(d.fields, fdef{byte(150 + r.intn(100)), byte(sz), bt})
		}
		// developer fields
		if r.chance(75) {
			d.devBit = true
			nd := counts[r.intn(len(counts))]
			if r.chance(50) {
				nd = 1 + r.intn(5)
			}
			if r.chance(50) && nd > 0 {
				// aim the total at a boundary
				tot := totals[r.intn(len(totals))]
				for j := 0; j < nd; j++ {
					left := nd - j
					s := tot / left
					if s > 255 {
						s = 255
					}
					if j == nd-1 && tot <= 255 {
						s = tot
					}
					tot -= s
					d.dev = append(d.dev, ddesc{byte(j), byte(s), byte(r.intn(3))})
				}
			} else {
				for j := 0; j < nd; j++ {
					d.dev = append(d.dev, ddesc{byte(j), byte(sizes[r.intn(len(sizes))]), byte(r.intn(3))})
				}
			}
		}
		b.def(d)
		reps := 1 + r.intn(3)
		for q := 0; q < reps; q++ {
			b.data(d.local, r.bytes(defPayloadSize(d)))
			b.data(1, []byte{byte(100 + q)})
		}
		cs.Cases = append(cs.Cases, decCase("decode", "011", "-", "-", frame(b.Bytes(), defaultFrame())))
	}
	return cs
}
