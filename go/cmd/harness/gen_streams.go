package main

import (
	"sort"
	"strings"
)

var factsCache *facts

func theFacts() *facts {
	if factsCache == nil {
		f, err := collectFacts()
		if err != nil {
			panic(err)
		}
		factsCache = f
	}
	return factsCache
}

type host struct {
	ftype byte
	many  bool
	ok    bool
}

// hostFor finds a file type whose container holds message m (slice slots preferred).
func hostFor(m int) host {
	f := theFacts()
	best := host{ftype: 4}
	for t, ans := range f.FileTypes {
		if !strings.HasPrefix(ans, "c") {
			continue
		}
		var ci int
		for _, ch := range ans[1:] {
			ci = ci*10 + int(ch-'0')
		}
		for _, s := range f.Containers[ci].Slots {
			if s.OK && s.Msg == m {
				if !best.ok || (s.Many && !best.many) {
					best = host{byte(t), s.Many, true}
				}
			}
		}
	}
	return best
}

func hostedFileTypes() []byte {
	var r []byte
	for t, ans := range theFacts().FileTypes {
		if strings.HasPrefix(ans, "c") {
			r = append(r, byte(t))
		}
	}
	return r
}

func knownMsgs() []factsMsg {
	var r []factsMsg
	for _, m := range theFacts().Msgs {
		if m.Known {
			r = append(r, m)
		}
	}
	return r
}

func payloads(r *rng, size int, n int) [][]byte {
	var ps [][]byte
	pat := make([]byte, size)
	for i := range pat {
		pat[i] = byte(0x81 + i)
	}
	ps = append(ps, pat)
	ones := make([]byte, size)
	for i := range ones {
		ones[i] = 0xFF
	}
	if n > 1 {
		ps = append(ps, ones)
	}
	for len(ps) < n {
		switch r.intn(6) {
		case 0:
			ps = append(ps, make([]byte, size))
		case 1:
			b := make([]byte, size)
			for i := range b {
				b[i] = 0xFF
			}
			if size > 0 {
				b[r.intn(size)] = 0x7F
			}
			ps = append(ps, b)
		case 2:
			b := make([]byte, size)
			if size > 0 {
				b[r.intn(size)] = 0x80
			}
			ps = append(ps, b)
		case 3:
			// text-like, with terminators
			b := make([]byte, size)
			for i := range b {
				switch r.intn(8) {
				case 0:
					b[i] = 0
				case 1:
					b[i] = 0xC3
				default:
					b[i] = byte(0x41 + r.intn(26))
				}
			}
			ps = append(ps, b)
		default:
			ps = append(ps, r.bytes(size))
		}
	}
	return ps
}

func uniqInts(xs []int) []int {
	sort.Ints(xs)
	var r []int
	for i, x := range xs {
		if x < 0 || x > 255 {
			continue
		}
		if i > 0 && len(r) > 0 && r[len(r)-1] == x {
			continue
		}
		r = append(r, x)
	}
	return r
}

// genSingleField: for every known message and listed field (plus one unlisted field number),
// definitions with every base type and sizes around the valid ones, both byte orders, each
// followed by data records; one small file per definition.
// stride > 1 samples every stride-th definition (offset by seed) for the quick tier.
func genSingleField(r *rng, stride int) CaseSet {
	cs := CaseSet{Name: "single-field-definitions"}
	k := r.intn(stride)
	btypes := append([]byte{}, allBase...)
	btypes = append(btypes, 0x22, 0xA4, 0x47, 0x11, 0x1F, 0x91, 0x04, 0x82) // non-canonical / unknown bytes
	for _, m := range knownMsgs() {
		h := hostFor(m.Num)
		type fld struct{ num, tcode, length int }
		var fl []fld
		used := map[int]bool{}
		for _, f := range m.Fields {
			fl = append(fl, fld{f[1], f[2], f[3]})
			used[f[1]] = true
		}
		for n := 0; n < 255; n++ { // one unlisted field number
			if !used[n] {
				fl = append(fl, fld{n, -1, 0})
				break
			}
		}
		for _, f := range fl {
			psize, plen := 1, 1
			if f.tcode >= 0 {
				psize = btSize[tcBase(f.tcode)]
				plen = f.length
			}
			for _, bt := range btypes {
				bs := btSize[bt&0x9F]
				if bs == 0 {
					bs = 1
				}
				sizes := uniqInts([]int{0, bs - 1, bs, bs + 1, 2 * bs, 3 * bs, psize - 1, psize, psize + 1, plen * bs, plen*bs + bs, 255})
				for _, sz := range sizes {
					for arch := byte(0); arch < 2; arch++ {
						k++
						if k%stride != 0 {
							continue
						}
						var b recs
						b.Write(fileIdRecs(h.ftype, arch))
						b.def(defn{local: 1, arch: arch, global: uint16(m.Num), fields: []fdef{{byte(f.num), byte(sz), bt}}})
						for _, p := range payloads(r, sz, 3) {
							b.data(1, p)
						}
						cs.Cases = append(cs.Cases, decCase("decode", "011", "-", "-", frame(b.Bytes(), defaultFrame())))
					}
				}
			}
		}
	}
	return cs
}

// ---- random structured streams ----

type streamKnobs struct {
	records      int  // number of records after file_id
	unknownMsgs  bool // include definitions of message numbers absent from the profile
	unlisted     bool // include unlisted field numbers
	devFields    bool
	compressed   bool
	redefine     bool
	badDefs      int // percent of definitions drawn without regard to compatibility
	timestamps   bool
	multiFileId  bool
	onlyMsgs     []int // restrict to these message numbers (nil = any known)
	ftype        int   // -1 = random hosted
	bigEndianPct int
}

type liveDef struct {
	d    defn
	size int
}

func compatibleField(r *rng, f [4]int) (fdef, bool) {
	num, tcode, length := f[1], f[2], f[3]
	pb := tcBase(tcode)
	ps := btSize[pb]
	if pb == 0x07 { // string
		sz := 1 + r.intn(24)
		if r.chance(20) {
			sz = length
		}
		return fdef{byte(num), byte(sz), 0x07}, true
	}
	if tcArray(tcode) {
		n := 1 + r.intn(4)
		if r.chance(30) {
			n = length
		}
		if n*ps > 255 {
			n = 255 / ps
		}
		if n < 1 {
			n = 1
		}
		return fdef{byte(num), byte(n * ps), pb}, true
	}
	// scalar: same type, or a narrower compatible one
	var cands []byte
	for _, bt := range allBase {
		if bt == 0x07 || btFloat[bt] != btFloat[pb] && btFloat[bt] {
			continue
		}
		if btSigned[bt] == btSigned[pb] && btSize[bt] <= ps {
			cands = append(cands, bt)
		}
	}
	bt := pb
	if r.chance(35) && len(cands) > 0 {
		bt = cands[r.intn(len(cands))]
	}
	return fdef{byte(num), byte(btSize[bt]), bt}, true
}

func randomDef(r *rng, k streamKnobs, local byte) defn {
	d := defn{local: local}
	if r.chance(k.bigEndianPct) {
		d.arch = 1
	}
	if r.chance(5) {
		d.resv = byte(r.next()) // reserved byte: any value, ignored by readers
		if r.chance(30) {
			d.hbits = 0x10 // reserved bit of the record header itself
		}
	}
	if r.chance(k.badDefs) {
		d.arch = byte(2 + r.intn(254)) // not a byte order: the definition is rejected
	}
	msgs := knownMsgs()
	if k.unknownMsgs && r.chance(20) {
		d.global = uint16([]int{0xFF00, 61, 400, 0xFFFE, 11, 13, 160}[r.intn(7)])
		if r.chance(60) {
			// many distinct unknown numbers in one stream (more than there are local types)
			d.global = uint16(65000 + r.intn(60))
		}
		n := r.intn(5)
		for i := 0; i < n; i++ {
			bt := allBase[r.intn(len(allBase))]
			d.fields = append(d.fields, fdef{byte(r.intn(256)), byte(btSize[bt] * (1 + r.intn(3))), bt})
		}
	} else {
		var m factsMsg
		if len(k.onlyMsgs) > 0 {
			want := k.onlyMsgs[r.intn(len(k.onlyMsgs))]
			for _, x := range msgs {
				if x.Num == want {
					m = x
				}
			}
		} else {
			m = msgs[r.intn(len(msgs))]
		}
		d.global = uint16(m.Num)
		nf := r.intn(8)
		if nf > len(m.Fields) {
			nf = len(m.Fields)
		}
		perm := make([]int, len(m.Fields))
		for i := range perm {
			perm[i] = i
		}
		for i := range perm {
			j := i + r.intn(len(perm)-i)
			perm[i], perm[j] = perm[j], perm[i]
		}
		for i := 0; i < nf; i++ {
			f := m.Fields[perm[i]]
			if r.chance(k.badDefs) {
				bt := allBase[r.intn(len(allBase))]
				d.fields = append(d.fields, fdef{byte(f[1]), byte(r.intn(10)), bt})
				continue
			}
			fd, _ := compatibleField(r, f)
			d.fields = append(d.fields, fd)
		}
		if k.timestamps && r.chance(60) {
			// make sure the timestamp field is present when the message has one
			for _, f := range m.Fields {
				if f[1] == 253 {
					has := false
					for _, x := range d.fields {
						if x.num == 253 {
							has = true
						}
					}
					if !has {
						d.fields = append(d.fields, fdef{253, 4, 0x86})
					}
				}
			}
		}
		if k.unlisted && r.chance(30) {
			used := map[int]bool{}
			for _, f := range m.Fields {
				used[f[1]] = true
			}
			for tries := 0; tries < 5; tries++ {
				n := r.intn(255)
				if !used[n] {
					bt := allBase[r.intn(len(allBase))]
					pos := r.intn(len(d.fields) + 1)
					nf := fdef{byte(n), byte(btSize[bt] * (1 + r.intn(2))), bt}
					if r.chance(15) {
						// the one field definition of size 0 the decoder accepts: an empty string
						nf = fdef{byte(n), 0, 0x07}
					}
					d.fields = append(d.fields[:pos], append([]fdef{nf}, d.fields[pos:]...)...)
					break
				}
			}
		}
	}
	if k.devFields && r.chance(25) {
		d.devBit = true
		n := r.intn(3)
		for i := 0; i < n; i++ {
			d.dev = append(d.dev, ddesc{byte(r.intn(256)), byte(r.intn(6)), byte(r.intn(4))})
		}
	}
	return d
}

func defPayloadSize(d defn) int {
	n := 0
	for _, f := range d.fields {
		n += int(f.size)
	}
	for _, f := range d.dev {
		n += int(f.size)
	}
	return n
}

func randomPayload(r *rng, d defn, k streamKnobs) []byte {
	var p []byte
	for _, f := range d.fields {
		sz := int(f.size)
		if f.num == 253 && k.timestamps && sz == 4 {
			var v uint64
			switch r.intn(6) {
			case 0:
				v = 0xFFFFFFFF
			case 1:
				v = uint64(r.intn(0x10000000)) // below the system-time marker
			case 2:
				v = 0
			default:
				v = 0x30000000 + uint64(r.intn(1<<20))
			}
			p = append(p, putUint(d.arch, 4, v)...)
			continue
		}
		p = append(p, payloads(r, sz, 3)[2]...)
	}
	for _, f := range d.dev {
		p = append(p, r.bytes(int(f.size))...)
	}
	return p
}

// randomStream builds the record area of one file.
func randomStream(r *rng, k streamKnobs) []byte {
	var b recs
	ft := byte(4)
	if k.ftype >= 0 {
		ft = byte(k.ftype)
	} else {
		hs := hostedFileTypes()
		ft = hs[r.intn(len(hs))]
	}
	b.Write(fileIdRecs(ft, byte(r.intn(2))))
	var defs [16]*liveDef
	// local type 0 still holds the file_id definition
	defs[0] = &liveDef{d: defn{local: 0, global: 0, fields: []fdef{{0, 1, 0}}}, size: 1}
	for i := 0; i < k.records; i++ {
		choice := r.intn(10)
		switch {
		case choice < 3 || (choice < 10 && countDefs(defs[:]) < 2):
			local := byte(r.intn(16))
			if k.compressed && r.chance(50) {
				local = byte(r.intn(4))
			}
			if !k.redefine {
				// first free slot
				for l := 1; l < 16; l++ {
					if defs[l] == nil {
						local = byte(l)
						break
					}
				}
			}
			d := randomDef(r, k, local)
			b.def(d)
			defs[local] = &liveDef{d: d, size: defPayloadSize(d)}
		default:
			var ls []int
			for l, d := range defs {
				if d != nil && (l != 0 || k.multiFileId) {
					ls = append(ls, l)
				}
			}
			if len(ls) == 0 {
				continue
			}
			l := ls[r.intn(len(ls))]
			d := defs[l]
			p := randomPayload(r, d.d, k)
			if l == 0 && d.d.global == 0 && len(d.d.fields) == 1 && d.d.fields[0].num == 0 {
				p = []byte{hostedFileTypes()[r.intn(len(hostedFileTypes()))]}
			}
			if k.compressed && l < 4 && r.chance(50) {
				b.cdata(byte(l), byte(r.intn(32)), p)
			} else {
				if r.chance(6) {
					b.dataX(byte(l), byte(0x10*(1+r.intn(3))), p)
				} else {
					b.data(byte(l), p)
				}
			}
		}
	}
	return b.Bytes()
}

func countDefs(ds []*liveDef) int {
	n := 0
	for _, d := range ds {
		if d != nil {
			n++
		}
	}
	return n
}

func genRandomStreams(r *rng, name string, n int, k streamKnobs, opts string) CaseSet {
	cs := CaseSet{Name: name}
	for i := 0; i < n; i++ {
		kk := k
		kk.records = 1 + r.intn(k.records)
		fo := defaultFrame()
		if r.chance(30) {
			fo.hdrSize = 12
		} else if r.chance(20) {
			fo.zeroCRC = true
		}
		data := frame(randomStream(r, kk), fo)
		o := opts
		if o == "" {
			o = []string{"000", "011", "111", "010", "001", "100", "101", "110"}[r.intn(8)]
		}
		cs.Cases = append(cs.Cases, decCase("decode", o, "-", "-", data))
	}
	return cs
}

func fullKnobs() streamKnobs {
	return streamKnobs{records: 40, unknownMsgs: true, unlisted: true, devFields: true, compressed: true,
		redefine: true, badDefs: 2, timestamps: true, ftype: -1, bigEndianPct: 40}
}

// ---- malformed ----

func mutate(r *rng, data []byte) []byte {
	b := append([]byte{}, data...)
	switch r.intn(6) {
	case 0: // flip bytes
		for i := 0; i < 1+r.intn(4) && len(b) > 0; i++ {
			b[r.intn(len(b))] ^= byte(1 << uint(r.intn(8)))
		}
	case 1: // truncate
		if len(b) > 0 {
			b = b[:r.intn(len(b))]
		}
	case 2: // overwrite a run with random
		if len(b) > 14 {
			p := 12 + r.intn(len(b)-12)
			n := 1 + r.intn(8)
			for i := p; i < p+n && i < len(b); i++ {
				b[i] = byte(r.next())
			}
		}
	case 3: // change data size
		if len(b) > 8 {
			b[4+r.intn(4)] = byte(r.next())
		}
	case 4: // insert bytes
		if len(b) > 14 {
			p := 12 + r.intn(len(b)-12)
			ins := r.bytes(1 + r.intn(5))
			b = append(b[:p], append(ins, b[p:]...)...)
		}
	case 5: // header bytes
		if len(b) > 12 {
			b[r.intn(14)%len(b)] = byte(r.next())
		}
	}
	return b
}

func genMalformed(r *rng, n int) CaseSet {
	cs := CaseSet{Name: "malformed"}
	small := smallCorpus(6000)
	for i := 0; i < n; i++ {
		var base []byte
		if r.chance(40) && len(small) > 0 {
			base = small[r.intn(len(small))].Data
		} else {
			k := fullKnobs()
			k.records = 1 + r.intn(15)
			base = frame(randomStream(r, k), defaultFrame())
		}
		m := mutate(r, base)
		if r.chance(30) {
			m = mutate(r, m)
		}
		if r.chance(5) {
			m = r.bytes(r.intn(64))
		}
		e := entries[r.intn(len(entries))]
		cs.Cases = append(cs.Cases, decCase(e, "011", "-", "-", m))
	}
	return cs
}
