package main

import (
	"go/ast"
	"go/parser"
	"go/token"
	"os"
	"path/filepath"
	"sort"
	"strings"
)

// writtenGlobals: package-level variables of package fit (and dyncrc16) that some function
// reachable from the public decode/encode entry points assigns, increments, takes the address of,
// or calls a method on.  Syntactic analysis with the parser's own scope resolution (no type
// checker): names are resolved per package by ast.NewPackage.
func writtenGlobals(dir string, entries []string) ([]string, error) {
	fset := token.NewFileSet()
	pkgs, err := parser.ParseDir(fset, dir, func(fi os.FileInfo) bool {
		n := fi.Name()
		return !strings.HasSuffix(n, "_test.go") && !strings.HasPrefix(n, "verif_") && n != "fuzz.go" && n != "tools.go"
	}, 0)
	if err != nil {
		return nil, err
	}
	var files map[string]*ast.File
	for name, p := range pkgs {
		if name == "fit" || name == "dyncrc16" {
			files = p.Files
		}
	}
	if files == nil {
		return nil, nil
	}
	// package-level variables
	globals := map[string]bool{}
	for _, f := range files {
		for _, d := range f.Decls {
			gd, ok := d.(*ast.GenDecl)
			if !ok || gd.Tok != token.VAR {
				continue
			}
			for _, s := range gd.Specs {
				for _, n := range s.(*ast.ValueSpec).Names {
					if n.Name != "_" {
						globals[n.Name] = true
					}
				}
			}
		}
	}
	// function bodies (methods keyed by bare name: interface dispatch is over-approximated)
	type fn struct {
		body   *ast.BlockStmt
		params map[string]bool
		recv   string // receiver name of a method with a pointer receiver ("" otherwise)
		method bool
	}
	funcs := map[string][]fn{}
	for _, f := range files {
		for _, d := range f.Decls {
			fd, ok := d.(*ast.FuncDecl)
			if !ok || fd.Body == nil {
				continue
			}
			f0 := fn{body: fd.Body}
			if fd.Recv != nil && len(fd.Recv.List) == 1 {
				f0.method = true
				if _, ptr := fd.Recv.List[0].Type.(*ast.StarExpr); ptr && len(fd.Recv.List[0].Names) == 1 {
					f0.recv = fd.Recv.List[0].Names[0].Name
				}
			}
			funcs[fd.Name.Name] = append(funcs[fd.Name.Name], f0)
		}
		// function literals in package-level variable initialisers (e.g. newMesgFuncs)
		for _, d := range f.Decls {
			gd, ok := d.(*ast.GenDecl)
			if !ok || gd.Tok != token.VAR {
				continue
			}
			for _, s := range gd.Specs {
				vs := s.(*ast.ValueSpec)
				for i, v := range vs.Values {
					name := "_"
					if i < len(vs.Names) {
						name = vs.Names[i].Name
					}
					ast.Inspect(v, func(n ast.Node) bool {
						if fl, ok := n.(*ast.FuncLit); ok {
							funcs["var:"+name] = append(funcs["var:"+name], fn{body: fl.Body})
						}
						return true
					})
				}
			}
		}
	}
	// locally declared names shadow globals: collect per function
	localNames := func(b *ast.BlockStmt) map[string]bool {
		loc := map[string]bool{}
		ast.Inspect(b, func(n ast.Node) bool {
			switch x := n.(type) {
			case *ast.AssignStmt:
				if x.Tok == token.DEFINE {
					for _, l := range x.Lhs {
						if id, ok := l.(*ast.Ident); ok {
							loc[id.Name] = true
						}
					}
				}
			case *ast.ValueSpec:
				for _, id := range x.Names {
					loc[id.Name] = true
				}
			case *ast.RangeStmt:
				if x.Tok == token.DEFINE {
					if id, ok := x.Key.(*ast.Ident); ok {
						loc[id.Name] = true
					}
					if id, ok := x.Value.(*ast.Ident); ok {
						loc[id.Name] = true
					}
				}
			}
			return true
		})
		return loc
	}
	// rootIdent: the identifier an addressable expression is rooted at (x, x.f, x[i], *x, (x))
	rootIdent := func(e ast.Expr) (string, bool) {
		for {
			switch x := e.(type) {
			case *ast.Ident:
				return x.Name, true
			case *ast.SelectorExpr:
				e = x.X
			case *ast.IndexExpr:
				e = x.X
			case *ast.StarExpr:
				e = x.X
			case *ast.ParenExpr:
				e = x.X
			default:
				return "", false
			}
		}
	}
	// pointerUses: how a local pointer `name` is used inside `body`: written through (assignment or
	// ++/-- rooted at it), escaping (passed on, returned, stored, re-addressed), or only read (field
	// access, indexing, dereference, calls of methods that themselves only read through their
	// receiver).  Anything but "only read" counts as a possible write.
	var methodWrites func(name string, depth int) bool
	pointerMayWrite := func(body *ast.BlockStmt, name string, depth int) bool {
		bad := false
		var stack []ast.Node
		ast.Inspect(body, func(n ast.Node) bool {
			if n == nil {
				stack = stack[:len(stack)-1]
				return true
			}
			switch x := n.(type) {
			case *ast.AssignStmt:
				for _, l := range x.Lhs {
					if id, ok := l.(*ast.Ident); ok && id.Name == name {
						continue // (re)binding the variable itself is not a write through it
					}
					if r, ok := rootIdent(l); ok && r == name {
						bad = true
					}
				}
			case *ast.IncDecStmt:
				if r, ok := rootIdent(x.X); ok && r == name {
					bad = true
				}
			case *ast.Ident:
				if x.Name == name && len(stack) > 0 {
					switch par := stack[len(stack)-1].(type) {
					case *ast.SelectorExpr:
						if par.X == ast.Expr(x) {
							// field read, or a method call: look at the callee
							if len(stack) > 1 {
								if call, ok := stack[len(stack)-2].(*ast.CallExpr); ok && call.Fun == ast.Expr(par) {
									if methodWrites(par.Sel.Name, depth+1) {
										bad = true
									}
								}
							}
						} else {
							bad = true
						}
					case *ast.IndexExpr:
						if par.X != ast.Expr(x) {
							bad = true
						}
					case *ast.StarExpr, *ast.ParenExpr:
					case *ast.AssignStmt:
						isLhs := false
						for _, l := range par.Lhs {
							if l == ast.Expr(x) {
								isLhs = true
							}
						}
						if !isLhs {
							bad = true // copied into another variable: escapes
						}
					case *ast.BinaryExpr:
						// comparison with nil and the like
					default:
						bad = true // argument, return value, composite literal, &x, ...
					}
				}
			}
			stack = append(stack, n)
			return true
		})
		return bad
	}
	methodSeen := map[string]bool{}
	methodWrites = func(name string, depth int) bool {
		if depth > 6 {
			return true
		}
		key := name
		if methodSeen[key] {
			return false // already being examined (recursion): decided by the outer call
		}
		methodSeen[key] = true
		defer delete(methodSeen, key)
		fs, ok := funcs[name]
		if !ok {
			return true // not a method of this package (or unknown): assume the worst
		}
		for _, f := range fs {
			if !f.method {
				return true
			}
			if f.recv != "" && pointerMayWrite(f.body, f.recv, depth) {
				return true
			}
		}
		return false
	}
	written := map[string]bool{}
	seen := map[string]bool{}
	var visit func(name string)
	visit = func(name string) {
		if seen[name] {
			return
		}
		seen[name] = true
		for _, f := range funcs[name] {
			loc := localNames(f.body)
			isGlobal := func(e ast.Expr) (string, bool) {
				for {
					switch x := e.(type) {
					case *ast.Ident:
						if globals[x.Name] && !loc[x.Name] {
							return x.Name, true
						}
						return "", false
					case *ast.SelectorExpr:
						e = x.X
					case *ast.IndexExpr:
						e = x.X
					case *ast.StarExpr:
						e = x.X
					case *ast.ParenExpr:
						e = x.X
					default:
						return "", false
					}
				}
			}
			// p := &G[...] (or p = &G...) with p a local variable: the address does not count as a write
			// of G by itself; what is done through p decides
			handled := map[ast.Node]bool{}
			ast.Inspect(f.body, func(n ast.Node) bool {
				as, ok := n.(*ast.AssignStmt)
				if !ok || len(as.Lhs) != 1 || len(as.Rhs) != 1 {
					return true
				}
				id, ok := as.Lhs[0].(*ast.Ident)
				if !ok || globals[id.Name] && !loc[id.Name] {
					return true
				}
				ue, ok := as.Rhs[0].(*ast.UnaryExpr)
				if !ok || ue.Op != token.AND {
					return true
				}
				if g, ok := isGlobal(ue.X); ok {
					handled[ue] = true
					if pointerMayWrite(f.body, id.Name, 0) {
						written[g] = true
					}
				}
				return true
			})
			ast.Inspect(f.body, func(n ast.Node) bool {
				switch x := n.(type) {
				case *ast.AssignStmt:
					if x.Tok != token.DEFINE {
						for _, l := range x.Lhs {
							if g, ok := isGlobal(l); ok {
								written[g] = true
							}
						}
					}
				case *ast.IncDecStmt:
					if g, ok := isGlobal(x.X); ok {
						written[g] = true
					}
				case *ast.UnaryExpr:
					if x.Op == token.AND && !handled[x] {
						if g, ok := isGlobal(x.X); ok {
							written[g] = true
						}
					}
				case *ast.CallExpr:
					switch fx := x.Fun.(type) {
					case *ast.Ident:
						visit(fx.Name)
					case *ast.SelectorExpr:
						// method call on a package-level variable (may mutate through a pointer receiver)
						if id, ok := fx.X.(*ast.Ident); ok && globals[id.Name] && !loc[id.Name] {
							if _, isMethodOfPkg := funcs[fx.Sel.Name]; isMethodOfPkg || true {
								// reading helpers on immutable tables are not writes; flag only non-table receivers
								if !strings.HasPrefix(id.Name, "_") && id.Name != "le" && id.Name != "be" && id.Name != "timeBase" {
									written[id.Name] = true
								}
							}
						}
						visit(fx.Sel.Name)
					}
				case *ast.Ident:
					// a reference to a package-level variable holding function literals
					if globals[x.Name] && !loc[x.Name] {
						visit("var:" + x.Name)
					}
				}
				return true
			})
		}
	}
	for _, e := range entries {
		visit(e)
	}
	var res []string
	for g := range written {
		res = append(res, g)
	}
	sort.Strings(res)
	return res, nil
}

func repoWrittenGlobals() []string {
	entries := []string{"Decode", "DecodeChained", "CheckIntegrity", "DecodeHeader", "DecodeHeaderAndFileID", "Encode"}
	a, _ := writtenGlobals("/repo", entries)
	b, _ := writtenGlobals(filepath.Join("/repo", "dyncrc16"), []string{"New", "Checksum", "Write", "Sum16", "Reset", "Sum"})
	for _, x := range b {
		a = append(a, "dyncrc16."+x)
	}
	return a
}
