package main

import (
	"fmt"
	"go/ast"
	"go/parser"
	"go/token"
	"os"
	"path/filepath"
	"sort"
	"strings"
)

// writtenGlobals: package-level variables of package fit (and dyncrc16) that some function
// reachable from the public decode/encode entry points assigns, increments, takes the address of,
// or calls a method on.  Syntactic analysis with the parser's own scope resolution (no type
// checker): names are resolved per package by ast.NewPackage.
func writtenGlobals(dir string, entries []string) ([]string, error) {
	fset := token.NewFileSet()
	pkgs, err := parser.ParseDir(fset, dir, func(fi os.FileInfo) bool {
		n := fi.Name()
		return !strings.HasSuffix(n, "_test.go") && !strings.HasPrefix(n, "verif_") && n != "fuzz.go" && n != "tools.go"
	}, 0)
	if err != nil {
		return nil, err
	}
	var files map[string]*ast.File
	for name, p := range pkgs {
		if name == "fit" || name == "dyncrc16" {
			files = p.Files
		}
	}
	if files == nil {
		return nil, nil
	}
	// package-level variables; those of type sync.Once
	globals := map[string]bool{}
	onceVars := map[string]bool{}
	for _, f := range files {
		for _, d := range f.Decls {
			gd, ok := d.(*ast.GenDecl)
			if !ok || gd.Tok != token.VAR {
				continue
			}
			for _, s := range gd.Specs {
				vs := s.(*ast.ValueSpec)
				isOnce := false
				if se, ok := vs.Type.(*ast.SelectorExpr); ok && se.Sel.Name == "Once" {
					if x, ok := se.X.(*ast.Ident); ok && x.Name == "sync" {
						isOnce = true
					}
				}
				for _, n := range vs.Names {
					if isOnce {
						onceVars[n.Name] = true
					}
				}
				for _, n := range s.(*ast.ValueSpec).Names {
					if n.Name != "_" {
						globals[n.Name] = true
					}
				}
			}
		}
	}
	typeNames := map[string]bool{}
	for _, f := range files {
		for _, d := range f.Decls {
			if gd, ok := d.(*ast.GenDecl); ok && gd.Tok == token.TYPE {
				for _, s := range gd.Specs {
					typeNames[s.(*ast.TypeSpec).Name.Name] = true
				}
			}
		}
	}
	// isConv: T(x) / (*T)(x) with T a type of the package: a conversion, the same pointer
	isConv := func(c *ast.CallExpr) bool {
		if len(c.Args) != 1 {
			return false
		}
		fun := c.Fun
		for {
			if p, ok := fun.(*ast.ParenExpr); ok {
				fun = p.X
				continue
			}
			if st, ok := fun.(*ast.StarExpr); ok {
				fun = st.X
				continue
			}
			break
		}
		id, ok := fun.(*ast.Ident)
		return ok && typeNames[id.Name]
	}
	stripConv := func(e ast.Expr) ast.Expr {
		for {
			switch x := e.(type) {
			case *ast.ParenExpr:
				e = x.X
				continue
			case *ast.CallExpr:
				if isConv(x) {
					e = x.Args[0]
					continue
				}
			}
			return e
		}
	}
	// function bodies (methods keyed by bare name: interface dispatch is over-approximated)
	type fn struct {
		body   *ast.BlockStmt
		params map[string]bool
		recv   string // receiver name of a method with a pointer receiver ("" otherwise)
		rname  string // receiver name, pointer or value
		method bool
		plist  []string // parameter names in order ("" for unnamed / blank); nil if variadic
	}
	funcs := map[string][]fn{}
	for _, f := range files {
		for _, d := range f.Decls {
			fd, ok := d.(*ast.FuncDecl)
			if !ok || fd.Body == nil {
				continue
			}
			f0 := fn{body: fd.Body}
			if fd.Type.Params != nil {
				variadic := false
				for _, fl := range fd.Type.Params.List {
					if _, ok := fl.Type.(*ast.Ellipsis); ok {
						variadic = true
					}
					if len(fl.Names) == 0 {
						f0.plist = append(f0.plist, "")
					}
					for _, n := range fl.Names {
						f0.plist = append(f0.plist, n.Name)
					}
				}
				if variadic {
					f0.plist = nil
				} else if f0.plist == nil {
					f0.plist = []string{}
				}
			} else {
				f0.plist = []string{}
			}
			if fd.Recv != nil && len(fd.Recv.List) == 1 {
				f0.method = true
				if len(fd.Recv.List[0].Names) == 1 {
					f0.rname = fd.Recv.List[0].Names[0].Name
				}
				if _, ptr := fd.Recv.List[0].Type.(*ast.StarExpr); ptr && len(fd.Recv.List[0].Names) == 1 {
					f0.recv = fd.Recv.List[0].Names[0].Name
				}
			}
			funcs[fd.Name.Name] = append(funcs[fd.Name.Name], f0)
		}
		// function literals in package-level variable initialisers (e.g. newMesgFuncs)
		for _, d := range f.Decls {
			gd, ok := d.(*ast.GenDecl)
			if !ok || gd.Tok != token.VAR {
				continue
			}
			for _, s := range gd.Specs {
				vs := s.(*ast.ValueSpec)
				for i, v := range vs.Values {
					name := "_"
					if i < len(vs.Names) {
						name = vs.Names[i].Name
					}
					ast.Inspect(v, func(n ast.Node) bool {
						if fl, ok := n.(*ast.FuncLit); ok {
							funcs["var:"+name] = append(funcs["var:"+name], fn{body: fl.Body})
						}
						return true
					})
				}
			}
		}
	}
	// struct fields of function type: `p.f(x)` on such a field reads the field and calls the value;
	// it is not a method that could write through p
	funcFields := map[string]bool{}
	for _, f := range files {
		ast.Inspect(f, func(n ast.Node) bool {
			if st, ok := n.(*ast.StructType); ok && st.Fields != nil {
				for _, fl := range st.Fields.List {
					if _, isFn := fl.Type.(*ast.FuncType); isFn {
						for _, nm := range fl.Names {
							funcFields[nm.Name] = true
						}
					}
				}
			}
			return true
		})
	}
	// locally declared names shadow globals: collect per function
	localNames := func(b *ast.BlockStmt) map[string]bool {
		loc := map[string]bool{}
		ast.Inspect(b, func(n ast.Node) bool {
			switch x := n.(type) {
			case *ast.AssignStmt:
				if x.Tok == token.DEFINE {
					for _, l := range x.Lhs {
						if id, ok := l.(*ast.Ident); ok {
							loc[id.Name] = true
						}
					}
				}
			case *ast.ValueSpec:
				for _, id := range x.Names {
					loc[id.Name] = true
				}
			case *ast.RangeStmt:
				if x.Tok == token.DEFINE {
					if id, ok := x.Key.(*ast.Ident); ok {
						loc[id.Name] = true
					}
					if id, ok := x.Value.(*ast.Ident); ok {
						loc[id.Name] = true
					}
				}
			}
			return true
		})
		return loc
	}
	// rootIdent: the identifier an addressable expression is rooted at (x, x.f, x[i], *x, (x))
	rootIdent := func(e ast.Expr) (string, bool) {
		for {
			switch x := e.(type) {
			case *ast.Ident:
				return x.Name, true
			case *ast.SelectorExpr:
				e = x.X
			case *ast.IndexExpr:
				e = x.X
			case *ast.StarExpr:
				e = x.X
			case *ast.ParenExpr:
				e = x.X
			default:
				return "", false
			}
		}
	}
	// Pointer uses. A "pointer expression" is a local variable holding the address of (part of) a
	// package-level variable, a struct field holding one, `&G[...]` itself, or a call of a function
	// that returns one. classify looks at the syntactic context of one occurrence and answers whether
	// something may be written through it or whether it escapes to where this analysis does not follow
	// (true), or whether it is only read there (false): field access, indexing, dereference into a copy,
	// comparison, iteration, calls of methods / functions of the package that themselves only read
	// through their receiver / parameter, copies into other locals or struct fields that are in turn
	// only read, and (allowReturn) being returned from a function whose callers are examined instead.
	var methodWrites func(name string, depth int) bool
	var paramMayWrite func(name string, i int, depth int) bool
	var fieldMayWrite func(field string, depth int) bool
	var pointerMayWrite func(body *ast.BlockStmt, name string, depth int) bool
	allowReturn := false
	classify := func(x ast.Expr, stack []ast.Node, body *ast.BlockStmt, loc map[string]bool, depth int) bool {
		if depth > 6 {
			return true
		}
		cur := x
		deref := false // a value copied out of the pointee, no longer the pointer
		elem := false  // an element / field of the pointee (addressable)
		for i := len(stack) - 1; i >= 0; i-- {
			switch par := stack[i].(type) {
			case *ast.ParenExpr:
				cur = par
				continue
			case *ast.StarExpr:
				cur = par
				deref = true
				continue
			case *ast.SelectorExpr:
				if par.Sel == cur {
					return false // the name of a field that happens to be spelled like the variable
				}
				if par.X != cur {
					return true
				}
				if i >= 1 {
					if call, ok := stack[i-1].(*ast.CallExpr); ok && call.Fun == ast.Expr(par) {
						if elem || deref {
							return true // method of an element's type: may write the element
						}
						if _, isMethod := funcs[par.Sel.Name]; !isMethod && funcFields[par.Sel.Name] {
							return false // a function value stored in a field: the call does not write through x
						}
						return methodWrites(par.Sel.Name, depth+1)
					}
				}
				cur = par
				elem = true
				continue
			case *ast.IndexExpr:
				if par.X != cur {
					return deref || elem // used as an index: a read
				}
				cur = par
				elem = true
				continue
			case *ast.SliceExpr:
				return true // a slice of the pointee shares its memory
			case *ast.UnaryExpr:
				return par.Op == token.AND // the address of an element
			case *ast.CallExpr:
				if !deref && !elem && par.Fun != cur && isConv(par) {
					cur = par
					continue
				}
				if par.Fun == cur || deref || elem {
					// the value of an element / field is passed: a copy (of the element)
					return false
				}
				if id, ok := par.Fun.(*ast.Ident); ok && (id.Name == "len" || id.Name == "cap") {
					if _, user := funcs[id.Name]; !user {
						return false // the built-in len / cap of the pointee: a read
					}
				}
				cname := ""
				switch fx := par.Fun.(type) {
				case *ast.Ident:
					cname = fx.Name
				case *ast.SelectorExpr:
					cname = fx.Sel.Name
				}
				if cname == "" {
					return true
				}
				for ai, a := range par.Args {
					if a == cur {
						return paramMayWrite(cname, ai, depth+1)
					}
				}
				return true
			case *ast.AssignStmt:
				for _, l := range par.Lhs {
					if l == cur {
						return false // (re)binding, or the write-through check of the caller saw it
					}
				}
				if deref || elem {
					return false // a copy of the value
				}
				if len(par.Lhs) != len(par.Rhs) {
					return true
				}
				for j, r := range par.Rhs {
					if r != cur {
						continue
					}
					switch l := par.Lhs[j].(type) {
					case *ast.Ident:
						if l.Name == "_" {
							return false
						}
						if globals[l.Name] && !loc[l.Name] {
							return true
						}
						return pointerMayWrite(body, l.Name, depth+1)
					case *ast.SelectorExpr:
						if r, ok := rootIdent(l.X); ok && globals[r] && !loc[r] {
							return true
						}
						return fieldMayWrite(l.Sel.Name, depth+1)
					}
					return true
				}
				return true
			case *ast.ValueSpec:
				for _, nm := range par.Names {
					if ast.Expr(nm) == cur {
						return false
					}
				}
				if deref || elem {
					return false
				}
				if len(par.Names) != len(par.Values) {
					return true
				}
				for j, v := range par.Values {
					if v == cur {
						if par.Names[j].Name == "_" {
							return false
						}
						return pointerMayWrite(body, par.Names[j].Name, depth+1)
					}
				}
				return true
			case *ast.KeyValueExpr:
				if par.Key == cur {
					return false
				}
				if deref || elem {
					return false
				}
				// T{F: p}: stored in field F of a struct
				if k, ok := par.Key.(*ast.Ident); ok && !loc[k.Name] && !globals[k.Name] && i >= 1 {
					if cl, ok := stack[i-1].(*ast.CompositeLit); ok {
						switch cl.Type.(type) {
						case *ast.Ident, *ast.SelectorExpr:
							return fieldMayWrite(k.Name, depth+1)
						}
					}
				}
				return true
			case *ast.BinaryExpr:
				return false // comparison
			case *ast.ReturnStmt:
				if deref || elem {
					return false
				}
				return !allowReturn
			case *ast.RangeStmt:
				if par.X == cur || par.Key == cur || par.Value == cur {
					return false // iteration copies the elements
				}
				return true
			case *ast.IfStmt, *ast.ExprStmt, *ast.SwitchStmt, *ast.CaseClause, *ast.BlockStmt:
				return false
			default:
				// a value read out of the pointee used in some other expression is a copy; the pointer
				// itself anywhere else escapes
				return !(deref || elem)
			}
		}
		return true
	}
	// throughPtr: an assignment target that designates (part of) what a pointer expression points to
	throughPtr := func(l ast.Expr, isPtr func(ast.Expr) bool) bool {
		e := l
		for {
			switch x := e.(type) {
			case *ast.SelectorExpr:
				e = x.X
			case *ast.IndexExpr:
				e = x.X
			case *ast.StarExpr:
				e = x.X
			case *ast.ParenExpr:
				e = x.X
			default:
				return false
			}
			if isPtr(e) {
				return true
			}
		}
	}
	ptrUse := func(body *ast.BlockStmt, isPtr func(ast.Expr) bool, depth int) bool {
		if depth > 6 {
			return true
		}
		loc := localNames(body)
		bad := false
		var stack []ast.Node
		ast.Inspect(body, func(n ast.Node) bool {
			if n == nil {
				stack = stack[:len(stack)-1]
				return true
			}
			if bad {
				stack = append(stack, n)
				return true
			}
			switch x := n.(type) {
			case *ast.AssignStmt:
				for _, l := range x.Lhs {
					if throughPtr(l, isPtr) {
						bad = true
					}
				}
			case *ast.IncDecStmt:
				if throughPtr(x.X, isPtr) {
					bad = true
				}
			}
			if e, ok := n.(ast.Expr); ok && isPtr(e) {
				st := make([]ast.Node, len(stack))
				copy(st, stack)
				if classify(e, st, body, loc, depth) {
					bad = true
				}
			}
			stack = append(stack, n)
			return true
		})
		return bad
	}
	ptrSeen := map[string]bool{}
	pointerMayWrite = func(body *ast.BlockStmt, name string, depth int) bool {
		key := fmt.Sprintf("%p#%s", body, name)
		if ptrSeen[key] {
			return false // already being examined (p = q; q = p): decided by the outer call
		}
		ptrSeen[key] = true
		defer delete(ptrSeen, key)
		return ptrUse(body, func(e ast.Expr) bool {
			id, ok := e.(*ast.Ident)
			return ok && id.Name == name
		}, depth)
	}
	fieldSeen := map[string]bool{}
	fieldMayWrite = func(field string, depth int) bool {
		if depth > 6 {
			return true
		}
		if fieldSeen[field] {
			return false
		}
		fieldSeen[field] = true
		defer delete(fieldSeen, field)
		saved := allowReturn
		allowReturn = false
		defer func() { allowReturn = saved }()
		for _, fs := range funcs {
			for _, f := range fs {
				if ptrUse(f.body, func(e ast.Expr) bool {
					se, ok := e.(*ast.SelectorExpr)
					return ok && se.Sel.Name == field
				}, depth) {
					return true
				}
			}
		}
		return false
	}
	paramSeen := map[string]bool{}
	paramMayWrite = func(name string, i int, depth int) bool {
		if depth > 6 {
			return true
		}
		fs, ok := funcs[name]
		if !ok || len(fs) != 1 || fs[0].plist == nil || i >= len(fs[0].plist) {
			return true // unknown callee (another package, a function value), several candidates, variadic
		}
		if fs[0].plist[i] == "" || fs[0].plist[i] == "_" {
			return false // unnamed or blank parameter: never used
		}
		key := name + "#" + fs[0].plist[i]
		if paramSeen[key] {
			return false
		}
		paramSeen[key] = true
		defer delete(paramSeen, key)
		saved := allowReturn
		allowReturn = false
		r := pointerMayWrite(fs[0].body, fs[0].plist[i], depth)
		allowReturn = saved
		return r
	}
	methodSeen := map[string]bool{}
	methodWrites = func(name string, depth int) bool {
		if depth > 6 {
			return true
		}
		key := name
		if methodSeen[key] {
			return false // already being examined (recursion): decided by the outer call
		}
		methodSeen[key] = true
		defer delete(methodSeen, key)
		fs, ok := funcs[name]
		if !ok {
			return true // not a method of this package (or unknown): assume the worst
		}
		for _, f := range fs {
			if !f.method {
				return true
			}
			if f.recv != "" && pointerMayWrite(f.body, f.recv, depth) {
				return true
			}
		}
		return false
	}
	// returnsPtr: plain functions that return a pointer into one package-level variable (`return &G[i]`,
	// or a local `p := &G[i]` that is only read and returned). A call of such a function is treated at
	// the call site like `&G[...]` itself.
	isGlobalExpr := func(e ast.Expr, loc map[string]bool) (string, bool) {
		r, ok := rootIdent(e)
		if ok && globals[r] && !loc[r] {
			return r, true
		}
		return "", false
	}
	// returnsPtr[f][i] = the package-level variables result i of plain function f may point into
	returnsPtr := map[string]map[int]map[string]bool{}
	// pointsInto: the package-level variables a pointer-valued expression designates directly:
	// &G[...], T(&G[...]), f(...) with f summarised (single pointer result)
	pointsInto := func(e ast.Expr, loc map[string]bool) map[string]bool {
		e = stripConv(e)
		if ue, ok := e.(*ast.UnaryExpr); ok && ue.Op == token.AND {
			if g, ok := isGlobalExpr(ue.X, loc); ok {
				return map[string]bool{g: true}
			}
		}
		if c, ok := e.(*ast.CallExpr); ok {
			if fid, ok := c.Fun.(*ast.Ident); ok && !loc[fid.Name] {
				if rp, ok := returnsPtr[fid.Name]; ok && len(rp) == 1 && rp[0] != nil {
					return rp[0]
				}
			}
		}
		return nil
	}
	for round := 0; round < 4; round++ { // to a fixed point over accessors calling accessors
		changed := false
		for name, fs := range funcs {
			if len(fs) != 1 || fs[0].method || strings.HasPrefix(name, "var:") {
				continue
			}
			f := fs[0]
			loc := localNames(f.body)
			alias := map[string]map[string]bool{}
			ast.Inspect(f.body, func(n ast.Node) bool {
				if as, ok := n.(*ast.AssignStmt); ok && len(as.Lhs) == 1 && len(as.Rhs) == 1 {
					if id, ok := as.Lhs[0].(*ast.Ident); ok && loc[id.Name] {
						for g := range pointsInto(as.Rhs[0], loc) {
							if alias[id.Name] == nil {
								alias[id.Name] = map[string]bool{}
							}
							alias[id.Name][g] = true
						}
					}
				}
				return true
			})
			ast.Inspect(f.body, func(n ast.Node) bool {
				if _, isLit := n.(*ast.FuncLit); isLit {
					return false
				}
				rs, ok := n.(*ast.ReturnStmt)
				if !ok {
					return true
				}
				for i, e := range rs.Results {
					add := func(g string) {
						if returnsPtr[name] == nil {
							returnsPtr[name] = map[int]map[string]bool{}
						}
						if returnsPtr[name][i] == nil {
							returnsPtr[name][i] = map[string]bool{}
						}
						if !returnsPtr[name][i][g] {
							returnsPtr[name][i][g] = true
							changed = true
						}
					}
					for g := range pointsInto(e, loc) {
						add(g)
					}
					if id, ok := stripConv(e).(*ast.Ident); ok {
						for g := range alias[id.Name] {
							add(g)
						}
					}
				}
				return true
			})
		}
		if !changed {
			break
		}
	}
	returnsInto := func(name, g string) bool {
		for _, set := range returnsPtr[name] {
			if set[g] {
				return true
			}
		}
		return false
	}
	written := map[string]bool{}
	seen := map[string]bool{}
	var visit func(name string)
	visit = func(name string) {
		if seen[name] {
			return
		}
		seen[name] = true
		for _, f := range funcs[name] {
			loc := localNames(f.body)
			// `once.Do(func() { ... })` on a package-level sync.Once, the literal using nothing of the
			// enclosing call (no parameter, no local): what it builds is built one time, from package-level
			// data only, and published by Do's synchronisation — not a write that a later call or another
			// goroutine can observe half-done or that depends on the history of calls
			onceLits := map[ast.Node]bool{}
			ast.Inspect(f.body, func(n ast.Node) bool {
				call, ok := n.(*ast.CallExpr)
				if !ok || len(call.Args) != 1 {
					return true
				}
				se, ok := call.Fun.(*ast.SelectorExpr)
				if !ok || se.Sel.Name != "Do" {
					return true
				}
				id, ok := se.X.(*ast.Ident)
				if !ok || !onceVars[id.Name] || loc[id.Name] {
					return true
				}
				fl, ok := call.Args[0].(*ast.FuncLit)
				if !ok {
					return true
				}
				own := localNames(fl.Body)
				outer := map[string]bool{}
				for k := range loc {
					if !own[k] {
						outer[k] = true
					}
				}
				for _, pn := range f.plist {
					if pn != "" && pn != "_" && !own[pn] {
						outer[pn] = true
					}
				}
				if f.rname != "" && f.rname != "_" && !own[f.rname] {
					outer[f.rname] = true
				}
				if f.plist == nil {
					return true // variadic enclosing function: parameter names unknown here
				}
				closed := true
				ast.Inspect(fl.Body, func(m ast.Node) bool {
					if x, ok := m.(*ast.Ident); ok && outer[x.Name] {
						closed = false
					}
					return true
				})
				if closed {
					onceLits[fl] = true
					onceLits[call] = true
				}
				return true
			})
			isGlobal := func(e ast.Expr) (string, bool) {
				for {
					switch x := e.(type) {
					case *ast.Ident:
						if globals[x.Name] && !loc[x.Name] {
							return x.Name, true
						}
						return "", false
					case *ast.SelectorExpr:
						e = x.X
					case *ast.IndexExpr:
						e = x.X
					case *ast.StarExpr:
						e = x.X
					case *ast.ParenExpr:
						e = x.X
					default:
						return "", false
					}
				}
			}
			// `&G[...]` and calls of functions returning such pointers are pointer expressions: their
			// context decides (classify); the address alone is not a write of G
			handled := map[ast.Node]bool{}
			{
				var stack []ast.Node
				ast.Inspect(f.body, func(n ast.Node) bool {
					if n == nil {
						stack = stack[:len(stack)-1]
						return true
					}
					if onceLits[n] {
						return false
					}
					var gs map[string]bool
					switch x := n.(type) {
					case *ast.UnaryExpr:
						if x.Op == token.AND {
							if g, ok := isGlobal(x.X); ok {
								gs = map[string]bool{g: true}
							}
						}
					case *ast.CallExpr:
						if fid, ok := x.Fun.(*ast.Ident); ok && !loc[fid.Name] {
							if rp, ok := returnsPtr[fid.Name]; ok {
								if len(rp) == 1 && rp[0] != nil && len(stack) > 0 {
									if as, isAs := stack[len(stack)-1].(*ast.AssignStmt); !isAs || len(as.Lhs) == len(as.Rhs) {
										gs = rp[0]
									}
								}
								// x, p, y := f(...): each pointer result bound to a local variable
								if as, isAs := stack[len(stack)-1].(*ast.AssignStmt); gs == nil && isAs && len(as.Rhs) == 1 && len(as.Lhs) > 1 {
									okAll := true
									for i := range rp {
										if i >= len(as.Lhs) {
											okAll = false
											continue
										}
										id, isIdent := as.Lhs[i].(*ast.Ident)
										if !isIdent || (globals[id.Name] && !loc[id.Name]) {
											okAll = false
										}
									}
									if okAll {
										handled[x] = true
										for i, set := range rp {
											id := as.Lhs[i].(*ast.Ident)
											if id.Name == "_" {
												continue
											}
											allowReturn = false
											for g := range set {
												allowReturn = allowReturn || returnsInto(name, g)
											}
											if pointerMayWrite(f.body, id.Name, 0) {
												for g := range set {
													written[g] = true
												}
											}
											allowReturn = false
										}
									}
								}
							}
						}
					}
					if id, ok := n.(*ast.Ident); ok && !loc[id.Name] && len(stack) > 0 {
						if rp, ok := returnsPtr[id.Name]; ok {
							if call, isCall := stack[len(stack)-1].(*ast.CallExpr); !isCall || call.Fun != ast.Expr(id) {
								// the function used as a value: its callers are not known
								for _, set := range rp {
									for g := range set {
										written[g] = true
									}
								}
							}
						}
					}
					if gs != nil {
						handled[n] = true
						allowReturn = false
						for g := range gs {
							allowReturn = allowReturn || returnsInto(name, g)
						}
						st := make([]ast.Node, len(stack))
						copy(st, stack)
						if classify(n.(ast.Expr), st, f.body, loc, 0) {
							for g := range gs {
								written[g] = true
							}
						}
						allowReturn = false
					}
					stack = append(stack, n)
					return true
				})
			}
			ast.Inspect(f.body, func(n ast.Node) bool {
				if n != nil && onceLits[n] {
					return false
				}
				switch x := n.(type) {
				case *ast.AssignStmt:
					if x.Tok != token.DEFINE {
						for _, l := range x.Lhs {
							if g, ok := isGlobal(l); ok {
								written[g] = true
							}
						}
					}
				case *ast.IncDecStmt:
					if g, ok := isGlobal(x.X); ok {
						written[g] = true
					}
				case *ast.UnaryExpr:
					if x.Op == token.AND && !handled[x] {
						if g, ok := isGlobal(x.X); ok {
							written[g] = true
						}
					}
				case *ast.CallExpr:
					switch fx := x.Fun.(type) {
					case *ast.Ident:
						if rp, ok := returnsPtr[fx.Name]; ok && !handled[x] && !loc[fx.Name] {
							for _, gs := range rp {
								for g := range gs {
									written[g] = true // the pointer is used in a way this analysis does not follow
								}
							}
						}
						visit(fx.Name)
					case *ast.SelectorExpr:
						// method call on a package-level variable (may mutate through a pointer receiver)
						if id, ok := fx.X.(*ast.Ident); ok && globals[id.Name] && !loc[id.Name] {
							// methods of the package that do not write through their receiver (value receivers,
							// or pointer receivers only read) are not writes; reading helpers of other
							// packages on the immutable tables / byte orders / the time base neither
							if !strings.HasPrefix(id.Name, "_") && id.Name != "le" && id.Name != "be" && id.Name != "timeBase" {
								if _, isFnField := funcs[fx.Sel.Name]; !(!isFnField && funcFields[fx.Sel.Name]) && methodWrites(fx.Sel.Name, 1) {
									written[id.Name] = true
								}
							}
						}
						visit(fx.Sel.Name)
					}
				case *ast.Ident:
					// a reference to a package-level variable holding function literals
					if globals[x.Name] && !loc[x.Name] {
						visit("var:" + x.Name)
					}
				}
				return true
			})
		}
	}
	for _, e := range entries {
		visit(e)
	}
	var res []string
	for g := range written {
		res = append(res, g)
	}
	sort.Strings(res)
	return res, nil
}

func repoWrittenGlobals() []string {
	entries := []string{"Decode", "DecodeChained", "CheckIntegrity", "DecodeHeader", "DecodeHeaderAndFileID", "Encode"}
	a, _ := writtenGlobals("/repo", entries)
	b, _ := writtenGlobals(filepath.Join("/repo", "dyncrc16"), []string{"New", "Checksum", "Write", "Sum16", "Reset", "Sum"})
	for _, x := range b {
		a = append(a, "dyncrc16."+x)
	}
	return a
}
