package main

import (
	"bufio"
	"bytes"
	"encoding/hex"
	"errors"
	"fmt"
	"io"
	"os"
	"reflect"
	"strconv"
	"strings"
	"sync"
	"time"

	"github.com/tormoder/fit"
	"verifharness/canon"
)

// ---- instrumented reader ----

var errFault = errors.New("verif: injected read fault")

type schedReader struct {
	data        []byte
	sched       []int
	tick        int
	errWithData bool
	zeroFirst   bool // every delivery of data is preceded by one Read that returns (0, nil): "nothing happened"
	zeroed      bool
	stop        error
	pos         int
	reads       int
}

func (r *schedReader) Read(p []byte) (int, error) {
	r.reads++
	if len(r.data) == 0 {
		r.tick++
		return 0, r.stop
	}
	if len(p) == 0 {
		return 0, nil
	}
	if r.zeroFirst && !r.zeroed {
		r.zeroed = true
		return 0, nil
	}
	r.zeroed = false
	k := len(p)
	if len(r.sched) > 0 {
		c := r.sched[r.tick%len(r.sched)]
		if c < 1 {
			c = 1
		}
		if c < k {
			k = c
		}
	}
	if len(r.data) < k {
		k = len(r.data)
	}
	r.tick++
	copy(p, r.data[:k])
	r.data = r.data[k:]
	r.pos += k
	if r.errWithData && len(r.data) == 0 {
		return k, r.stop
	}
	return k, nil
}

func parseReaderSpec(spec string, data []byte) *schedReader {
	r := &schedReader{data: data, stop: io.EOF}
	if spec == "-" {
		return r
	}
	for _, t := range strings.Split(spec, "+") {
		switch {
		case t == "e":
			r.errWithData = true
		case t == "f":
			r.stop = errFault
		case t == "z":
			r.zeroFirst = true
		case strings.HasPrefix(t, "s:"):
			for _, x := range strings.Split(t[2:], ".") {
				n, _ := strconv.Atoi(x)
				r.sched = append(r.sched, n)
			}
		}
	}
	return r
}

// ---- canonical dumps (must match FitModel/File.lean) ----

func renderHeader(h fit.Header) string {
	return fmt.Sprintf("%d/%d/%d/%d/%s/%d", h.Size, h.ProtocolVersion, h.ProfileVersion, h.DataSize,
		hex.EncodeToString(h.DataType[:]), h.CRC)
}

func renderMsgValue(v reflect.Value) string {
	v = reflect.Indirect(v)
	num, ok := fit.VerifMesgNumOf(v.Type())
	if !ok {
		num = 99999
	}
	return canon.RenderMsg(num, v)
}

func renderContainer(c interface{}) string {
	if c == nil {
		return "none"
	}
	v := reflect.ValueOf(c).Elem()
	parts := make([]string, v.NumField())
	for i := 0; i < v.NumField(); i++ {
		f := v.Field(i)
		switch f.Kind() {
		case reflect.Slice:
			ms := make([]string, f.Len())
			for j := 0; j < f.Len(); j++ {
				e := f.Index(j)
				if e.Kind() == reflect.Ptr && e.IsNil() {
					ms[j] = "nilptr"
				} else {
					ms[j] = renderMsgValue(e)
				}
			}
			parts[i] = "[" + strings.Join(ms, "|") + "]"
		case reflect.Ptr:
			if f.IsNil() {
				parts[i] = "-"
			} else {
				parts[i] = renderMsgValue(f)
			}
		default:
			parts[i] = "?"
		}
	}
	return v.Type().Name() + "{" + strings.Join(parts, "~") + "}"
}

func renderFile(f *fit.File) string {
	if f == nil {
		return "nil"
	}
	var b strings.Builder
	b.WriteString("H" + renderHeader(f.Header))
	b.WriteString(";C" + strconv.Itoa(int(f.CRC)))
	b.WriteString(";I" + canon.RenderMsg(int(fit.MesgNumFileId), reflect.ValueOf(f.FileId)))
	if f.FileCreator == nil {
		b.WriteString(";R-")
	} else {
		b.WriteString(";R" + canon.RenderMsg(int(fit.MesgNumFileCreator), reflect.ValueOf(*f.FileCreator)))
	}
	if f.TimestampCorrelation == nil {
		b.WriteString(";Z-")
	} else {
		b.WriteString(";Z" + canon.RenderMsg(int(fit.MesgNumTimestampCorrelation), reflect.ValueOf(*f.TimestampCorrelation)))
	}
	fds, dids := fit.VerifDevMsgs(f)
	ds := make([]string, len(fds))
	for i, m := range fds {
		ds[i] = canon.RenderMsg(int(fit.MesgNumFieldDescription), reflect.ValueOf(m))
	}
	es := make([]string, len(dids))
	for i, m := range dids {
		es[i] = canon.RenderMsg(int(fit.MesgNumDeveloperDataId), reflect.ValueOf(m))
	}
	b.WriteString(";D[" + strings.Join(ds, "|") + "]")
	b.WriteString(";E[" + strings.Join(es, "|") + "]")
	if f.UnknownMessages == nil {
		b.WriteString(";UMn")
	} else {
		xs := make([]string, len(f.UnknownMessages))
		for i, u := range f.UnknownMessages {
			xs[i] = fmt.Sprintf("%d=%d", u.MesgNum, u.Count)
		}
		b.WriteString(";UM[" + strings.Join(xs, ".") + "]")
	}
	if f.UnknownFields == nil {
		b.WriteString(";UFn")
	} else {
		xs := make([]string, len(f.UnknownFields))
		for i, u := range f.UnknownFields {
			xs[i] = fmt.Sprintf("%d/%d=%d", u.MesgNum, u.FieldNum, u.Count)
		}
		b.WriteString(";UF[" + strings.Join(xs, ".") + "]")
	}
	b.WriteString(";K" + renderContainer(fit.VerifContainer(f)))
	b.WriteString(";A" + accessorAnswers(f))
	return b.String()
}

func parseAccuState(s string) [3]fit.VerifAccu {
	var st [3]fit.VerifAccu
	if s == "-" {
		return st
	}
	for i, part := range strings.Split(s, "/") {
		if i > 2 {
			break
		}
		x := strings.Split(part, ",")
		if len(x) != 4 {
			continue
		}
		p, _ := strconv.Atoi(x[0])
		v, _ := strconv.ParseUint(x[1], 10, 32)
		l, _ := strconv.ParseUint(x[2], 10, 32)
		m, _ := strconv.ParseUint(x[3], 10, 32)
		st[i] = fit.VerifAccu{Present: p == 1, Value: uint32(v), Last: uint32(l), Mask: uint32(m)}
	}
	return st
}

func renderAccuState() string {
	st := fit.VerifAccumulators()
	parts := make([]string, 3)
	for i, a := range st {
		if !a.Present {
			parts[i] = "0,0,0,0"
		} else {
			parts[i] = fmt.Sprintf("1,%d,%d,%d", a.Value, a.Last, a.Mask)
		}
	}
	return strings.Join(parts, "/")
}

type nullLogger struct{}

// the logger formats what it is given (as log.Logger does) and drops the text: String methods of the
// library's internal types run, as they do under a real logger
func (nullLogger) Print(v ...interface{})            { _ = fmt.Sprint(v...) }
func (nullLogger) Printf(f string, v ...interface{}) { _ = fmt.Sprintf(f, v...) }
func (nullLogger) Println(v ...interface{})          { _ = fmt.Sprintln(v...) }

// The option values are built once per process and reused by every call, the way a program (and
// the library's own test table) holds them: an option must not carry state from one call to the next.
var (
	optLogger = fit.WithLogger(nullLogger{})
	optUF     = fit.WithUnknownFields()
	optUM     = fit.WithUnknownMessages()
)

var (
	optStdLogger = fit.WithStdLogger()
	stderrOnce   sync.Once
)

// parseOpts: "LFM" — L: 0 no logger, 1 WithLogger first, 2 WithLogger last, 3 WithStdLogger first,
// 4 WithStdLogger last (the order in which options are given must not matter); F unknown fields;
// M unknown messages.
func parseOpts(s string) []fit.DecodeOption {
	var o []fit.DecodeOption
	l := byte('0')
	if len(s) > 0 {
		l = s[0]
	}
	if l == '3' || l == '4' {
		// the standard logger writes to os.Stderr as it is when the option is applied: silence it
		stderrOnce.Do(func() {
			if f, err := os.OpenFile(os.DevNull, os.O_WRONLY, 0); err == nil {
				os.Stderr = f
			}
		})
	}
	switch l {
	case '1':
		o = append(o, optLogger)
	case '3':
		o = append(o, optStdLogger)
	}
	if len(s) > 1 && s[1] == '1' {
		o = append(o, optUF)
	}
	if len(s) > 2 && s[2] == '1' {
		o = append(o, optUM)
	}
	switch l {
	case '2':
		o = append(o, optLogger)
	case '4':
		o = append(o, optStdLogger)
	}
	return o
}

func tag(err error) string {
	if err == nil {
		return "ok"
	}
	return "err:" + fit.VerifErrClass(err, errFault)
}

// implDec runs one `dec` case against the real code.
func implDec(entry, opts, rspec, accu, hx string) (out string) {
	data, err := hex.DecodeString(hx)
	if err != nil {
		return "bad-hex"
	}
	r := parseReaderSpec(rspec, data)
	fit.VerifSetAccumulators(parseAccuState(accu))
	defer func() {
		if p := recover(); p != nil {
			out = fmt.Sprintf("panic %d %s -", r.pos, renderAccuState())
		}
	}()
	switch entry {
	case "decode":
		f, err := fit.Decode(r, parseOpts(opts)...)
		keep(f)
		return fmt.Sprintf("%s %d %s %s", tag(err), r.pos, renderAccuState(), renderFile(f))
	case "chained":
		fs, err := fit.DecodeChained(r, parseOpts(opts)...)
		parts := make([]string, len(fs))
		for i, f := range fs {
			parts[i] = renderFile(f)
			keep(f)
		}
		d := "none"
		if len(fs) > 0 {
			d = strings.Join(parts, "##")
		}
		return fmt.Sprintf("%s %d %s %s", tag(err), r.pos, renderAccuState(), d)
	case "integ":
		err := fit.CheckIntegrity(r, false)
		return fmt.Sprintf("%s %d %s -", tag(err), r.pos, renderAccuState())
	case "integhdr":
		err := fit.CheckIntegrity(r, true)
		return fmt.Sprintf("%s %d %s -", tag(err), r.pos, renderAccuState())
	case "header":
		h, err := fit.DecodeHeader(r)
		return fmt.Sprintf("%s %d %s %s", tag(err), r.pos, renderAccuState(), renderHeader(h))
	case "headerfid":
		h, fid, err := fit.DecodeHeaderAndFileID(r)
		return fmt.Sprintf("%s %d %s %s;%s", tag(err), r.pos, renderAccuState(), renderHeader(h),
			canon.RenderMsg(int(fit.MesgNumFileId), reflect.ValueOf(fid)))
	}
	return "bad-entry"
}

// Files returned during a history are kept with their dump at return time: a later call must not
// change a File handed out earlier (nothing in it may alias decoder or package state).
type keptFile struct {
	f    *fit.File
	dump string
	call int
}

var (
	keeping  bool
	keptCall int
	kept     []keptFile
)

func keep(f *fit.File) {
	if keeping && f != nil {
		kept = append(kept, keptFile{f, renderFile(f), keptCall})
	}
}

func implLine(line string) string {
	if strings.HasPrefix(line, "hist ") {
		calls := strings.Split(line[5:], "^")
		outs := make([]string, 0, len(calls))
		accu := ""
		keeping, kept = true, nil
		defer func() { keeping, kept = false, nil }()
		for ci, c := range calls {
			keptCall = ci
			toks := strings.Split(c, " ")
			if accu != "" && toks[0] == "dec" && len(toks) >= 5 {
				toks[4] = accu
				c = strings.Join(toks, " ")
			}
			out := implLine1(c)
			if toks[0] == "dec" {
				if o := strings.Split(out, " "); len(o) >= 3 {
					accu = o[2]
				}
			}
			outs = append(outs, out)
		}
		for _, k := range kept {
			if now := guarded(func() string { return renderFile(k.f) }); now != k.dump && k.call < len(outs) {
				outs[k.call] += " CHANGED-AFTER-RETURN"
			}
		}
		return strings.Join(outs, "^")
	}
	return implLine1(line)
}

func implLine1(line string) string {
	f := strings.Split(line, " ")
	switch f[0] {
	case "dec":
		if len(f) == 5 {
			return implDec(f[1], f[2], f[3], f[4], "")
		}
		if len(f) == 6 {
			return implDec(f[1], f[2], f[3], f[4], f[5])
		}
	}
	if fn, ok := extraOps[f[0]]; ok {
		return guarded(func() string { return fn(f[1:]) })
	}
	return "bad-op"
}

// guarded: a panic of the library inside an op is a result ("panic:<value>"), not the end of the worker.
func guarded(fn func() string) (res string) {
	defer func() {
		if r := recover(); r != nil {
			res = "panic:" + strings.ReplaceAll(strings.ReplaceAll(fmt.Sprint(r), " ", "_"), "\n", "_")
		}
	}()
	return fn()
}

var extraOps = map[string]func([]string) string{
	// ops answered by the model alone (classification against a specification the code does not contain)
	"devs": func([]string) string { return "model-only" },
}

// cmdWorker: read case lines on stdin, write one result line per case.
// A case that does not finish in time prints "hang" and ends the process
// (the runner restarts a worker after it).
func cmdWorker(args []string) int {
	timeout := 10 * time.Second
	in := bufio.NewReaderSize(os.Stdin, 1<<20)
	out := bufio.NewWriterSize(os.Stdout, 1<<20)
	defer out.Flush()
	for {
		line, err := in.ReadString('\n')
		line = strings.TrimRight(line, "\r\n")
		if line != "" {
			done := make(chan string, 1)
			go func() { done <- implLine(line) }()
			select {
			case res := <-done:
				out.WriteString(res)
				out.WriteByte('\n')
			case <-time.After(timeout):
				out.WriteString("hang\n")
				out.Flush()
				return 3
			}
		}
		if err != nil {
			break
		}
	}
	return 0
}

var _ = bytes.NewReader
