// Command harness: fact extraction, correspondence generators and real-code drivers.
package main

import (
	"fmt"
	"os"
)

// realStderr is the process's standard error as it was at start-up: the cases that apply
// fit.WithStdLogger point os.Stderr at the null device (impl.go, parseOpts).
var realStderr = os.Stderr

func main() {
	if len(os.Args) < 2 {
		fmt.Fprintln(realStderr, "usage: harness <facts|run|...> ...")
		os.Exit(2)
	}
	switch os.Args[1] {
	case "facts":
		os.Exit(cmdFacts(os.Args[2:]))
	case "worker":
		os.Exit(cmdWorker(os.Args[2:]))
	case "conc":
		os.Exit(cmdConc(os.Args[2:]))
	case "run":
		os.Exit(cmdRun(os.Args[2:]))
	case "try":
		os.Exit(cmdTry(os.Args[2:]))
	default:
		fmt.Fprintln(realStderr, "unknown subcommand", os.Args[1])
		os.Exit(2)
	}
}

func cmdTry(args []string) int {
	what := "corpus"
	if len(args) > 0 {
		what = args[0]
	}
	r := newRng(seedFromEnv())
	var sets []CaseSet
	switch what {
	case "corpus":
		sets = append(sets, genCorpusAllEntries(200000))
	case "single":
		sets = append(sets, genSingleField(r, 16))
	case "random":
		sets = append(sets, genRandomStreams(r, "random-streams", 3000, fullKnobs(), ""))
	case "malformed":
		sets = append(sets, genMalformed(r, 5000))
	case "enc":
		sets = append(sets, genFiles(r, "files", "enc", 1500, fileKnobs{maxGroup: 6, fieldPct: 30}))
	case "rt":
		sets = append(sets, genFiles(r, "files-in-domain", "rt", 1500, fileKnobs{inDomain: true, maxGroup: 6, fieldPct: 30}))
	case "alone":
		sets = append(sets, genEveryFieldAlone(r, "rt", fileKnobs{inDomain: true}))
	case "wire":
		sets = append(sets, genWire(r, 3000))
	case "ts":
		sets = append(sets, genTimestamps(r, 2000))
	case "comp":
		sets = append(sets, genComponents(r, 2000))
	case "chunk":
		sets = append(sets, genChunked(r, 20, 20000, 12))
	case "chains":
		sets = append(sets, genChains(r, 1500, 20000))
	case "cuts":
		sets = append(sets, genCutsFaults(r, 10, 400, 1))
	case "route":
		sets = append(sets, genRouting(r, 300))
	}
	st := correspond(sets)
	fmt.Printf("evaluations=%d distinct=%d mismatches=%d hangs=%d outcomes=%v\n", st.Evaluations, st.Distinct, st.NMismatch, st.Hangs, st.Outcomes)
	for i, m := range st.Mismatches {
		if i >= 4 {
			break
		}
		c := m.Case
		if len(c) > 700 {
			c = c[:700]
		}
		fmt.Printf("MISMATCH case=%s\n  impl =%.400s\n  model=%.400s\n  where=%s\n", c, m.Impl, m.Model, m.Where)
	}
	return 0
}

func seedFromEnv() uint64 {
	var s uint64 = 1
	if v := os.Getenv("VERIF_SEED"); v != "" {
		fmt.Sscan(v, &s)
	}
	return s
}
