// Command harness: fact extraction, correspondence generators and real-code drivers.
package main

import (
	"fmt"
	"os"
)

func main() {
	if len(os.Args) < 2 {
		fmt.Fprintln(os.Stderr, "usage: harness <facts|run|...> ...")
		os.Exit(2)
	}
	switch os.Args[1] {
	case "facts":
		os.Exit(cmdFacts(os.Args[2:]))
	case "worker":
		os.Exit(cmdWorker(os.Args[2:]))
	case "try":
		os.Exit(cmdTry(os.Args[2:]))
	default:
		fmt.Fprintln(os.Stderr, "unknown subcommand", os.Args[1])
		os.Exit(2)
	}
}

func cmdTry(args []string) int {
	max := 20000000
	st := correspond([]CaseSet{genCorpusAllEntries(max)})
	fmt.Printf("evaluations=%d distinct=%d mismatches=%d hangs=%d outcomes=%v\n", st.Evaluations, st.Distinct, st.NMismatch, st.Hangs, st.Outcomes)
	for i, m := range st.Mismatches {
		if i >= 5 {
			break
		}
		c := m.Case
		if len(c) > 200 {
			c = c[:200]
		}
		fmt.Printf("MISMATCH case=%s\n  impl =%.300s\n  model=%.300s\n  where=%s\n", c, m.Impl, m.Model, m.Where)
	}
	return 0
}
