package main

import (
	"bytes"
	"encoding/binary"
	"encoding/hex"
	"fmt"
	"strconv"
	"strings"

	"github.com/tormoder/fit"
)

func rawHeader(size, proto byte, prof uint16, ds uint32, dtype [4]byte, crc uint16) []byte {
	var b bytes.Buffer
	b.WriteByte(size)
	b.WriteByte(proto)
	binary.Write(&b, binary.LittleEndian, prof)
	binary.Write(&b, binary.LittleEndian, ds)
	b.Write(dtype[:])
	if size != 12 {
		binary.Write(&b, binary.LittleEndian, crc)
	}
	return b.Bytes()
}

func init() {
	extraOps["hdr"] = func(a []string) (out string) {
		if len(a) != 6 {
			return "bad-hdr"
		}
		n := make([]uint64, 6)
		for i, s := range a {
			if i == 4 {
				continue
			}
			v, err := strconv.ParseUint(s, 10, 64)
			if err != nil {
				return "bad-hdr"
			}
			n[i] = v
		}
		dt, err := hex.DecodeString(a[4])
		if err != nil || len(dt) != 4 {
			return "bad-hdr"
		}
		var dtype [4]byte
		copy(dtype[:], dt)
		h := fit.Header{Size: byte(n[0]), ProtocolVersion: byte(n[1]), ProfileVersion: uint16(n[2]),
			DataSize: uint32(n[3]), DataType: dtype, CRC: uint16(n[5])}
		raw := rawHeader(h.Size, h.ProtocolVersion, h.ProfileVersion, h.DataSize, dtype, h.CRC)
		c1 := func() (s string) {
			defer func() {
				if p := recover(); p != nil {
					s = "panic"
				}
			}()
			return tag(h.CheckIntegrity())
		}()
		_, err2 := fit.DecodeHeader(bytes.NewReader(raw))
		err3 := fit.CheckIntegrity(bytes.NewReader(raw), true)
		if tag(err2) != tag(err3) {
			return "entry-points-disagree:" + tag(err2) + "/" + tag(err3)
		}
		return fmt.Sprintf("%s %s %s", c1, tag(err2), hex.EncodeToString(raw))
	}
	propGens["C04"] = func(r *rng, thorough bool) ([]CaseSet, string, bool) {
		nh, ncrc, nfiles, maxLen := 12, 300, 40, 1200
		if thorough {
			nh, ncrc, nfiles, maxLen = 50, 65536, 200, 6000
		}
		return []CaseSet{genHeaders(r, nh, ncrc), genBursts(r, nfiles, maxLen, thorough), genAcceptedAnyReader(r, nfiles/2, maxLen), genHeaderMismatch(r, nfiles, maxLen), genVerdictSequences(r, nfiles, maxLen), genFiles(r, "encoded-files", "enc", 6*nfiles, fileKnobs{maxGroup: 4, fieldPct: 25}), genBigSkippedIntact(r), genBigSkippedBursts(r)},
			"headers: random field values x {matching CRC, " + strconv.Itoa(ncrc) + " stored CRCs, every single-byte corruption of every header byte, illegal sizes 0-255} through Header.CheckIntegrity, DecodeHeader and CheckIntegrity(headerOnly) (verdicts must agree); bursts: valid files (corpus + generated, both header sizes) x every start bit x window lengths 1-16 x patterns outside header bytes 0 and 4-7, plus value-targeted overwrites of aligned byte pairs (zero, all ones, swapped, checksum of the prefix, complement, ...) at the header fields, header CRC, record start and file CRC, through CheckIntegrity and Decode (must both reject); files whose 14-byte header does not match its stored non-zero CRC while the trailing file CRC was recomputed to fit (only the header CRC can reject them): CheckIntegrity, Decode, DecodeHeader and DecodeHeaderAndFileID must all reject; accepted files through CheckIntegrity and Decode behind readers that deliver 1, 2, 3, 7, 13, 4095 … bytes per call, short reads and data-with-EOF (a file Decode accepts must pass CheckIntegrity whatever the reader); sequences of 4-14 integrity calls in one process (CheckIntegrity header-only and full, DecodeHeader, Decode) over valid files of all three header layouts and corrupted ones: every verdict must be what the same call gives alone; Files through Encode in both byte orders and with both header sizes: what Encode writes must pass CheckIntegrity (full and header-only), Header.CheckIntegrity and Decode; files holding one skipped record (unknown message, developer-data block) of 9 KB, 10 KB and 65025 bytes — larger than the decoder's read buffer — intact under three read schedules (accepted by both) and with bursts inside the skipped part (rejected by both)", false
	}
	propPost["C04"] = postC04
}

// bigSkippedFiles: valid files holding one record that the decoder does not decode but skips — a record
// of an unknown message, or the developer-data block of a known one — larger than its 4 KiB read
// buffer (about 9 KB, 10 KB and the largest a definition can describe, 65025 bytes), behind a few
// small records so that the big one starts at different places in the buffer. Returned with the
// byte range of the skipped part.
func bigSkippedFiles(r *rng) (files [][]byte, spans [][2]int) {
	mk := func(nf, fsz int, dev bool, lead int) {
		var b recs
		b.Write(fileIdRecs(4, 0))
		b.def(defn{local: 1, global: 20, fields: []fdef{{3, 1, 0x02}}})
		for i := 0; i < lead; i++ {
			b.data(1, []byte{byte(60 + i)})
		}
		var d defn
		if dev {
			d = defn{local: 2, global: 20, devBit: true, fields: []fdef{{3, 1, 0x02}}}
			for i := 0; i < nf; i++ {
				d.dev = append(d.dev, ddesc{byte(i), byte(fsz), 0})
			}
		} else {
			d = defn{local: 2, global: 0xFF30, fields: nil}
			for i := 0; i < nf; i++ {
				d.fields = append(d.fields, fdef{byte(i), byte(fsz), 0x0D})
			}
		}
		b.def(d)
		start := b.Len() + 1
		if dev {
			start++
		}
		payload := lcgBytes(uint64(r.next()), nf*fsz)
		if dev {
			payload = append([]byte{99}, payload...)
		}
		b.data(2, payload)
		end := b.Len()
		b.data(1, []byte{77})
		fo := defaultFrame()
		f := frame(b.Bytes(), fo)
		files = append(files, f)
		spans = append(spans, [2]int{int(f[0]) + start, int(f[0]) + end})
	}
	mk(36, 250, false, 3)
	mk(40, 255, true, 40)
	mk(255, 255, false, 0)
	return
}

// genBigSkipped: the files above, intact (under three read schedules: what Decode accepts
// CheckIntegrity accepts, and both accept these) ...
func genBigSkippedIntact(r *rng) CaseSet {
	cs := CaseSet{Name: "accepted-any-reader"}
	files, _ := bigSkippedFiles(r)
	for _, f := range files {
		for _, sch := range []string{"-", "s:4096", "s:1000.3000.7"} {
			for _, e := range []string{"integ", "decode"} {
				cs.Cases = append(cs.Cases, decCase(e, "000", sch, "-", f))
			}
		}
	}
	return cs
}

// ... and with bursts of at most 16 bits inside the skipped part (both must reject)
func genBigSkippedBursts(r *rng) CaseSet {
	cs := CaseSet{Name: "bursts"}
	files, spans := bigSkippedFiles(r)
	for k, f := range files {
		lo, hi := spans[k][0], spans[k][1]
		for i := 0; i < 10; i++ {
			b := append([]byte{}, f...)
			start := (lo+r.intn(hi-lo-2))*8 + r.intn(8)
			length := 1 + r.intn(16)
			pat := uint32(r.next())&(1<<uint(length)-1) | 1
			for j := 0; j < length; j++ {
				if pat>>uint(j)&1 == 1 {
					bit := start + j
					b[bit/8] ^= 1 << uint(bit%8)
				}
			}
			cs.Cases = append(cs.Cases, decCase([]string{"decode", "integ"}[i%2], "000", "-", "-", b))
			if i < 3 {
				cs.Cases = append(cs.Cases, decCase("decode", "000", "s:4096", "-", b))
			}
		}
	}
	return cs
}

func genHeaders(r *rng, nh, ncrc int) CaseSet {
	cs := CaseSet{Name: "header-values"}
	line := func(size, proto byte, prof uint16, ds uint32, dt [4]byte, crc uint16) string {
		return fmt.Sprintf("hdr %d %d %d %d %s %d", size, proto, prof, ds, hex.EncodeToString(dt[:]), crc)
	}
	fitTag := [4]byte{'.', 'F', 'I', 'T'}
	for i := 0; i < nh; i++ {
		proto := []byte{0x10, 0x20, 0x21, 0x00, 0x2F}[r.intn(5)]
		prof := uint16(r.next())
		ds := uint32(r.next())
		if r.chance(50) {
			ds = uint32(r.intn(100000))
		}
		good := ownCRC(rawHeader(14, proto, prof, ds, fitTag, 0)[:12])
		cs.Cases = append(cs.Cases, line(14, proto, prof, ds, fitTag, good), line(14, proto, prof, ds, fitTag, 0),
			line(12, proto, prof, ds, fitTag, good), line(12, proto, prof, ds, fitTag, 0x1234))
		// stored CRC values
		if ncrc >= 65536 {
			for c := 0; c < 65536; c++ {
				cs.Cases = append(cs.Cases, line(14, proto, prof, ds, fitTag, uint16(c)))
			}
		} else {
			for c := 0; c < ncrc; c++ {
				cs.Cases = append(cs.Cases, line(14, proto, prof, ds, fitTag, uint16(r.next())))
			}
			cs.Cases = append(cs.Cases, line(14, proto, prof, ds, fitTag, good^1), line(14, proto, prof, ds, fitTag, good^0x8000))
		}
		// single-byte corruptions of the 14 header bytes (expressed as field changes)
		raw := rawHeader(14, proto, prof, ds, fitTag, good)
		for pos := 0; pos < 14; pos++ {
			for _, x := range []byte{0x01, 0x80, 0xFF, byte(1 + r.intn(254))} {
				b := append([]byte{}, raw...)
				b[pos] ^= x
				var dt [4]byte
				copy(dt[:], b[8:12])
				cs.Cases = append(cs.Cases, line(b[0], b[1], binary.LittleEndian.Uint16(b[2:4]), binary.LittleEndian.Uint32(b[4:8]), dt, binary.LittleEndian.Uint16(b[12:14])))
			}
		}
		// protocol versions and illegal sizes
		for s := 0; s < 256; s++ {
			cs.Cases = append(cs.Cases, line(byte(s), proto, prof, ds, fitTag, good))
		}
		for p := 0; p < 256; p += 7 {
			cs.Cases = append(cs.Cases, line(14, byte(p), prof, ds, fitTag, 0))
		}
	}
	return cs
}

// genBursts: for valid files, flip patterns inside windows of at most 16 consecutive bits (in the
// order the checksum consumes bits: least-significant bit of each byte first).
func genBursts(r *rng, nfiles, maxLen int, thorough bool) CaseSet {
	cs := CaseSet{Name: "bursts"}
	var files [][]byte
	for _, f := range validFiles(r, nfiles, maxLen) {
		if len(f) <= maxLen {
			files = append(files, f)
		}
	}
	flip := func(f []byte, startBit, length int, pattern uint32) ([]byte, bool) {
		b := append([]byte{}, f...)
		changed := false
		for i := 0; i < length; i++ {
			if pattern>>uint(i)&1 == 1 {
				bit := startBit + i
				byteIdx := bit / 8
				if byteIdx == 0 || (byteIdx >= 4 && byteIdx <= 7) || byteIdx >= len(b) {
					return nil, false
				}
				b[byteIdx] ^= 1 << uint(bit%8)
				changed = true
			}
		}
		return b, changed
	}
	// value-targeted bursts: overwrite an aligned byte pair with a value a lenient check might special-case
	// (zero, all ones, byte-swapped, the checksum of the bytes before it, an increment)
	for _, f := range files {
		var pos []int
		for _, p := range []int{1, 2, 8, 10, 12, len(f) - 2, len(f) - 3, len(f) - 4, int(f[0]), int(f[0]) - 2} {
			if p >= 1 && p+2 <= len(f) && !(p+1 >= 4 && p <= 7) {
				pos = append(pos, p)
			}
		}
		for _, p := range pos {
			pre := ownCRC(f[:p])
			old := uint16(f[p]) | uint16(f[p+1])<<8
			for _, v := range []uint16{0, 0xFFFF, old>>8 | old<<8, pre, ^old, old + 1, old ^ 0x8000, old & 0xFF, old & 0xFF00} {
				if v == old {
					continue
				}
				b := append([]byte{}, f...)
				b[p], b[p+1] = byte(v), byte(v>>8)
				for _, e := range []string{"integ", "decode"} {
					cs.Cases = append(cs.Cases, decCase(e, "000", "-", "-", b))
				}
			}
		}
	}
	// every start bit of small files; larger files are strided so that the whole set stays within a
	// memory budget (each case carries the whole file), with a random phase so that different seeds
	// visit different bits
	perFile := 3000
	if thorough {
		perFile = 1 << 62
		if len(files) > 0 {
			perFile = (600 << 20) / len(files) // bytes of case text per file
		}
	}
	for _, f := range files {
		nbits := len(f) * 8
		step := 1
		if !thorough && nbits > perFile {
			step = 1 + nbits/perFile
		}
		if thorough {
			if maxCases := perFile / (2*len(f) + 40); nbits > maxCases {
				step = 1 + nbits/(maxCases+1)
			}
		}
		for start := 8 + r.intn(step); start < nbits; start += step {
			length := 1 + r.intn(16)
			pats := []uint32{1<<uint(length) - 1, 1 | 1<<uint(length-1), uint32(r.next())&(1<<uint(length)-1) | 1}
			if thorough {
				pats = append(pats, 0x5555&(1<<uint(length)-1)|1, uint32(r.next())&(1<<uint(length)-1)|1<<uint(length-1))
			}
			p := pats[r.intn(len(pats))]
			if b, ok := flip(f, start, length, p); ok {
				e := "integ"
				if r.chance(50) {
					e = "decode"
				}
				cs.Cases = append(cs.Cases, decCase(e, "000", "-", "-", b))
			}
		}
	}
	return cs
}

// genHeaderMismatch: valid files with a 14-byte header and a non-zero header CRC, one of whose
// header bytes 1-3 (protocol minor bits, profile version) or header CRC bytes was changed, with the
// trailing file CRC recomputed: the file CRC fits, only the header CRC does not.
func genHeaderMismatch(r *rng, nfiles, maxLen int) CaseSet {
	cs := CaseSet{Name: "header-crc-mismatch-file-crc-fits"}
	for _, f := range validFiles(r, nfiles, maxLen) {
		if len(f) > maxLen || len(f) < 16 || f[0] != 14 || (f[12] == 0 && f[13] == 0) {
			continue
		}
		for _, pos := range []int{2, 3, 12, 13, 1} {
			b := append([]byte{}, f...)
			if pos == 1 {
				b[1] ^= 0x01 // minor protocol version: still a supported major
			} else {
				b[pos] ^= byte(1 << uint(r.intn(8)))
			}
			if b[12] == 0 && b[13] == 0 {
				continue // a zero header CRC means "not computed"
			}
			c := ownCRC(b[:len(b)-2])
			b[len(b)-2], b[len(b)-1] = byte(c), byte(c>>8)
			for _, e := range []string{"integ", "decode", "header", "headerfid", "integhdr"} {
				cs.Cases = append(cs.Cases, decCase(e, "000", "-", "-", b))
			}
		}
	}
	return cs
}

// genAcceptedAnyReader: valid files through CheckIntegrity and Decode under every read schedule.
func genAcceptedAnyReader(r *rng, nfiles, maxLen int) CaseSet {
	cs := CaseSet{Name: "accepted-any-reader"}
	for _, f := range validFiles(r, nfiles, maxLen) {
		if len(f) > maxLen {
			continue
		}
		for _, sch := range schedules {
			for _, e := range []string{"integ", "decode"} {
				cs.Cases = append(cs.Cases, decCase(e, "000", sch, "-", f))
			}
		}
		cs.Cases = append(cs.Cases, decCase("integ", "000", randSched(r), "-", f))
	}
	return cs
}

func postC04(res *RunResult) {
	postNoPanic(res)
	// a file Decode accepts (through any reader) passes CheckIntegrity through every reader
	accepted := map[string]bool{}
	for i, c := range res.Stats.cases {
		if res.Stats.setOf[i] != "accepted-any-reader" {
			continue
		}
		if dc, ok := parseDecCase(c); ok && dc.entry == "decode" {
			if dr, ok := parseDecRes(res.Stats.impl[i]); ok && dr.tag == "ok" {
				accepted[string(dc.data)] = true
			}
		}
	}
	{
		var fs [][]byte
		var labels []string
		for _, c := range res.Stats.cases {
			if dc, ok := parseDecCase(c); ok && accepted[string(dc.data)] && len(dc.data) < 5000 && len(fs) < 30 {
				accepted[string(dc.data)] = false
				fs = append(fs, dc.data)
				labels = append(labels, c)
			}
		}
		for i := range fs {
			accepted[string(fs[i])] = true
		}
		integrityReaderKinds(res, fs, labels)
	}
	for i, c := range res.Stats.cases {
		out := res.Stats.impl[i]
		switch res.Stats.setOf[i] {
		case "encoded-files":
			// a file that Encode produced passes every integrity check
			parts := strings.Fields(out)
			if len(parts) >= 2 && parts[0] == "ok" {
				b, err := hex.DecodeString(parts[1])
				if err != nil {
					break
				}
				if e := fit.CheckIntegrity(bytes.NewReader(b), false); e != nil {
					addViolation(res, c, out, "CheckIntegrity rejects what Encode wrote: "+e.Error())
				} else if e := fit.CheckIntegrity(bytes.NewReader(b), true); e != nil {
					addViolation(res, c, out, "CheckIntegrity(headerOnly) rejects what Encode wrote: "+e.Error())
				} else if h, e := fit.DecodeHeader(bytes.NewReader(b)); e != nil || h.CheckIntegrity() != nil {
					addViolation(res, c, out, "DecodeHeader / Header.CheckIntegrity reject the header Encode wrote")
				} else if _, e := fit.Decode(bytes.NewReader(b)); e != nil && strings.Contains(e.Error(), "checksum") {
					addViolation(res, c, out, "Decode rejects the checksum of what Encode wrote: "+e.Error())
				}
			}
		case "header-crc-mismatch-file-crc-fits":
			if dr, ok := parseDecRes(out); ok && dr.tag == "ok" {
				addViolation(res, c, out, "a header whose stored non-zero CRC does not match its bytes was accepted (the file CRC fits)")
			}
		case "accepted-any-reader":
			dc, ok := parseDecCase(c)
			dr, ok2 := parseDecRes(out)
			if ok && ok2 && accepted[string(dc.data)] && dr.tag != "ok" && !strings.Contains(dc.rspec, "f") {
				addViolation(res, c, out, "a file that Decode accepts is rejected by "+dc.entry+" behind this reader")
			}
		case "bursts":
			dr, ok := parseDecRes(out)
			if ok && dr.tag == "ok" {
				addViolation(res, c, out, "a burst of at most 16 bits was accepted")
			}
		case "header-values":
			var a, b, raw string
			if n, _ := fmt.Sscanf(out, "%s %s %s", &a, &b, &raw); n == 3 {
				// verdicts (accept / reject) must agree for legal header sizes
				if (a == "ok") != (b == "ok") {
					addViolation(res, c, out, "Header.CheckIntegrity and DecodeHeader disagree")
				}
			} else {
				addViolation(res, c, out, "header entry points disagree or malformed result")
			}
		}
	}
}

// genVerdictSequences: the verdict of an integrity call must not depend on the calls made before it
// in the same process: header-only and full checks, DecodeHeader and Decode over valid files of all
// header layouts (12 bytes, 14 bytes with a zero CRC field, 14 bytes with CRC) and corrupted ones,
// one after another (the model gives every call the verdict it has alone).
func genVerdictSequences(r *rng, nfiles, maxLen int) CaseSet {
	cs := CaseSet{Name: "verdict-sequences"}
	var files [][]byte
	for _, f := range validFiles(r, nfiles, maxLen) {
		if len(f) <= maxLen {
			files = append(files, f)
		}
	}
	if len(files) == 0 {
		return cs
	}
	entries := []string{"integhdr", "integ", "header", "decode", "integhdr", "integ"}
	for i := 0; i < 3*nfiles; i++ {
		k := 4 + r.intn(11)
		calls := make([]string, 0, k)
		for j := 0; j < k; j++ {
			f := files[r.intn(len(files))]
			if r.chance(15) {
				g := append([]byte{}, f...)
				g[r.intn(len(g))] ^= byte(1 << uint(r.intn(8)))
				f = g
			}
			e := entries[r.intn(len(entries))]
			calls = append(calls, decCase(e, "000", "-", "-", f))
			if e == "integhdr" && r.chance(60) && j+1 < k {
				// a full check right after a header-only one
				calls = append(calls, decCase("integ", "000", "-", "-", files[r.intn(len(files))]))
				j++
			}
		}
		cs.Cases = append(cs.Cases, "hist "+strings.Join(calls, "^"))
	}
	return cs
}
