package main

import (
	"fmt"
	"math"
	"runtime"
	"strconv"
	"sync"
	"time"

	"github.com/tormoder/fit"
)

func init() {
	extraOps["ll"] = func(a []string) string {
		v, err := strconv.ParseInt(a[1], 10, 64)
		if err != nil {
			return "bad-int"
		}
		s := int32(v)
		var stored int32
		var inv bool
		var deg float64
		if a[0] == "lat" {
			l := fit.NewLatitude(s)
			stored, inv, deg = l.Semicircles(), l.Invalid(), l.Degrees()
		} else {
			l := fit.NewLongitude(s)
			stored, inv, deg = l.Semicircles(), l.Invalid(), l.Degrees()
		}
		i := 0
		if inv {
			i = 1
		}
		d := "nan"
		if !math.IsNaN(deg) {
			// degrees numerator over 2^31: exact because deg = stored*180/2^31 is exact in float64
			num := math.Ldexp(deg, 31)
			if num != math.Trunc(num) {
				d = "inexact"
			} else {
				d = strconv.FormatInt(int64(num), 10)
			}
		}
		return fmt.Sprintf("%d %d %s", stored, i, d)
	}
	extraOps["tm"] = func(a []string) string {
		v, err := strconv.ParseUint(a[0], 10, 32)
		if err != nil {
			return "bad-nat"
		}
		t := fit.VerifDecodeDateTime(uint32(v))
		b := 0
		if fit.IsBaseTime(t) {
			b = 1
		}
		return fmt.Sprintf("%d %d %d", t.Unix()-baseUnix(), fit.VerifEncodeTime(t), b)
	}
	extraOps["te"] = func(a []string) string {
		v, err := strconv.ParseInt(a[0], 10, 64)
		if err != nil {
			return "bad-int"
		}
		t := time.Unix(baseUnix()+v, 0).UTC()
		return strconv.FormatUint(uint64(fit.VerifEncodeTime(t)), 10)
	}
	propGens["C17"] = func(r *rng, thorough bool) ([]CaseSet, string, bool) {
		n := 20000
		if thorough {
			n = 200000
		}
		cs := CaseSet{Name: "coordinate-and-time-samples"}
		edges := []int64{0, 1, -1, 1 << 30, (1 << 30) - 1, (1 << 30) + 1, -(1 << 30), -(1 << 30) - 1, -(1 << 30) + 1,
			math.MaxInt32, math.MaxInt32 - 1, math.MinInt32, math.MinInt32 + 1, 0x10000000, 0x0FFFFFFF}
		for _, e := range edges {
			for d := int64(-3); d <= 3; d++ {
				v := e + d
				if v > math.MaxInt32 || v < math.MinInt32 {
					continue
				}
				cs.Cases = append(cs.Cases, "ll lat "+strconv.FormatInt(v, 10), "ll lng "+strconv.FormatInt(v, 10))
				if v >= 0 {
					cs.Cases = append(cs.Cases, "tm "+strconv.FormatInt(v, 10))
				}
			}
		}
		// every semicircle value within 2000 of zero, of the poles and of the ends of the range: values
		// that differ from a boundary only below the printed precision, or only just above it
		for _, e := range []int64{0, 1 << 30, -(1 << 30), math.MaxInt32, math.MinInt32} {
			for d := int64(-2000); d <= 2000; d++ {
				if v := e + d; v <= math.MaxInt32 && v >= math.MinInt32 {
					cs.Cases = append(cs.Cases, "ll lat "+strconv.FormatInt(v, 10), "ll lng "+strconv.FormatInt(v, 10))
				}
			}
		}
		for i := 0; i < n; i++ {
			v := int64(int32(r.next()))
			cs.Cases = append(cs.Cases, "ll lat "+strconv.FormatInt(v, 10), "ll lng "+strconv.FormatInt(v, 10))
			cs.Cases = append(cs.Cases, "tm "+strconv.FormatUint(r.next()&0xFFFFFFFF, 10))
			if i%10 == 0 {
				// times outside the 32-bit range: wrap-around and Duration saturation
				z := int64(r.next()%(1<<40)) - (1 << 39)
				cs.Cases = append(cs.Cases, "te "+strconv.FormatInt(z, 10))
			}
		}
		cs.Cases = append(cs.Cases, "te -62766662400", "te 4294967296", "te -1")
		rule := "model cross-check on sampled and boundary semicircle / second values; plus the Go-side oracle over "
		if thorough {
			rule += "ALL 2^32 semicircle values (both types) and all 2^32 second counts"
		} else {
			rule += "every 4099th of the 2^32 values plus ±64 around 0, ±2^30, ±2^31, the sentinel and the marker"
		}
		rule += ": invalid flag, Semicircles, Degrees = s*180/2^31 exactly, NaN iff invalid, degrees round trip within one semicircle, printed form within 2e-5 degrees (enumeration only: float32 formatting is not modelled), time bijection, IsBaseTime only at 0"
		return []CaseSet{cs}, rule, thorough
	}
	propPost["C17"] = postC17
}

func baseUnix() int64 {
	return time.Date(1989, time.December, 31, 0, 0, 0, 0, time.UTC).Unix()
}

type c17fail struct {
	what string
	s    int64
}

// c17check evaluates the property's clauses for one 32-bit value with exact integer arithmetic.
func c17check(s int32, printed bool) (string, bool) {
	lat := fit.NewLatitude(s)
	wantInv := s == math.MaxInt32 || int64(s) < -(1<<30) || int64(s) > (1<<30)
	if lat.Invalid() != wantInv {
		return fmt.Sprintf("lat-invalid-flag got=%v want=%v", lat.Invalid(), wantInv), false
	}
	lng := fit.NewLongitude(s)
	if lng.Invalid() != (s == math.MaxInt32) {
		return "lng-invalid-flag", false
	}
	check := func(kind string, inv bool, semi int32, deg float64, str string, from func(float64) (int32, bool), lim float64) (string, bool) {
		if math.IsNaN(deg) != inv {
			return kind + "-degrees-nan-iff-invalid", false
		}
		if inv {
			if str != "Invalid" {
				return kind + "-invalid-string", false
			}
			return "", true
		}
		if semi != s {
			return kind + "-semicircles", false
		}
		want := math.Ldexp(float64(int64(s)*180), -31)
		if deg != want {
			return kind + "-degrees-exact", false
		}
		if math.Abs(deg) < lim {
			back, binv := from(deg)
			if binv || absInt(int64(back)-int64(s)) > 1 {
				return fmt.Sprintf("%s-roundtrip back=%d", kind, back), false
			}
		}
		if printed {
			p, err := strconv.ParseFloat(str, 64)
			if err != nil || math.Abs(p-deg) > 2e-5 {
				return kind + "-printed-form " + str, false
			}
		}
		return "", true
	}
	if m, ok := check("lat", lat.Invalid(), lat.Semicircles(), lat.Degrees(), lat.String(),
		func(d float64) (int32, bool) { l := fit.NewLatitudeDegrees(d); return l.Semicircles(), l.Invalid() }, 90); !ok {
		return m, false
	}
	if m, ok := check("lng", lng.Invalid(), lng.Semicircles(), lng.Degrees(), lng.String(),
		func(d float64) (int32, bool) { l := fit.NewLongitudeDegrees(d); return l.Semicircles(), l.Invalid() }, 180); !ok {
		return m, false
	}
	// time
	v := uint32(s)
	t := fit.VerifDecodeDateTime(v)
	if t.Unix()-baseUnix() != int64(v) || t.Nanosecond() != 0 || fit.VerifEncodeTime(t) != v || fit.IsBaseTime(t) != (v == 0) {
		return "time-bijection", false
	}
	// the same instant shown in another location is the same time: conversion and IsBaseTime must not
	// depend on the zone (decoded local timestamps carry a fixed zone)
	for _, z := range c17Zones {
		tz := t.In(z)
		if fit.VerifEncodeTime(tz) != v || fit.IsBaseTime(tz) != (v == 0) {
			return "time-in-zone-" + z.String(), false
		}
	}
	return "", true
}

// values around which every semicircle is evaluated with its printed form: zero (printed precision),
// the poles, the ends of the range, the system-time marker
var c17Edges = []int64{0, 1 << 30, -(1 << 30), math.MaxInt32, math.MinInt32, 0x10000000}

func nearEdge(x int64) bool {
	for _, e := range c17Edges {
		if d := x - e; d >= -4096 && d <= 4096 {
			return true
		}
	}
	return false
}

var c17Zones = []*time.Location{time.FixedZone("A", 3600), time.FixedZone("B", -18000), time.FixedZone("C", 19800+1)}

func absInt(x int64) int64 {
	if x < 0 {
		return -x
	}
	return x
}

// known finding D14: +90 degrees (2^30 semicircles) is flagged invalid
const c17KnownLatPole = int32(1 << 30)

func postC17(res *RunResult) {
	thorough := res.Tier == "thorough"
	var mu sync.Mutex
	var fails []c17fail
	var evals int64
	known := false
	eval := func(s int32, printed bool) {
		m, ok := c17check(s, printed)
		if !ok {
			mu.Lock()
			if s == c17KnownLatPole && m == "lat-invalid-flag got=true want=false" {
				known = true
			} else if len(fails) < 10 {
				fails = append(fails, c17fail{m, int64(s)})
			}
			mu.Unlock()
		}
	}
	if thorough {
		nw := runtime.NumCPU()
		var wg sync.WaitGroup
		for w := 0; w < nw; w++ {
			wg.Add(1)
			go func(w int) {
				defer wg.Done()
				for x := int64(math.MinInt32) + int64(w); x <= math.MaxInt32; x += int64(nw) {
					eval(int32(x), x%61 == 0 || nearEdge(x))
				}
			}(w)
		}
		wg.Wait()
		evals = 1 << 32
	} else {
		for x := int64(math.MinInt32); x <= math.MaxInt32; x += 4099 {
			eval(int32(x), true)
			evals++
		}
		for _, e := range c17Edges {
			for d := int64(-4096); d <= 4096; d++ {
				if v := e + d; v >= math.MinInt32 && v <= math.MaxInt32 {
					eval(int32(v), true)
					evals++
				}
			}
		}
	}
	// every semicircle within 96 of every whole degree, with its printed form: values whose printed
	// fraction rounds up into the next degree (carries in hand-written formatting), and the values
	// just beyond
	for d := int64(-180); d <= 180; d++ {
		c := d * (1 << 31) / 180
		for off := int64(-96); off <= 96; off++ {
			if v := c + off; v >= math.MinInt32 && v <= math.MaxInt32 {
				eval(int32(v), true)
				evals++
			}
		}
	}
	res.Stats.Evaluations += int(evals)
	res.Stats.Distinct += int(evals / 2)
	res.Notes = append(res.Notes, fmt.Sprintf("Go-side oracle evaluated %d values", evals))
	if known {
		res.KnownFindings = append(res.KnownFindings, "property=C17 site=NewLatitude(1073741824) cause=plus-90-degrees-flagged-invalid")
	}
	for _, f := range fails {
		addViolation(res, fmt.Sprintf("c17 value %d", f.s), f.what, f.what)
	}
}
