package main

import (
	"bufio"
	"bytes"
	"encoding"
	"encoding/hex"
	"fmt"
	"io"
	"strconv"
	"strings"
	"sync"
	"testing/iotest"

	"github.com/tormoder/fit/dyncrc16"
)

var (
	crcReachOnce sync.Once
	crcReach     [65536][2]byte
	crcReachN    int
)

// every register state is reached by some two-byte message (checked: 65536 distinct states)
func crcInitReach() {
	seen := make([]bool, 65536)
	for a := 0; a < 256; a++ {
		for b := 0; b < 256; b++ {
			s := dyncrc16.Checksum([]byte{byte(a), byte(b)})
			if !seen[s] {
				seen[s] = true
				crcReachN++
				crcReach[s] = [2]byte{byte(a), byte(b)}
			}
		}
	}
}

func init() {
	extraOps["crcrow"] = func(a []string) string {
		crcReachOnce.Do(crcInitReach)
		if crcReachN != 65536 {
			return fmt.Sprintf("unreachable-states:%d", 65536-crcReachN)
		}
		s, err := strconv.Atoi(a[0])
		if err != nil || s < 0 || s > 65535 {
			return "bad-state"
		}
		var sb strings.Builder
		msg := []byte{crcReach[s][0], crcReach[s][1], 0}
		for b := 0; b < 256; b++ {
			msg[2] = byte(b)
			// through the streaming object, state reached by two writes, then the byte
			h := dyncrc16.New()
			h.Write(msg[:2])
			h.Write(msg[2:])
			v := h.Sum16()
			if v != dyncrc16.Checksum(msg) {
				return "stream-vs-checksum-differ"
			}
			fmt.Fprintf(&sb, "%04x", v)
		}
		return sb.String()
	}
	extraOps["crcsplit"] = func(a []string) string {
		hx := ""
		if len(a) > 1 {
			hx = a[1]
		}
		data, err := hex.DecodeString(hx)
		if err != nil {
			return "bad-hex"
		}
		h := dyncrc16.New()
		pos := 0
		if a[0] != "-" {
			for _, c := range strings.Split(a[0], ".") {
				n, _ := strconv.Atoi(c)
				if n < pos {
					n = pos
				}
				if n > len(data) {
					n = len(data)
				}
				h.Write(data[pos:n])
				pos = n
			}
		}
		h.Write(data[pos:])
		s16 := h.Sum16()
		sum := h.Sum(nil)
		// Sum appends to what it is given and leaves the state alone; Size and BlockSize are constants
		pre := []byte{0xDE, 0xAD, 0xBE}
		if got := h.Sum(pre[:2:3]); len(got) != 4 || got[0] != 0xDE || got[1] != 0xAD || got[2] != sum[0] || got[3] != sum[1] || h.Sum16() != s16 || h.Size() != 2 || h.BlockSize() != 1 {
			return fmt.Sprintf("sum-append-broken %x", got)
		}
		// ... whatever spare capacity the slice it is given has
		for _, spare := range []int{0, 1, 2, 3, 4, 8, 64} {
			buf := make([]byte, 2, 2+spare)
			buf[0], buf[1] = 0x5A, 0xC3
			got := h.Sum(buf)
			if len(got) != 4 || got[0] != 0x5A || got[1] != 0xC3 || got[2] != sum[0] || got[3] != sum[1] || h.Sum16() != s16 {
				return fmt.Sprintf("sum-append-broken spare=%d len=%d %x", spare, len(got), clipBytes(got, 12))
			}
		}
		if n, err := h.Write(nil); n != 0 || err != nil || h.Sum16() != s16 {
			return "empty-write-broken"
		}
		// the same bytes through io.Copy / io.CopyN (which use ReadFrom when the hash has one), from a
		// plain reader and from one that hands out its last bytes together with io.EOF
		for k, src := range []io.Reader{bytes.NewReader(data), iotest.DataErrReader(bytes.NewReader(data)), iotest.OneByteReader(bytes.NewReader(data))} {
			hc := dyncrc16.New()
			var n int64
			var err error
			if k == 1 {
				n, err = io.CopyN(hc, src, int64(len(data)))
			} else {
				n, err = io.Copy(hc, src)
			}
			if err != nil || n != int64(len(data)) || hc.Sum16() != dyncrc16.Checksum(data) {
				return fmt.Sprintf("copy-feed-broken reader=%d n=%d err=%v sum=%04x", k, n, err, hc.Sum16())
			}
		}
		// ... and through the other optional interfaces the standard library looks for on a writer:
		// io.WriteString (whole, and cut in two at every position a multi-byte character could
		// straddle), a bufio.Writer in front, and WriteByte if the hash has it
		{
			want := dyncrc16.Checksum(data)
			str := string(data)
			hs := dyncrc16.New()
			if n, err := io.WriteString(hs, str); err != nil || n != len(data) || hs.Sum16() != want {
				return fmt.Sprintf("string-feed-broken n=%d err=%v sum=%04x", n, err, hs.Sum16())
			}
			for _, cut := range []int{1, len(data) / 2, len(data) - 1} {
				if cut <= 0 || cut >= len(data) {
					continue
				}
				hs.Reset()
				io.WriteString(hs, str[:cut])
				io.WriteString(hs, str[cut:])
				if hs.Sum16() != want {
					return fmt.Sprintf("string-feed-broken cut=%d sum=%04x", cut, hs.Sum16())
				}
			}
			hs.Reset()
			bw := bufio.NewWriterSize(hs, 16)
			bw.WriteString(str)
			bw.Flush()
			if hs.Sum16() != want {
				return fmt.Sprintf("bufio-feed-broken sum=%04x", hs.Sum16())
			}
			// a hash that can save and restore its state (encoding.BinaryMarshaler / Unmarshaler):
			// checkpointing in the middle of the data changes nothing
			if _, ok := dyncrc16.New().(encoding.BinaryMarshaler); ok {
				for _, cut := range []int{0, 1, len(data) / 2, len(data) - 1, len(data)} {
					if cut < 0 || cut > len(data) {
						continue
					}
					h1 := dyncrc16.New()
					h1.Write(data[:cut])
					st, err := h1.(encoding.BinaryMarshaler).MarshalBinary()
					h2 := dyncrc16.New()
					h2.Write([]byte{1, 2, 3})
					if u, ok := h2.(encoding.BinaryUnmarshaler); !ok || err != nil || u.UnmarshalBinary(st) != nil {
						return "checkpoint-broken cannot-restore"
					}
					h2.Write(data[cut:])
					if h2.Sum16() != want {
						return fmt.Sprintf("checkpoint-broken cut=%d sum=%04x", cut, h2.Sum16())
					}
				}
			}
			if wb, ok := dyncrc16.New().(io.ByteWriter); ok {
				for _, c := range data {
					wb.WriteByte(c)
				}
				if wb.(interface{ Sum16() uint16 }).Sum16() != want {
					return "bytewriter-feed-broken"
				}
			}
		}
		h.Reset()
		return fmt.Sprintf("%d %s %d %d", s16, hex.EncodeToString(sum), h.Sum16(), dyncrc16.Checksum(data))
	}
}

func init() {
	// many hashes alive at once: hash i is fed the data rotated by i in two writes, and as many
	// further hashes are created and fed in between (instances must not share state)
	extraOps["crcmany"] = func(a []string) string {
		n, err := strconv.Atoi(a[0])
		data, err2 := hex.DecodeString(a[1])
		if err != nil || err2 != nil || n < 0 || n > 5000 {
			return "bad-arg"
		}
		l := len(data)
		rot := func(i int) []byte {
			k := 0
			if l > 0 {
				k = i % l
			}
			return append(append([]byte{}, data[k:]...), data[:k]...)
		}
		hs := make([]dyncrc16.Hash16, n)
		for i := range hs {
			hs[i] = dyncrc16.New()
			hs[i].Write(rot(i)[:l/2])
		}
		for i := 0; i < n; i++ {
			x := dyncrc16.New()
			x.Write([]byte{byte(i), 0xA5, byte(i >> 8)})
		}
		var sb strings.Builder
		for i := range hs {
			hs[i].Write(rot(i)[l/2:])
			fmt.Fprintf(&sb, "%04x", hs[i].Sum16())
		}
		return sb.String()
	}
}

func genCrcMany(r *rng, n int) CaseSet {
	cs := CaseSet{Name: "crc-many-live-hashes"}
	for i := 0; i < n; i++ {
		cs.Cases = append(cs.Cases, fmt.Sprintf("crcmany %d %s", []int{2, 17, 255, 256, 257, 300, 600, 1025}[i%8], hex.EncodeToString(r.bytes(2+r.intn(40)))))
	}
	return cs
}

func genCrcRows() CaseSet {
	cs := CaseSet{Name: "crc-all-transitions"}
	for s := 0; s < 65536; s++ {
		cs.Cases = append(cs.Cases, "crcrow "+strconv.Itoa(s))
	}
	return cs
}

func genCrcSplits(r *rng, n int) CaseSet {
	cs := CaseSet{Name: "crc-stream-splits"}
	for i := 0; i < n; i++ {
		l := r.intn(200)
		if r.chance(5) {
			l = 5000 + r.intn(5000)
		}
		data := r.bytes(l)
		var cuts []string
		pos := 0
		for pos < l && r.chance(80) {
			pos += r.intn(l-pos) + 0
			cuts = append(cuts, strconv.Itoa(pos))
			if len(cuts) > 12 {
				break
			}
		}
		c := "-"
		if len(cuts) > 0 {
			c = strings.Join(cuts, ".")
		}
		cs.Cases = append(cs.Cases, "crcsplit "+c+" "+hex.EncodeToString(data))
	}
	return cs
}

// lcgBytes: n bytes of a congruential generator both sides implement (long buffers are not sent
// over the line protocol)
func lcgBytes(seed uint64, n int) []byte {
	out := make([]byte, n)
	x := seed
	for i := range out {
		x = (1103515245*x + 12345) % 2147483648
		out[i] = byte(x >> 16)
	}
	return out
}

func init() {
	// long buffers: one Write / Checksum call of 64 KiB and more (fast paths for long inputs),
	// even and odd lengths, written whole and in pieces
	extraOps["crcbig"] = func(a []string) string {
		seed, err := strconv.ParseUint(a[0], 10, 64)
		n, err2 := strconv.Atoi(a[1])
		if err != nil || err2 != nil || n < 0 || n > 1<<23 {
			return "bad-arg"
		}
		data := lcgBytes(seed, n)
		h := dyncrc16.New()
		pos := 0
		if a[2] != "-" {
			for _, c := range strings.Split(a[2], ".") {
				k, _ := strconv.Atoi(c)
				if k < pos {
					k = pos
				}
				if k > len(data) {
					k = len(data)
				}
				h.Write(data[pos:k])
				pos = k
			}
		}
		h.Write(data[pos:])
		c := dyncrc16.Checksum(data)
		return fmt.Sprintf("%d %d %d", h.Sum16(), c, dyncrc16.Checksum(append(append([]byte{}, data...), byte(c), byte(c>>8))))
	}
}

func genCrcBig(r *rng, thorough bool) CaseSet {
	cs := CaseSet{Name: "crc-long-buffers"}
	lens := []int{4095, 4097, 32767, 32769, 65535, 65536, 65537, 100001, 131071, 131073, 262143}
	if thorough {
		lens = append(lens, 262145, 524287, 524289, 1048575, 1048577, 2097153)
	}
	for i := 0; i < 4; i++ {
		lens = append(lens, 60000+r.intn(200000))
	}
	for _, l := range lens {
		seed := r.next() % 2147483648
		cs.Cases = append(cs.Cases, fmt.Sprintf("crcbig %d %d -", seed, l))
		// the same buffer in two or three pieces, one of them long
		c1 := r.intn(l/2 + 1)
		cs.Cases = append(cs.Cases, fmt.Sprintf("crcbig %d %d %d", seed, l, c1))
		cs.Cases = append(cs.Cases, fmt.Sprintf("crcbig %d %d %d.%d", seed, l, c1, l-r.intn(l/4+1)))
	}
	return cs
}

// crcLengths: Go-side oracle over many lengths: Checksum and a single Write of a buffer of every
// length around the powers of two up to 2 MiB (and a stride in between) must equal the bitwise
// reference, and the residue rule must hold
func crcLengths(res *RunResult) {
	var lens []int
	for k := 0; k <= 21; k++ {
		for d := -3; d <= 3; d++ {
			if l := (1 << k) + d; l >= 0 {
				lens = append(lens, l)
			}
		}
	}
	for l := 60000; l < 300000; l += 7919 {
		lens = append(lens, l, l+1)
	}
	big := lcgBytes(uint64(res.Seed)+77, 1<<21+8)
	n := 0
	for _, l := range lens {
		for _, off := range []int{0, 1} {
			if off+l > len(big) {
				continue
			}
			data := big[off : off+l]
			want := ownCRC(data)
			n++
			if got := dyncrc16.Checksum(data); got != want {
				addViolation(res, fmt.Sprintf("crcbig %d %d -", uint64(res.Seed)+77, l), fmt.Sprint(got), fmt.Sprintf("Checksum of %d bytes (offset %d of the generated buffer) is %#04x, CRC-16/ARC is %#04x", l, off, got, want))
				return
			}
			h := dyncrc16.New()
			h.Write(data[:l/3])
			h.Write(data[l/3:])
			if got := h.Sum16(); got != want {
				addViolation(res, fmt.Sprintf("crcbig %d %d %d", uint64(res.Seed)+77, l, l/3), fmt.Sprint(got), fmt.Sprintf("two Writes of %d bytes in all give %#04x, CRC-16/ARC is %#04x", l, got, want))
				return
			}
		}
	}
	res.Notes = append(res.Notes, fmt.Sprintf("long-buffer oracle: %d buffers of %d lengths up to 2 MiB against the bitwise reference", n, len(lens)))
}

func clipBytes(b []byte, n int) []byte {
	if len(b) > n {
		return b[:n]
	}
	return b
}
