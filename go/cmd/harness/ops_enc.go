package main

import (
	"bufio"
	"bytes"
	"encoding/binary"
	"encoding/hex"
	"fmt"
	"reflect"
	"strconv"
	"strings"
	"time"

	"github.com/tormoder/fit"
	"verifharness/canon"
)

// ---- building Files from the canonical dump format (public API + reflection on exported fields) ----

func parseValInto(v reflect.Value, s string) error {
	switch v.Type() {
	case reflect.TypeOf(time.Time{}):
		if len(s) < 2 || s[0] != 't' {
			return fmt.Errorf("bad time %q", s)
		}
		p := strings.Split(s[1:], "/")
		if len(p) != 3 {
			return fmt.Errorf("bad time %q", s)
		}
		secs, _ := strconv.ParseInt(p[0], 10, 64)
		off, _ := strconv.Atoi(p[1])
		t := time.Unix(canon.BaseUnix+secs, 0)
		switch p[2] {
		case "0":
			t = t.UTC()
		case "1":
			t = t.In(time.FixedZone("FITLOCAL", off))
		default:
			t = t.In(time.FixedZone("X", off))
		}
		v.Set(reflect.ValueOf(t))
		return nil
	case reflect.TypeOf(fit.Latitude{}):
		z, err := strconv.ParseInt(s[1:], 10, 64)
		if err != nil || s[0] != 'a' {
			return fmt.Errorf("bad lat %q", s)
		}
		v.Set(reflect.ValueOf(fit.NewLatitude(int32(z))))
		return nil
	case reflect.TypeOf(fit.Longitude{}):
		z, err := strconv.ParseInt(s[1:], 10, 64)
		if err != nil || s[0] != 'o' {
			return fmt.Errorf("bad lng %q", s)
		}
		v.Set(reflect.ValueOf(fit.NewLongitude(int32(z))))
		return nil
	}
	switch v.Kind() {
	case reflect.Uint8, reflect.Uint16, reflect.Uint32, reflect.Uint64:
		n, err := strconv.ParseUint(strings.TrimPrefix(s, "u"), 10, 64)
		if err != nil {
			return err
		}
		v.SetUint(n)
	case reflect.Int8, reflect.Int16, reflect.Int32, reflect.Int64:
		n, err := strconv.ParseInt(strings.TrimPrefix(s, "i"), 10, 64)
		if err != nil {
			return err
		}
		v.SetInt(n)
	case reflect.String:
		b, err := hex.DecodeString(strings.TrimPrefix(s, "s"))
		if err != nil {
			return err
		}
		v.SetString(string(b))
	case reflect.Slice:
		if s == "n" {
			v.Set(reflect.Zero(v.Type()))
			return nil
		}
		if len(s) < 3 {
			return fmt.Errorf("bad slice %q", s)
		}
		body := s[2 : len(s)-1]
		var parts []string
		if body != "" {
			parts = strings.Split(body, ".")
		}
		sl := reflect.MakeSlice(v.Type(), len(parts), len(parts))
		for i, p := range parts {
			e := sl.Index(i)
			switch e.Kind() {
			case reflect.Uint8, reflect.Uint16, reflect.Uint32, reflect.Uint64:
				n, _ := strconv.ParseUint(p, 10, 64)
				e.SetUint(n)
			case reflect.Int8, reflect.Int16, reflect.Int32, reflect.Int64:
				n, _ := strconv.ParseInt(p, 10, 64)
				e.SetInt(n)
			case reflect.String:
				b, _ := hex.DecodeString(p)
				e.SetString(string(b))
			}
		}
		v.Set(sl)
	default:
		return fmt.Errorf("unsupported kind %v", v.Kind())
	}
	return nil
}

// parseMsgInto fills the struct pointed to by ptr from "num:v,v,v".
func parseMsgInto(ptr reflect.Value, s string) error {
	i := strings.IndexByte(s, ':')
	if i < 0 {
		return fmt.Errorf("bad msg")
	}
	var vals []string
	if s[i+1:] != "" {
		vals = strings.Split(s[i+1:], ",")
	}
	st := ptr.Elem()
	if len(vals) != st.NumField() {
		return fmt.Errorf("field count %d != %d", len(vals), st.NumField())
	}
	for k, vs := range vals {
		if err := parseValInto(st.Field(k), vs); err != nil {
			return err
		}
	}
	return nil
}

func sectionsOf(dump string) map[string]string {
	m := map[string]string{}
	for _, s := range strings.Split(dump, ";") {
		for _, p := range []string{"UM", "UF", "H", "C", "I", "R", "Z", "D", "E", "K", "A"} {
			if strings.HasPrefix(s, p) {
				if _, dup := m[p]; !dup {
					m[p] = s[len(p):]
				}
				break
			}
		}
	}
	return m
}

// buildFile constructs a *fit.File from a dump through NewFile and exported fields.
func buildFile(dump string) (*fit.File, error) {
	sec := sectionsOf(dump)
	var h fit.Header
	hp := strings.Split(sec["H"], "/")
	if len(hp) != 6 {
		return nil, fmt.Errorf("bad header")
	}
	n := func(s string) uint64 { v, _ := strconv.ParseUint(s, 10, 64); return v }
	h.Size, h.ProtocolVersion, h.ProfileVersion, h.DataSize, h.CRC = byte(n(hp[0])), byte(n(hp[1])), uint16(n(hp[2])), uint32(n(hp[3])), uint16(n(hp[5]))
	dt, _ := hex.DecodeString(hp[4])
	copy(h.DataType[:], dt)
	var fid fit.FileIdMsg
	if err := parseMsgInto(reflect.ValueOf(&fid), sec["I"]); err != nil {
		return nil, err
	}
	f, err := fit.NewFile(fid.Type, h)
	if err != nil {
		// not a hosted type: only reachable as a bare File
		f = &fit.File{Header: h}
	}
	f.FileId = fid
	f.CRC = uint16(n(sec["C"]))
	if sec["R"] != "-" && sec["R"] != "" {
		m := fit.NewFileCreatorMsg()
		if err := parseMsgInto(reflect.ValueOf(m), sec["R"]); err != nil {
			return nil, err
		}
		f.FileCreator = m
	}
	if sec["Z"] != "-" && sec["Z"] != "" {
		m := fit.NewTimestampCorrelationMsg()
		if err := parseMsgInto(reflect.ValueOf(m), sec["Z"]); err != nil {
			return nil, err
		}
		f.TimestampCorrelation = m
	}
	k := sec["K"]
	if k == "none" || k == "" {
		return f, nil
	}
	open := strings.IndexByte(k, '{')
	if open < 0 || !strings.HasSuffix(k, "}") {
		return nil, fmt.Errorf("bad container")
	}
	c := fit.VerifContainer(f)
	if c == nil {
		return f, nil
	}
	cv := reflect.ValueOf(c).Elem()
	if cv.Type().Name() != k[:open] {
		return nil, fmt.Errorf("container %s does not match file type (%s)", k[:open], cv.Type().Name())
	}
	slots := strings.Split(k[open+1:len(k)-1], "~")
	if len(slots) != cv.NumField() {
		return nil, fmt.Errorf("slot count")
	}
	for i, s := range slots {
		fv := cv.Field(i)
		switch fv.Kind() {
		case reflect.Ptr:
			if s == "-" {
				continue
			}
			m := reflect.New(fv.Type().Elem())
			if err := parseMsgInto(m, s); err != nil {
				return nil, err
			}
			fv.Set(m)
		case reflect.Slice:
			body := s[1 : len(s)-1]
			if body == "" {
				continue
			}
			for _, ms := range strings.Split(body, "|") {
				m := reflect.New(fv.Type().Elem().Elem())
				if err := parseMsgInto(m, ms); err != nil {
					return nil, err
				}
				fv.Set(reflect.Append(fv, m))
			}
		}
	}
	return f, nil
}

func archOf(s string) binary.ByteOrder {
	if s == "1" {
		return binary.BigEndian
	}
	return binary.LittleEndian
}

func renderContent(f *fit.File) string {
	var keep []string
	for _, s := range strings.Split(renderFile(f), ";") {
		if !strings.HasPrefix(s, "H") && !strings.HasPrefix(s, "C") {
			keep = append(keep, s)
		}
	}
	return strings.Join(keep, ";")
}

// safeEncode runs Encode under recover: tag ok | err | panic.
func safeEncode(f *fit.File, arch binary.ByteOrder) (b []byte, tag string) {
	defer func() {
		if p := recover(); p != nil {
			b, tag = nil, "panic"
		}
	}()
	var buf bytes.Buffer
	if err := fit.Encode(&buf, f, arch); err != nil {
		return nil, "err"
	}
	return buf.Bytes(), "ok"
}

func decTag(err error) string { return tag(err) }

// recWriter keeps what it accepted; after `left` bytes it fails (a short write first when a call
// straddles the limit)
type recWriter struct {
	left int
	got  []byte
}

func (w *recWriter) Write(p []byte) (int, error) {
	if len(p) <= w.left {
		w.left -= len(p)
		w.got = append(w.got, p...)
		return len(p), nil
	}
	n := w.left
	w.left = 0
	w.got = append(w.got, p[:n]...)
	return n, fmt.Errorf("write fault")
}

// kindEncode: Encode of a freshly built File into a plain io.Writer or through a bufio.Writer
func kindEncode(dump string, arch binary.ByteOrder, kind string) (got []byte, ok bool) {
	f, err := buildFile(dump)
	if err != nil {
		return nil, false
	}
	defer func() {
		if r := recover(); r != nil {
			got, ok = nil, false
		}
	}()
	if kind == "nonempty-buffer" {
		// a bytes.Buffer that already holds something (a second file appended to a chain): what is
		// appended is the same stream, and what was there stays
		pre := []byte{0xDE, 0xAD, 0xBE, 0xEF, 0x01}
		bb := bytes.NewBuffer(append([]byte{}, pre...))
		if err := fit.Encode(bb, f, arch); err != nil || !bytes.HasPrefix(bb.Bytes(), pre) {
			return nil, false
		}
		return bb.Bytes()[len(pre):], true
	}
	w := &recWriter{left: 1 << 40}
	if kind == "bufio" {
		bw := bufio.NewWriterSize(w, 64)
		if err := fit.Encode(bw, f, arch); err != nil || bw.Flush() != nil {
			return nil, false
		}
		return w.got, true
	}
	if err := fit.Encode(w, f, arch); err != nil {
		return nil, false
	}
	return w.got, true
}

// faultEncode: Encode of a freshly built File into a writer that fails after k bytes; ok reports
// that Encode returned nil (panics count as not-ok: C05's other sets look at those)
func faultEncode(dump string, arch binary.ByteOrder, k int) (got []byte, ok bool) {
	f, err := buildFile(dump)
	if err != nil {
		return nil, false
	}
	defer func() {
		if r := recover(); r != nil {
			got, ok = nil, false
		}
	}()
	w := &recWriter{left: k}
	if err := fit.Encode(w, f, arch); err != nil {
		return nil, false
	}
	return w.got, true
}

func init() {
	extraOps["enc"] = func(a []string) string {
		if len(a) != 2 {
			return "bad-op"
		}
		f, err := buildFile(a[1])
		if err != nil {
			return "bad-file"
		}
		b, t := safeEncode(f, archOf(a[0]))
		if t != "ok" {
			return t + " - - -"
		}
		res := fmt.Sprintf("ok %s H%s C%d", hex.EncodeToString(b), renderHeader(f.Header), f.CRC)
		// the same File into writers that fail after k bytes: when Encode reports success, what the
		// writer received must be the whole stream
		for _, k := range []int{0, 1, 13, len(b) / 2, len(b) - 3, len(b) - 2, len(b) - 1, len(b)} {
			if k < 0 || k > len(b) {
				continue
			}
			if got, ok := faultEncode(a[1], archOf(a[0]), k); ok && !bytes.Equal(got, b) {
				return fmt.Sprintf("fault-swallowed writer-failed-after=%d received=%d of=%d", k, len(got), len(b))
			}
		}
		// the same File into writers of other concrete types: a writer that is nothing but an io.Writer
		// and a bufio.Writer (the buffer above is a bytes.Buffer, which also has WriteString, WriteByte
		// and ReadFrom) receive the same bytes
		for _, kind := range []string{"plain", "bufio", "nonempty-buffer"} {
			if got, ok := kindEncode(a[1], archOf(a[0]), kind); !ok || !bytes.Equal(got, b) {
				return fmt.Sprintf("writer-kind-differs kind=%s ok=%v received=%d of=%d", kind, ok, len(got), len(b))
			}
		}
		return res
	}
	// enc2 <arch> <proto> <file>: Encode, change the protocol version of the same File (its header now
	// holds the data size and the CRCs just written), Encode again: the second output
	extraOps["enc2"] = func(a []string) string {
		if len(a) != 3 {
			return "bad-op"
		}
		pv, err0 := strconv.Atoi(a[1])
		f, err := buildFile(a[2])
		if err != nil || err0 != nil {
			return "bad-file"
		}
		if _, t := safeEncode(f, archOf(a[0])); t != "ok" {
			return t + "1 - - -"
		}
		f.Header.ProtocolVersion = byte(pv)
		b, t := safeEncode(f, archOf(a[0]))
		if t != "ok" {
			return t + " - - -"
		}
		return fmt.Sprintf("ok %s H%s C%d", hex.EncodeToString(b), renderHeader(f.Header), f.CRC)
	}
	extraOps["encrep"] = func(a []string) string {
		if len(a) != 3 {
			return "bad-op"
		}
		k, _ := strconv.Atoi(a[0])
		f, err := buildFile(a[2])
		if err != nil {
			return "bad-file"
		}
		first, t := safeEncode(f, archOf(a[1]))
		if t != "ok" {
			return t
		}
		for i := 1; i < k; i++ {
			// a freshly built, deeply equal File each time
			f2, _ := buildFile(a[2])
			b, t2 := safeEncode(f2, archOf(a[1]))
			if t2 != "ok" || !bytes.Equal(b, first) {
				return "differ"
			}
			// and the same File value again
			b, t2 = safeEncode(f, archOf(a[1]))
			if t2 != "ok" || !bytes.Equal(b, first) {
				return "differ-on-repeat"
			}
		}
		return "same"
	}
	extraOps["rt"] = func(a []string) (out string) {
		if len(a) != 2 {
			return "bad-op"
		}
		f, err := buildFile(a[1])
		if err != nil {
			return "bad-file"
		}
		b, t := safeEncode(f, archOf(a[0]))
		if t != "ok" {
			return t + " - - -"
		}
		fit.VerifSetAccumulators([3]fit.VerifAccu{})
		r := parseReaderSpec("-", b)
		defer func() {
			if p := recover(); p != nil {
				out = "ok panic - -"
			}
		}()
		f2, err := fit.Decode(r)
		return fmt.Sprintf("ok %s %d %s", decTag(err), r.pos, renderFile(f2))
	}
	extraOps["c07"] = func(a []string) (out string) {
		if len(a) != 2 {
			return "bad-op"
		}
		data, err := hex.DecodeString(a[1])
		if err != nil {
			return "bad-hex"
		}
		fit.VerifSetAccumulators([3]fit.VerifAccu{})
		stage := "d1"
		defer func() {
			if p := recover(); p != nil {
				out = fmt.Sprintf("%s panic-in-%s", out, stage)
			}
		}()
		f1, err := fit.Decode(bytes.NewReader(data))
		if err != nil {
			return "d1=" + decTag(err)
		}
		x1 := renderContent(f1)
		stage = "e1"
		b1, t := safeEncode(f1, archOf(a[0]))
		if t != "ok" {
			return "d1=ok e1=" + t
		}
		stage = "i1"
		i1 := fit.CheckIntegrity(bytes.NewReader(b1), false)
		stage = "d2"
		f2, err := fit.Decode(bytes.NewReader(b1))
		if err != nil {
			return fmt.Sprintf("d1=ok e1=ok i1=%s d2=%s", decTag(i1), decTag(err))
		}
		x2 := renderContent(f2)
		other := "1"
		if a[0] == "1" {
			other = "0"
		}
		stage = "e2"
		b2, t := safeEncode(f2, archOf(other))
		if t != "ok" {
			return fmt.Sprintf("d1=ok e1=ok i1=%s d2=ok e2=%s", decTag(i1), t)
		}
		stage = "d3"
		f3, err := fit.Decode(bytes.NewReader(b2))
		x3 := "nil"
		if f3 != nil {
			x3 = renderContent(f3)
		}
		return fmt.Sprintf("d1=ok e1=ok i1=%s d2=ok e2=ok d3=%s X1=%s X2=%s X3=%s", decTag(i1), decTag(err), x1, x2, x3)
	}
}
