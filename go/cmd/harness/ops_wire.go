package main

import (
	"bytes"
	"encoding/hex"
	"fmt"
	"strconv"
	"strings"

	"github.com/tormoder/fit"
)

// item-level streams: the harness serialises the items with its own writer (recs), the model
// with FitModel.Items.serialize; both then decode.

type witem struct {
	kind   byte // 'D', 'R', 'C'
	d      defn
	local  byte
	off    byte
	fields [][]byte
	dev    [][]byte
}

func (it witem) text() string {
	switch it.kind {
	case 'D':
		fs := make([]string, len(it.d.fields))
		for i, f := range it.d.fields {
			fs[i] = fmt.Sprintf("%d.%d.%d", f.num, f.size, f.btype)
		}
		ds := make([]string, len(it.d.dev))
		for i, f := range it.d.dev {
			ds[i] = fmt.Sprintf("%d.%d.%d", f.num, f.size, f.idx)
		}
		dv := 0
		if it.d.devBit {
			dv = 1
		}
		return fmt.Sprintf("D%d.%d.%d.%d:%s:%s", it.d.local, it.d.arch, it.d.global, dv, strings.Join(fs, ","), strings.Join(ds, ","))
	case 'R', 'C':
		// an empty part (a field of size 0) is written "z": a list of one empty part is not the empty list
		part := func(b []byte) string {
			if len(b) == 0 {
				return "z"
			}
			return hex.EncodeToString(b)
		}
		fs := make([]string, len(it.fields))
		for i, f := range it.fields {
			fs[i] = part(f)
		}
		ds := make([]string, len(it.dev))
		for i, f := range it.dev {
			ds[i] = part(f)
		}
		if it.kind == 'R' {
			return fmt.Sprintf("R%d:%s:%s", it.local, strings.Join(fs, ","), strings.Join(ds, ","))
		}
		return fmt.Sprintf("C%d.%d:%s:%s", it.local, it.off, strings.Join(fs, ","), strings.Join(ds, ","))
	}
	return "?"
}

func parseTriplesGo(s string) [][3]byte {
	var r [][3]byte
	if s == "" {
		return r
	}
	for _, t := range strings.Split(s, ",") {
		x := strings.Split(t, ".")
		if len(x) != 3 {
			continue
		}
		var tr [3]byte
		for i := range tr {
			n, _ := strconv.Atoi(x[i])
			tr[i] = byte(n)
		}
		r = append(r, tr)
	}
	return r
}

func parseHexListGo(s string) [][]byte {
	var r [][]byte
	if s == "" {
		return r
	}
	for _, t := range strings.Split(s, ",") {
		b, _ := hex.DecodeString(t)
		r = append(r, b)
	}
	return r
}

func itemsToBytes(items string) ([]byte, bool) {
	var b recs
	for _, s := range strings.Split(items, "|") {
		if len(s) < 2 {
			return nil, false
		}
		parts := strings.Split(s[1:], ":")
		if len(parts) != 3 {
			return nil, false
		}
		switch s[0] {
		case 'D':
			h := strings.Split(parts[0], ".")
			if len(h) != 4 {
				return nil, false
			}
			l, _ := strconv.Atoi(h[0])
			a, _ := strconv.Atoi(h[1])
			g, _ := strconv.Atoi(h[2])
			d := defn{local: byte(l), arch: byte(a), global: uint16(g), devBit: h[3] == "1"}
			for _, t := range parseTriplesGo(parts[1]) {
				d.fields = append(d.fields, fdef{t[0], t[1], t[2]})
			}
			for _, t := range parseTriplesGo(parts[2]) {
				d.dev = append(d.dev, ddesc{t[0], t[1], t[2]})
			}
			b.def(d)
		case 'R':
			l, _ := strconv.Atoi(parts[0])
			b.WriteByte(byte(l))
			for _, f := range parseHexListGo(parts[1]) {
				b.Write(f)
			}
			for _, f := range parseHexListGo(parts[2]) {
				b.Write(f)
			}
		case 'C':
			h := strings.Split(parts[0], ".")
			if len(h) != 2 {
				return nil, false
			}
			l, _ := strconv.Atoi(h[0])
			o, _ := strconv.Atoi(h[1])
			b.WriteByte(byte(0x80 + l*32 + o))
			for _, f := range parseHexListGo(parts[1]) {
				b.Write(f)
			}
			for _, f := range parseHexListGo(parts[2]) {
				b.Write(f)
			}
		default:
			return nil, false
		}
	}
	return b.Bytes(), true
}

func init() {
	extraOps["wire"] = func(a []string) (out string) {
		if len(a) != 3 {
			return "bad-op"
		}
		recsb, ok := itemsToBytes(a[2])
		if !ok {
			return "bad-items"
		}
		data := frame(recsb, defaultFrame())
		fit.VerifSetAccumulators(parseAccuState(a[1]))
		r := &schedReader{data: data, stop: nil}
		defer func() {
			if p := recover(); p != nil {
				out = fmt.Sprintf("panic %d %s - SPEC=ok", r.pos, renderAccuState())
			}
		}()
		f, err := fit.Decode(bytes.NewReader(data), parseOpts(a[0])...)
		n := len(data)
		_ = n
		consumed := len(data)
		if err != nil {
			// consumption on error paths is compared through the `dec` cases; recompute here
			rr := parseReaderSpec("-", data)
			fit.VerifSetAccumulators(parseAccuState(a[1]))
			f, err = fit.Decode(rr, parseOpts(a[0])...)
			consumed = rr.pos
		}
		return fmt.Sprintf("%s %d %s %s SPEC=ok", tag(err), consumed, renderAccuState(), renderFile(f))
	}
}

// genWire: well-formed item streams (all definitions compatible, payload sizes exact).
func genWire(r *rng, n int) CaseSet {
	cs := CaseSet{Name: "item-streams"}
	for i := 0; i < n; i++ {
		k := fullKnobs()
		k.badDefs = 0
		k.records = 1 + r.intn(30)
		items := randomItems(r, k)
		parts := make([]string, len(items))
		for j, it := range items {
			parts[j] = it.text()
		}
		o := []string{"000", "011", "111", "010", "001"}[r.intn(5)]
		cs.Cases = append(cs.Cases, "wire "+o+" - "+strings.Join(parts, "|"))
	}
	return cs
}

// randomItems mirrors randomStream but keeps the item structure.
func randomItems(r *rng, k streamKnobs) []witem {
	var items []witem
	hs := hostedFileTypes()
	ft := hs[r.intn(len(hs))]
	if k.ftype >= 0 {
		ft = byte(k.ftype)
	}
	fid := defn{local: 0, arch: byte(r.intn(2)), global: 0, fields: []fdef{{0, 1, 0}}}
	items = append(items, witem{kind: 'D', d: fid}, witem{kind: 'R', local: 0, fields: [][]byte{{ft}}})
	var defs [16]*defn
	defs[0] = &fid
	for i := 0; i < k.records; i++ {
		nd := 0
		for _, d := range defs {
			if d != nil {
				nd++
			}
		}
		if r.intn(10) < 3 || nd < 2 {
			local := byte(r.intn(16))
			if k.compressed && r.chance(50) {
				local = byte(r.intn(4))
			}
			d := randomDef(r, k, local)
			if !d.devBit {
				d.dev = nil
			}
			dd := d
			defs[local] = &dd
			items = append(items, witem{kind: 'D', d: d})
			continue
		}
		var ls []int
		for l, d := range defs {
			if d != nil && l != 0 {
				ls = append(ls, l)
			}
		}
		if len(ls) == 0 {
			continue
		}
		l := ls[r.intn(len(ls))]
		d := defs[l]
		it := witem{kind: 'R', local: byte(l)}
		for _, f := range d.fields {
			sz := int(f.size)
			var v []byte
			if f.num == 253 && sz == 4 {
				switch r.intn(5) {
				case 0:
					v = putUint(d.arch, 4, 0xFFFFFFFF)
				case 1:
					v = putUint(d.arch, 4, uint64(r.intn(0x10000000)))
				default:
					v = putUint(d.arch, 4, 0x30000000+uint64(r.intn(1<<20)))
				}
			} else {
				v = payloads(r, sz, 3)[2]
			}
			it.fields = append(it.fields, v)
		}
		for _, f := range d.dev {
			it.dev = append(it.dev, r.bytes(int(f.size)))
		}
		if k.compressed && l < 4 && r.chance(50) {
			it.kind = 'C'
			it.off = byte(r.intn(32))
		}
		items = append(items, it)
	}
	return items
}
