package main

import (
	"encoding/json"
	"fmt"
	"os"
	"path/filepath"
	"strings"
	"time"
)

// RunResult is what `harness run` hands to bin/check.
type RunResult struct {
	Property      string     `json:"property"`
	Tier          string     `json:"tier"`
	Seed          uint64     `json:"seed"`
	Stats         *RunStats  `json:"stats"`
	Rule          string     `json:"rule"`
	Exhaustive    bool       `json:"exhaustive"`
	KnownFindings []string   `json:"known_findings"`
	Violations    []Mismatch `json:"violations"`
	Notes         []string   `json:"notes"`
	WallS         float64    `json:"wall_s"`
}

type propGen func(r *rng, thorough bool) (sets []CaseSet, rule string, exhaustive bool)

var propGens = map[string]propGen{}

// propPost lets a property inspect the finished run (spec deviations, known findings).
var propPost = map[string]func(res *RunResult){}

func cmdRun(args []string) int {
	if len(args) < 2 {
		fmt.Fprintln(realStderr, "usage: harness run <Cxx> <quick|thorough> [out.json]")
		return 2
	}
	prop, tier := args[0], args[1]
	out := filepath.Join(buildDir, "run", prop+".json")
	if len(args) > 2 {
		out = args[2]
	}
	gen, ok := propGens[prop]
	if !ok {
		fmt.Fprintln(realStderr, "no generator for", prop)
		return 2
	}
	seed := seedFromEnv()
	t0 := time.Now()
	r := newRng(seed)
	sets, rule, exh := gen(r, tier == "thorough")
	// regression corpus of minimised past disagreements runs first
	if cs := regressionCases(prop); len(cs.Cases) > 0 {
		sets = append([]CaseSet{cs}, sets...)
	}
	st := correspond(sets)
	res := &RunResult{Property: prop, Tier: tier, Seed: seed, Stats: st, Rule: rule, Exhaustive: exh}
	for _, m := range st.Mismatches {
		res.Violations = append(res.Violations, m)
	}
	// classify each disagreement: does it concern an observable the property determines?
	k := 0
	for i := range st.cases {
		if st.impl[i] != st.model[i] && st.impl[i] != "model-only" {
			if k < len(res.Violations) {
				res.Violations[k].Kind = mismatchKind(prop, st.impl[i], st.model[i])
			}
			k++
		}
	}
	if st.Hangs > 0 {
		res.Notes = append(res.Notes, fmt.Sprintf("%d cases hung or crashed the worker", st.Hangs))
	}
	if post, ok := propPost[prop]; ok {
		post(res)
	}
	res.WallS = time.Since(t0).Seconds()
	os.MkdirAll(filepath.Dir(out), 0o755)
	js, _ := json.MarshalIndent(res, "", " ")
	if err := os.WriteFile(out, js, 0o644); err != nil {
		fmt.Fprintln(realStderr, err)
		return 2
	}
	fmt.Printf("run %s %s: evaluations=%d distinct=%d mismatches=%d hangs=%d wall=%.1fs\n", prop, tier,
		st.Evaluations, st.Distinct, st.NMismatch, st.Hangs, res.WallS)
	return 0
}

// functional properties: the property determines the observable, so implementation ≠ proved model
// on it is a failing input for the property itself
var functionalProps = map[string]bool{"C02": true, "C03": true, "C04": true, "C12": true, "C13": true, "C14": true,
	"C15": true, "C16": true, "C17": true, "C18": true, "C20": true}

// mismatchKind: "property" if the two result lines differ on what the property constrains.
func mismatchKind(prop, impl, model string) string {
	if strings.HasPrefix(impl, "panic") || strings.HasPrefix(impl, "hang") || strings.HasPrefix(impl, "crash") {
		if prop == "C01" {
			return "property"
		}
	}
	if !functionalProps[prop] {
		return "correspondence"
	}
	a, ok1 := parseDecRes(impl)
	b, ok2 := parseDecRes(model)
	if !ok1 || !ok2 {
		// not a decode result line (checksum rows, coordinate values, strings, …): the whole line is the observable
		return "property"
	}
	okA, okB := a.tag == "ok", b.tag == "ok"
	switch prop {
	case "C04": // accept / reject verdicts only
		if okA != okB {
			return "property"
		}
		return "correspondence"
	case "C18": // values and accumulator state
		if okA != okB || a.dump != b.dump || a.accu != b.accu {
			return "property"
		}
		return "correspondence"
	default: // accepted or not, and the decoded content; not the error class, not the bytes pulled
		if okA != okB || a.dump != b.dump {
			return "property"
		}
		return "correspondence"
	}
}

// regressionCases loads /verif/corpus/<prop>.cases (one case line per line).
func regressionCases(prop string) CaseSet {
	cs := CaseSet{Name: "regression-corpus"}
	for _, name := range []string{prop + ".cases", "all.cases"} {
		b, err := os.ReadFile(filepath.Join(verifDir, "corpus", name))
		if err != nil {
			continue
		}
		for _, l := range readLines(b) {
			if l != "" && l[0] != '#' {
				cs.Cases = append(cs.Cases, l)
			}
		}
	}
	return cs
}

func init() {
	propGens["C14"] = func(r *rng, thorough bool) ([]CaseSet, string, bool) {
		n := 2000
		if thorough {
			n = 50000
		}
		return []CaseSet{genCrcRows(), genCrcSplits(r, n), genCrcMany(r, 16), genCrcBig(r, thorough)},
			"all 65536 register states x 256 bytes through dyncrc16.New/Write/Sum16 and Checksum (one case = one state row of 256 transitions), plus random byte strings under random write partitions with Sum/Reset, 2 … 1025 hashes alive at the same time, each fed in two writes with other hashes created and fed in between, and generated buffers of 4 KiB … 2 MiB (even and odd lengths around the powers of two) in one Write / Checksum call and in pieces, with the residue rule; Go-side: every length around every power of two up to 2 MiB against a bitwise reference; distinct = distinct result rows", true
	}
	propPost["C14"] = crcLengths
}
