package main

import (
	"encoding/binary"
	"encoding/hex"
	"fmt"
	"strconv"
	"strings"
)

// ---- "values on the wire equal the values in the File" (C05), without the library ----
//
// checkGrammar keeps every data record it recognises (global number, byte order, fields as raw
// bytes under the definition in force). wireValuesAgree lines these records up with the messages
// of the File that was encoded (file_id, file_creator, timestamp_correlation, then the container's messages in struct order) and
// compares every field on the wire with the File's value: scalars exactly, arrays element by
// element with the tail the File does not have equal to the base type's invalid value, strings up
// to the profile's fixed length with zero fill. A valid scalar of the File, or an array holding a
// valid element at any position, that is missing from the record is a difference too.

type wireField struct {
	num, size int
	bt        byte
	raw       []byte
}

type wireRec struct {
	global int
	big    bool
	fields []wireField
}

func btInvalidRaw(bt byte) uint64 {
	switch bt {
	case 0x00, 0x02, 0x0D:
		return 0xFF
	case 0x01:
		return 0x7F
	case 0x83:
		return 0x7FFF
	case 0x84:
		return 0xFFFF
	case 0x85:
		return 0x7FFFFFFF
	case 0x86, 0x88:
		return 0xFFFFFFFF
	case 0x89, 0x8F:
		return 0xFFFFFFFFFFFFFFFF
	case 0x8E:
		return 0x7FFFFFFFFFFFFFFF
	}
	return 0 // string, uint8z, uint16z, uint32z, uint64z
}

func rawElems(f wireField, big bool) []uint64 {
	bs := btSize[f.bt]
	var out []uint64
	for p := 0; p+bs <= len(f.raw); p += bs {
		e := f.raw[p : p+bs]
		var v uint64
		switch bs {
		case 1:
			v = uint64(e[0])
		case 2:
			if big {
				v = uint64(binary.BigEndian.Uint16(e))
			} else {
				v = uint64(binary.LittleEndian.Uint16(e))
			}
		case 4:
			if big {
				v = uint64(binary.BigEndian.Uint32(e))
			} else {
				v = uint64(binary.LittleEndian.Uint32(e))
			}
		case 8:
			if big {
				v = binary.BigEndian.Uint64(e)
			} else {
				v = binary.LittleEndian.Uint64(e)
			}
		}
		out = append(out, v)
	}
	return out
}

func maskTo(v uint64, bs int) uint64 {
	if bs >= 8 {
		return v
	}
	return v & (uint64(1)<<(8*uint(bs)) - 1)
}

// expectedElems: the raw elements the File's value stands for, for a wire field of n elements.
// ok=false: the value has no single expected encoding here (not compared).
func expectedElems(v string, f wireField, tcode int, n int) ([]uint64, bool) {
	bs := btSize[f.bt]
	if len(v) == 0 {
		return nil, false
	}
	num := func(s string) (uint64, bool) {
		if strings.HasPrefix(s, "-") {
			i, err := strconv.ParseInt(s, 10, 64)
			return maskTo(uint64(i), bs), err == nil
		}
		u, err := strconv.ParseUint(s, 10, 64)
		return maskTo(u, bs), err == nil
	}
	pad := func(es []uint64) []uint64 {
		if len(es) > n {
			es = es[:n]
		}
		for len(es) < n {
			es = append(es, btInvalidRaw(f.bt))
		}
		return es
	}
	switch v[0] {
	case 'u', 'i', 'f', 'a', 'o':
		x, ok := num(v[1:])
		if !ok || n != 1 {
			return nil, false
		}
		return []uint64{x}, true
	case 't':
		p := strings.Split(v[1:], "/")
		if len(p) != 3 || n != 1 {
			return nil, false
		}
		s, e1 := strconv.ParseInt(p[0], 10, 64)
		o, e2 := strconv.ParseInt(p[1], 10, 64)
		if e1 != nil || e2 != nil {
			return nil, false
		}
		if tcKind(tcode) == 2 {
			s += o
		}
		if s < 0 || s > 0xFFFFFFFF {
			return nil, false // outside what a uint32 of seconds can say: Encode's result is not determined by the File
		}
		return []uint64{uint64(s)}, true
	case 'U', 'I', 'F':
		var es []uint64
		for _, e := range splitElems(v) {
			x, ok := num(e)
			if !ok {
				return nil, false
			}
			es = append(es, x)
		}
		return pad(es), true
	case 'n':
		return pad(nil), true
	}
	return nil, false
}

func wireValuesAgree(dump string, recs []wireRec) string {
	paths, msgs := flattenMsgs(dump)
	var fp []string
	var fm []dumpMsg
	for i, p := range paths {
		if p == "I" || p == "R" || p == "Z" || strings.HasPrefix(p, "K") {
			fp = append(fp, p)
			fm = append(fm, msgs[i])
		}
	}
	if len(fm) != len(recs) {
		return fmt.Sprintf("%d data records on the wire for %d messages in the File", len(recs), len(fm))
	}
	for i, m := range fm {
		r := recs[i]
		if r.global != m.num {
			return fmt.Sprintf("%s: record %d has global number %d, the File's message is %d", fp[i], i, r.global, m.num)
		}
		facts, ok := findMsg(m.num)
		if !ok {
			continue
		}
		inv := invalidVals(m.num)
		onWire := map[int]bool{}
		for _, wf := range r.fields {
			onWire[wf.num] = true
			var pf [4]int
			found := false
			for _, f := range facts.Fields {
				if f[1] == wf.num {
					pf, found = f, true
				}
			}
			if !found {
				return fmt.Sprintf("%s: field %d on the wire is not a field of message %d", fp[i], wf.num, m.num)
			}
			if pf[0] >= len(m.vals) {
				continue
			}
			v := m.vals[pf[0]]
			name := ""
			if pf[0] < len(facts.FNames) {
				name = facts.FNames[pf[0]]
			}
			if wf.bt == 0x07 {
				if len(v) == 0 || v[0] != 's' {
					continue
				}
				sb, err := hex.DecodeString(v[1:])
				if err != nil {
					continue
				}
				if pf[3] > 0 && len(sb) > pf[3]-1 {
					sb = sb[:pf[3]-1]
				}
				want := make([]byte, wf.size)
				copy(want, sb)
				if len(sb) >= wf.size || string(want) != string(wf.raw) {
					return fmt.Sprintf("%s field %s: string on the wire %x, File has %x", fp[i], name, wf.raw, sb)
				}
				continue
			}
			got := rawElems(wf, r.big)
			want, ok := expectedElems(v, wf, pf[2], len(got))
			if !ok {
				continue
			}
			for k := range got {
				if got[k] != want[k] {
					return fmt.Sprintf("%s field %s element %d: wire %d, File %s (expected %d)", fp[i], name, k, got[k], clipS(v), want[k])
				}
			}
		}
		// valid scalars of the File must be on the wire
		for _, f := range facts.Fields {
			if f[0] >= len(m.vals) || f[0] >= len(inv) || onWire[f[1]] {
				continue
			}
			v := m.vals[f[0]]
			if len(v) == 0 {
				continue
			}
			if tcArray(f[2]) {
				// an array that holds a valid element anywhere must be on the wire too
				if (v[0] == 'U' || v[0] == 'I') && len(v) >= 3 {
					bt := tcBase(f[2])
					bs := btSize[bt]
					for k, e := range splitElems(v) {
						var x uint64
						if strings.HasPrefix(e, "-") {
							i, err := strconv.ParseInt(e, 10, 64)
							if err != nil {
								continue
							}
							x = maskTo(uint64(i), bs)
						} else {
							u, err := strconv.ParseUint(e, 10, 64)
							if err != nil {
								continue
							}
							x = maskTo(u, bs)
						}
						if bs > 0 && x != btInvalidRaw(bt) {
							return fmt.Sprintf("%s field %s: File has %s (element %d is valid), the record does not carry the field", fp[i], facts.FNames[f[0]], clipS(v), k)
						}
					}
				}
				continue
			}
			switch v[0] {
			case 'u', 'i', 'a', 'o', 's':
				if v != inv[f[0]] {
					return fmt.Sprintf("%s field %s: File has %s, the record does not carry the field", fp[i], facts.FNames[f[0]], clipS(v))
				}
			}
		}
	}
	return ""
}
