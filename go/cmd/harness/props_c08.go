package main

import (
	"encoding/hex"
	"fmt"
	"os/exec"
	"regexp"
	"strconv"
	"strings"
)

// pool of calls for histories: decode-type calls over valid and invalid inputs, encode calls
func callPool(r *rng, n int) []string {
	var pool []string
	files := validFiles(r, n, 3000)
	compFiles := genComponents(r, n).Cases
	for i, f := range files {
		if len(f) > 6000 {
			continue
		}
		e := []string{"decode", "chained", "integ", "integhdr", "headerfid", "decode", "header"}[i%7]
		o := []string{"000", "011", "111"}[i%3]
		pool = append(pool, decCase(e, o, "-", "-", f))
	}
	for i, c := range compFiles {
		if i < n {
			// component-bearing files: their accumulated fields depend on the accumulators (D12)
			dc, _ := parseDecCase(c)
			pool = append(pool, decCase("decode", "000", "-", "-", dc.data))
		}
	}
	// the same component-bearing files (their records carry byte-array fields) with a wrong file CRC
	// and cut short: Decode returns the partial File together with the error, and that File must
	// stay what it was when later calls decode other byte arrays
	for i, c := range compFiles {
		if i >= n/2 {
			break
		}
		dc, _ := parseDecCase(c)
		if len(dc.data) < 20 {
			continue
		}
		bad := append([]byte{}, dc.data...)
		bad[len(bad)-1] ^= 0xFF
		pool = append(pool, decCase([]string{"decode", "chained"}[i%2], "000", "-", "-", bad))
		pool = append(pool, decCase("decode", "000", "-", "-", dc.data[:len(dc.data)-3]))
	}
	// streams whose records use the reference time before (or without) setting it: any decoder
	// state surviving a call shows in their timestamps
	for i, c := range genTimestamps(r, n).Cases {
		if dc, ok := parseDecCase(c); ok && len(dc.data) < 3000 {
			pool = append(pool, decCase([]string{"decode", "chained"}[i%2], "000", "-", "-", dc.data))
		}
	}
	// streams with unknown messages and unlisted fields, decoded with the (process-wide) option values
	// that record them: anything an option value keeps between calls shows in the lists
	seen := map[string]bool{}
	k := 0
	for _, c := range genOptionSets(r, 4*n).Cases {
		dc, ok := parseDecCase(c)
		if !ok || dc.rspec != "-" || len(dc.data) > 3000 || seen[string(dc.data)] {
			continue
		}
		seen[string(dc.data)] = true
		pool = append(pool, decCase([]string{"decode", "chained"}[k%2], []string{"011", "111", "010", "001"}[k%4], "-", "-", dc.data))
		if k++; k >= n {
			break
		}
	}
	// unknown items whose keys collide when truncated: ordering ties show as run-to-run differences
	for _, c := range genUnknownTies(r, 2).Cases {
		pool = append(pool, c)
	}
	for i := 0; i < n/2; i++ {
		txt := randFileText(r, hostedFileTypes()[i%len(hostedFileTypes())], fileKnobs{maxGroup: 5, fieldPct: 30})
		pool = append(pool, fmt.Sprintf("enc %d %s", i%2, txt))
	}
	return pool
}

func init() {
	propGens["C08"] = func(r *rng, thorough bool) ([]CaseSet, string, bool) {
		nh, np, nrep := 300, 40, 400
		if thorough {
			nh, np, nrep = 6000, 120, 5000
		}
		pool := callPool(r, np)
		hist := CaseSet{Name: "histories"}
		// Encode of Files that differ in exactly one late struct field of one message, one after another
		twins := twinEncodeCalls(r, 1)
		if thorough {
			twins = append(twins, twinEncodeCalls(r, 3)...)
		}
		for _, set := range twins {
			pool = append(pool, set...)
			fwd := append([]string{}, set...)
			rev := make([]string, len(set))
			for i, c := range set {
				rev[len(set)-1-i] = c
			}
			hist.Cases = append(hist.Cases, "hist "+strings.Join(fwd, "^"), "hist "+strings.Join(rev, "^"))
		}
		alone := CaseSet{Name: "calls-alone", Cases: pool}
		for i := 0; i < nh; i++ {
			k := 5 + r.intn(36)
			calls := make([]string, k)
			for j := range calls {
				calls[j] = pool[r.intn(len(pool))]
			}
			// every call also repeated immediately once in a while
			if r.chance(50) {
				j := r.intn(k - 1)
				calls[j+1] = calls[j]
			}
			hist.Cases = append(hist.Cases, "hist "+strings.Join(calls, "^"))
		}
		rep := CaseSet{Name: "encode-repeats"}
		for i := 0; i < nrep; i++ {
			txt := randFileText(r, hostedFileTypes()[i%len(hostedFileTypes())], fileKnobs{maxGroup: 12, fieldPct: 25})
			rep.Cases = append(rep.Cases, fmt.Sprintf("encrep 8 %d %s", i%2, txt))
		}
		return []CaseSet{alone, hist, rep},
			"random histories of 5-40 calls (Decode with option sets, DecodeChained, CheckIntegrity header-only and full, DecodeHeader, DecodeHeaderAndFileID, Encode in both byte orders) over a pool of inputs incl. component-bearing files and timestamp sequences that use the time reference before setting it, every call also made alone with fresh package state and, for a sample, first in a fresh process; every Encode repeated 8 times on deeply equal Files; for every message type with 20 or more struct fields, Files holding one message that differ in exactly one late struct field (indices 16 … 90 and the last two) encoded one after another in both orders. Oracles: each result in a history equals the model threading the package-level accumulators, equals the call alone except on the accumulated fields named in known_findings.txt, identical bytes for identical Files; static fact: the set of package-level variables written on the decode/encode paths", false
	}
	propPost["C08"] = postC08
}

func postC08(res *RunResult) {
	postNoPanic(res)
	alone := map[string]string{}
	for i, c := range res.Stats.cases {
		if res.Stats.setOf[i] == "calls-alone" {
			alone[c] = res.Stats.impl[i]
		}
	}
	fresh := 0
	for i, c := range res.Stats.cases {
		switch res.Stats.setOf[i] {
		case "encode-repeats":
			if out := res.Stats.impl[i]; out != "same" && out != "err" {
				addViolation(res, c, out, "Encode wrote different bytes for identical Files")
			}
		case "calls-alone":
			// a sample of calls is also made first in a fresh process
			if fresh < 24 && (i%3 == 0) {
				fresh++
				if out, ok := runInFreshProcess(c); ok && out != res.Stats.impl[i] {
					addViolation(res, c, out, "result in a fresh process differs from the result in the worker process")
				}
			}
		case "histories":
			calls := strings.Split(c[5:], "^")
			outs := strings.Split(res.Stats.impl[i], "^")
			if len(calls) != len(outs) {
				continue
			}
			for j := range calls {
				if strings.HasSuffix(outs[j], " CHANGED-AFTER-RETURN") {
					addViolation(res, c, outs[j], fmt.Sprintf("the File returned by call %d of this history was changed by a later call", j))
					outs[j] = strings.TrimSuffix(outs[j], " CHANGED-AFTER-RETURN")
				}
				a, ok := alone[calls[j]]
				if !ok || a == outs[j] {
					continue
				}
				// differs from the call alone: allowed only on the accumulated record fields (D12)
				if d := historyDiff(a, outs[j]); d != "" {
					addViolation(res, calls[j], outs[j], "result depends on call history: "+d)
				} else {
					res.KnownFindings = appendUniq(res.KnownFindings, "property=C08 site=Decode:RecordMsg.Distance cause=package-level-accumulator")
				}
			}
		}
	}
	res.Notes = append(res.Notes, fmt.Sprintf("%d calls re-run first in a fresh process", fresh))
	// static half of the tie
	wg := repoWrittenGlobals()
	res.Notes = append(res.Notes, "package-level variables written on decode/encode paths: "+strings.Join(wg, ","))
}

// historyDiff: "" if a and b differ only in the accumulator state and in RecordMsg.Distance values.
func historyDiff(a, b string) string {
	ra, ok1 := parseDecRes(a)
	rb, ok2 := parseDecRes(b)
	if !ok1 || !ok2 {
		return "different shape"
	}
	if ra.tag != rb.tag || ra.consumed != rb.consumed {
		return "outcome or consumption differs"
	}
	fm, _ := findMsg(20)
	di := -1
	for i, n := range fm.FNames {
		if n == "Distance" {
			di = i
		}
	}
	fa := strings.Split(ra.dump, "##")
	fb := strings.Split(rb.dump, "##")
	if len(fa) != len(fb) {
		return "file count differs"
	}
	for k := range fa {
		// header, file CRC and the unknown-message / unknown-field lists
		if sa, sb := strings.Join(sideSections.FindAllString(fa[k], -1), ""), strings.Join(sideSections.FindAllString(fb[k], -1), ""); sa != sb {
			return fmt.Sprintf("header, CRC or unknown lists differ: %s vs %s", clipS(sa), clipS(sb))
		}
		pa, ma := flattenMsgs(fa[k])
		pb, mb := flattenMsgs(fb[k])
		if len(pa) != len(pb) {
			return "message count differs"
		}
		for i := range ma {
			if ma[i].num != mb[i].num || len(ma[i].vals) != len(mb[i].vals) {
				return "message shape differs"
			}
			for j := range ma[i].vals {
				if ma[i].vals[j] != mb[i].vals[j] && !(ma[i].num == 20 && j == di) {
					return fmt.Sprintf("message %d field %d: %s vs %s", ma[i].num, j, clipS(ma[i].vals[j]), clipS(mb[i].vals[j]))
				}
			}
		}
	}
	return ""
}

var sideSections = regexp.MustCompile(`^H[^;]*;C[^;]*|;UM\[[^\]]*\];UF\[[^\]]*\]`)

// runInFreshProcess runs one case as the first call of a new process.
func runInFreshProcess(c string) (string, bool) {
	cmd := exec.Command(selfExe(), "worker")
	cmd.Stdin = strings.NewReader(c + "\n")
	cmd.Stderr = realStderr
	out, err := cmd.Output()
	if err != nil {
		return "", false
	}
	return strings.TrimRight(string(out), "\n"), true
}

var _ = hex.EncodeToString
var _ = strconv.Itoa
