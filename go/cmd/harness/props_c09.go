package main

import (
	"bytes"
	"encoding/binary"
	"fmt"
	"os"
	"os/exec"
	"path/filepath"
	"strings"
	"sync"

	"github.com/tormoder/fit"
)

// ---- concurrent driver (run in a binary built with -race) ----

type concInput struct {
	kind  string // decode chained integ header encode encfault
	data  []byte
	file  string // dump text for encode
	arch  string
	fault int // encfault: the writer accepts this many bytes, then fails
}

// faultWriter accepts `left` bytes in total, then reports an error (a short write first if a call straddles the limit).
type faultWriter struct{ left int }

func (w *faultWriter) Write(p []byte) (int, error) {
	if len(p) <= w.left {
		w.left -= len(p)
		return len(p), nil
	}
	n := w.left
	w.left = 0
	return n, fmt.Errorf("write fault")
}

func concPool(r *rng, n int, accum bool) []concInput {
	var pool []concInput
	if accum {
		for _, c := range genComponents(r, n).Cases {
			dc, _ := parseDecCase(c)
			pool = append(pool, concInput{kind: "decode", data: dc.data})
		}
		return pool
	}
	k := fullKnobs()
	k.badDefs = 0
	// no record messages: nothing touches the accumulators
	var only []int
	for _, m := range knownMsgs() {
		if m.Num != 20 {
			only = append(only, m.Num)
		}
	}
	k.onlyMsgs = only
	k.unknownMsgs = false
	for i := 0; i < n; i++ {
		kk := k
		kk.records = 1 + r.intn(40)
		data := frame(randomStream(r, kk), randFrame(r))
		kind := []string{"decode", "decode", "chained", "integ", "header"}[i%5]
		pool = append(pool, concInput{kind: kind, data: data})
	}
	// large inputs (data sections beyond 4 KiB, 32 KiB and 64 KiB): any buffer shared between calls
	// above a size threshold is only used by these
	for i, recs := range []int{500, 700, 2500, 6000, 600, 3000, 800, 5000} {
		kk := k
		kk.records = recs
		data := frame(randomStream(r, kk), randFrame(r))
		kind := []string{"integ", "integ", "integ", "decode", "chained", "decode", "header", "integ"}[i%8]
		pool = append(pool, concInput{kind: kind, data: data})
	}
	for i := 0; i < n/3; i++ {
		ft := hostedFileTypes()[i%len(hostedFileTypes())]
		pool = append(pool, concInput{kind: "encode", file: randFileText(r, ft, fileKnobs{maxGroup: 4, fieldPct: 25}), arch: fmt.Sprint(i % 2)})
	}
	// Encode into writers that fail: in the header, at several offsets inside the record bytes, in the
	// trailing CRC — an error path that releases or keeps shared state differently shows up in the
	// calls that overlap with it or follow it
	for i, off := range []int{0, 5, 14, 15, 20, 33, 60, 100000} {
		ft := hostedFileTypes()[(i*3)%len(hostedFileTypes())]
		pool = append(pool, concInput{kind: "encfault", file: randFileText(r, ft, fileKnobs{maxGroup: 4, fieldPct: 25}), arch: fmt.Sprint(i % 2), fault: off})
	}
	return pool
}

func concCall(in concInput) (out string) {
	defer func() {
		if p := recover(); p != nil {
			out = fmt.Sprint("panic:", p)
		}
	}()
	switch in.kind {
	case "decode":
		f, err := fit.Decode(bytes.NewReader(in.data), optUF, optUM)
		return tag(err) + " " + renderFile(f)
	case "chained":
		fs, err := fit.DecodeChained(bytes.NewReader(in.data))
		parts := make([]string, len(fs))
		for i, f := range fs {
			parts[i] = renderFile(f)
		}
		return tag(err) + " " + strings.Join(parts, "##")
	case "integ":
		return tag(fit.CheckIntegrity(bytes.NewReader(in.data), false))
	case "header":
		h, fid, err := fit.DecodeHeaderAndFileID(bytes.NewReader(in.data))
		return fmt.Sprint(tag(err), renderHeader(h), fid.Type)
	case "encode":
		f, err := buildFile(in.file)
		if err != nil {
			return "bad-file"
		}
		var buf bytes.Buffer
		order := binary.ByteOrder(binary.LittleEndian)
		if in.arch == "1" {
			order = binary.BigEndian
		}
		if err := fit.Encode(&buf, f, order); err != nil {
			return "err"
		}
		return fmt.Sprintf("ok %x", buf.Bytes())
	case "encfault":
		f, err := buildFile(in.file)
		if err != nil {
			return "bad-file"
		}
		order := binary.ByteOrder(binary.LittleEndian)
		if in.arch == "1" {
			order = binary.BigEndian
		}
		// first how long the output is, then the same Encode into a writer that fails `fault` bytes in
		// (100000: two bytes before the end, i.e. in the trailing CRC)
		var whole bytes.Buffer
		if err := fit.Encode(&whole, f, order); err != nil {
			return "err"
		}
		off := in.fault
		if off >= whole.Len() {
			off = whole.Len() - 1
		}
		f2, _ := buildFile(in.file)
		err = fit.Encode(&faultWriter{left: off}, f2, order)
		return fmt.Sprintf("fault@%d %s", off, tag(err))
	}
	return "?"
}

// cmdConc: harness conc <seed> <goroutines> <calls per goroutine> <pure|accum>
func cmdConc(args []string) int {
	if len(args) < 4 {
		return 2
	}
	var seed uint64
	var ng, per int
	fmt.Sscan(args[0], &seed)
	fmt.Sscan(args[1], &ng)
	fmt.Sscan(args[2], &per)
	accum := args[3] == "accum"
	r := newRng(seed)
	pool := concPool(r, 24, accum)
	if args[3] == "cold" {
		return concCold(r, pool, ng, per)
	}
	// sequential baseline, each call from fresh package state
	base := make([]string, len(pool))
	for i, in := range pool {
		fit.VerifSetAccumulators([3]fit.VerifAccu{})
		base[i] = concCall(in)
	}
	fit.VerifSetAccumulators([3]fit.VerifAccu{})
	var wg sync.WaitGroup
	var mu sync.Mutex
	diffs := 0
	calls := 0
	start := make(chan struct{})
	for g := 0; g < ng; g++ {
		wg.Add(1)
		gr := r.fork()
		go func() {
			defer wg.Done()
			<-start
			for k := 0; k < per; k++ {
				i := gr.intn(len(pool))
				out := concCall(pool[i])
				same := out == base[i]
				if accum && !same {
					// accumulated distances may differ (D12); everything else must not
					same = historyDiffLoose(base[i], out)
				}
				mu.Lock()
				calls++
				if !same {
					diffs++
					if diffs <= 3 {
						fmt.Printf("DIFF input=%d kind=%s\n", i, pool[i].kind)
					}
				}
				mu.Unlock()
			}
		}()
	}
	close(start)
	wg.Wait()
	fmt.Printf("CONC calls=%d diffs=%d goroutines=%d pool=%d accum=%v\n", calls, diffs, ng, len(pool), accum)
	return 0
}

// concCold: the concurrent phase is the first thing the process does with the library (nothing is
// warmed up by a sequential baseline: anything built lazily on first use is built while other
// goroutines are already using it); the baseline is computed afterwards.
func concCold(r *rng, pool []concInput, ng, per int) int {
	type rec struct {
		i   int
		out string
	}
	outs := make([][]rec, ng)
	var wg sync.WaitGroup
	start := make(chan struct{})
	for g := 0; g < ng; g++ {
		wg.Add(1)
		gr := r.fork()
		go func(g int) {
			defer wg.Done()
			<-start
			for k := 0; k < per; k++ {
				i := gr.intn(len(pool))
				outs[g] = append(outs[g], rec{i, concCall(pool[i])})
			}
		}(g)
	}
	close(start)
	wg.Wait()
	base := make([]string, len(pool))
	have := make([]bool, len(pool))
	calls, diffs := 0, 0
	for _, rs := range outs {
		for _, x := range rs {
			if !have[x.i] {
				fit.VerifSetAccumulators([3]fit.VerifAccu{})
				base[x.i], have[x.i] = concCall(pool[x.i]), true
			}
			calls++
			if x.out != base[x.i] {
				diffs++
				if diffs <= 3 {
					fmt.Printf("DIFF input=%d kind=%s\n", x.i, pool[x.i].kind)
				}
			}
		}
	}
	fmt.Printf("CONC calls=%d diffs=%d goroutines=%d pool=%d accum=%v cold=true\n", calls, diffs, ng, len(pool), false)
	return 0
}

func historyDiffLoose(a, b string) bool {
	ia, ib := strings.IndexByte(a, ' '), strings.IndexByte(b, ' ')
	if ia < 0 || ib < 0 || a[:ia] != b[:ib] {
		return false
	}
	return historyDiff("x 0 - "+a[ia+1:], "x 0 - "+b[ib+1:]) == "" || historyDiff(a[:ia]+" 0 - "+a[ia+1:], b[:ib]+" 0 - "+b[ib+1:]) == ""
}

// ---- orchestration from the normal harness ----

func raceBinary() (string, error) {
	out := filepath.Join(buildDir, "harness-race")
	cmd := exec.Command("go", "build", "-race", "-tags", "verif", "-o", out, "./cmd/harness")
	cmd.Dir = "/verif/go"
	cmd.Env = append(os.Environ(), "CGO_ENABLED=1")
	b, err := cmd.CombinedOutput()
	if err != nil {
		return "", fmt.Errorf("%v: %s", err, b)
	}
	return out, nil
}

type raceReport struct {
	text  string
	known bool
}

func parseRaceLogs(dir string) []raceReport {
	var reps []raceReport
	files, _ := filepath.Glob(filepath.Join(dir, "log.*"))
	for _, f := range files {
		b, err := os.ReadFile(f)
		if err != nil {
			continue
		}
		for _, blk := range strings.Split(string(b), "==================") {
			if !strings.Contains(blk, "DATA RACE") {
				continue
			}
			known := strings.Contains(blk, "uint32Accumulator") || strings.Contains(blk, "expandComponents") || strings.Contains(blk, "accumulate")
			reps = append(reps, raceReport{text: blk, known: known})
		}
	}
	return reps
}

func init() {
	propGens["C09"] = func(r *rng, thorough bool) ([]CaseSet, string, bool) {
		// the concurrent runs happen in propPost; a few sequential cases keep the model tie visible
		return []CaseSet{genRandomStreams(r, "sequential-baseline", 200, fullKnobs(), "011")},
			"goroutine counts {2,4,8,16,32} x random calls (Decode with options, DecodeChained, CheckIntegrity, DecodeHeaderAndFileID, Encode in both byte orders) over a pool in which every input is used by several goroutines at once, in a binary built with -race; pool A never touches the accumulators (no race report and every result equal to the sequential baseline required), pool B holds component-bearing records (races on the three listed accumulators are the known finding D12; any other race or difference is a violation); cold starts: fresh processes whose very first use of the library is the concurrent phase (lazily built shared data), baseline computed afterwards", false
	}
	propPost["C09"] = func(res *RunResult) {
		postNoPanic(res)
		bin, err := raceBinary()
		if err != nil {
			res.Notes = append(res.Notes, "race build unavailable: "+err.Error())
			addViolation(res, "go build -race", err.Error(), "cannot build the harness with the race detector")
			return
		}
		per := 60
		if res.Tier == "thorough" {
			per = 1500
		}
		logDir := filepath.Join(buildDir, "race")
		os.RemoveAll(logDir)
		os.MkdirAll(logDir, 0o755)
		total := 0
		type concRun struct {
			mode    string
			ng, per int
			tag     string
		}
		var runs []concRun
		for _, mode := range []string{"pure", "accum"} {
			for _, ng := range []int{2, 4, 8, 16, 32} {
				runs = append(runs, concRun{mode, ng, per, fmt.Sprintf("%s-%d", mode, ng)})
			}
		}
		// cold starts: fresh processes whose first use of the library is concurrent
		ncold := 6
		if res.Tier == "thorough" {
			ncold = 40
		}
		for i := 0; i < ncold; i++ {
			runs = append(runs, concRun{"cold", []int{4, 8, 16, 32}[i%4], 6, fmt.Sprintf("cold-%d", i)})
		}
		for ri, run := range runs {
			{
				mode, ng, per := run.mode, run.ng, run.per
				sub := filepath.Join(logDir, run.tag)
				os.MkdirAll(sub, 0o755)
				cmd := exec.Command(bin, "conc", fmt.Sprint(res.Seed+uint64(ng)+uint64(1000*ri)*uint64(b2i(mode == "cold"))), fmt.Sprint(ng), fmt.Sprint(per), mode)
				cmd.Env = append(os.Environ(), "GORACE=halt_on_error=0 log_path="+filepath.Join(sub, "log"))
				out, err := cmd.CombinedOutput()
				s := string(out)
				var calls, diffs int
				if i := strings.Index(s, "CONC calls="); i >= 0 {
					fmt.Sscanf(s[i:], "CONC calls=%d diffs=%d", &calls, &diffs)
				} else {
					addViolation(res, "conc "+mode, clip(s), fmt.Sprintf("concurrent driver failed: %v", err))
					continue
				}
				total += calls
				reps := parseRaceLogs(sub)
				unknown := 0
				for _, rp := range reps {
					if rp.known && mode == "accum" {
						res.KnownFindings = appendUniq(res.KnownFindings, "property=C09 site=accumuDistance|accumuTotalCycles|accumuAccumulatedPower cause=unsynchronised-package-level-accumulator")
					} else {
						unknown++
						if unknown <= 2 {
							addViolation(res, fmt.Sprintf("conc %d %d %d %s", res.Seed+uint64(ng)+uint64(1000*ri)*uint64(b2i(mode == "cold")), ng, per, mode), clip(rp.text), "data race outside the known accumulator sites")
						}
					}
				}
				if diffs > 0 {
					addViolation(res, fmt.Sprintf("conc %d %d %d %s", res.Seed+uint64(ng)+uint64(1000*ri)*uint64(b2i(mode == "cold")), ng, per, mode), s, "a concurrent call returned a different result than the sequential baseline")
				}
			}
		}
		res.Stats.Evaluations += total
		res.Stats.Distinct += total / 4
		res.Notes = append(res.Notes, fmt.Sprintf("%d concurrent calls under the race detector", total))
	}
}

func b2i(b bool) int {
	if b {
		return 1
	}
	return 0
}
