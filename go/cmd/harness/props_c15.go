package main

import (
	"fmt"
	"os"
	"path/filepath"
	"strconv"
	"strings"
)

// C15, SDK assignment: the newest profile workbook bundled with the generator (an SDK artefact,
// read with the harness's own xlsx reader) names, for every message, which field number is which
// field and of what type. FIT never reassigns a field number, so every (message, field number)
// the workbook and the compiled-in profile share must designate the struct field of that name,
// with that base type, kind and array flag — whatever the order of the struct's fields.

const sdkWorkbook = "cmd/fitgen/internal/profile/testdata/21.40.xlsx"

// renamed between the workbook's SDK version and the library's (none known; an entry here must
// cite the SDK release note)
var sdkRenames = map[string]string{}

func sdkAssignment(res *RunResult) {
	data, err := os.ReadFile(filepath.Join("/repo", sdkWorkbook))
	if err != nil {
		addViolation(res, "sdk-assignment", err.Error(), "cannot read the bundled SDK workbook")
		return
	}
	b, err := openXlsx(data)
	if err != nil {
		addViolation(res, "sdk-assignment", err.Error(), "cannot parse the bundled SDK workbook")
		return
	}
	rows, err := workbookRows(b, true)
	if err != nil {
		addViolation(res, "sdk-assignment", err.Error(), "cannot interpret the bundled SDK workbook")
		return
	}
	byName := map[string]factsMsg{}
	for _, m := range theFacts().Msgs {
		if m.Known {
			byName[strings.TrimSuffix(m.Name, "Msg")] = m
		}
	}
	compared, msgs := 0, map[string]bool{}
	for _, r := range rows {
		m, ok := byName[r.Msg]
		if !ok {
			continue
		}
		for _, f := range m.Fields {
			if f[1] != r.Num {
				continue
			}
			compared++
			msgs[r.Msg] = true
			got := ""
			if f[0] < len(m.FNames) {
				got = m.FNames[f[0]]
			}
			want := r.Name
			if v, ok := sdkRenames[r.Msg+"."+r.Name]; ok {
				want = v
			}
			if got != want {
				addViolation(res, fmt.Sprintf("sdk-assignment %s field %d", r.Msg, r.Num), got,
					fmt.Sprintf("profile entry (%s, %d) designates struct field %q; the SDK workbook assigns %q", r.Msg, r.Num, got, want))
			} else if r.TCode != 0 && f[2] != r.TCode {
				addViolation(res, fmt.Sprintf("sdk-assignment %s field %d", r.Msg, r.Num), fmt.Sprint(f[2]),
					fmt.Sprintf("profile entry (%s, %d) has type code %d; the SDK workbook gives %d", r.Msg, r.Num, f[2], r.TCode))
			}
		}
	}
	res.Notes = append(res.Notes, fmt.Sprintf("SDK assignment: %d (message, field number) entries of %d messages compared with workbook %s", compared, len(msgs), filepath.Base(sdkWorkbook)))
	if compared < 500 {
		addViolation(res, "sdk-assignment", fmt.Sprint(compared), "fewer than 500 profile entries could be compared with the SDK workbook")
	}
}

// sdkSnapshot: (message, field number) -> struct field and type code as of the pinned commit; a
// field number of a message must keep designating that field.
func sdkSnapshot(res *RunResult) {
	b, err := os.ReadFile(filepath.Join(verifDir, "sdk", "assignment_21.115.txt"))
	if err != nil {
		addViolation(res, "sdk-snapshot", err.Error(), "cannot read the assignment snapshot")
		return
	}
	type key struct{ msg, num int }
	type ent struct {
		name  string
		tcode int
	}
	live := map[key]ent{}
	for _, m := range theFacts().Msgs {
		for _, f := range m.Fields {
			n := ""
			if f[0] < len(m.FNames) {
				n = m.FNames[f[0]]
			}
			live[key{m.Num, f[1]}] = ent{n, f[2]}
		}
	}
	compared := 0
	for _, l := range readLines(b) {
		if l == "" || l[0] == '#' {
			continue
		}
		var mname, fname string
		var mnum, fnum, tc int
		if n, _ := fmt.Sscan(l, &mname, &mnum, &fnum, &fname, &tc); n != 5 {
			continue
		}
		e, ok := live[key{mnum, fnum}]
		if !ok {
			addViolation(res, fmt.Sprintf("sdk-snapshot %s field %d", mname, fnum), "(absent)", "a profile entry of the pinned SDK profile is gone")
			continue
		}
		compared++
		if e.name != fname || e.tcode != tc {
			addViolation(res, fmt.Sprintf("sdk-snapshot %s field %d", mname, fnum), fmt.Sprintf("%s/%d", e.name, e.tcode),
				fmt.Sprintf("profile entry (%s, %d) designates %s with type code %d; the SDK assignment is %s with type code %d", mname, fnum, e.name, e.tcode, fname, tc))
		}
	}
	res.Notes = append(res.Notes, fmt.Sprintf("SDK assignment snapshot: %d entries compared", compared))
}

// constructorInvalids: for every lookup entry of every known message, the message constructor must
// leave the struct field the entry designates at the invalid value of the entry's type (the
// decoder relies on it for "field absent", the encoder for "do not write").
func constructorInvalids(res *RunResult) {
	checked, total := 0, 0
	for _, m := range theFacts().Msgs {
		if !m.Known {
			continue
		}
		inv := invalidVals(m.Num)
		for _, f := range m.Fields {
			total++
			if f[0] >= len(inv) {
				continue
			}
			want, ok := expectedInvalidText(f[2])
			if !ok {
				continue
			}
			checked++
			if inv[f[0]] != want {
				name := ""
				if f[0] < len(m.FNames) {
					name = m.FNames[f[0]]
				}
				addViolation(res, fmt.Sprintf("constructor New%s field %d (%s)", m.Name, f[1], name), inv[f[0]],
					fmt.Sprintf("New%s() leaves %s at %s; the invalid value of the entry's type (code %d) is %s", m.Name, name, inv[f[0]], f[2], want))
			}
		}
	}
	res.Notes = append(res.Notes, fmt.Sprintf("constructor invalid values: %d of %d (message, field) entries compared with their type's invalid value", checked, total))
	if checked != total {
		addViolation(res, "constructor-invalids", fmt.Sprint(checked), "some profile entries could not be checked against their constructor")
	}
}

func expectedInvalidText(tcode int) (string, bool) {
	switch tcKind(tcode) {
	case 1, 2:
		return "t0/0/0", true // timeBase, UTC
	case 3:
		return "a2147483647", true
	case 4:
		return "o2147483647", true
	case 0:
	default:
		return "", false
	}
	if tcArray(tcode) {
		return "n", true
	}
	bt := tcBase(tcode)
	switch {
	case bt == 0x07:
		return "s", true
	case btFloat[bt]:
		return "", false
	case btSigned[bt]:
		return "i" + strconv.FormatUint(btInvalidRaw(bt), 10), true
	}
	if _, ok := btSize[bt]; !ok {
		return "", false
	}
	return "u" + strconv.FormatUint(btInvalidRaw(bt), 10), true
}

// containersKnown: every message type a file container holds must be a message the library knows
// (otherwise Decode drops, as unknown, messages that Encode writes for that container).
func containersKnown(res *RunResult) {
	known := map[int]bool{}
	for _, m := range theFacts().Msgs {
		if m.Known {
			known[m.Num] = true
		}
	}
	n := 0
	for _, c := range theFacts().Containers {
		for _, sl := range c.Slots {
			n++
			if !known[sl.Msg] {
				addViolation(res, fmt.Sprintf("container %s field %s", c.Name, sl.Name), fmt.Sprint(sl.Msg),
					fmt.Sprintf("%s.%s holds messages of number %d, which is not in the library's set of known messages", c.Name, sl.Name, sl.Msg))
			}
		}
	}
	res.Notes = append(res.Notes, fmt.Sprintf("container fields checked against the known-message set: %d", n))
}

// expectedSlotKind: the Go type of the struct field a profile type code calls for, in the notation
// of the regenerated layout (".sc (.u 16)", ".sl (.u 8)", ".time", ...): the Go mirror of the
// model's slotOfType, written independently of it.
func expectedSlotKind(tcode int) (string, bool) {
	switch tcKind(tcode) {
	case 1, 2:
		return ".time", !tcArray(tcode)
	case 3:
		return ".lat", !tcArray(tcode)
	case 4:
		return ".lng", !tcArray(tcode)
	case 0:
	default:
		return "", false
	}
	sc := map[byte]string{0: ".u 8", 1: ".i 8", 2: ".u 8", 3: ".i 16", 4: ".u 16", 5: ".i 32", 6: ".u 32", 7: ".s",
		8: ".f 32", 9: ".f 64", 10: ".u 8", 11: ".u 16", 12: ".u 32", 13: ".u 8", 14: ".i 64", 15: ".u 64", 16: ".u 64"}
	k, ok := sc[tcBase(tcode)&0x1F]
	if !ok {
		return "", false
	}
	if tcArray(tcode) {
		return ".sl (" + k + ")", true
	}
	return ".sc (" + k + ")", true
}

// entryKinds: for every lookup entry of every known message, the struct field it designates must
// exist and have the Go type the entry's base type, array flag and time/coordinate kind call for
// (a narrower field silently truncates decoded values and makes Encode write fewer bytes than the
// definition declares), and no two entries of a message may designate the same struct field.
func entryKinds(res *RunResult) {
	n := 0
	for _, m := range theFacts().Msgs {
		if !m.Known {
			continue
		}
		seen := map[int]int{}
		for _, f := range m.Fields {
			n++
			name := ""
			if f[0] >= 0 && f[0] < len(m.FNames) {
				name = m.FNames[f[0]]
			}
			what := fmt.Sprintf("profile entry message %d (%s) field %d (%s)", m.Num, m.Name, f[1], name)
			if prev, dup := seen[f[0]]; dup {
				addViolation(res, what, fmt.Sprint(prev), fmt.Sprintf("field numbers %d and %d designate the same struct field", prev, f[1]))
			}
			seen[f[0]] = f[1]
			if f[0] < 0 || f[0] >= len(m.Layout) {
				addViolation(res, what, fmt.Sprint(f[0]), "the entry designates a struct field that does not exist")
				continue
			}
			want, ok := expectedSlotKind(f[2])
			if !ok {
				addViolation(res, what, fmt.Sprint(f[2]), "the entry's type code calls for no Go type")
				continue
			}
			if got := m.Layout[f[0]]; got != want {
				addViolation(res, what, got, fmt.Sprintf("struct field %s has Go kind %s; the entry's type (code %d) calls for %s", name, got, f[2], want))
			}
		}
	}
	res.Notes = append(res.Notes, fmt.Sprintf("struct field types compared with the entries' types: %d (message, field) entries", n))
}
