package main

import (
	"fmt"
	"os"
	"path/filepath"
	"strings"
)

// C15, SDK assignment: the newest profile workbook bundled with the generator (an SDK artefact,
// read with the harness's own xlsx reader) names, for every message, which field number is which
// field and of what type. FIT never reassigns a field number, so every (message, field number)
// the workbook and the compiled-in profile share must designate the struct field of that name,
// with that base type, kind and array flag — whatever the order of the struct's fields.

const sdkWorkbook = "cmd/fitgen/internal/profile/testdata/21.40.xlsx"

// renamed between the workbook's SDK version and the library's (none known; an entry here must
// cite the SDK release note)
var sdkRenames = map[string]string{}

func sdkAssignment(res *RunResult) {
	data, err := os.ReadFile(filepath.Join("/repo", sdkWorkbook))
	if err != nil {
		addViolation(res, "sdk-assignment", err.Error(), "cannot read the bundled SDK workbook")
		return
	}
	b, err := openXlsx(data)
	if err != nil {
		addViolation(res, "sdk-assignment", err.Error(), "cannot parse the bundled SDK workbook")
		return
	}
	rows, err := workbookRows(b, true)
	if err != nil {
		addViolation(res, "sdk-assignment", err.Error(), "cannot interpret the bundled SDK workbook")
		return
	}
	byName := map[string]factsMsg{}
	for _, m := range theFacts().Msgs {
		if m.Known {
			byName[strings.TrimSuffix(m.Name, "Msg")] = m
		}
	}
	compared, msgs := 0, map[string]bool{}
	for _, r := range rows {
		m, ok := byName[r.Msg]
		if !ok {
			continue
		}
		for _, f := range m.Fields {
			if f[1] != r.Num {
				continue
			}
			compared++
			msgs[r.Msg] = true
			got := ""
			if f[0] < len(m.FNames) {
				got = m.FNames[f[0]]
			}
			want := r.Name
			if v, ok := sdkRenames[r.Msg+"."+r.Name]; ok {
				want = v
			}
			if got != want {
				addViolation(res, fmt.Sprintf("sdk-assignment %s field %d", r.Msg, r.Num), got,
					fmt.Sprintf("profile entry (%s, %d) designates struct field %q; the SDK workbook assigns %q", r.Msg, r.Num, got, want))
			} else if r.TCode != 0 && f[2] != r.TCode {
				addViolation(res, fmt.Sprintf("sdk-assignment %s field %d", r.Msg, r.Num), fmt.Sprint(f[2]),
					fmt.Sprintf("profile entry (%s, %d) has type code %d; the SDK workbook gives %d", r.Msg, r.Num, f[2], r.TCode))
			}
		}
	}
	res.Notes = append(res.Notes, fmt.Sprintf("SDK assignment: %d (message, field number) entries of %d messages compared with workbook %s", compared, len(msgs), filepath.Base(sdkWorkbook)))
	if compared < 500 {
		addViolation(res, "sdk-assignment", fmt.Sprint(compared), "fewer than 500 profile entries could be compared with the SDK workbook")
	}
}

// sdkSnapshot: (message, field number) -> struct field and type code as of the pinned commit; a
// field number of a message must keep designating that field.
func sdkSnapshot(res *RunResult) {
	b, err := os.ReadFile(filepath.Join(verifDir, "sdk", "assignment_21.115.txt"))
	if err != nil {
		addViolation(res, "sdk-snapshot", err.Error(), "cannot read the assignment snapshot")
		return
	}
	type key struct{ msg, num int }
	type ent struct {
		name  string
		tcode int
	}
	live := map[key]ent{}
	for _, m := range theFacts().Msgs {
		for _, f := range m.Fields {
			n := ""
			if f[0] < len(m.FNames) {
				n = m.FNames[f[0]]
			}
			live[key{m.Num, f[1]}] = ent{n, f[2]}
		}
	}
	compared := 0
	for _, l := range readLines(b) {
		if l == "" || l[0] == '#' {
			continue
		}
		var mname, fname string
		var mnum, fnum, tc int
		if n, _ := fmt.Sscan(l, &mname, &mnum, &fnum, &fname, &tc); n != 5 {
			continue
		}
		e, ok := live[key{mnum, fnum}]
		if !ok {
			addViolation(res, fmt.Sprintf("sdk-snapshot %s field %d", mname, fnum), "(absent)", "a profile entry of the pinned SDK profile is gone")
			continue
		}
		compared++
		if e.name != fname || e.tcode != tc {
			addViolation(res, fmt.Sprintf("sdk-snapshot %s field %d", mname, fnum), fmt.Sprintf("%s/%d", e.name, e.tcode),
				fmt.Sprintf("profile entry (%s, %d) designates %s with type code %d; the SDK assignment is %s with type code %d", mname, fnum, e.name, e.tcode, fname, tc))
		}
	}
	res.Notes = append(res.Notes, fmt.Sprintf("SDK assignment snapshot: %d entries compared", compared))
}
