package main

import (
	"archive/zip"
	"bytes"
	"fmt"
	"go/ast"
	"go/parser"
	"go/token"
	"os"
	"os/exec"
	"path/filepath"
	"regexp"
	"sort"
	"strconv"
	"strings"
	"unicode"
)

// ---- independent computation of what fitgen must emit for a workbook (GenCore in Go) ----

type genRow struct {
	Msg      string // CamelCase message name
	Num      int
	Name     string // CamelCase field name
	Enabled  bool
	TCode    int
	Length   string
	RowIdx   int // 0-based index in the messages sheet
	HasComps bool
}

func camel(s string) string {
	parts := strings.Split(s, "_")
	for i, p := range parts {
		if p != "" {
			r := []rune(p)
			r[0] = unicode.ToUpper(r[0])
			parts[i] = string(r)
		}
	}
	return strings.Join(parts, "")
}

var baseByName = map[string]int{"enum": 0x00, "sint8": 0x01, "uint8": 0x02, "sint16": 0x83, "uint16": 0x84, "sint32": 0x85,
	"uint32": 0x86, "string": 0x07, "float32": 0x88, "float64": 0x89, "uint8z": 0x0A, "uint16z": 0x8B, "uint32z": 0x8C,
	"byte": 0x0D, "sint64": 0x8E, "uint64": 0x8F, "uint64z": 0x90, "unit8": 0x02}

var typeQuirksGo = map[string]string{"activity": "activity_mode", "file": "file_type"}

func cell(r []string, i int) string {
	if i < len(r) {
		return r[i]
	}
	return ""
}

// workbookRows: the field rows of the messages sheet with the lookup entry each must produce.
func workbookRows(b *xlsxBook, hrst bool) ([]genRow, error) {
	if len(b.Sheets) < 2 {
		return nil, fmt.Errorf("workbook has %d sheets", len(b.Sheets))
	}
	named := map[string]int{}
	for i, r := range b.Sheets[0].Rows {
		if i == 0 {
			continue
		}
		if cell(r, 0) != "" && cell(r, 2) == "" {
			name := cell(r, 0)
			if name == "date_time" || name == "local_date_time" {
				continue
			}
			bt, ok := baseByName[cell(r, 1)]
			if !ok {
				return nil, fmt.Errorf("types sheet row %d: base type %q", i+1, cell(r, 1))
			}
			n := camel(name)
			if q, ok := typeQuirksGo[name]; ok {
				n = camel(q)
			}
			named[n] = bt
		}
	}
	var rows []genRow
	msg := ""
	for i, r := range b.Sheets[1].Rows {
		if i == 0 {
			continue
		}
		switch {
		case cell(r, 0) != "" && cell(r, 1) == "":
			msg = camel(cell(r, 0))
		case cell(r, 1) != "":
			num, err := strconv.Atoi(strings.TrimSpace(cell(r, 1)))
			if err != nil {
				// numeric cells may be stored as "1.0"
				f, err2 := strconv.ParseFloat(cell(r, 1), 64)
				if err2 != nil {
					return nil, fmt.Errorf("row %d: field number %q", i+1, cell(r, 1))
				}
				num = int(f)
			}
			ex := cell(r, 15)
			enabled := !(ex == "" || ex == "0")
			if !enabled && hrst && cell(r, 2) == "heart_rate_source_type" {
				enabled = true
			}
			arr := strings.Trim(cell(r, 4), "[]")
			array := arr != ""
			arrayStr := arr
			if arr == "" {
				arrayStr = "0"
			}
			fname := cell(r, 2)
			tname := cell(r, 3)
			var code int
			mk := func(kind, base int) int {
				c := kind<<6 | base&0x1F
				if array {
					c |= 0x20
				}
				return c
			}
			switch {
			case strings.HasSuffix(fname, "_lat"):
				code = mk(3, 0x85)
			case strings.HasSuffix(fname, "_long"):
				code = mk(4, 0x85)
			case tname == "date_time":
				code = mk(1, 0x86)
			case tname == "local_date_time":
				code = mk(2, 0x86)
			default:
				tn := camel(tname)
				if q, ok := typeQuirksGo[tname]; ok {
					tn = camel(q)
				}
				if tn == "Bool" {
					code = mk(0, 0x00)
				} else if bt, ok := named[tn]; ok {
					code = mk(0, bt)
				} else if bt, ok := baseByName[tname]; ok {
					code = mk(0, bt)
				} else if enabled {
					return nil, fmt.Errorf("row %d: unknown type %q", i+1, tname)
				}
			}
			length := "1"
			if arrayStr == "N" || code&0x1F == 0x07 {
				length = ex
			} else if arrayStr != "0" {
				length = arrayStr
			}
			rows = append(rows, genRow{Msg: msg, Num: num, Name: camel(fname), Enabled: enabled, TCode: code, Length: length,
				RowIdx: i, HasComps: cell(r, 5) != ""})
		}
	}
	return rows, nil
}

type genEntry struct {
	Msg    string
	Sindex int
	Num    int
	TCode  int
	Length string
	Name   string
}

// specEntries: struct index = position among the enabled rows of the message.
func specEntries(rows []genRow) []genEntry {
	var es []genEntry
	idx := map[string]int{}
	for _, r := range rows {
		if !r.Enabled {
			continue
		}
		es = append(es, genEntry{r.Msg, idx[r.Msg], r.Num, r.TCode, r.Length, r.Name})
		idx[r.Msg]++
	}
	return es
}

// ---- extraction from the generated sources ----

func generatedEntries(dir string) ([]genEntry, map[string][]string, error) {
	fset := token.NewFileSet()
	pf, err := parser.ParseFile(fset, filepath.Join(dir, "profile.go"), nil, 0)
	if err != nil {
		return nil, nil, err
	}
	mf, err := parser.ParseFile(fset, filepath.Join(dir, "messages.go"), nil, 0)
	if err != nil {
		return nil, nil, err
	}
	structs := map[string][]string{}
	for _, d := range mf.Decls {
		gd, ok := d.(*ast.GenDecl)
		if !ok || gd.Tok != token.TYPE {
			continue
		}
		for _, s := range gd.Specs {
			ts := s.(*ast.TypeSpec)
			st, ok := ts.Type.(*ast.StructType)
			if !ok || !strings.HasSuffix(ts.Name.Name, "Msg") {
				continue
			}
			var names []string
			for _, f := range st.Fields.List {
				for _, n := range f.Names {
					names = append(names, n.Name)
				}
			}
			structs[strings.TrimSuffix(ts.Name.Name, "Msg")] = names
		}
	}
	var es []genEntry
	intOf := func(e ast.Expr) (int, bool) {
		switch x := e.(type) {
		case *ast.BasicLit:
			n, err := strconv.Atoi(x.Value)
			return n, err == nil
		case *ast.CallExpr: // types.Fit(N)
			if len(x.Args) == 1 {
				if bl, ok := x.Args[0].(*ast.BasicLit); ok {
					n, err := strconv.Atoi(bl.Value)
					return n, err == nil
				}
			}
		}
		return 0, false
	}
	for _, d := range pf.Decls {
		gd, ok := d.(*ast.GenDecl)
		if !ok || gd.Tok != token.VAR {
			continue
		}
		for _, s := range gd.Specs {
			vs := s.(*ast.ValueSpec)
			if len(vs.Names) != 1 || vs.Names[0].Name != "_fields" || len(vs.Values) != 1 {
				continue
			}
			outer, ok := vs.Values[0].(*ast.CompositeLit)
			if !ok {
				continue
			}
			for _, el := range outer.Elts {
				kv, ok := el.(*ast.KeyValueExpr)
				if !ok {
					return nil, nil, fmt.Errorf("_fields: unkeyed element")
				}
				msg := strings.TrimPrefix(kv.Key.(*ast.Ident).Name, "MesgNum")
				inner := kv.Value.(*ast.CompositeLit)
				for _, fe := range inner.Elts {
					fkv := fe.(*ast.KeyValueExpr)
					key, _ := intOf(fkv.Key)
					vals := fkv.Value.(*ast.CompositeLit).Elts
					if len(vals) != 4 {
						return nil, nil, fmt.Errorf("_fields[%s][%d]: %d values", msg, key, len(vals))
					}
					si, _ := intOf(vals[0])
					num, _ := intOf(vals[1])
					code, _ := intOf(vals[2])
					var length string
					if bl, ok := vals[3].(*ast.BasicLit); ok {
						length = bl.Value
					}
					if key != num {
						return nil, nil, fmt.Errorf("_fields[%s]: key %d holds field number %d", msg, key, num)
					}
					name := ""
					if si < len(structs[msg]) {
						name = structs[msg][si]
					}
					es = append(es, genEntry{msg, si, num, code, length, name})
				}
			}
		}
	}
	return es, structs, nil
}

func entryKey(e genEntry) string {
	return fmt.Sprintf("%s/%d/%d/%d/%s/%s", e.Msg, e.Sindex, e.Num, e.TCode, e.Length, e.Name)
}

func diffEntries(spec, gen []genEntry) string {
	a := map[string]bool{}
	for _, e := range spec {
		a[entryKey(e)] = true
	}
	b := map[string]bool{}
	for _, e := range gen {
		b[entryKey(e)] = true
	}
	var miss, extra []string
	for k := range a {
		if !b[k] {
			miss = append(miss, k)
		}
	}
	for k := range b {
		if !a[k] {
			extra = append(extra, k)
		}
	}
	sort.Strings(miss)
	sort.Strings(extra)
	if len(miss)+len(extra) == 0 {
		if len(spec) != len(gen) {
			return fmt.Sprintf("duplicate entries: %d expected, %d generated", len(spec), len(gen))
		}
		return ""
	}
	trim := func(l []string) []string {
		if len(l) > 4 {
			return l[:4]
		}
		return l
	}
	return fmt.Sprintf("missing (msg/sindex/num/type/length/name) %v; unexpected %v", trim(miss), trim(extra))
}

// ---- running the real command ----

func buildFitgen() (string, error) {
	bin := filepath.Join(buildDir, "fitgen")
	cmd := exec.Command("go", "build", "-o", bin, "./cmd/fitgen")
	cmd.Dir = "/repo"
	if out, err := cmd.CombinedOutput(); err != nil {
		return "", fmt.Errorf("%v: %s", err, out)
	}
	return bin, nil
}

func runFitgen(bin string, args []string, out string) (string, error) {
	os.RemoveAll(out)
	return runFitgenInto(bin, args, out)
}

// runFitgenInto runs the command into a directory that may already hold the sources of an earlier
// run (of another selection or SDK): what is written must not depend on them.
func runFitgenInto(bin string, args []string, out string) (string, error) {
	os.MkdirAll(out, 0o755)
	cmd := exec.Command(bin, append(args, out)...)
	b, err := cmd.CombinedOutput()
	return string(b), err
}

var genFiles4 = []string{"types.go", "messages.go", "profile.go", "types_string.go"}

func sameOutputs(a, b string) string {
	for _, f := range genFiles4 {
		x, err1 := os.ReadFile(filepath.Join(a, f))
		y, err2 := os.ReadFile(filepath.Join(b, f))
		if err1 != nil || err2 != nil {
			return f + " missing"
		}
		if !bytes.Equal(x, y) {
			return f + " differs between two runs"
		}
	}
	return ""
}

func declaredVersion(dir, sdk string) string {
	parts := strings.Split(sdk, ".")
	for _, f := range []string{"types.go", "messages.go", "profile.go"} {
		b, err := os.ReadFile(filepath.Join(dir, f))
		if err != nil {
			return f + " missing"
		}
		if !bytes.Contains(b, []byte("// SDK Version: "+sdk+"\n")) {
			return f + " does not declare SDK version " + sdk
		}
	}
	b, _ := os.ReadFile(filepath.Join(dir, "profile.go"))
	maj := regexp.MustCompile(`ProfileMajorVersion\s*=\s*(\d+)`).FindSubmatch(b)
	min := regexp.MustCompile(`ProfileMinorVersion\s*=\s*(\d+)`).FindSubmatch(b)
	if maj == nil || min == nil || string(maj[1]) != strconv.Itoa(atoi(parts[0])) || string(min[1]) != strconv.Itoa(atoi(parts[1])) {
		return "profile.go version constants do not match " + sdk
	}
	return ""
}

func atoi(s string) int { n, _ := strconv.Atoi(s); return n }

func copyFile(src, dst string) error {
	b, err := os.ReadFile(src)
	if err != nil {
		return err
	}
	os.MkdirAll(filepath.Dir(dst), 0o755)
	return os.WriteFile(dst, b, 0o644)
}

// compileWith builds the generated files together with the given hand-written support files
// in a scratch module named like the repository.
func compileWith(genDir, modDir string, support []string, withSubpkgs bool) (string, error) {
	os.RemoveAll(modDir)
	os.MkdirAll(modDir, 0o755)
	os.WriteFile(filepath.Join(modDir, "go.mod"), []byte("module github.com/tormoder/fit\n\ngo 1.15\n"), 0o644)
	typesFiles, _ := filepath.Glob("/repo/internal/types/*.go")
	for _, f := range typesFiles {
		if !strings.HasSuffix(f, "_test.go") {
			copyFile(f, filepath.Join(modDir, "internal/types", filepath.Base(f)))
		}
	}
	if withSubpkgs {
		crc, _ := filepath.Glob("/repo/dyncrc16/*.go")
		for _, f := range crc {
			if !strings.HasSuffix(f, "_test.go") {
				copyFile(f, filepath.Join(modDir, "dyncrc16", filepath.Base(f)))
			}
		}
	}
	for _, f := range support {
		copyFile(filepath.Join("/repo", f), filepath.Join(modDir, f))
	}
	for _, f := range genFiles4 {
		if err := copyFile(filepath.Join(genDir, f), filepath.Join(modDir, f)); err != nil {
			return "", err
		}
	}
	cmd := exec.Command("go", "build", "./")
	cmd.Dir = modDir
	cmd.Env = append(os.Environ(), "GOFLAGS=-mod=mod")
	out, err := cmd.CombinedOutput()
	return string(out), err
}

var minimalSupport = []string{"pfield.go", "time.go", "latlng.go", "accumu.go", "types_man.go"}

func fullSupport() []string {
	var res []string
	files, _ := filepath.Glob("/repo/*.go")
	skip := map[string]bool{"types.go": true, "messages.go": true, "profile.go": true, "types_string.go": true,
		"verif_export.go": true, "fuzz.go": true, "tools.go": true}
	for _, f := range files {
		b := filepath.Base(f)
		if strings.HasSuffix(b, "_test.go") || skip[b] {
			continue
		}
		res = append(res, b)
	}
	return res
}

var undefRe = regexp.MustCompile(`(?:undefined: (\w+))|(?:(\w+\.\w+) undefined)`)

func undefinedSymbols(out string) []string {
	set := map[string]bool{}
	for _, m := range undefRe.FindAllStringSubmatch(out, -1) {
		if m[1] != "" {
			set[m[1]] = true
		} else {
			set[m[2]] = true
		}
	}
	var res []string
	for s := range set {
		res = append(res, s)
	}
	sort.Strings(res)
	return res
}

// variantWorkbook disables the given rows (0-based sheet row indices) by writing 0 into column P.
func variantWorkbook(b *xlsxBook, rows []int) ([]byte, error) {
	sh := b.Sheets[1]
	x := string(sh.XML)
	for _, ri := range rows {
		ref := "P" + strconv.Itoa(ri+1)
		re := regexp.MustCompile(`<((?:x:)?)c r="` + ref + `"[^>]*?(?:/>|>.*?</(?:x:)?c>)`)
		if !re.MatchString(x) {
			return nil, fmt.Errorf("cell %s not found", ref)
		}
		x = re.ReplaceAllString(x, `<${1}c r="`+ref+`"><${1}v>0</${1}v></${1}c>`)
	}
	return b.withSheetXML(sh.Entry, []byte(x))
}

// freeRows: enabled field rows that no other row depends on and that hand-written code does not name.
func freeRows(b *xlsxBook, rows []genRow) []genRow {
	sheet := b.Sheets[1].Rows
	// names referenced as component destinations or as reference fields, per message
	ref := map[string]bool{}
	msg := ""
	for i, r := range sheet {
		if i == 0 {
			continue
		}
		if cell(r, 0) != "" && cell(r, 1) == "" {
			msg = camel(cell(r, 0))
		}
		for _, c := range strings.Split(cell(r, 5), ",") {
			if c = strings.TrimSpace(c); c != "" {
				ref[msg+"."+camel(c)] = true
			}
		}
		for _, c := range strings.Split(cell(r, 11), ",") {
			if c = strings.TrimSpace(c); c != "" {
				ref[msg+"."+camel(c)] = true
			}
		}
	}
	var free []genRow
	for _, r := range rows {
		if !r.Enabled || ref[r.Msg+"."+r.Name] || r.HasComps || r.Msg == "FileId" {
			continue
		}
		// a field followed by sub-field rows keeps its dynamic getters consistent only if it stays
		if r.RowIdx+1 < len(sheet) && cell(sheet[r.RowIdx+1], 1) == "" && cell(sheet[r.RowIdx+1], 2) != "" {
			continue
		}
		free = append(free, r)
	}
	return free
}

// closedGroup: the field rows that must be disabled together with `target` for the product
// selection to stay dependency-closed: parents of sub-field rows whose reference field is in the
// group, and rows whose components name a member — to a fixed point. nil if it touches file_id or grows large.
func closedGroup(b *xlsxBook, rows []genRow, target genRow) []int {
	sheet := b.Sheets[1].Rows
	in := map[string]bool{target.Name: true}
	idx := map[int]bool{target.RowIdx: true}
	mentions := func(cellText string) bool {
		for _, c := range strings.Split(cellText, ",") {
			if in[camel(strings.TrimSpace(c))] {
				return true
			}
		}
		return false
	}
	for changed := true; changed; {
		changed = false
		for _, r := range rows {
			if r.Msg != target.Msg || idx[r.RowIdx] {
				continue
			}
			dep := mentions(cell(sheet[r.RowIdx], 5))
			for j := r.RowIdx + 1; j < len(sheet) && cell(sheet[j], 1) == "" && cell(sheet[j], 2) != ""; j++ {
				if mentions(cell(sheet[j], 11)) || mentions(cell(sheet[j], 5)) {
					dep = true
				}
			}
			if dep {
				idx[r.RowIdx], in[r.Name], changed = true, true, true
			}
		}
	}
	if target.Msg == "FileId" || len(idx) > 10 {
		return nil
	}
	var out []int
	for i := range idx {
		out = append(out, i)
	}
	sort.Ints(out)
	return out
}

// subfieldGroup: the target row together with exactly the subfield rows (of dynamic fields of the same
// message) that name it as their reference field — the dynamic main fields themselves stay enabled.
// nil if some row's components mention the target (then the main row would have to go as well:
// closedGroup), or if no subfield refers to it.
func subfieldGroup(b *xlsxBook, rows []genRow, target genRow) []int {
	sheet := b.Sheets[1].Rows
	mentions := func(cellText string) bool {
		for _, c := range strings.Split(cellText, ",") {
			if camel(strings.TrimSpace(c)) == target.Name {
				return true
			}
		}
		return false
	}
	out := []int{target.RowIdx}
	for _, r := range rows {
		if r.Msg != target.Msg {
			continue
		}
		if r.RowIdx != target.RowIdx && mentions(cell(sheet[r.RowIdx], 5)) {
			return nil
		}
		for j := r.RowIdx + 1; j < len(sheet) && cell(sheet[j], 1) == "" && cell(sheet[j], 2) != ""; j++ {
			if mentions(cell(sheet[j], 5)) {
				return nil
			}
			if mentions(cell(sheet[j], 11)) {
				if r.RowIdx == target.RowIdx {
					return nil
				}
				out = append(out, j)
			}
		}
	}
	if len(out) == 1 || (target.Msg == "FileId" && target.Name == "Type") {
		return nil
	}
	sort.Ints(out)
	return out
}

var bundledSDKs = []string{"16.20", "20.14", "20.27", "20.43", "21.40"}

func init() {
	extraOps["gencore"] = func(a []string) string {
		// the harness' own computation of the table: msg:sindex:num:code entries for msg:num:enabled:code rows
		if len(a) != 1 {
			return "bad-gencore"
		}
		var rows []genRow
		for _, s := range strings.Split(a[0], ";") {
			p := strings.Split(s, ":")
			if len(p) != 4 {
				return "bad-gencore"
			}
			rows = append(rows, genRow{Msg: p[0], Num: atoi(p[1]), Enabled: p[2] == "1", TCode: atoi(p[3])})
		}
		var out []string
		for _, e := range specEntries(rows) {
			out = append(out, fmt.Sprintf("%s:%d:%d:%d", e.Msg, e.Sindex, e.Num, e.TCode))
		}
		return strings.Join(out, ";")
	}
	propGens["C19"] = func(r *rng, thorough bool) ([]CaseSet, string, bool) {
		cs := CaseSet{Name: "gencore-rows"}
		for _, sdk := range bundledSDKs {
			data, err := os.ReadFile("/repo/cmd/fitgen/internal/profile/testdata/" + sdk + ".xlsx")
			if err != nil {
				continue
			}
			b, err := openXlsx(data)
			if err != nil {
				continue
			}
			rows, err := workbookRows(b, false)
			if err != nil {
				continue
			}
			enc := func(rows []genRow) string {
				p := make([]string, len(rows))
				for i, x := range rows {
					e := 0
					if x.Enabled {
						e = 1
					}
					p[i] = fmt.Sprintf("%s:%d:%d:%d", x.Msg, x.Num, e, x.TCode)
				}
				return "gencore " + strings.Join(p, ";")
			}
			cs.Cases = append(cs.Cases, enc(rows))
			for v := 0; v < 3; v++ {
				rr := append([]genRow{}, rows...)
				for i := range rr {
					if r.chance(20) {
						rr[i].Enabled = !rr[i].Enabled
					}
				}
				cs.Cases = append(cs.Cases, enc(rr))
			}
		}
		nv := 1
		if thorough {
			nv = 8
		}
		return []CaseSet{cs},
			fmt.Sprintf("the real fitgen command on the 5 bundled workbooks (as .xlsx with -sdk, wrapped into an SDK zip named after the version, and as SDK zips whose name carries no version or another one together with -sdk) and %d product-profile variant(s) per workbook obtained by disabling random sets of field rows that nothing depends on, dependency-closed groups around referenced rows (always heart_rate_source_type, for which the generator has a named quirk), and the -hrst flag (edited in the workbook XML), each run twice: exit status, byte-identical outputs, declared SDK version, lookup table and struct fields extracted from the generated sources equal the table computed from the independently read workbook rows (also computed by the Lean model), compilation with the minimal support set; compilation with the whole library is expected to fail for the bundled (older) workbooks (known finding D16)", nv), false
	}
	propPost["C19"] = postC19
}

func postC19(res *RunResult) {
	bin, err := buildFitgen()
	if err != nil {
		addViolation(res, "go build ./cmd/fitgen", err.Error(), "fitgen does not build")
		return
	}
	nVariants := 1
	if res.Tier == "thorough" {
		nVariants = 8
	}
	r := newRng(res.Seed + 19)
	work := filepath.Join(buildDir, "c19")
	os.RemoveAll(work)
	os.MkdirAll(work, 0o755)
	defer os.RemoveAll(work)
	runs := 0
	for _, sdk := range bundledSDKs {
		wbPath := "/repo/cmd/fitgen/internal/profile/testdata/" + sdk + ".xlsx"
		data, err := os.ReadFile(wbPath)
		if err != nil {
			addViolation(res, wbPath, err.Error(), "bundled workbook missing")
			continue
		}
		book, err := openXlsx(data)
		if err != nil {
			addViolation(res, wbPath, err.Error(), "independent workbook reader failed")
			continue
		}
		type variant struct {
			name string
			data []byte
			off  []int
			hrst bool
		}
		variants := []variant{{name: "bundled", data: data}}
		base, err := workbookRows(book, false)
		if err != nil {
			addViolation(res, wbPath, err.Error(), "cannot compute expected table")
			continue
		}
		free := freeRows(book, base)
		for v := 0; v < nVariants && len(free) > 0; v++ {
			var off []int
			pct := 5 + r.intn(40)
			for _, fr := range free {
				if r.chance(pct) {
					off = append(off, fr.RowIdx)
				}
			}
			if len(off) == 0 {
				off = []int{free[r.intn(len(free))].RowIdx}
			}
			vd, err := variantWorkbook(book, off)
			if err != nil {
				res.Notes = append(res.Notes, "variant construction failed for "+sdk+": "+err.Error())
				continue
			}
			variants = append(variants, variant{name: fmt.Sprintf("variant%d(-%d rows)", v, len(off)), data: vd, off: off})
		}
		// dependency-closed groups around referenced rows; always the one the generator has a named
		// quirk for (heart_rate_source_type), with and without the -hrst flag
		var referenced []genRow
		for _, fr := range base {
			if fr.Enabled && fr.Msg != "FileId" {
				isFree := false
				for _, x := range free {
					if x.RowIdx == fr.RowIdx {
						isFree = true
					}
				}
				if !isFree && !fr.HasComps {
					referenced = append(referenced, fr)
				}
			}
		}
		addGroup := func(t genRow, hrst bool) {
			g := closedGroup(book, base, t)
			if g == nil {
				return
			}
			vd, err := variantWorkbook(book, g)
			if err != nil {
				res.Notes = append(res.Notes, "group variant construction failed for "+sdk+": "+err.Error())
				return
			}
			name := fmt.Sprintf("group(%s.%s,-%d rows)", t.Msg, t.Name, len(g))
			if hrst {
				name += " -hrst"
			}
			variants = append(variants, variant{name: name, data: vd, off: g, hrst: hrst})
		}
		for _, fr := range base {
			if fr.Name == "HeartRateSourceType" && fr.Enabled {
				addGroup(fr, false)
				addGroup(fr, true)
			}
		}
		for v := 0; v < nVariants && len(referenced) > 0; v++ {
			addGroup(referenced[r.intn(len(referenced))], false)
		}
		// reference fields of dynamic fields, disabled together with the subfield rows that refer to
		// them while the dynamic fields stay enabled
		var sgs [][]int
		var sgNames []string
		for _, fr := range base {
			if fr.Enabled {
				if g := subfieldGroup(book, base, fr); g != nil {
					sgs = append(sgs, g)
					sgNames = append(sgNames, fr.Msg+"."+fr.Name)
				}
			}
		}
		nsg := 2
		if res.Tier == "thorough" {
			nsg = len(sgs)
		}
		for v := 0; v < nsg && len(sgs) > 0; v++ {
			i := r.intn(len(sgs))
			if res.Tier == "thorough" {
				i = v
			}
			if vd, err := variantWorkbook(book, sgs[i]); err == nil {
				variants = append(variants, variant{name: fmt.Sprintf("subfields-of(%s,-%d rows)", sgNames[i], len(sgs[i])), data: vd, off: sgs[i]})
			}
		}
		// rows that carry components of their own and that nothing refers to (event.data16, the
		// compressed fields of record, ...), disabled one at a time while their destinations stay
		var compSrc []genRow
		for _, fr := range base {
			if fr.Enabled && fr.HasComps && fr.Msg != "FileId" {
				compSrc = append(compSrc, fr)
			}
		}
		// quick tier: every such row of one workbook (which one rotates with the seed), one random row of
		// the others; thorough tier: every row of every workbook
		ncs := 1
		allCS := res.Tier == "thorough" || sdk == bundledSDKs[int(res.Seed)%len(bundledSDKs)]
		if allCS {
			ncs = len(compSrc)
		}
		for v := 0; v < ncs && len(compSrc) > 0; v++ {
			i := r.intn(len(compSrc))
			if allCS {
				i = v
			}
			if g := closedGroup(book, base, compSrc[i]); g != nil {
				if vd, err := variantWorkbook(book, g); err == nil {
					variants = append(variants, variant{name: fmt.Sprintf("component-source(%s.%s,-%d rows)", compSrc[i].Msg, compSrc[i].Name, len(g)), data: vd, off: g})
				}
			}
		}
		// subfield rows of dynamic fields disabled on their own (nothing depends on a subfield row; main
		// field and reference fields stay enabled, so the table is the bundled one): for a dynamic field
		// whose subfields name two or more reference fields, the selection in which the last enabled
		// subfield is the only one left that names its reference field; and random subsets
		{
			sheet := book.Sheets[1].Rows
			enabledSub := func(j int) bool { c := strings.TrimSpace(cell(sheet[j], 15)); return c != "" && c != "0" }
			type dyn struct {
				name string
				subs []int
			}
			var dyns, multi []dyn
			for _, fr := range base {
				if !fr.Enabled {
					continue
				}
				d := dyn{name: fr.Msg + "." + fr.Name}
				refs := map[string]bool{}
				for j := fr.RowIdx + 1; j < len(sheet) && cell(sheet[j], 1) == "" && cell(sheet[j], 2) != ""; j++ {
					if enabledSub(j) {
						d.subs = append(d.subs, j)
						refs[strings.TrimSpace(strings.Split(cell(sheet[j], 11), ",")[0])] = true
					}
				}
				if len(d.subs) >= 2 {
					dyns = append(dyns, d)
					if len(refs) >= 2 {
						multi = append(multi, d)
					}
				}
			}
			refOf := func(j int) string { return strings.TrimSpace(strings.Split(cell(sheet[j], 11), ",")[0]) }
			nm := 1
			if res.Tier == "thorough" {
				nm = 6
			}
			for _, d := range multi {
				first := refOf(d.subs[0])
				var cand []int // subfields naming another reference field than the first one does
				for _, j := range d.subs {
					if refOf(j) != first {
						cand = append(cand, j)
					}
				}
				for v := 0; v < nm && len(cand) > 0; v++ {
					keep := cand[r.intn(len(cand))]
					var off []int
					for _, j := range d.subs {
						if j > keep || (j != keep && refOf(j) != first) {
							off = append(off, j)
						}
					}
					if vd, err := variantWorkbook(book, off); err == nil {
						variants = append(variants, variant{name: fmt.Sprintf("subfield-rows(%s: last enabled subfield alone names %s,-%d rows)", d.name, refOf(keep), len(off)), data: vd, off: off})
					} else {
						res.Notes = append(res.Notes, "subfield variant construction failed for "+sdk+": "+err.Error())
					}
				}
			}
			nr := 1
			if res.Tier == "thorough" {
				nr = 8
			}
			for v := 0; v < nr && len(dyns) > 0; v++ {
				var off []int
				for _, d := range dyns {
					if !r.chance(40) {
						continue
					}
					for _, j := range d.subs {
						if r.chance(50) {
							off = append(off, j)
						}
					}
				}
				if len(off) == 0 {
					off = []int{dyns[0].subs[len(dyns[0].subs)-1]}
				}
				if vd, err := variantWorkbook(book, off); err == nil {
					variants = append(variants, variant{name: fmt.Sprintf("subfield-rows(random,-%d rows)", len(off)), data: vd, off: off})
				}
			}
		}
		variants = append(variants, variant{name: "bundled -hrst", data: data, hrst: true})
		for vi, v := range variants {
			label := sdk + "/" + v.name
			in := filepath.Join(work, fmt.Sprintf("%s_%d.xlsx", sdk, vi))
			os.WriteFile(in, v.data, 0o644)
			out1, out2 := filepath.Join(work, "o1"), filepath.Join(work, "o2")
			args := []string{"-sdk", sdk, in}
			if v.hrst {
				args = []string{"-hrst", "-sdk", sdk, in}
			}
			log1, err1 := runFitgen(bin, args, out1)
			// the repeated run goes into the directory the previous selection was generated into
			// (the bundled workbook comes first, so later ones are smaller)
			_, err2 := runFitgenInto(bin, args, out2)
			runs += 2
			if err1 != nil || err2 != nil {
				addViolation(res, "fitgen -sdk "+sdk+" "+label, clip(log1), "fitgen did not exit successfully")
				continue
			}
			if d := sameOutputs(out1, out2); d != "" {
				addViolation(res, "fitgen -sdk "+sdk+" "+label, d, "two runs on the same input differ (the second into a directory holding the sources of the previous selection): "+d)
			}
			if d := declaredVersion(out1, sdk); d != "" {
				addViolation(res, "fitgen -sdk "+sdk+" "+label, d, d)
			}
			// expected table from the independently read (variant) workbook
			vb, err := openXlsx(v.data)
			if err != nil {
				addViolation(res, label, err.Error(), "cannot re-read variant workbook")
				continue
			}
			rows, err := workbookRows(vb, v.hrst)
			if err != nil {
				addViolation(res, label, err.Error(), "cannot compute expected table")
				continue
			}
			gen, _, err := generatedEntries(out1)
			if err != nil {
				addViolation(res, label, err.Error(), "cannot extract the generated table")
				continue
			}
			if d := diffEntries(specEntries(rows), gen); d != "" {
				addViolation(res, "fitgen -sdk "+sdk+" "+label, d, "generated lookup table / struct fields differ from the workbook rows: "+d)
			}
			// the SDK-zip input path
			if vi == 0 {
				zp := filepath.Join(work, "FitSDKRelease_"+sdk+".00.zip")
				var zb bytes.Buffer
				zw := zip.NewWriter(&zb)
				w, _ := zw.Create("FitSDKRelease_" + sdk + ".00/Profile.xlsx")
				w.Write(v.data)
				zw.Close()
				os.WriteFile(zp, zb.Bytes(), 0o644)
				out3 := filepath.Join(work, "o3")
				if lg, err := runFitgen(bin, []string{zp}, out3); err != nil {
					addViolation(res, "fitgen "+zp, clip(lg), "fitgen failed on the SDK zip input")
				} else if d := sameOutputs(out1, out3); d != "" {
					// the zip path declares version x.y.00 → x.y: identical output expected
					addViolation(res, "fitgen "+zp, d, "zip input and xlsx input give different sources: "+d)
				}
				runs++
				// the SDK zip together with -sdk: the flag provides the version when the archive name
				// carries none, and overrides the one it carries
				for zi, zn := range []string{"sdk.zip", "FitSDKRelease_1.02.00.zip"} {
					zq := filepath.Join(work, zn)
					os.WriteFile(zq, zb.Bytes(), 0o644)
					out4 := filepath.Join(work, fmt.Sprintf("o4_%d", zi))
					if lg, err := runFitgen(bin, []string{"-sdk", sdk, zq}, out4); err != nil {
						addViolation(res, "fitgen -sdk "+sdk+" "+zn, clip(lg), "fitgen failed on an SDK zip input with the version given by -sdk")
					} else if d := declaredVersion(out4, sdk); d != "" {
						addViolation(res, "fitgen -sdk "+sdk+" "+zn, d, d)
					} else if d := sameOutputs(out1, out4); d != "" {
						addViolation(res, "fitgen -sdk "+sdk+" "+zn, d, "zip input with -sdk and xlsx input give different sources: "+d)
					}
					os.RemoveAll(out4)
					os.Remove(zq)
					runs++
				}
			}
			// (a) generated sources + minimal support set
			if outp, err := compileWith(out1, filepath.Join(work, "modA"), minimalSupport, false); err != nil {
				addViolation(res, "go build: "+label+" + minimal support", clip(outp), "generated sources do not compile with the minimal support set")
			}
			// (b) generated sources + the whole hand-written library
			if vi == 0 {
				if outp, err := compileWith(out1, filepath.Join(work, "modB"), fullSupport(), true); err != nil {
					syms := undefinedSymbols(outp)
					if len(syms) == 0 {
						addViolation(res, "go build: "+label+" + library", clip(outp), "generated sources do not compile with the library (unclassified error)")
					}
					for _, s := range syms {
						res.KnownFindings = appendUniq(res.KnownFindings, fmt.Sprintf("property=C19 site=go-build:%s cause=support-code-needs-symbol:%s", sdk, s))
					}
				}
			}
		}
	}
	res.Stats.Evaluations += runs
	res.Stats.Distinct += runs / 2
	res.Notes = append(res.Notes, fmt.Sprintf("%d fitgen runs", runs))
}
