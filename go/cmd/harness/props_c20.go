package main

import (
	"bytes"
	"encoding/hex"
	"fmt"
	"os"
	"os/exec"
	"path/filepath"
	"regexp"
	"strconv"
	"strings"

	"verifharness/strfacts"
)

func init() {
	extraOps["strs"] = func(a []string) string {
		if len(a) != 3 {
			return "bad-strs"
		}
		f, ok := stringers[a[0]]
		lo, err1 := strconv.ParseInt(a[1], 10, 64)
		hi, err2 := strconv.ParseInt(a[2], 10, 64)
		if !ok || err1 != nil || err2 != nil {
			return "bad-strs"
		}
		parts := make([]string, 0, hi-lo+1)
		for v := lo; v <= hi; v++ {
			v := v
			// a String method that panics is a result for that value
			parts = append(parts, hex.EncodeToString([]byte(guarded(func() string { return f(v) }))))
		}
		return strings.Join(parts, ",")
	}
	propGens["C20"] = func(r *rng, thorough bool) ([]CaseSet, string, bool) {
		types, err := strfacts.ParseTypes("/repo/types.go", "/repo/types_man.go")
		cs := CaseSet{Name: "string-methods"}
		if err != nil {
			return []CaseSet{cs}, "type extraction failed: " + err.Error(), false
		}
		nsamp := 60
		if thorough {
			nsamp = 2000
		}
		for _, t := range types {
			max := int64(1)<<uint(t.Bits) - 1
			switch {
			case t.Bits == 8:
				cs.Cases = append(cs.Cases, fmt.Sprintf("strs %s 0 255", t.Name))
			case t.Bits == 16:
				for lo := int64(0); lo < 65536; lo += 4096 {
					cs.Cases = append(cs.Cases, fmt.Sprintf("strs %s %d %d", t.Name, lo, lo+4095))
				}
			default:
				// every constant with its neighbours, the ends of the range, and samples
				seen := map[int64]bool{}
				add := func(lo, hi int64) {
					if lo < 0 {
						lo = 0
					}
					if hi > max {
						hi = max
					}
					if lo > hi || seen[lo] {
						return
					}
					seen[lo] = true
					cs.Cases = append(cs.Cases, fmt.Sprintf("strs %s %d %d", t.Name, lo, hi))
				}
				for _, c := range t.Consts {
					add(c.Value-2, c.Value+2)
				}
				add(0, 8)
				add(max-8, max)
				for i := 0; i < nsamp; i++ {
					v := int64(r.next() % uint64(max))
					add(v, v+3)
				}
			}
		}
		return []CaseSet{cs},
			"String() of every value of every 8-bit and 16-bit generated type (complete), and for wider types every constant with its neighbours, the ends of the range and sampled values, against the model evaluating the extracted String shapes; plus a re-run of the repository's stringer on types.go compared byte for byte with types_string.go", true
	}
	propPost["C20"] = postC20
}

func postC20(res *RunResult) {
	// independent Go-side oracle from the constant list
	types, err := strfacts.ParseTypes("/repo/types.go", "/repo/types_man.go")
	if err != nil {
		addViolation(res, "types.go", err.Error(), "cannot extract constants")
		return
	}
	byName := map[string]strfacts.TypeInfo{}
	for _, t := range types {
		byName[t.Name] = t
	}
	for i, c := range res.Stats.cases {
		f := strings.Split(c, " ")
		if len(f) != 4 || f[0] != "strs" {
			continue
		}
		t := byName[f[1]]
		lo, _ := strconv.ParseInt(f[2], 10, 64)
		outs := strings.Split(res.Stats.impl[i], ",")
		for k, hx := range outs {
			v := lo + int64(k)
			b, _ := hex.DecodeString(hx)
			got := string(b)
			ok := false
			isConst := false
			for _, cn := range t.Consts {
				if cn.Value == v {
					isConst = true
					want := strings.TrimPrefix(cn.Name, t.Name)
					if t.Manual {
						want = cn.Name
					}
					if got == want {
						ok = true
					}
				}
			}
			if !isConst {
				ok = got == fmt.Sprintf("%s(%d)", t.Name, v)
			}
			if !ok {
				addViolation(res, fmt.Sprintf("strs %s %d %d", t.Name, v, v), got, fmt.Sprintf("%s(%d).String() = %q does not follow the constant list", t.Name, v, got))
			}
		}
	}
	// the checked-in tables are what the repository's stringer generates
	if msg := rerunStringer(); msg != "" {
		addViolation(res, "fitgen stringer on /repo/types.go", msg, "types_string.go differs from the stringer's output: "+msg)
	}
}

func rerunStringer() string {
	src, err := os.ReadFile("/repo/types_string.go")
	if err != nil {
		return err.Error()
	}
	m := regexp.MustCompile(`(?m)^// fit types: \[(.*)\]$`).FindSubmatch(src)
	if m == nil {
		return "no type list in types_string.go"
	}
	typesArg := strings.Join(strings.Fields(string(m[1])), ",")
	bin := filepath.Join(buildDir, "fitgen-verif")
	cmd := exec.Command("go", "build", "-tags", "verif", "-o", bin, "./cmd/fitgen")
	cmd.Dir = "/repo"
	if out, err := cmd.CombinedOutput(); err != nil {
		return "fitgen does not build with -tags verif: " + string(out)
	}
	outFile := filepath.Join(buildDir, "types_string.regen.go")
	os.Remove(outFile)
	run := exec.Command(bin)
	run.Dir = "/repo"
	run.Env = append(os.Environ(), "VERIF_FITGEN_STRINGER=/repo/types.go:"+outFile+":"+typesArg)
	if out, err := run.CombinedOutput(); err != nil {
		return "stringer run failed: " + string(out)
	}
	regen, err := os.ReadFile(outFile)
	if err != nil {
		return err.Error()
	}
	if !bytes.Equal(regen, src) {
		// first differing line
		a, b := strings.Split(string(src), "\n"), strings.Split(string(regen), "\n")
		for i := 0; i < len(a) && i < len(b); i++ {
			if a[i] != b[i] {
				return fmt.Sprintf("line %d: checked in %q, regenerated %q", i+1, clipS(a[i]), clipS(b[i]))
			}
		}
		return "lengths differ"
	}
	return ""
}
