package main

import (
	"encoding/hex"
	"fmt"
	"regexp"
	"sort"
	"strconv"
	"strings"
)

// ---- helpers over finished runs ----

type decRes struct {
	tag      string
	consumed int
	accu     string
	dump     string
}

func parseDecRes(s string) (decRes, bool) {
	f := strings.SplitN(s, " ", 4)
	if len(f) != 4 {
		return decRes{}, false
	}
	n, err := strconv.Atoi(f[1])
	if err != nil {
		return decRes{}, false
	}
	return decRes{f[0], n, f[2], f[3]}, true
}

type decCaseT struct {
	entry, opts, rspec, accu string
	data                     []byte
}

func parseDecCase(c string) (decCaseT, bool) {
	f := strings.Split(c, " ")
	if len(f) < 5 || f[0] != "dec" {
		return decCaseT{}, false
	}
	d := decCaseT{entry: f[1], opts: f[2], rspec: f[3], accu: f[4]}
	if len(f) > 5 {
		b, err := hex.DecodeString(f[5])
		if err != nil {
			return decCaseT{}, false
		}
		d.data = b
	}
	return d, true
}

func addViolation(res *RunResult, c, impl, what string) {
	nOracle := 0
	for _, v := range res.Violations {
		if v.Kind == "oracle" {
			nOracle++
		}
	}
	if nOracle < 20 {
		res.Violations = append(res.Violations, Mismatch{Case: c, Impl: clip(impl), Model: "(property oracle) " + what, Where: what, Kind: "oracle"})
	}
	res.Stats.NMismatch++
}

// panics and hangs violate totality whatever the model says
func postNoPanic(res *RunResult) {
	for i, out := range res.Stats.impl {
		if strings.HasPrefix(out, "panic") || strings.HasPrefix(out, "hang") || strings.HasPrefix(out, "crash") {
			addViolation(res, res.Stats.cases[i], out, "entry point panicked or hung")
		}
	}
}

// frameLen: header size + data size + 2 of the first file in data, if the header is readable
func frameLen(data []byte) (int, bool) {
	if len(data) < 12 || (data[0] != 12 && data[0] != 14) {
		return 0, false
	}
	ds := int(data[4]) | int(data[5])<<8 | int(data[6])<<16 | int(data[7])<<24
	return int(data[0]) + ds + 2, true
}

func init() {
	propGens["C01"] = func(r *rng, thorough bool) ([]CaseSet, string, bool) {
		stride, nm, nr, maxc := 16, 6000, 1500, 200000
		if thorough {
			stride, nm, nr, maxc = 1, 100000, 20000, 20000000
		}
		sets := []CaseSet{genCorpusAllEntries(maxc), genSingleField(r, stride), genMalformed(r, nm),
			genRandomStreams(r, "random-streams", nr, fullKnobs(), ""), genChunkedMalformed(r, nm/4), genSizeExtremes(r, nr/3),
			genEveryFileType(), genChainInherits(r, nr/10)}
		return sets, "every corpus file through all six entry points; single-field definitions (every known message x listed field + one unlisted, 25 base-type bytes x sizes around the valid ones x both byte orders, sampled 1/" + strconv.Itoa(stride) + " in this tier) each followed by data; mutated and random byte strings through random entry points and read schedules; structured random streams; size-extreme definitions (counts and byte totals around 8- and 16-bit boundaries); a short well-formed file for each of the 256 file_id.type values through Decode, DecodeChained and DecodeHeaderAndFileID; chains whose later files define only file_id and send records of local types that only the first file defined. Oracle: no panic, no hang (10 s per case), outcome class, bytes consumed and full dump equal the model's. distinct = distinct result lines that got past header and file_id", false
	}
	propPost["C01"] = postNoPanic

	propGens["C02"] = func(r *rng, thorough bool) ([]CaseSet, string, bool) {
		stride, nr := 8, 3000
		if thorough {
			stride, nr = 1, 60000
		}
		k := fullKnobs()
		k.badDefs = 0
		return []CaseSet{genSingleField(r, stride), genRandomStreams(r, "compatible-random-streams", nr, k, "000"), genWire(r, nr), genSizeExtremes(r, nr/3)},
			"definitions whose field counts, developer-field counts, sizes and summed sizes sit around 85/86, 127/128, 255/256, 512 and 765, followed by data and a marker record of another local type; single-field definitions over the regenerated profile (every listed field x base types x sizes x byte order x boundary payloads, sampled 1/" + strconv.Itoa(stride) + "); random multi-definition streams with shuffled fields, unknown messages, unlisted and developer fields, compressed headers; item-level streams (`wire`) on which the model additionally evaluates the record machine and the value specification. distinct = distinct result lines", false
	}
	propPost["C02"] = postNoPanic

	propGens["C03"] = func(r *rng, thorough bool) ([]CaseSet, string, bool) {
		n := 400
		if thorough {
			n = 8000
		}
		return []CaseSet{genRouting(r, n)},
			"per hosted file type: every known message type three times with distinct markers in three interleavings (grouped, round-robin, reversed); all 256 file-type values; random interleavings of up to 120 records incl. repeated file_id messages; full container dump compared", false
	}
	propPost["C03"] = postNoPanic

	propGens["C10"] = func(r *rng, thorough bool) ([]CaseSet, string, bool) {
		nf, per, nch, maxc := 25, 20, 1500, 30000
		if thorough {
			nf, per, nch, maxc = 200, 0, 6000, 120000
		}
		return []CaseSet{genChunked(r, nf, maxc, per), genChains(r, nch, maxc/2), genFrameEnds(r), genChainInherits(r, nch/10)},
			"valid files whose last record ends the data section with a zero-size skipped field (unlisted, of an unknown message, developer) or with a size-0 string, alone and in chains, under every schedule; valid files (corpus + generated) x six entry points x read schedules {whole,1,2,3,7,13,4095,4096,4097,8192,mixed,data-with-EOF}; chains of 1-4 files with random schedules, trailing garbage, faults at the end. Oracles: bytes pulled from the reader = header+data+2 on success of Decode/CheckIntegrity and never more than the frame; result independent of the schedule; chained = per-file decode", false
	}
	propPost["C10"] = postC10

	propGens["C11"] = func(r *rng, thorough bool) ([]CaseSet, string, bool) {
		nf, maxl, stride, nch := 12, 420, 1, 800
		if thorough {
			nf, maxl, stride, nch = 60, 4000, 1, 8000
		}
		return []CaseSet{genCutsFaults(r, nf, maxl, stride), genChains(r, nch, 20000)},
			"every cut offset and every fault offset (error only / final bytes together with the error) of small valid streams and two-file chains through all six entry points. Oracle: an input cut before the bytes the entry point needs yields an error (except a clean cut on a chain boundary); files returned with the error equal the model's", true
	}
	propPost["C11"] = postC11

	propGens["C12"] = func(r *rng, thorough bool) ([]CaseSet, string, bool) {
		n := 3000
		if thorough {
			n = 60000
		}
		return []CaseSet{genTimestamps(r, n)},
			"sequences mixing explicit timestamps (absolute, below the system-time marker, 0, 0xFFFFFFFF, near wrap), compressed-timestamp records with all 32 offsets and runs up to 300, local timestamps with and without reference, both byte orders, narrow definitions", false
	}
	propPost["C12"] = postNoPanic

	propGens["C13"] = func(r *rng, thorough bool) ([]CaseSet, string, bool) {
		n := 3000
		if thorough {
			n = 60000
		}
		k := fullKnobs()
		k.badDefs = 0
		k.records = 80
		k.onlyMsgs = []int{20, 21, 19, 23, 34}
		k.ftype = 4
		k2 := k
		k2.onlyMsgs = nil
		k2.ftype = -1
		return []CaseSet{genRandomStreams(r, "redefinitions-few-types", n, k, "000"), genRandomStreams(r, "redefinitions-any-type", n/2, k2, "000"), genRedefinitions(r, n/2), genUndefinedLocal(r, 400), genChainedUndefined(r, 300)},
			"random interleavings of definitions and data over all 16 local types with redefinitions switching message, field list, sizes and byte order; chains of redefinitions of one local type differing from the previous definition in exactly one respect (byte order only, one size, one base type, the message, developer fields, field order, nothing); compressed headers sharing slots 0-3; data records for undefined local types, the first data record of a file included (file_id definition and first record naming different local types, through Decode, DecodeHeaderAndFileID and DecodeChained); chains in which a later file uses a local type only an earlier file of the chain defined", false
	}
	propPost["C13"] = postNoPanic

	propGens["C16"] = func(r *rng, thorough bool) ([]CaseSet, string, bool) {
		n := 600
		if thorough {
			n = 12000
		}
		return []CaseSet{genOptionSets(r, n), genManyUnknown(r, 1+n/40), genUnknownChains(r, 1+n/10), genUnknownTies(r, 6), genUnknownCounterWidths(r)},
			"streams mixing known and unknown messages and unlisted fields, whole and cut, each under all 8 option combinations, and with the logger (a custom one, the standard one) given before or after the other options; chains of 2-4 files with different sets of unknown message numbers and unlisted fields through DecodeChained under the list-producing option sets (every file's lists are its own); one unlisted field and one unknown message occurring 255 … 65537 times in a file (counts exact whatever integer type holds them); the same unlisted field number in known messages whose numbers differ by 256 or whose low bytes collide, and unknown messages 256 apart (an ordering that compares truncated keys leaves ties to map order). Oracles: messages, error class and bytes consumed identical across option sets; lists sorted; counts equal the model's", false
	}
	propPost["C16"] = postC16

	propGens["C18"] = func(r *rng, thorough bool) ([]CaseSet, string, bool) {
		n := 4000
		if thorough {
			n = 80000
		}
		comp, sweeps := genComponents(r, n), genComponentSweeps(r, thorough)
		spec := CaseSet{Name: "expansion-vs-rules"}
		for _, set := range []CaseSet{comp, sweeps} {
			for _, c := range set.Cases {
				if dc, ok := parseDecCase(c); ok {
					spec.Cases = append(spec.Cases, "devs "+dc.accu+" "+hex.EncodeToString(dc.data))
				}
			}
		}
		return []CaseSet{comp, sweeps, spec},
			"every stream also replayed, message by message, against the rule-driven specification interpreted from the profile's component rules (bit slices LSB first, accumulators starting at zero per file): agreement, or disagreement explained exactly by the deviations listed in known_findings.txt; record/lap/session/segment_lap/event messages with random and boundary source values in every container that holds them, with preset and fresh accumulators; sweeps of all 2^16 values of 16-bit sources and of compressed_speed_distance triples (sampled in quick)", false
	}
	propPost["C18"] = postC18
}

// genEveryEntry: one exact-type definition for every (message, field) entry of the profile.
func genEveryEntry(r *rng) CaseSet {
	cs := CaseSet{Name: "every-profile-entry"}
	for _, m := range knownMsgs() {
		h := hostFor(m.Num)
		for _, f := range m.Fields {
			pb := tcBase(f[2])
			sz := btSize[pb]
			if tcArray(f[2]) || pb == 0x07 {
				sz *= f[3]
				if sz > 255 {
					sz = 255 / btSize[pb] * btSize[pb]
				}
			}
			for arch := byte(0); arch < 2; arch++ {
				var b recs
				b.Write(fileIdRecs(h.ftype, arch))
				b.def(defn{local: 1, arch: arch, global: uint16(m.Num), fields: []fdef{{byte(f[1]), byte(sz), pb}}})
				for _, p := range payloads(r, sz, 4) {
					b.data(1, p)
				}
				cs.Cases = append(cs.Cases, decCase("decode", "000", "-", "-", frame(b.Bytes(), defaultFrame())))
			}
		}
	}
	return cs
}

func init() {
	propGens["C15"] = func(r *rng, thorough bool) ([]CaseSet, string, bool) {
		stride := 8
		if thorough {
			stride = 1
		}
		return []CaseSet{genEveryEntry(r), genSingleField(r, stride), genEveryFieldAlone(r, "rt", fileKnobs{inDomain: true})},
			"every (message, field) entry of the compiled-in profile with its exact base type and size in both byte orders and four payloads, in a file type that hosts the message (the dump shows which struct field changed and to what); plus the single-field definition sweep; every field of every hosted message set alone (arrays shorter than the profile length included) through Encode and Decode: no profile-driven access of the encoder may fail; the tables themselves are regenerated by reflection and re-checked by the kernel (gen_wf); every (message, field number) shared with the newest bundled SDK workbook must designate the struct field of the workbook's name and type", true
	}
	propPost["C15"] = func(res *RunResult) {
		postNoPanic(res)
		sdkAssignment(res)
		sdkSnapshot(res)
		constructorInvalids(res)
		containersKnown(res)
		entryKinds(res)
	}
}

func postC10(res *RunResult) {
	postNoPanic(res)
	readerKindsOracle(res, 40)
	// results must not depend on the schedule, and consumption must be exactly the frame
	type key struct{ entry, data string }
	first := map[key]string{}
	for i, c := range res.Stats.cases {
		dc, ok := parseDecCase(c)
		if !ok {
			continue
		}
		out := res.Stats.impl[i]
		dr, ok2 := parseDecRes(out)
		if !ok2 {
			continue
		}
		if res.Stats.setOf[i] == "frame-ends-in-zero-size-field" && dr.tag != "ok" {
			// these files are valid by construction (a size-0 field is skipped or stored without reading
			// anything): one File per input, the frame consumed exactly
			addViolation(res, c, out, "a valid file whose last record ends the data section with a zero-size field is rejected by "+dc.entry)
		}
		if fl, ok := frameLen(dc.data); ok && !strings.Contains(dc.rspec, "f") {
			if (dc.entry == "decode" || dc.entry == "integ") && dr.tag == "ok" && dr.consumed != fl {
				addViolation(res, c, out, fmt.Sprintf("consumed %d bytes, frame is %d", dr.consumed, fl))
			}
			if dc.entry != "chained" && dr.consumed > fl {
				addViolation(res, c, out, fmt.Sprintf("read past the frame: %d > %d", dr.consumed, fl))
			}
			// the header-only entry points need the header and nothing else
			if (dc.entry == "header" || dc.entry == "integhdr") && len(dc.data) > 0 && dr.consumed > int(dc.data[0]) {
				addViolation(res, c, out, fmt.Sprintf("read past the header: %d > %d", dr.consumed, dc.data[0]))
			}
		}
		if strings.Contains(dc.rspec, "f") {
			continue
		}
		k := key{dc.entry, string(dc.data)}
		norm := dr.tag + " " + dr.dump
		if dr.tag == "ok" && (dc.entry == "decode" || dc.entry == "integ" || dc.entry == "chained") {
			norm += " " + strconv.Itoa(dr.consumed)
		}
		if prev, ok := first[k]; ok {
			if prev != norm {
				addViolation(res, c, out, "result depends on the read schedule")
			}
		} else {
			first[k] = norm
		}
	}
	// DecodeChained over a concatenation: one File per input, each equal to decoding that file alone
	// (the alone decodes start from the accumulator state the previous file left, as the chain does)
	checked := map[string]bool{}
	nChainCmp, nHdrCmp := 0, 0
	for i, c := range res.Stats.cases {
		dc, ok := parseDecCase(c)
		if !ok || dc.entry != "chained" || strings.Contains(dc.rspec, "f") {
			continue
		}
		dr, ok2 := parseDecRes(res.Stats.impl[i])
		if !ok2 || dr.tag != "ok" {
			continue
		}
		ck := dc.opts + " " + dc.accu + " " + string(dc.data)
		if checked[ck] {
			continue
		}
		checked[ck] = true
		nChainCmp++
		parts := strings.Split(dr.dump, "##")
		if dr.dump == "none" {
			parts = nil
		}
		accu := dc.accu
		pos, idx := 0, 0
		for pos < len(dc.data) {
			fl, ok := frameLen(dc.data[pos:])
			if !ok || pos+fl > len(dc.data) {
				break
			}
			alone, okA := parseDecRes(implDec("decode", dc.opts, "-", accu, hex.EncodeToString(dc.data[pos:pos+fl])))
			if !okA || alone.tag != "ok" {
				break
			}
			if idx >= len(parts) {
				addViolation(res, c, res.Stats.impl[i], fmt.Sprintf("DecodeChained returned %d files for a concatenation of at least %d", len(parts), idx+1))
				break
			}
			if parts[idx] != alone.dump {
				addViolation(res, c, res.Stats.impl[i], fmt.Sprintf("file %d of the chain differs from decoding it alone: %s", idx, firstDiff(parts[idx], alone.dump)))
				break
			}
			accu = alone.accu
			pos += fl
			idx++
		}
		if pos == len(dc.data) && idx != len(parts) {
			addViolation(res, c, res.Stats.impl[i], fmt.Sprintf("DecodeChained returned %d files for a concatenation of %d", len(parts), idx))
		}
	}
	// DecodeHeader and DecodeHeaderAndFileID report the header (and file_id) that Decode reports
	decoded := map[string]string{}
	for i, c := range res.Stats.cases {
		if dc, ok := parseDecCase(c); ok && dc.entry == "decode" {
			if dr, ok2 := parseDecRes(res.Stats.impl[i]); ok2 && dr.tag == "ok" {
				decoded[string(dc.data)] = dr.dump
			}
		}
	}
	for i, c := range res.Stats.cases {
		dc, ok := parseDecCase(c)
		if !ok || (dc.entry != "header" && dc.entry != "headerfid") {
			continue
		}
		full, have := decoded[string(dc.data)]
		dr, ok2 := parseDecRes(res.Stats.impl[i])
		if !have || !ok2 {
			continue
		}
		// the clause is about files with one file_id message (what FIT requires of a valid file): with a
		// later file_id record Decode reports the later message (single-valued fields keep the last one),
		// DecodeHeaderAndFileID by construction the first
		if dc.entry == "headerfid" && countFileIdRecords(dc.data) != 1 {
			continue
		}
		if dr.tag != "ok" {
			addViolation(res, c, res.Stats.impl[i], dc.entry+" fails on a stream Decode accepts")
			continue
		}
		nHdrCmp++
		sec := sectionsOf(full)
		want := sec["H"]
		if dc.entry == "headerfid" {
			want += ";" + sec["I"]
		}
		if dr.dump != want {
			addViolation(res, c, res.Stats.impl[i], dc.entry+" reports a different header / file_id than Decode: "+firstDiff(dr.dump, want))
		}
	}
	res.Notes = append(res.Notes, fmt.Sprintf("%d chains compared file by file with decoding each file alone; %d DecodeHeader / DecodeHeaderAndFileID results compared with Decode", nChainCmp, nHdrCmp))
}

func postC11(res *RunResult) {
	postNoPanic(res)
	readerKindsOracle(res, 40)
	// the File returned with the error holds the messages complete before the cut or fault: it cannot
	// depend on whether the reader reports its error together with the last bytes or in a call of its
	// own (the model's results depend on the bytes and the kind of end only: decode_out_eq_spec)
	type dkey struct {
		entry, opts, data string
		fault             bool
	}
	type dval struct{ dump, tag, c, out string }
	firstDelivery := map[dkey]dval{}
	// the File returned with an error is determined by the records that are complete in the bytes
	// read: two cuts (or faults) of the same stream behind the same last complete data record — one
	// exactly on the record boundary, one inside the next record, one inside a later definition —
	// must return the same messages
	type ckey struct {
		opts, prefix string
		n            int
	}
	sameComplete := map[ckey]dval{}
	stripLists := regexp.MustCompile(`;UM[^;]*;UF[^;]*`)
	for i, c := range res.Stats.cases {
		if res.Stats.setOf[i] != "cuts-and-faults" {
			continue
		}
		if dc, ok := parseDecCase(c); ok && dc.entry == "decode" {
			if dr, ok2 := parseDecRes(res.Stats.impl[i]); ok2 && dr.tag != "ok" && !strings.HasPrefix(res.Stats.impl[i], "panic") {
				if fl, okf := frameLen(dc.data); !okf || fl > len(dc.data) { // cut inside the frame
					n, end := completeDataRecordsEnd(dc.data)
					if n >= 1 && end <= len(dc.data) {
						k := ckey{dc.opts, string(dc.data[:end]), n}
						msgs := stripLists.ReplaceAllString(dr.dump, "")
						if prev, seen := sameComplete[k]; seen {
							if prev.dump != msgs {
								addViolation(res, c, res.Stats.impl[i], fmt.Sprintf("two cuts of one stream behind the same %d complete data records return different Files: %s; other cut: %s",
									n, firstDiff(prev.dump, msgs), clipS(prev.c)))
							}
						} else {
							sameComplete[k] = dval{msgs, dr.tag, c, res.Stats.impl[i]}
						}
					}
				}
			}
		}
		dc, ok := parseDecCase(c)
		if !ok {
			continue
		}
		dr, ok2 := parseDecRes(res.Stats.impl[i])
		if !ok2 {
			continue
		}
		k := dkey{dc.entry, dc.opts, string(dc.data), strings.Contains(dc.rspec, "f")}
		if prev, seen := firstDelivery[k]; seen {
			if prev.dump != dr.dump || (prev.tag == "ok") != (dr.tag == "ok") {
				addViolation(res, c, res.Stats.impl[i], "the File returned alongside the error depends on how the reader delivered the end of the stream (error with the last bytes vs in a separate call): "+
					firstDiff(prev.dump, dr.dump)+"; other delivery: "+clipS(prev.c))
			}
		} else {
			firstDelivery[k] = dval{dr.dump, dr.tag, c, res.Stats.impl[i]}
		}
		// the File returned with an error holds no more messages than there are complete data records
		// in the bytes given (the first of them is the file_id record, which the File always shows)
		if dr.tag != "ok" && dc.entry == "decode" && !strings.Contains(dr.dump, "##") {
			paths, _ := flattenMsgs(dr.dump)
			nonI := 0
			for _, p := range paths {
				if p != "I" {
					nonI++
				}
			}
			if complete := completeDataRecords(dc.data); nonI > 0 && nonI > complete-1 {
				addViolation(res, c, res.Stats.impl[i], fmt.Sprintf("the File returned with the error holds %d messages besides file_id, but only %d data records are complete in the bytes read", nonI, complete))
			}
		}
		// generic oracle: whatever was cut, an entry point that reports success must have found a
		// complete frame (decode/integ/chained) inside the bytes it was given
		if dr.tag == "ok" {
			fl, ok := frameLen(dc.data)
			switch dc.entry {
			case "decode", "integ":
				if !ok || fl > len(dc.data) {
					addViolation(res, c, res.Stats.impl[i], "success on a stream cut inside the frame")
				}
			case "chained":
				// success requires the data to be a whole number of frames, and at least one: a stream
				// that ends before its first byte is not the end of a chain
				if len(dc.data) == 0 {
					addViolation(res, c, res.Stats.impl[i], "chained success on a stream that ends before its first byte (no file was decoded)")
				}
				pos := 0
				for pos < len(dc.data) {
					fl, ok := frameLen(dc.data[pos:])
					if !ok || pos+fl > len(dc.data) {
						addViolation(res, c, res.Stats.impl[i], "chained success on a stream cut inside a frame")
						break
					}
					pos += fl
				}
				if strings.Contains(dc.rspec, "f") {
					addViolation(res, c, res.Stats.impl[i], "chained success although the reader failed")
				}
			case "header", "integhdr":
				if len(dc.data) < 12 || len(dc.data) < int(dc.data[0]) {
					addViolation(res, c, res.Stats.impl[i], "success on a stream cut inside the header")
				}
			case "headerfid":
				// success requires the header, the first definition and the whole first data record
				if end, ok := fileIdEnd(dc.data); !ok || len(dc.data) < end {
					addViolation(res, c, res.Stats.impl[i], "DecodeHeaderAndFileID reports success on a stream cut before the end of the file_id record")
				}

			}
		}
	}
}

// C16: group the 8 option variants of one stream
func postC16(res *RunResult) {
	postNoPanic(res)
	type key struct{ entry, rspec, data string }
	first := map[key]string{}
	for i, c := range res.Stats.cases {
		dc, ok := parseDecCase(c)
		if !ok {
			continue
		}
		dr, ok2 := parseDecRes(res.Stats.impl[i])
		if !ok2 {
			continue
		}
		secs := strings.Split(dr.dump, ";")
		var core []string
		for _, s := range secs {
			if strings.HasPrefix(s, "UM") || strings.HasPrefix(s, "UF") {
				// sortedness of the lists
				if !sortedList(s[2:]) {
					addViolation(res, c, res.Stats.impl[i], "unknown-item list not sorted: "+s)
				}
				// an entry is there because a record was counted: no entry has count 0
				for _, e := range strings.Split(strings.Trim(s[2:], "[]"), ".") {
					if strings.HasSuffix(e, "=0") {
						addViolation(res, c, res.Stats.impl[i], "unknown-item list holds an entry with count 0 (no record of this file carried it): "+e)
					}
				}
				if (strings.HasPrefix(s, "UM") && dc.opts[2] == '0' || strings.HasPrefix(s, "UF") && dc.opts[1] == '0') && s[2:] != "n" {
					addViolation(res, c, res.Stats.impl[i], "list reported although the option is off")
				}
				continue
			}
			core = append(core, s)
		}
		norm := dr.tag + " " + strconv.Itoa(dr.consumed) + " " + strings.Join(core, ";")
		k := key{dc.entry, dc.rspec, string(dc.data)}
		if prev, ok := first[k]; ok {
			if prev != norm {
				addViolation(res, c, res.Stats.impl[i], "messages, error or consumption differ between option sets")
			}
		} else {
			first[k] = norm
		}
	}
}

func sortedList(s string) bool {
	if s == "n" || s == "[]" {
		return true
	}
	s = strings.Trim(s, "[]")
	prevM, prevF := -1, -1
	for _, e := range strings.Split(s, ".") {
		kv := strings.SplitN(e, "=", 2)
		mf := strings.SplitN(kv[0], "/", 2)
		m, _ := strconv.Atoi(mf[0])
		f := -1
		if len(mf) > 1 {
			f, _ = strconv.Atoi(mf[1])
		}
		if m < prevM || (m == prevM && f <= prevF) {
			return false
		}
		prevM, prevF = m, f
	}
	return true
}

// ---- extra generators used above ----

func genChunkedMalformed(r *rng, n int) CaseSet {
	cs := CaseSet{Name: "malformed-chunked"}
	base := genMalformed(r, n)
	for _, c := range base.Cases {
		dc, ok := parseDecCase(c)
		if !ok {
			continue
		}
		spec := randSched(r)
		if r.chance(20) {
			if spec == "-" {
				spec = "f"
			} else {
				spec += "+f"
			}
		}
		cs.Cases = append(cs.Cases, decCase(dc.entry, dc.opts, spec, "-", dc.data))
	}
	return cs
}

// genEveryFileType: a short well-formed file for every value of file_id.type, through the entry
// points that attach the typed container.
func genEveryFileType() CaseSet {
	cs := CaseSet{Name: "every-file-type"}
	for t := 0; t < 256; t++ {
		w := &sw{}
		w.Write(fileIdRecs(byte(t), byte(t%2)))
		w.define(defn{local: 1, global: 20, fields: []fdef{{3, 1, 2}}})
		w.data(1, []byte{70})
		data := frame(w.Bytes(), defaultFrame())
		for _, e := range []string{"decode", "chained", "headerfid"} {
			cs.Cases = append(cs.Cases, decCase(e, "000", "-", "-", data))
		}
	}
	return cs
}

func genUndefinedLocal(r *rng, n int) CaseSet {
	cs := CaseSet{Name: "undefined-local-types"}
	for i := 0; i < n; i++ {
		w := &sw{}
		w.Write(fileIdRecs(4, byte(r.intn(2))))
		l := byte(1 + r.intn(15))
		if r.chance(50) {
			w.define(defn{local: l, global: 20, fields: []fdef{{3, 1, 2}}, hbits: byte(0x10 * r.intn(2))})
		}
		other := byte(r.intn(16))
		if r.chance(50) {
			w.cdata(other&3, byte(r.intn(32)), r.bytes(r.intn(3)))
		} else {
			w.data(other, r.bytes(r.intn(3)))
		}
		w.data(l, []byte{70})
		cs.Cases = append(cs.Cases, decCase("decode", "000", "-", "-", frame(w.Bytes(), defaultFrame())))
	}
	// the very first data record: the file_id definition is written for local type l1, the record
	// that follows it names l2 — when they differ the record has no definition (an error for every
	// entry point that reads it), when they agree on a type other than 0 the file is valid
	for i := 0; i < n/2; i++ {
		w := &sw{}
		l1, l2 := byte(r.intn(16)), byte(r.intn(16))
		if r.chance(40) {
			l2 = l1
		}
		w.define(defn{local: l1, arch: byte(r.intn(2)), global: 0, fields: []fdef{{0, 1, 0x00}}})
		if l2 < 4 && r.chance(25) {
			w.cdata(l2, byte(r.intn(32)), []byte{4})
		} else {
			w.data(l2, []byte{4})
		}
		if r.chance(60) {
			l := byte(r.intn(16))
			w.define(defn{local: l, global: 20, fields: []fdef{{3, 1, 2}}, hbits: byte(0x10 * r.intn(2))})
			w.dataX(l, byte(0x10*r.intn(4)), []byte{70})
		}
		e := []string{"decode", "headerfid", "chained", "decode"}[i%4]
		cs.Cases = append(cs.Cases, decCase(e, "000", "-", "-", frame(w.Bytes(), randFrame(r))))
	}
	return cs
}

// genChainedUndefined: chains in which a later file uses a local type only an earlier file defined.
// The local message types belong to one file: the later file's data record has no definition.
func genChainedUndefined(r *rng, n int) CaseSet {
	cs := CaseSet{Name: "chains-sharing-local-types"}
	for i := 0; i < n; i++ {
		l := byte(1 + r.intn(15))
		if r.chance(30) {
			l = byte(1 + r.intn(3)) // reachable from compressed headers too
		}
		a := &sw{}
		a.Write(fileIdRecs(4, byte(r.intn(2))))
		a.define(defn{local: l, arch: byte(r.intn(2)), global: 20, fields: []fdef{{3, 1, 2}}})
		a.data(l, []byte{byte(60 + r.intn(100))})
		b := &sw{}
		b.Write(fileIdRecs(4, byte(r.intn(2))))
		if r.chance(40) {
			// an unrelated definition of its own
			other := byte(1 + r.intn(15))
			if other != l {
				b.define(defn{local: other, global: 20, fields: []fdef{{4, 1, 2}}})
				b.data(other, []byte{80})
			}
		}
		if l < 4 && r.chance(40) {
			b.cdata(l, byte(r.intn(32)), []byte{120})
		} else {
			b.data(l, []byte{120})
		}
		fa, fb := frame(a.Bytes(), defaultFrame()), frame(b.Bytes(), defaultFrame())
		chain := append(append([]byte{}, fa...), fb...)
		if r.chance(30) {
			chain = append(append([]byte{}, fa...), chain...)
		}
		cs.Cases = append(cs.Cases, decCase("chained", "000", randSched(r), "-", chain))
		cs.Cases = append(cs.Cases, decCase("decode", "000", "-", "-", fb))
	}
	return cs
}

func genOptionSets(r *rng, n int) CaseSet {
	cs := CaseSet{Name: "option-sets"}
	allOpts := []string{"000", "001", "010", "011", "100", "101", "110", "111"}
	for i := 0; i < n; i++ {
		k := fullKnobs()
		k.badDefs = 0
		if r.chance(15) {
			k.badDefs = 3
		}
		k.records = 1 + r.intn(40)
		data := frame(randomStream(r, k), randFrame(r))
		spec := "-"
		switch r.intn(5) {
		case 0: // cut part-way
			data = data[:r.intn(len(data)+1)]
		case 1:
			data = mutate(r, data)
		case 2:
			spec = randSched(r)
		}
		entry := "decode"
		if r.chance(15) {
			entry = "chained"
		}
		for _, o := range allOpts {
			cs.Cases = append(cs.Cases, decCase(entry, o, spec, "-", data))
		}
		// the logger given after the other options, and the standard logger in either position: the
		// order of the options must not matter
		if i%4 == 0 {
			for _, o := range []string{"211", "311", "411", "210", "401", "300", "400"} {
				cs.Cases = append(cs.Cases, decCase(entry, o, spec, "-", data))
			}
		}
	}
	return cs
}

// genManyUnknown: streams with more distinct unknown message numbers than there are local types,
// whose earlier definitions stay in use after later ones were made, and known messages carrying many
// unlisted field numbers; under the option sets that record them.
func genManyUnknown(r *rng, n int) CaseSet {
	cs := CaseSet{Name: "many-unknown-numbers"}
	for i := 0; i < n; i++ {
		var b recs
		b.Write(fileIdRecs(4, 0))
		nums := 17 + r.intn(30)
		base := 60000 + r.intn(4000)
		for j := 0; j < nums; j++ {
			l := byte(1 + j%15)
			b.def(defn{local: l, global: uint16(base + j), fields: []fdef{{byte(j), 1, 0x02}}})
			b.data(l, []byte{byte(j)})
			// records through definitions made earlier and still live
			for q := 0; q < 2 && j > 0; q++ {
				lo := j - 14
				if lo < 0 {
					lo = 0
				}
				e := lo + r.intn(j-lo+1)
				b.data(byte(1+e%15), []byte{byte(e)})
			}
		}
		// a known message with many unlisted field numbers
		var fs []fdef
		for f := 0; f < 20+r.intn(30); f++ {
			fs = append(fs, fdef{byte(150 + f), 1, 0x02})
		}
		b.def(defn{local: 0, global: 20, fields: fs})
		for q := 0; q < 3; q++ {
			b.data(0, r.bytes(len(fs)))
		}
		data := frame(b.Bytes(), randFrame(r))
		for _, o := range []string{"011", "111", "001", "010"} {
			cs.Cases = append(cs.Cases, decCase("decode", o, "-", "-", data))
		}
	}
	return cs
}

// genUnknownChains: several files in one stream, each with its own unknown message numbers and
// unlisted fields of known messages (some shared with its neighbours, some not, some files with none
// at all), decoded by DecodeChained with the options that produce the lists: the lists of every file
// account for that file's records only.
func genUnknownChains(r *rng, n int) CaseSet {
	cs := CaseSet{Name: "chains-with-unknown-items"}
	for i := 0; i < n; i++ {
		var chain []byte
		nf := 2 + r.intn(3)
		shared := 61000 + r.intn(1000)
		for f := 0; f < nf; f++ {
			var b recs
			b.Write(fileIdRecs(4, byte(r.intn(2))))
			if !r.chance(20) { // some files have no unknown items at all
				for j := 0; j < 1+r.intn(4); j++ {
					g := 62000 + 100*f + r.intn(5) // this file's own numbers
					if r.chance(30) {
						g = shared + r.intn(3) // numbers several files use
					}
					l := byte(1 + r.intn(15))
					b.def(defn{local: l, global: uint16(g), fields: []fdef{{byte(j), 1, 0x02}}})
					for q := 0; q < 1+r.intn(3); q++ {
						b.data(l, []byte{byte(q)})
					}
				}
				if r.chance(70) {
					// a known message with unlisted fields, different ones per file
					fs := []fdef{{3, 1, 0x02}, {byte(200 + 10*f + r.intn(4)), 1, 0x02}}
					if r.chance(40) {
						fs = append(fs, fdef{byte(240 + r.intn(3)), 2, 0x84})
					}
					b.def(defn{local: 0, global: 20, fields: fs})
					for q := 0; q < 1+r.intn(3); q++ {
						p := []byte{70, 1}
						if len(fs) == 3 {
							p = append(p, 2, 3)
						}
						b.data(0, p)
					}
				}
			}
			chain = append(chain, frame(b.Bytes(), randFrame(r))...)
		}
		for _, o := range []string{"011", "111", "001", "010"} {
			cs.Cases = append(cs.Cases, decCase("chained", o, "-", "-", chain))
		}
	}
	return cs
}

// genFrameEnds: valid files whose last record ends exactly at the end of the data section with a
// field of size 0 that the decoder skips (an unlisted field of a known message, a field of an unknown
// message, a developer field) or stores (a size-0 string): nothing may be requested from the reader
// for it, and the frame must be consumed exactly — alone, followed by another file, under any schedule.
func genFrameEnds(r *rng) CaseSet {
	cs := CaseSet{Name: "frame-ends-in-zero-size-field"}
	var files [][]byte
	for _, fo := range []frameOpts{defaultFrame(), {hdrSize: 12, proto: 0x10, profile: 100}} {
		mk := func(d defn, payload []byte) {
			w := &sw{}
			w.Write(fileIdRecs(4, byte(r.intn(2))))
			w.define(d)
			w.data(d.local, payload)
			files = append(files, frame(w.Bytes(), fo))
		}
		mk(defn{local: 1, global: 20, fields: []fdef{{3, 1, 0x02}, {250, 0, 0x07}}}, []byte{70})
		mk(defn{local: 3, global: 0xFF00, fields: []fdef{{0, 1, 0x02}, {1, 0, 0x07}}}, []byte{1})
		mk(defn{local: 4, global: 0xFF01, fields: []fdef{{1, 0, 0x07}}}, nil)
		mk(defn{local: 5, global: 20, devBit: true, fields: []fdef{{3, 1, 0x02}}, dev: []ddesc{{0, 0, 0}}}, []byte{72})
	}
	for _, f := range files {
		for _, spec := range []string{"-", schedules[1%len(schedules)], schedules[3%len(schedules)], schedules[len(schedules)-1]} {
			for _, e := range []string{"decode", "integ", "chained"} {
				cs.Cases = append(cs.Cases, decCase(e, "000", spec, "-", f))
			}
		}
		two := append(append([]byte{}, f...), files[r.intn(len(files))]...)
		cs.Cases = append(cs.Cases, decCase("chained", "000", "-", "-", two), decCase("decode", "011", "-", "-", two))
	}
	return cs
}

// genUnknownTies: the same unlisted field number in several known messages whose global numbers are
// equal modulo 256 (device_settings 2 / dive_settings 258, user_profile 3 / dive_gas 259, sport 12 /
// dive_summary 268 ...), and unknown messages 256 and 65280 apart, each stream decoded several times:
// a comparison on packed or truncated keys makes such entries tie, and their order is then whatever
// the map iteration gave.
func genUnknownTies(r *rng, reps int) CaseSet {
	cs := CaseSet{Name: "unknown-items-with-colliding-keys"}
	known := map[int]bool{}
	for _, m := range theFacts().Msgs {
		if m.Known {
			known[m.Num] = true
		}
	}
	var pairs [][2]int
	for a := range known {
		if known[a+256] {
			pairs = append(pairs, [2]int{a, a + 256})
		}
	}
	sort.Slice(pairs, func(i, j int) bool { return pairs[i][0] < pairs[j][0] })
	for pi, pr := range pairs {
		if pi >= 6 {
			break
		}
		var b recs
		b.Write(fileIdRecs(4, 0))
		fnum := byte(200 + r.intn(40))
		for k, g := range []int{pr[1], pr[0], pr[1], pr[0]} {
			l := byte(1 + k)
			b.def(defn{local: l, global: uint16(g), fields: []fdef{{fnum, 1, 0x02}, {fnum + 1, 1, 0x02}}})
			b.data(l, []byte{byte(k), byte(k + 1)})
		}
		// unknown messages whose numbers collide in the low byte
		for k, g := range []int{0xFE10, 0xFD10, 0xFF10, 0xFE10} {
			l := byte(8 + k)
			b.def(defn{local: l, global: uint16(g), fields: []fdef{{0, 1, 0x02}}})
			b.data(l, []byte{byte(k)})
		}
		data := frame(b.Bytes(), randFrame(r))
		for i := 0; i < reps; i++ {
			cs.Cases = append(cs.Cases, decCase([]string{"decode", "chained"}[i%2], []string{"011", "111"}[i%2], []string{"-", "s:7", "s:4096"}[i%3], "-", data))
		}
	}
	return cs
}

func genComponentSweeps(r *rng, thorough bool) CaseSet {
	cs := CaseSet{Name: "component-sweeps"}
	rec, ok := findMsg(20)
	if !ok {
		return cs
	}
	step := 257
	if thorough {
		step = 1
	}
	// all values of 16-bit sources of record, several per file
	for _, name := range []string{"Altitude", "Speed", "CompressedAccumulatedPower"} {
		num, tc, ok := fieldByName(rec, name)
		if !ok {
			continue
		}
		for base := 0; base < 65536; base += 512 * step {
			w := &sw{}
			arch := byte(r.intn(2))
			w.Write(fileIdRecs(4, arch))
			w.define(defn{local: 1, arch: arch, global: 20, fields: []fdef{{byte(num), 2, tcBase(tc)}}})
			for v := base; v < base+512*step && v < 65536; v += step {
				w.data(1, putUint(arch, 2, uint64(v)))
			}
			cs.Cases = append(cs.Cases, decCase("decode", "000", "-", "-", frame(w.Bytes(), defaultFrame())))
		}
	}
	// compressed_speed_distance triples
	if num, tc, ok := fieldByName(rec, "CompressedSpeedDistance"); ok {
		nfiles := 64
		if thorough {
			nfiles = 4096
		}
		for f := 0; f < nfiles; f++ {
			w := &sw{}
			w.Write(fileIdRecs(4, 0))
			w.define(defn{local: 1, global: 20, fields: []fdef{{byte(num), 3, tcBase(tc)}}})
			for j := 0; j < 256; j++ {
				var t []byte
				if thorough {
					v := (f*256 + j) * 16
					t = []byte{byte(v), byte(v >> 8), byte(v >> 16)}
				} else {
					t = r.bytes(3)
				}
				w.data(1, t)
			}
			cs.Cases = append(cs.Cases, decCase("decode", "000", "-", "-", frame(w.Bytes(), defaultFrame())))
		}
	}
	// gear / score bytes of event data
	if ev, ok := findMsg(21); ok {
		en, _, ok1 := fieldByName(ev, "Event")
		dn, _, ok2 := fieldByName(ev, "Data")
		d16, _, ok3 := fieldByName(ev, "Data16")
		if ok1 && ok2 && ok3 {
			for e := 0; e < 256; e++ {
				w := &sw{}
				w.Write(fileIdRecs(4, 0))
				w.define(defn{local: 1, global: 21, fields: []fdef{{byte(en), 1, 0}, {byte(dn), 4, 0x86}}})
				w.define(defn{local: 2, global: 21, fields: []fdef{{byte(en), 1, 0}, {byte(d16), 2, 0x84}}})
				for j := 0; j < 24; j++ {
					if j%3 == 2 {
						w.data(2, append([]byte{byte(e)}, r.bytes(2)...))
					} else {
						w.data(1, append([]byte{byte(e)}, r.bytes(4)...))
					}
				}
				cs.Cases = append(cs.Cases, decCase("decode", "000", "-", "-", frame(w.Bytes(), defaultFrame())))
			}
		}
	}
	return cs
}

// postC18: the model's expansion (tied to the code by the correspondence above) against the
// rule-driven specification; deviations must be exactly the recorded ones.
func postC18(res *RunResult) {
	postNoPanic(res)
	site := map[string]string{
		"d10":  "property=C18 site=RecordMsg.Distance cause=csd-byte2-high-nibble-lost",
		"d11c": "property=C18 site=RecordMsg.TotalCycles cause=accumulator-mask-zero",
		"d11p": "property=C18 site=RecordMsg.AccumulatedPower cause=accumulator-mask-zero",
		"d12":  "property=C18 site=RecordMsg.Distance cause=accumulator-survives-file",
	}
	counts := map[string]int{}
	for i, c := range res.Stats.cases {
		if res.Stats.setOf[i] != "expansion-vs-rules" {
			continue
		}
		out := res.Stats.model[i]
		counts[out]++
		if out == "none" {
			continue
		}
		for _, d := range strings.Split(out, "+") {
			if s, ok := site[d]; ok {
				res.KnownFindings = appendUniq(res.KnownFindings, s)
			} else {
				// replay as the decode case, so that it can be run against the real code
				f := strings.Split(c, " ")
				dcase := c
				if len(f) == 3 {
					dcase = "dec decode 000 - " + f[1] + " " + f[2]
				}
				addViolation(res, dcase, out, "component expansion differs from the profile's rules in a way no recorded finding explains: "+out)
				break
			}
		}
	}
	var ks []string
	for k, v := range counts {
		ks = append(ks, fmt.Sprintf("%s=%d", k, v))
	}
	sortStrings(ks)
	res.Notes = append(res.Notes, "expansion vs rules: "+strings.Join(ks, " "))
}

func sortStrings(a []string) { sort.Strings(a) }

// genChainInherits: chains in which a later file leans on what an earlier one left behind. The first
// file defines all sixteen local types (known messages, unknown messages, developer fields); the
// files after it define only file_id — on a local type of their own choosing — and then send data
// records (plain and compressed-timestamp headers) of local types they never defined — also in the
// place of the file_id message itself, right after its definition. Every file of
// a chain starts from nothing: those records are errors ("missing definition"), never panics, and
// never decoded with the previous file's definitions.
func genChainInherits(r *rng, n int) CaseSet {
	cs := CaseSet{Name: "chain-later-file-uses-earlier-definitions"}
	for i := 0; i < n; i++ {
		var a recs
		a.Write(fileIdRecs(4, byte(r.intn(2))))
		for l := byte(1); l < 16; l++ {
			var d defn
			switch r.intn(4) {
			case 0: // record with heart_rate
				d = defn{local: l, global: 20, fields: []fdef{{3, 1, 0x02}}}
			case 1: // unknown message
				d = defn{local: l, global: uint16(0xFF00 + r.intn(200)), fields: []fdef{{0, 1, 0x02}}}
			case 2: // unknown message with a timestamp
				d = defn{local: l, global: uint16(0xFE00 + r.intn(200)), fields: []fdef{{253, 4, 0x86}}}
			default: // record with a developer field
				d = defn{local: l, global: 20, devBit: true, fields: []fdef{{3, 1, 0x02}}, dev: []ddesc{{0, 1, 0}}}
			}
			d.arch = byte(r.intn(2))
			a.def(d)
			sz := 0
			for _, f := range d.fields {
				sz += int(f.size)
			}
			for _, f := range d.dev {
				sz += int(f.size)
			}
			a.data(l, r.bytes(sz))
		}
		first := frame(a.Bytes(), randFrame(r))
		thin := func() []byte {
			var b recs
			fl := byte(r.intn(16))
			b.def(defn{local: fl, arch: byte(r.intn(2)), global: 0, fields: []fdef{{0, 1, 0x00}}})
			if r.chance(40) {
				// the record that should be the file_id message is of another local type
				b.data((fl+1+byte(r.intn(15)))&15, r.bytes(1+r.intn(5)))
			}
			b.data(fl, []byte{byte(r.intn(40))})
			for k, nrec := 0, 1+r.intn(3); k < nrec; k++ {
				l := byte(r.intn(16))
				if l == fl {
					l = (l + 1) & 15
				}
				if r.chance(25) {
					b.cdata(l&3, byte(r.intn(32)), r.bytes(1+r.intn(4)))
				} else {
					b.data(l, r.bytes(1+r.intn(5)))
				}
			}
			return frame(b.Bytes(), randFrame(r))
		}
		chain := append([]byte{}, first...)
		for k, nthin := 0, 1+r.intn(2); k < nthin; k++ {
			chain = append(chain, thin()...)
		}
		if r.chance(30) {
			chain = append(chain, first...)
		}
		spec := randSched(r)
		cs.Cases = append(cs.Cases, decCase("chained", []string{"000", "011", "111"}[r.intn(3)], spec, "-", chain))
		if r.chance(30) {
			cs.Cases = append(cs.Cases, decCase("decode", "000", spec, "-", chain[len(first):]))
		}
	}
	return cs
}

// genUnknownCounterWidths: the same unlisted field of a known message, and the same unknown message,
// occurring 255, 256, 257, 65535, 65536 and 65537 times in one file: the counts are exact whatever
// integer type the decoder keeps them in.
func genUnknownCounterWidths(r *rng) CaseSet {
	cs := CaseSet{Name: "unknown-item-counts-around-integer-widths"}
	for _, n := range []int{255, 256, 257, 65535, 65536, 65537} {
		var b recs
		b.Write(fileIdRecs(4, 0))
		// hrm_profile (4) is a known message that an activity file does not keep: its unlisted fields
		// are counted, and the File stays small however many records there are
		b.def(defn{local: 1, global: 4, fields: []fdef{{200, 1, 0x02}}})
		b.def(defn{local: 2, global: 0xFF20, fields: []fdef{{0, 1, 0x02}}})
		for k := 0; k < n; k++ {
			b.data(1, []byte{byte(k)})
			b.data(2, []byte{byte(k)})
		}
		data := frame(b.Bytes(), defaultFrame())
		cs.Cases = append(cs.Cases, decCase([]string{"decode", "chained"}[n%2], "011", "-", "-", data))
	}
	return cs
}
