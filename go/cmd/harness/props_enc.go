package main

import (
	"encoding/binary"
	"encoding/hex"
	"fmt"
	"strconv"
	"strings"
	"unicode/utf8"
)

func init() {
	propGens["C05"] = func(r *rng, thorough bool) ([]CaseSet, string, bool) {
		n := 2500
		if thorough {
			n = 40000
		}
		return []CaseSet{genFiles(r, "files", "enc", n, fileKnobs{maxGroup: 8, fieldPct: 30}),
				genFiles(r, "files-sparse", "enc", n/2, fileKnobs{maxGroup: 20, fieldPct: 8}),
				genEveryFieldAlone(r, "enc", fileKnobs{}), genEncodedTwice(r, n/5)},
			"Files over the 17 file types: every hosted message type, random subsets of set fields with boundary values, groups of 0-20 messages with different valid-field sets, both byte orders, headers with and without CRC; every hosted message with every field set alone. Oracles: bytes equal the model's; an independent recogniser (own CRC, own record grammar) accepts the bytes; File.Header.DataSize/CRC and File.CRC equal the written values; Files encoded twice with the protocol version changed in between (the header then carries the data size and CRCs of the first output): the second output is held to the same oracles", false
	}
	propPost["C05"] = postC05

	propGens["C06"] = func(r *rng, thorough bool) ([]CaseSet, string, bool) {
		n := 2500
		if thorough {
			n = 40000
		}
		k := fileKnobs{inDomain: true, maxGroup: 8, fieldPct: 30}
		return []CaseSet{genFiles(r, "files-in-domain", "rt", n, k), genEveryFieldAlone(r, "rt", k)},
			"in-domain Files (valid UTF-8 strings that fit, arrays within the profile length, whole-second times in range, valid coordinates): 17 file types x hosted messages x random field subsets, and every field of every hosted message set alone to boundary values, both byte orders; real Encode then real Decode. Oracles: the decoded File equals the model's prediction and equals the input under the property's equivalence (arrays up to trailing invalid padding, local times by wall clock, component destinations per rule)", false
	}
	propPost["C06"] = postC06

	propGens["C07"] = func(r *rng, thorough bool) ([]CaseSet, string, bool) {
		nr, maxc := 1500, 60000
		if thorough {
			nr, maxc = 30000, 2000000
		}
		cs := CaseSet{Name: "reencode-accepted-inputs"}
		for _, c := range smallCorpus(maxc) {
			cs.Cases = append(cs.Cases, "c07 0 "+hex.EncodeToString(c.Data), "c07 1 "+hex.EncodeToString(c.Data))
		}
		k := fullKnobs()
		k.badDefs = 0
		for i := 0; i < nr; i++ {
			kk := k
			kk.records = 1 + r.intn(40)
			data := frame(randomStream(r, kk), randFrame(r))
			if r.chance(20) {
				data = mutate(r, data)
			}
			cs.Cases = append(cs.Cases, "c07 "+strconv.Itoa(r.intn(2))+" "+hex.EncodeToString(data))
		}
		// model-generated Files, encoded by the real encoder first
		return []CaseSet{cs, genStringSizes(r)},
			"every corpus file, structured random streams and mutants; every string field of every hosted message defined shorter than, as long as and longer than the profile length, holding multi-byte characters that end exactly at, straddle or start at the cut Encode makes: Decode; for accepted inputs Encode (one byte order), CheckIntegrity and Decode of the output, Encode in the other byte order, Decode. Oracles: no stage fails or panics; generation 2 has the per-type message counts and numeric/time/coordinate values of generation 1 (strings and arrays up to the profile's fixed lengths); generation 3 equals generation 2", false
	}
	propPost["C07"] = postC07
}

// genEncodedTwice: a File goes through Encode, one header field (the protocol version) is changed
// on the File that came back, and it goes through Encode again: nothing of the first output (data
// size, header CRC, file CRC now stored in the File) may survive into the second where it is stale
func genEncodedTwice(r *rng, n int) CaseSet {
	cs := CaseSet{Name: "files-encoded-twice"}
	for _, c := range genFiles(r, "x", "enc2", n, fileKnobs{maxGroup: 5, fieldPct: 30}).Cases {
		f := strings.SplitN(c, " ", 3)
		if len(f) != 3 {
			continue
		}
		pv := []int{0x10, 0x20, 0x21, 0x2F, 0x00, 0x1F}[r.intn(6)]
		cs.Cases = append(cs.Cases, fmt.Sprintf("enc2 %s %d %s", f[1], pv, f[2]))
	}
	return cs
}

// genStringSizes: string fields whose definition gives them another size than the profile does, with
// multi-byte characters around the position where Encode cuts the string (profile length - 1): a
// character that ends exactly there must survive the trip, one that straddles it makes Encode fail
// (finding D13), one that starts there is dropped whole.
func genStringSizes(r *rng) CaseSet {
	cs := CaseSet{Name: "string-sizes-vs-profile"}
	fts := hostedFileTypes()
	for _, m := range theFacts().Msgs {
		if !m.Known {
			continue
		}
		for _, f := range m.Fields {
			tc := f[2]
			if tcKind(tc) != 0 || tcArray(tc) || tcBase(tc) != 0x07 || len(f) < 4 {
				continue
			}
			plen := f[3]
			if plen < 4 || plen > 200 {
				continue
			}
			ft := -1
			for _, x := range fts {
				if m.Num == 0 || hostHas(x, m.Num) {
					ft = int(x)
					break
				}
			}
			if ft < 0 {
				continue
			}
			cut := plen - 1 // Encode keeps this many bytes
			for _, size := range []int{plen - 1, plen, plen + 1, plen + 4} {
				for _, ch := range [][]byte{{0xC3, 0xA9}, {0xE2, 0x82, 0xAC}} {
					for _, end := range []int{cut, cut + 1, cut + len(ch) - 1 + 1} {
						// the character occupies bytes [end-len(ch), end)
						start := end - len(ch)
						if start < 1 || end > size {
							continue
						}
						str := make([]byte, 0, size)
						for len(str) < start {
							str = append(str, byte('A'+len(str)%26))
						}
						str = append(str, ch...)
						for len(str) < size-1 && r.chance(70) {
							str = append(str, byte('a'+len(str)%26))
						}
						val := make([]byte, size) // zero padded; no terminator when the text fills the field
						copy(val, str)
						w := &sw{}
						if m.Num == 0 {
							w.define(defn{local: 0, global: 0, fields: []fdef{{0, 1, 0x00}, {byte(f[1]), byte(size), 0x07}}})
							w.data(0, append([]byte{byte(ft)}, val...))
						} else {
							w.Write(fileIdRecs(byte(ft), 0))
							w.define(defn{local: 1, global: uint16(m.Num), fields: []fdef{{byte(f[1]), byte(size), 0x07}}})
							w.data(1, val)
						}
						cs.Cases = append(cs.Cases, "c07 "+strconv.Itoa(r.intn(2))+" "+hex.EncodeToString(frame(w.Bytes(), defaultFrame())))
					}
				}
			}
		}
	}
	return cs
}

func postC05(res *RunResult) {
	postNoPanic(res)
	for i, c := range res.Stats.cases {
		out := res.Stats.impl[i]
		if strings.HasPrefix(out, "writer-kind-differs") {
			addViolation(res, c, out, "Encode writes other bytes into a plain io.Writer / a bufio.Writer than into a bytes.Buffer ("+out+")")
			continue
		}
		if strings.HasPrefix(out, "fault-swallowed") {
			addViolation(res, c, out, "Encode reported success although the writer failed: the bytes written are not the whole stream ("+out+")")
			continue
		}
		f := strings.Split(out, " ")
		if len(f) != 4 || f[0] != "ok" {
			continue
		}
		b, err := hex.DecodeString(f[1])
		if err != nil {
			continue
		}
		gi, gerr := checkGrammar(b)
		if gerr != nil {
			addViolation(res, c, out, "independent recogniser rejects the bytes: "+gerr.Error())
			continue
		}
		// the values on the wire against the File that was encoded
		if strings.HasPrefix(c, "enc2 ") {
			if cf := strings.SplitN(c, " ", 4); len(cf) == 4 {
				if d := wireValuesAgree(cf[3], gi.recs); d != "" {
					addViolation(res, c, out, "values on the wire differ from the File: "+d)
				}
			}
		} else if cf := strings.SplitN(c, " ", 3); len(cf) == 3 {
			if d := wireValuesAgree(cf[2], gi.recs); d != "" {
				addViolation(res, c, out, "values on the wire differ from the File: "+d)
			}
		}
		// File fields after Encode
		h := strings.Split(strings.TrimPrefix(f[2], "H"), "/")
		if len(h) == 6 {
			ds, _ := strconv.Atoi(h[3])
			if ds != gi.dataSize {
				addViolation(res, c, out, "File.Header.DataSize differs from the written value")
			}
			if b[0] == 14 {
				crc, _ := strconv.Atoi(h[5])
				if crc != int(binary.LittleEndian.Uint16(b[12:14])) {
					addViolation(res, c, out, "File.Header.CRC differs from the written value")
				}
			}
		}
		fc, _ := strconv.Atoi(strings.TrimPrefix(f[3], "C"))
		if fc != int(binary.LittleEndian.Uint16(b[len(b)-2:])) {
			addViolation(res, c, out, "File.CRC differs from the written value")
		}
	}
}

// ---- comparison of Files under the equivalence of C06 / C07 ----

type dumpMsg struct {
	num  int
	vals []string
}

func parseDumpMsg(s string) (dumpMsg, bool) {
	i := strings.IndexByte(s, ':')
	if i < 0 {
		return dumpMsg{}, false
	}
	n, err := strconv.Atoi(s[:i])
	if err != nil {
		return dumpMsg{}, false
	}
	var vals []string
	if s[i+1:] != "" {
		vals = strings.Split(s[i+1:], ",")
	}
	return dumpMsg{n, vals}, true
}

// flattenMsgs lists (path, message) pairs of a content dump in a fixed order.
func flattenMsgs(dump string) ([]string, []dumpMsg) {
	sec := sectionsOf(dump)
	var paths []string
	var msgs []dumpMsg
	add := func(p, s string) {
		if s == "" || s == "-" {
			return
		}
		if m, ok := parseDumpMsg(s); ok {
			paths = append(paths, p)
			msgs = append(msgs, m)
		}
	}
	add("I", sec["I"])
	add("R", sec["R"])
	add("Z", sec["Z"])
	k := sec["K"]
	if o := strings.IndexByte(k, '{'); o >= 0 && strings.HasSuffix(k, "}") {
		for si, s := range strings.Split(k[o+1:len(k)-1], "~") {
			if strings.HasPrefix(s, "[") {
				body := s[1 : len(s)-1]
				if body == "" {
					continue
				}
				for mi, ms := range strings.Split(body, "|") {
					add(fmt.Sprintf("K%d[%d]", si, mi), ms)
				}
			} else {
				add(fmt.Sprintf("K%d", si), s)
			}
		}
	}
	return paths, msgs
}

func invalidElemText(tcode int) string {
	switch tcBase(tcode) {
	case 0x00, 0x02, 0x0D:
		return "255"
	case 0x01:
		return "127"
	case 0x83:
		return "32767"
	case 0x84:
		return "65535"
	case 0x85:
		return "2147483647"
	case 0x86:
		return "4294967295"
	}
	return "0"
}

// component destinations (struct field names) per message: compared only when their source is invalid
var componentDest = map[int]map[string]string{
	18:  {"EnhancedAvgSpeed": "AvgSpeed", "EnhancedMaxSpeed": "MaxSpeed", "EnhancedAvgAltitude": "AvgAltitude", "EnhancedMaxAltitude": "MaxAltitude", "EnhancedMinAltitude": "MinAltitude"},
	19:  {"EnhancedAvgSpeed": "AvgSpeed", "EnhancedMaxSpeed": "MaxSpeed", "EnhancedAvgAltitude": "AvgAltitude", "EnhancedMaxAltitude": "MaxAltitude", "EnhancedMinAltitude": "MinAltitude"},
	142: {"EnhancedAvgAltitude": "AvgAltitude", "EnhancedMaxAltitude": "MaxAltitude", "EnhancedMinAltitude": "MinAltitude"},
	20:  {"EnhancedAltitude": "Altitude", "EnhancedSpeed": "Speed", "Speed": "CompressedSpeedDistance", "Distance": "CompressedSpeedDistance", "TotalCycles": "Cycles", "AccumulatedPower": "CompressedAccumulatedPower"},
	21:  {"Data": "Data16", "Score": "Data", "OpponentScore": "Data", "RearGearNum": "Data", "RearGear": "Data", "FrontGearNum": "Data", "FrontGear": "Data"},
}

// valuesEquivalent: input value `a` and decoded value `b` of one field.
func valuesEquivalent(a, b string, tcode int, plen int, strictStrings bool) bool {
	if a == b {
		return true
	}
	if len(a) == 0 || len(b) == 0 {
		return false
	}
	switch a[0] {
	case 't':
		// local times: same wall-clock reading
		pa, pb := strings.Split(a[1:], "/"), strings.Split(b[1:], "/")
		if len(pa) == 3 && len(pb) == 3 && b[0] == 't' {
			sa, _ := strconv.ParseInt(pa[0], 10, 64)
			oa, _ := strconv.ParseInt(pa[1], 10, 64)
			sb, _ := strconv.ParseInt(pb[0], 10, 64)
			ob, _ := strconv.ParseInt(pb[1], 10, 64)
			return sa+oa == sb+ob && tcKind(tcode) == 2
		}
	case 'U', 'I':
		// arrays: equal up to trailing invalid padding (and truncation to the profile length when not strict)
		if b[0] != a[0] {
			// an all-invalid / empty array comes back as nil
			return b == "n" && (a == "U[]" || a == "I[]")
		}
		ea := splitElems(a)
		eb := splitElems(b)
		if !strictStrings && len(ea) > plen {
			ea = ea[:plen]
		}
		if len(eb) < len(ea) {
			return false
		}
		for i := range ea {
			if ea[i] != eb[i] {
				return false
			}
		}
		for _, x := range eb[len(ea):] {
			if x != invalidElemText(tcode) {
				return false
			}
		}
		return true
	case 's':
		if strictStrings {
			return false
		}
		// strings up to the profile's fixed length (terminator included)
		ba, _ := hex.DecodeString(a[1:])
		bb, _ := hex.DecodeString(b[1:])
		if len(ba) > plen-1 && plen > 0 {
			ba = ba[:plen-1]
		}
		if i := indexZero(ba); i >= 0 {
			ba = ba[:i]
		}
		return string(ba) == string(bb)
	case 'n':
		// an unset array may come back as an array of invalid elements (padding of a group definition)
		if b == "n" {
			return true
		}
		if len(b) > 2 && (b[0] == 'U' || b[0] == 'I') {
			for _, x := range splitElems(b) {
				if x != invalidElemText(tcode) {
					return false
				}
			}
			return true
		}
		return false
	}
	return false
}

func indexZero(b []byte) int {
	for i, x := range b {
		if x == 0 {
			return i
		}
	}
	return -1
}

func splitElems(s string) []string {
	body := s[2 : len(s)-1]
	if body == "" {
		return nil
	}
	return strings.Split(body, ".")
}

// compareContent: message-by-message, field-by-field comparison of two content dumps.
func compareContent(a, b string, strict bool) string {
	pa, ma := flattenMsgs(a)
	pb, mb := flattenMsgs(b)
	if len(pa) != len(pb) {
		return fmt.Sprintf("message counts differ: %d vs %d", len(pa), len(pb))
	}
	for i := range pa {
		if pa[i] != pb[i] || ma[i].num != mb[i].num {
			return "message order or types differ at " + pa[i]
		}
		fm, ok := findMsg(ma[i].num)
		if !ok || len(ma[i].vals) != len(mb[i].vals) {
			return "message shape differs at " + pa[i]
		}
		inv := invalidVals(ma[i].num)
		for k := range ma[i].vals {
			if ma[i].vals[k] == mb[i].vals[k] {
				continue
			}
			name := ""
			if k < len(fm.FNames) {
				name = fm.FNames[k]
			}
			pf, _ := fieldForSindex(fm, k)
			// component destinations are overwritten from valid sources
			if src, isDest := componentDest[ma[i].num][name]; isDest {
				si := -1
				for j, n := range fm.FNames {
					if n == src {
						si = j
					}
				}
				if si >= 0 && si < len(inv) && mb[i].vals[si] != inv[si] {
					continue
				}
			}
			if ma[i].num == 0 && k == 0 {
				// file type: compared exactly
				return "file type differs"
			}
			if !valuesEquivalent(ma[i].vals[k], mb[i].vals[k], pf[2], pf[3], strict) {
				return fmt.Sprintf("%s field %s: %s vs %s", pa[i], name, clipS(ma[i].vals[k]), clipS(mb[i].vals[k]))
			}
		}
	}
	return ""
}

func clipS(s string) string {
	if len(s) > 60 {
		return s[:60] + "…"
	}
	return s
}

func postC06(res *RunResult) {
	postNoPanic(res)
	for i, c := range res.Stats.cases {
		out := res.Stats.impl[i]
		f := strings.SplitN(out, " ", 4)
		cf := strings.SplitN(c, " ", 3)
		if len(cf) != 3 {
			continue
		}
		if len(f) != 4 || f[0] != "ok" {
			addViolation(res, c, out, "Encode of an in-domain File failed")
			continue
		}
		if f[1] != "ok" {
			addViolation(res, c, out, "Decode of the encoded bytes failed")
			continue
		}
		if d := compareContent(cf[2], f[3], true); d != "" {
			addViolation(res, c, out, "decoded File differs from the input: "+d)
		}
	}
}

func hasBadUTF8(content string) bool {
	_, msgs := flattenMsgs(content)
	for _, m := range msgs {
		fm, ok := findMsg(m.num)
		if !ok {
			continue
		}
		for k, v := range m.vals {
			if len(v) > 0 && v[0] == 's' {
				b, _ := hex.DecodeString(v[1:])
				pf, _ := fieldForSindex(fm, k)
				if pf[3] > 0 && len(b) > pf[3]-1 {
					b = b[:pf[3]-1]
				}
				if !utf8.Valid(b) {
					return true
				}
			}
		}
	}
	return false
}

func hasStringArray(content string) bool {
	_, msgs := flattenMsgs(content)
	for _, m := range msgs {
		for _, v := range m.vals {
			if strings.HasPrefix(v, "S[") {
				return true
			}
		}
	}
	return false
}

func postC07(res *RunResult) {
	for i, c := range res.Stats.cases {
		out := res.Stats.impl[i]
		if strings.Contains(out, "panic") || strings.HasPrefix(out, "hang") || strings.HasPrefix(out, "crash") {
			addViolation(res, c, out, "a stage panicked or hung")
			continue
		}
		kv := map[string]string{}
		for _, p := range strings.Split(out, " ") {
			if j := strings.IndexByte(p, '='); j > 0 {
				kv[p[:j]] = p[j+1:]
			}
		}
		if kv["d1"] != "ok" {
			continue // input not accepted: nothing to show
		}
		if kv["e1"] != "ok" {
			// known finding D13: strings that are not valid UTF-8 (or are cut mid-rune by the profile length)
			x1 := ""
			if dc, ok := decodeContentOf(c); ok {
				x1 = dc
			}
			switch {
			case hasBadUTF8(x1):
				res.KnownFindings = appendUniq(res.KnownFindings, "property=C07 site=Encode:string-field cause=invalid-utf8-or-mid-rune-truncation")
			case hasStringArray(x1):
				res.KnownFindings = appendUniq(res.KnownFindings, "property=C07 site=Encode:string-array-field cause=arrays-of-strings-cannot-be-encoded")
			default:
				addViolation(res, c, out, "Encode failed on a File that Decode produced")
			}
			continue
		}
		for _, st := range []string{"i1", "d2", "e2", "d3"} {
			if kv[st] != "ok" {
				addViolation(res, c, out, "stage "+st+" failed: "+kv[st])
			}
		}
		if kv["d3"] != "ok" {
			continue
		}
		if d := compareContent(kv["X1"], kv["X2"], false); d != "" {
			addViolation(res, c, out, "second generation differs from the first: "+d)
		}
		if kv["X2"] != kv["X3"] {
			if d := compareContent(kv["X2"], kv["X3"], true); d != "" {
				addViolation(res, c, out, "third generation differs from the second: "+d)
			}
		}
	}
}

func appendUniq(l []string, s string) []string {
	for _, x := range l {
		if x == s {
			return l
		}
	}
	return append(l, s)
}

// decodeContentOf re-runs the first decode of a c07 case to look at the File that Encode rejected.
func decodeContentOf(c string) (string, bool) {
	f := strings.Split(c, " ")
	if len(f) != 3 {
		return "", false
	}
	out := implDec("decode", "000", "-", "-", f[2])
	dr, ok := parseDecRes(out)
	if !ok {
		return "", false
	}
	return dr.dump, true
}
