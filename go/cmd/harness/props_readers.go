package main

import (
	"bufio"
	"bytes"
	"fmt"
	"io"
	"strings"

	"github.com/tormoder/fit"
)

// readerKindsOracle: the read-schedule cases all go through one concrete reader type (schedReader: a
// plain io.Reader). Code that looks at what else its reader can do — io.ByteScanner, io.Seeker,
// io.WriterTo ... — takes other paths for the standard library's readers. For a sample of the
// chained streams of a finished run that decoded without error:
//   - DecodeChained through a bytes.Reader (Seeker, ReaderAt, ByteScanner, WriterTo) and through a
//     bufio.Reader over the plain reader (ByteScanner, WriterTo) returns the same Files;
//   - through a bufio.Reader whose source fails with a non-EOF error exactly on a file boundary (where
//     a clean end of input would end the chain) it returns an error (C11);
//   - Decode / CheckIntegrity through a bytes.Reader leave it exactly behind the first frame (C10).
func readerKindsOracle(res *RunResult, max int) {
	done, singles := 0, 0
	seen := map[string]bool{}
	for i, c := range res.Stats.cases {
		if done >= max {
			break
		}
		dc, ok := parseDecCase(c)
		if !ok || dc.entry != "chained" || len(dc.data) > 20000 || seen[string(dc.data)] {
			continue
		}
		dr, ok2 := parseDecRes(res.Stats.impl[i])
		if !ok2 || dr.tag != "ok" || strings.Contains(dc.rspec, "f") {
			continue
		}
		seen[string(dc.data)] = true
		// mostly streams of two or more files (the sets also hold single files through DecodeChained)
		if fl, ok := frameLen(dc.data); ok && fl >= len(dc.data) {
			if singles >= max/4 {
				continue
			}
			singles++
		}
		done++
		data := dc.data
		opts := parseOpts(dc.opts)
		dump := func(fs []*fit.File, err error) string {
			parts := make([]string, len(fs))
			for k, f := range fs {
				parts[k] = renderFile(f)
			}
			return tag(err) + " " + strings.Join(parts, "##")
		}
		run := func(mk func() io.Reader) string {
			return guarded(func() string {
				fit.VerifSetAccumulators(parseAccuState(dc.accu))
				return dump(fit.DecodeChained(mk(), opts...))
			})
		}
		plain := run(func() io.Reader { return &schedReader{data: data, stop: io.EOF} })
		for name, mk := range map[string]func() io.Reader{
			"bytes.Reader":      func() io.Reader { return bytes.NewReader(data) },
			"bufio.Reader":      func() io.Reader { return bufio.NewReader(&schedReader{data: data, stop: io.EOF}) },
			"bufio.Reader(16)":  func() io.Reader { return bufio.NewReaderSize(&schedReader{data: data, stop: io.EOF}, 16) },
			"bytes.Buffer":      func() io.Reader { return bytes.NewBuffer(append([]byte{}, data...)) },
			"strings.Reader":    func() io.Reader { return strings.NewReader(string(data)) },
			"io.LimitedReader":  func() io.Reader { return io.LimitReader(bytes.NewReader(data), int64(len(data))) },
			"iotest-like 1byte": func() io.Reader { return &schedReader{data: data, stop: io.EOF, sched: []int{1}} },
		} {
			if got := run(mk); got != plain {
				addViolation(res, c, clip(got), fmt.Sprintf("DecodeChained through a %s differs from the same bytes through a plain io.Reader: %s", name, firstDiff(plain, got)))
			}
		}
		// file boundaries of the chain
		var bounds []int
		for off := 0; off < len(data); {
			fl, ok := frameLen(data[off:])
			if !ok || off+fl > len(data) {
				break
			}
			off += fl
			bounds = append(bounds, off)
		}
		for _, b := range bounds {
			for _, size := range []int{16, 4096} {
				b, size := b, size
				got := guarded(func() string {
					fit.VerifSetAccumulators(parseAccuState(dc.accu))
					_, err := fit.DecodeChained(bufio.NewReaderSize(&schedReader{data: data[:b], stop: errFault}, size), opts...)
					return tag(err)
				})
				if got == "ok" {
					addViolation(res, c, got, fmt.Sprintf("a read fault exactly on the file boundary at offset %d, behind a bufio.Reader(%d), is reported as success", b, size))
				}
			}
		}
		if len(bounds) > 0 {
			for _, e := range []string{"Decode", "CheckIntegrity"} {
				e := e
				got := guarded(func() string {
					fit.VerifSetAccumulators(parseAccuState(dc.accu))
					br := bytes.NewReader(data)
					var err error
					if e == "Decode" {
						_, err = fit.Decode(br, opts...)
					} else {
						err = fit.CheckIntegrity(br, false)
					}
					return fmt.Sprintf("%s %d", tag(err), len(data)-br.Len())
				})
				if want := fmt.Sprintf("ok %d", bounds[0]); got != want {
					addViolation(res, c, got, fmt.Sprintf("%s through a bytes.Reader: %s, expected %s (the reader left exactly behind the first frame)", e, got, want))
				}
			}
			// a reader that can seek and is not at its start: every file of the chain through Decode and
			// CheckIntegrity on one bytes.Reader, each call beginning where the previous one stopped
			for pass := 0; pass < 2; pass++ {
				pass := pass
				got := guarded(func() string {
					fit.VerifSetAccumulators(parseAccuState(dc.accu))
					br := bytes.NewReader(data)
					var marks []string
					for k := range bounds {
						var err error
						if (k+pass)%2 == 0 {
							err = fit.CheckIntegrity(br, false)
						} else {
							_, err = fit.Decode(br, opts...)
						}
						marks = append(marks, fmt.Sprintf("%s@%d", tag(err), len(data)-br.Len()))
					}
					return strings.Join(marks, " ")
				})
				var wantMarks []string
				for _, b := range bounds {
					wantMarks = append(wantMarks, fmt.Sprintf("ok@%d", b))
				}
				if want := strings.Join(wantMarks, " "); got != want {
					addViolation(res, c, got, fmt.Sprintf("CheckIntegrity / Decode file after file on one bytes.Reader: %s, expected %s", got, want))
				}
			}
			// the entry points that stop early: through a bytes.Reader (which can seek) they succeed on a
			// valid first file and never move the reader beyond its frame
			for _, e := range []string{"DecodeHeader", "DecodeHeaderAndFileID", "CheckIntegrity(headerOnly)"} {
				e := e
				got := guarded(func() string {
					br := bytes.NewReader(data)
					var err error
					switch e {
					case "DecodeHeader":
						_, err = fit.DecodeHeader(br)
					case "DecodeHeaderAndFileID":
						_, _, err = fit.DecodeHeaderAndFileID(br)
					default:
						err = fit.CheckIntegrity(br, true)
					}
					if used := len(data) - br.Len(); err != nil || used > bounds[0] {
						return fmt.Sprintf("%s %d", tag(err), used)
					}
					return "fine"
				})
				if got != "fine" {
					addViolation(res, c, got, fmt.Sprintf("%s through a bytes.Reader: %s (first frame: %d bytes)", e, got, bounds[0]))
				}
			}
		}
	}
	res.Notes = append(res.Notes, fmt.Sprintf("%d chained streams also through bytes.Reader / bufio.Reader / bytes.Buffer / strings.Reader / LimitedReader, with read faults on every file boundary behind a bufio.Reader", done))
}

// integrityReaderKinds: files that Decode accepts, followed by more bytes (the start of another file,
// junk, a whole second copy), through CheckIntegrity and Decode behind in-memory readers that know
// their length and can seek (bytes.Reader, bytes.Buffer, strings.Reader): the verdict is the one
// for the file alone and the reader is left exactly behind the frame (C04: a file Decode accepts
// passes CheckIntegrity, whatever the reader).
func integrityReaderKinds(res *RunResult, files [][]byte, label []string) {
	n := 0
	for fi, f := range files {
		fl, ok := frameLen(f)
		if !ok || fl != len(f) {
			continue
		}
		n++
		tails := [][]byte{nil, f[:9], {0x0E, 0x10, 0x00}, {0xA7, 0x3C, 0x55, 0x01, 0xFE}, f}
		for ti, tail := range tails {
			data := append(append([]byte{}, f...), tail...)
			for name, mk := range map[string]func() interface {
				io.Reader
				Len() int
			}{
				"bytes.Reader": func() interface {
					io.Reader
					Len() int
				} { return bytes.NewReader(data) },
				"bytes.Buffer": func() interface {
					io.Reader
					Len() int
				} { return bytes.NewBuffer(append([]byte{}, data...)) },
				"strings.Reader": func() interface {
					io.Reader
					Len() int
				} { return strings.NewReader(string(data)) },
			} {
				for _, e := range []string{"CheckIntegrity", "Decode"} {
					e, mk := e, mk
					got := guarded(func() string {
						r := mk()
						var err error
						if e == "Decode" {
							_, err = fit.Decode(r)
						} else {
							err = fit.CheckIntegrity(r, false)
						}
						return fmt.Sprintf("%s %d", tag(err), len(data)-r.Len())
					})
					if want := fmt.Sprintf("ok %d", fl); got != want {
						addViolation(res, label[fi], got, fmt.Sprintf("%s of an accepted file followed by %d more bytes (tail %d) through a %s: %s, expected %s", e, len(tail), ti, name, got, want))
					}
				}
			}
		}
	}
	res.Notes = append(res.Notes, fmt.Sprintf("%d accepted files, each followed by 5 kinds of further bytes, through CheckIntegrity and Decode behind bytes.Reader / bytes.Buffer / strings.Reader", n))
}
