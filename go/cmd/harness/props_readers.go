package main

import (
	"bufio"
	"bytes"
	"fmt"
	"io"
	"strings"

	"github.com/tormoder/fit"
)

// readerKindsOracle: the read-schedule cases all go through one concrete reader type (schedReader: a
// plain io.Reader). Code that looks at what else its reader can do — io.ByteScanner, io.Seeker,
// io.WriterTo ... — takes other paths for the standard library's readers. For a sample of the
// chained streams of a finished run that decoded without error:
//   - DecodeChained through a bytes.Reader (Seeker, ReaderAt, ByteScanner, WriterTo) and through a
//     bufio.Reader over the plain reader (ByteScanner, WriterTo) returns the same Files;
//   - through a bufio.Reader whose source fails with a non-EOF error exactly on a file boundary (where
//     a clean end of input would end the chain) it returns an error (C11);
//   - Decode / CheckIntegrity through a bytes.Reader leave it exactly behind the first frame (C10).
func readerKindsOracle(res *RunResult, max int) {
	done := 0
	seen := map[string]bool{}
	for i, c := range res.Stats.cases {
		if done >= max {
			break
		}
		dc, ok := parseDecCase(c)
		if !ok || dc.entry != "chained" || len(dc.data) > 20000 || seen[string(dc.data)] {
			continue
		}
		dr, ok2 := parseDecRes(res.Stats.impl[i])
		if !ok2 || dr.tag != "ok" || strings.Contains(dc.rspec, "f") {
			continue
		}
		seen[string(dc.data)] = true
		done++
		data := dc.data
		opts := parseOpts(dc.opts)
		dump := func(fs []*fit.File, err error) string {
			parts := make([]string, len(fs))
			for k, f := range fs {
				parts[k] = renderFile(f)
			}
			return tag(err) + " " + strings.Join(parts, "##")
		}
		run := func(mk func() io.Reader) string {
			return guarded(func() string {
				fit.VerifSetAccumulators(parseAccuState(dc.accu))
				return dump(fit.DecodeChained(mk(), opts...))
			})
		}
		plain := run(func() io.Reader { return &schedReader{data: data, stop: io.EOF} })
		for name, mk := range map[string]func() io.Reader{
			"bytes.Reader":      func() io.Reader { return bytes.NewReader(data) },
			"bufio.Reader":      func() io.Reader { return bufio.NewReader(&schedReader{data: data, stop: io.EOF}) },
			"bufio.Reader(16)":  func() io.Reader { return bufio.NewReaderSize(&schedReader{data: data, stop: io.EOF}, 16) },
			"bytes.Buffer":      func() io.Reader { return bytes.NewBuffer(append([]byte{}, data...)) },
			"strings.Reader":    func() io.Reader { return strings.NewReader(string(data)) },
			"io.LimitedReader":  func() io.Reader { return io.LimitReader(bytes.NewReader(data), int64(len(data))) },
			"iotest-like 1byte": func() io.Reader { return &schedReader{data: data, stop: io.EOF, sched: []int{1}} },
		} {
			if got := run(mk); got != plain {
				addViolation(res, c, clip(got), fmt.Sprintf("DecodeChained through a %s differs from the same bytes through a plain io.Reader: %s", name, firstDiff(plain, got)))
			}
		}
		// file boundaries of the chain
		var bounds []int
		for off := 0; off < len(data); {
			fl, ok := frameLen(data[off:])
			if !ok || off+fl > len(data) {
				break
			}
			off += fl
			bounds = append(bounds, off)
		}
		for _, b := range bounds {
			for _, size := range []int{16, 4096} {
				b, size := b, size
				got := guarded(func() string {
					fit.VerifSetAccumulators(parseAccuState(dc.accu))
					_, err := fit.DecodeChained(bufio.NewReaderSize(&schedReader{data: data[:b], stop: errFault}, size), opts...)
					return tag(err)
				})
				if got == "ok" {
					addViolation(res, c, got, fmt.Sprintf("a read fault exactly on the file boundary at offset %d, behind a bufio.Reader(%d), is reported as success", b, size))
				}
			}
		}
		if len(bounds) > 0 {
			for _, e := range []string{"Decode", "CheckIntegrity"} {
				e := e
				got := guarded(func() string {
					fit.VerifSetAccumulators(parseAccuState(dc.accu))
					br := bytes.NewReader(data)
					var err error
					if e == "Decode" {
						_, err = fit.Decode(br, opts...)
					} else {
						err = fit.CheckIntegrity(br, false)
					}
					return fmt.Sprintf("%s %d", tag(err), len(data)-br.Len())
				})
				if want := fmt.Sprintf("ok %d", bounds[0]); got != want {
					addViolation(res, c, got, fmt.Sprintf("%s through a bytes.Reader: %s, expected %s (the reader left exactly behind the first frame)", e, got, want))
				}
			}
			// the entry points that stop early: through a bytes.Reader (which can seek) they succeed on a
			// valid first file and never move the reader beyond its frame
			for _, e := range []string{"DecodeHeader", "DecodeHeaderAndFileID", "CheckIntegrity(headerOnly)"} {
				e := e
				got := guarded(func() string {
					br := bytes.NewReader(data)
					var err error
					switch e {
					case "DecodeHeader":
						_, err = fit.DecodeHeader(br)
					case "DecodeHeaderAndFileID":
						_, _, err = fit.DecodeHeaderAndFileID(br)
					default:
						err = fit.CheckIntegrity(br, true)
					}
					if used := len(data) - br.Len(); err != nil || used > bounds[0] {
						return fmt.Sprintf("%s %d", tag(err), used)
					}
					return "fine"
				})
				if got != "fine" {
					addViolation(res, c, got, fmt.Sprintf("%s through a bytes.Reader: %s (first frame: %d bytes)", e, got, bounds[0]))
				}
			}
		}
	}
	res.Notes = append(res.Notes, fmt.Sprintf("%d chained streams also through bytes.Reader / bufio.Reader / bytes.Buffer / strings.Reader / LimitedReader, with read faults on every file boundary behind a bufio.Reader", done))
}
