package main

import (
	"bufio"
	"bytes"
	"fmt"
	"os"
	"os/exec"
	"path/filepath"
	"runtime"
	"sort"
	"strings"
	"sync"
)

const (
	verifDir   = "/verif"
	buildDir   = "/verif/build"
	modelExe   = "/verif/lean/.lake/build/bin/fitmodel"
	maxSamples = 6
)

// Mismatch is one case on which implementation and model differ.
type Mismatch struct {
	Case  string `json:"case"`
	Impl  string `json:"impl"`
	Model string `json:"model"`
	Where string `json:"where,omitempty"`
	// Kind: "property" — the disagreement is on an observable the property determines (a failing
	// input for the property); "correspondence" — implementation and model differ, but only on
	// observables the property does not constrain (the tie is broken, no failing input yet);
	// "oracle" — a property oracle failed on the implementation's own output.
	Kind string `json:"kind,omitempty"`
}

// RunStats is what one correspondence run measured.
type RunStats struct {
	Evaluations int            `json:"evaluations"`
	Distinct    int            `json:"distinct_nontrivial"`
	Outcomes    map[string]int `json:"outcomes"`
	Mismatches  []Mismatch     `json:"mismatches"`
	NMismatch   int            `json:"n_mismatch"`
	Samples     []string       `json:"samples"`
	Hangs       int            `json:"hangs"`
	Sets        map[string]int `json:"sets"`

	cases []string // kept for property post-processing, not serialised
	impl  []string
	model []string
	setOf []string
}

func selfExe() string {
	p, err := os.Executable()
	if err != nil {
		return filepath.Join(buildDir, "harness")
	}
	return p
}

func readLines(b []byte) []string {
	var res []string
	sc := bufio.NewScanner(bytes.NewReader(b))
	sc.Buffer(make([]byte, 1<<20), 1<<30)
	for sc.Scan() {
		res = append(res, sc.Text())
	}
	return res
}

// runProc feeds lines to a process and returns its output lines.
func runProc(exe string, args []string, lines []string) ([]string, int, error) {
	cmd := exec.Command(exe, args...)
	cmd.Stdin = strings.NewReader(strings.Join(lines, "\n") + "\n")
	var out bytes.Buffer
	cmd.Stdout = &out
	cmd.Stderr = realStderr
	err := cmd.Run()
	code := 0
	if err != nil {
		if ee, ok := err.(*exec.ExitError); ok {
			code = ee.ExitCode()
			err = nil
		}
	}
	return readLines(out.Bytes()), code, err
}

// runImpl runs the cases through worker processes, restarting after hangs/crashes.
func runImpl(lines []string) ([]string, int) {
	var res []string
	hangs := 0
	rest := lines
	for len(rest) > 0 {
		out, code, err := runProc(selfExe(), []string{"worker"}, rest)
		if err != nil {
			fmt.Fprintln(realStderr, "worker:", err)
		}
		if len(out) > len(rest) {
			out = out[:len(rest)]
		}
		res = append(res, out...)
		rest = rest[len(out):]
		if code == 0 && len(rest) == 0 {
			break
		}
		if len(rest) > 0 && (code != 3 || len(out) == 0) {
			// crashed without reporting: blame the next case
			res = append(res, fmt.Sprintf("crash(exit=%d)", code))
			rest = rest[1:]
			hangs++
		} else if code == 3 {
			hangs++
		}
	}
	return res, hangs
}

func runModel(lines []string) []string {
	var res []string
	rest := lines
	for len(rest) > 0 {
		out, code, err := runProc(modelExe, nil, rest)
		if err != nil {
			fmt.Fprintln(realStderr, "fitmodel:", err)
			for range rest {
				res = append(res, "model-unavailable")
			}
			return res
		}
		if len(out) > len(rest) {
			out = out[:len(rest)]
		}
		res = append(res, out...)
		rest = rest[len(out):]
		if len(rest) > 0 {
			res = append(res, fmt.Sprintf("model-crash(exit=%d)", code))
			rest = rest[1:]
		}
	}
	return res
}

// firstDiff locates the first differing ';'-separated section of two result lines.
func firstDiff(a, b string) string {
	as, bs := strings.Split(a, ";"), strings.Split(b, ";")
	for i := 0; i < len(as) && i < len(bs); i++ {
		if as[i] != bs[i] {
			x, y := as[i], bs[i]
			j := 0
			for j < len(x) && j < len(y) && x[j] == y[j] {
				j++
			}
			lo := j - 40
			if lo < 0 {
				lo = 0
			}
			hx, hy := j+80, j+80
			if hx > len(x) {
				hx = len(x)
			}
			if hy > len(y) {
				hy = len(y)
			}
			return fmt.Sprintf("section %d at byte %d: impl=…%s… model=…%s…", i, j, x[lo:hx], y[lo:hy])
		}
	}
	return fmt.Sprintf("lengths differ: %d vs %d sections", len(as), len(bs))
}

func outcomeKey(res string) string {
	i := strings.IndexByte(res, ' ')
	k := res
	if i >= 0 {
		k = res[:i]
	}
	for _, p := range []string{"ok", "err", "panic", "hang", "crash", "same", "differ", "bad", "d1=", "missing", "model-"} {
		if strings.HasPrefix(k, p) && len(k) <= 32 {
			return k
		}
	}
	return "(value)"
}

// CaseSet is a named group of cases; the name goes into the distribution statistics.
type CaseSet struct {
	Name  string
	Cases []string
}

// correspond runs all cases on both sides and compares.
// implOnly: VERIF_IMPL_ONLY=1 — run the implementation and the property oracles only.
var implOnly = os.Getenv("VERIF_IMPL_ONLY") == "1"

func correspond(sets []CaseSet) *RunStats {
	st := &RunStats{Outcomes: map[string]int{}, Sets: map[string]int{}}
	var all []string
	for _, s := range sets {
		st.Sets[s.Name] += len(s.Cases)
		all = append(all, s.Cases...)
		for range s.Cases {
			st.setOf = append(st.setOf, s.Name)
		}
		for i := 0; i < len(s.Cases) && i < 2 && len(st.Samples) < 40; i++ {
			c := s.Cases[i]
			if len(c) > 400 {
				c = c[:400] + "…"
			}
			st.Samples = append(st.Samples, s.Name+": "+c)
		}
	}
	n := len(all)
	st.Evaluations = n
	if n == 0 {
		return st
	}
	shards := runtime.NumCPU()
	if shards > n {
		shards = n
	}
	// interleave cases over shards so that heavy cases spread out
	parts := make([][]int, shards)
	for i := range all {
		parts[i%shards] = append(parts[i%shards], i)
	}
	impl := make([]string, n)
	model := make([]string, n)
	var wg sync.WaitGroup
	var mu sync.Mutex
	for s := 0; s < shards; s++ {
		wg.Add(1)
		go func(idx []int) {
			defer wg.Done()
			lines := make([]string, len(idx))
			for i, k := range idx {
				lines[i] = all[k]
			}
			var io1, mo []string
			var hangs int
			var wg2 sync.WaitGroup
			wg2.Add(2)
			go func() { defer wg2.Done(); io1, hangs = runImpl(lines) }()
			go func() {
				defer wg2.Done()
				if !implOnly {
					mo = runModel(lines)
				}
			}()
			wg2.Wait()
			if implOnly {
				// failing-input search without the model (its facts could not be regenerated): only
				// the property oracles look at the implementation's results
				mo = io1
			}
			mu.Lock()
			st.Hangs += hangs
			mu.Unlock()
			for i, k := range idx {
				if i < len(io1) {
					impl[k] = io1[i]
				} else {
					impl[k] = "missing"
				}
				if i < len(mo) {
					model[k] = mo[i]
				} else {
					model[k] = "missing"
				}
			}
		}(parts[s])
	}
	wg.Wait()
	st.cases, st.impl, st.model = all, impl, model
	sigs := map[string]bool{}
	for i := 0; i < n; i++ {
		st.Outcomes[outcomeKey(impl[i])]++
		if impl[i] != model[i] && impl[i] != "model-only" {
			st.NMismatch++
			if len(st.Mismatches) < 20 {
				c := all[i]
				st.Mismatches = append(st.Mismatches, Mismatch{Case: c, Impl: clip(impl[i]), Model: clip(model[i]), Where: firstDiff(impl[i], model[i])})
			}
		}
		// distinct non-trivial: distinct result lines whose outcome is not a header-level rejection
		if nonTrivial(impl[i]) {
			sigs[sigOf(impl[i])] = true
		}
	}
	st.Distinct = len(sigs)
	return st
}

func clip(s string) string {
	if len(s) > 3000 {
		return s[:3000] + "…(" + fmt.Sprint(len(s)) + " bytes)"
	}
	return s
}

func nonTrivial(res string) bool {
	if strings.HasPrefix(res, "bad") || strings.HasPrefix(res, "missing") || strings.HasPrefix(res, "hang") {
		return false
	}
	f := strings.SplitN(res, " ", 4)
	if len(f) == 4 && (f[0] == "ok" || strings.HasPrefix(f[0], "err:") || f[0] == "panic") {
		// a decode result is non-trivial when it succeeded or got past the header and file_id
		return f[0] == "ok" || strings.Contains(f[3], ";K") && !strings.Contains(f[3], ";Knone")
	}
	return true
}

func sigOf(res string) string {
	if len(res) > 256 {
		h := fnv64(res)
		return fmt.Sprintf("%s#%x", outcomeKey(res), h)
	}
	return res
}

func fnv64(s string) uint64 {
	h := uint64(14695981039346656037)
	for i := 0; i < len(s); i++ {
		h ^= uint64(s[i])
		h *= 1099511628211
	}
	return h
}

func sortedKeys(m map[string]int) []string {
	ks := make([]string, 0, len(m))
	for k := range m {
		ks = append(ks, k)
	}
	sort.Strings(ks)
	return ks
}
