package main

import "encoding/binary"

// countFileIdRecords walks the record area of one frame (independently of the library) and counts
// the data records whose definition names global message 0 (file_id). -1: the walk failed.
func countFileIdRecords(frameBytes []byte) int {
	if len(frameBytes) < 14 {
		return -1
	}
	hs := int(frameBytes[0])
	if (hs != 12 && hs != 14) || len(frameBytes) < hs {
		return -1
	}
	ds := int(binary.LittleEndian.Uint32(frameBytes[4:8]))
	if hs+ds > len(frameBytes) {
		return -1
	}
	b := frameBytes[hs : hs+ds]
	type def struct {
		global int
		size   int
	}
	var defs [16]*def
	n := 0
	p := 0
	for p < len(b) {
		h := b[p]
		p++
		switch {
		case h&0x80 != 0: // compressed timestamp header: local type in bits 5-6
			d := defs[(h>>5)&3]
			if d == nil || p+d.size > len(b) {
				return -1
			}
			if d.global == 0 {
				n++
			}
			p += d.size
		case h&0x40 != 0:
			if p+5 > len(b) {
				return -1
			}
			arch := b[p+1]
			g := int(binary.LittleEndian.Uint16(b[p+2 : p+4]))
			if arch == 1 {
				g = int(binary.BigEndian.Uint16(b[p+2 : p+4]))
			}
			nf := int(b[p+4])
			p += 5
			if p+3*nf > len(b) {
				return -1
			}
			size := 0
			for i := 0; i < nf; i++ {
				size += int(b[p+3*i+1])
			}
			p += 3 * nf
			if h&0x20 != 0 {
				if p >= len(b) {
					return -1
				}
				nd := int(b[p])
				p++
				if p+3*nd > len(b) {
					return -1
				}
				for i := 0; i < nd; i++ {
					size += int(b[p+3*i+1])
				}
				p += 3 * nd
			}
			defs[h&0x0F] = &def{global: g, size: size}
		default:
			d := defs[h&0x0F]
			if d == nil || p+d.size > len(b) {
				return -1
			}
			if d.global == 0 {
				n++
			}
			p += d.size
		}
	}
	return n
}

// fileIdEnd: the number of bytes of a stream that DecodeHeaderAndFileID needs: the header, the
// first definition record and the first data record (independently of the library, from the bytes
// alone; the data may be cut anywhere). ok=false: the bytes present do not even determine it
// (cut inside the header or the definition), or the first record is not a definition.
func fileIdEnd(data []byte) (int, bool) {
	if len(data) < 12 {
		return 0, false
	}
	hs := int(data[0])
	if (hs != 12 && hs != 14) || len(data) < hs {
		return 0, false
	}
	p := hs
	if p >= len(data) || data[p]&0x80 != 0 || data[p]&0x40 == 0 {
		return 0, false
	}
	h := data[p]
	p++
	if p+5 > len(data) {
		return 0, false
	}
	nf := int(data[p+4])
	p += 5
	if p+3*nf > len(data) {
		return 0, false
	}
	size := 0
	for i := 0; i < nf; i++ {
		size += int(data[p+3*i+1])
	}
	p += 3 * nf
	if h&0x20 != 0 {
		if p >= len(data) {
			return 0, false
		}
		nd := int(data[p])
		p++
		if p+3*nd > len(data) {
			return 0, false
		}
		for i := 0; i < nd; i++ {
			size += int(data[p+3*i+1])
		}
		p += 3 * nd
	}
	// the data record: header byte + declared bytes
	return p + 1 + size, true
}

// completeDataRecords: the number of data records lying completely inside the bytes given (the
// stream may be cut anywhere), from the bytes alone. Definitions are tracked per local type.
func completeDataRecords(data []byte) int {
	n, _ := completeDataRecordsEnd(data)
	return n
}

// completeDataRecordsEnd: also the offset in data just behind the last complete data record
// (the header size if there is none)
func completeDataRecordsEnd(data []byte) (int, int) {
	n, end := completeDataRecords0(data)
	return n, end
}

func completeDataRecords0(data []byte) (int, int) {
	if len(data) < 12 {
		return 0, 0
	}
	hs := int(data[0])
	if (hs != 12 && hs != 14) || len(data) < hs {
		return 0, 0
	}
	end := len(data)
	if ds := int(binary.LittleEndian.Uint32(data[4:8])); hs+ds < end {
		end = hs + ds
	}
	b := data[hs:end]
	var size [16]int
	var have [16]bool
	n, p := 0, 0
	last := 0
	for p < len(b) {
		h := b[p]
		p++
		switch {
		case h&0x80 != 0:
			l := (h >> 5) & 3
			if !have[l] || p+size[l] > len(b) {
				return n, hs + last
			}
			n++
			p += size[l]
			last = p
		case h&0x40 != 0:
			if p+5 > len(b) {
				return n, hs + last
			}
			nf := int(b[p+4])
			p += 5
			if p+3*nf > len(b) {
				return n, hs + last
			}
			sz := 0
			for i := 0; i < nf; i++ {
				sz += int(b[p+3*i+1])
			}
			p += 3 * nf
			if h&0x20 != 0 {
				if p >= len(b) {
					return n, hs + last
				}
				nd := int(b[p])
				p++
				if p+3*nd > len(b) {
					return n, hs + last
				}
				for i := 0; i < nd; i++ {
					sz += int(b[p+3*i+1])
				}
				p += 3 * nd
			}
			size[h&0x0F], have[h&0x0F] = sz, true
		default:
			l := h & 0x0F
			if !have[l] || p+size[l] > len(b) {
				return n, hs + last
			}
			n++
			p += size[l]
			last = p
		}
	}
	return n, hs + last
}
