package main

import (
	"bytes"
	"encoding/binary"
)

// ownCRC is an independent bit-serial CRC-16/ARC (the generator must not depend on the
// library's checksum to decide what a valid file is).
func ownCRC(data []byte) uint16 {
	var c uint16
	for _, b := range data {
		c ^= uint16(b)
		for i := 0; i < 8; i++ {
			if c&1 == 1 {
				c = c>>1 ^ 0xA001
			} else {
				c >>= 1
			}
		}
	}
	return c
}

// ---- FIT stream builder (independent of the library's encoder) ----

type fdef struct{ num, size, btype byte }
type ddesc struct{ num, size, idx byte }

type defn struct {
	local  byte
	resv   byte // the reserved byte after the record header (readers ignore it)
	hbits  byte // extra bits of the record header byte itself (bit 0x10 is reserved; readers ignore it)
	arch   byte // 0 little, 1 big
	global uint16
	fields []fdef
	dev    []ddesc
	devBit bool
}

type recs struct{ bytes.Buffer }

func (b *recs) def(d defn) {
	h := byte(0x40) | (d.local & 0x0F) | (d.hbits & 0x10)
	if d.devBit {
		h |= 0x20
	}
	b.WriteByte(h)
	b.WriteByte(d.resv)
	b.WriteByte(d.arch)
	if d.arch == 0 {
		binary.Write(b, binary.LittleEndian, d.global)
	} else {
		binary.Write(b, binary.BigEndian, d.global)
	}
	b.WriteByte(byte(len(d.fields)))
	for _, f := range d.fields {
		b.Write([]byte{f.num, f.size, f.btype})
	}
	if d.devBit {
		b.WriteByte(byte(len(d.dev)))
		for _, f := range d.dev {
			b.Write([]byte{f.num, f.size, f.idx})
		}
	}
}

func (b *recs) data(local byte, payload []byte) {
	b.WriteByte(local & 0x0F)
	b.Write(payload)
}

// dataX: a data record whose header byte carries extra bits next to the local type (0x10 reserved,
// 0x20 the developer flag, which only means something on definitions): readers mask them off
func (b *recs) dataX(local, extra byte, payload []byte) {
	b.WriteByte(local&0x0F | extra&0x30)
	b.Write(payload)
}

func (b *recs) cdata(local, off byte, payload []byte) {
	b.WriteByte(0x80 | (local&0x03)<<5 | (off & 0x1F))
	b.Write(payload)
}

// fileIdRecs: definition + data record of file_id carrying only the type field.
func fileIdRecs(ftype byte, arch byte) []byte {
	var b recs
	b.def(defn{local: 0, arch: arch, global: 0, fields: []fdef{{0, 1, 0x00}}})
	b.data(0, []byte{ftype})
	return b.Bytes()
}

type frameOpts struct {
	hdrSize int  // 12 or 14
	zeroCRC bool // 14-byte header with CRC field 0
	proto   byte
	profile uint16
	badTag  bool
}

func defaultFrame() frameOpts { return frameOpts{hdrSize: 14, proto: 0x20, profile: 2115} }

// randFrame: the header variety readers accept — 12 bytes, 14 bytes with a zero CRC field or with
// its CRC; protocol versions 0.x, 1.x and 2.x with any minor version; any profile version.
func randFrame(r *rng) frameOpts {
	fo := defaultFrame()
	if r.chance(30) {
		fo.hdrSize = 12
	} else if r.chance(15) {
		fo.zeroCRC = true
	}
	if r.chance(35) {
		fo.proto = []byte{0x10, 0x00, 0x21, 0x2F, 0x15, 0x1F, 0x2A}[r.intn(7)]
	}
	if r.chance(30) {
		fo.profile = uint16(r.next())
	}
	return fo
}

// frame wraps record bytes into header + data + file CRC.
func frame(records []byte, o frameOpts) []byte {
	var b bytes.Buffer
	b.WriteByte(byte(o.hdrSize))
	b.WriteByte(o.proto)
	binary.Write(&b, binary.LittleEndian, o.profile)
	binary.Write(&b, binary.LittleEndian, uint32(len(records)))
	if o.badTag {
		b.WriteString(".FIX")
	} else {
		b.WriteString(".FIT")
	}
	if o.hdrSize == 14 {
		c := uint16(0)
		if !o.zeroCRC {
			c = ownCRC(b.Bytes())
		}
		binary.Write(&b, binary.LittleEndian, c)
	}
	b.Write(records)
	c := ownCRC(b.Bytes())
	binary.Write(&b, binary.LittleEndian, c)
	return b.Bytes()
}

func putUint(arch byte, w int, v uint64) []byte {
	b := make([]byte, w)
	for i := 0; i < w; i++ {
		if arch == 0 {
			b[i] = byte(v >> (8 * uint(i)))
		} else {
			b[w-1-i] = byte(v >> (8 * uint(i)))
		}
	}
	return b
}

// ---- base type helpers (own tables, not the library's) ----

var (
	btSize   = map[byte]int{0x00: 1, 0x01: 1, 0x02: 1, 0x83: 2, 0x84: 2, 0x85: 4, 0x86: 4, 0x07: 1, 0x88: 4, 0x89: 8, 0x0A: 1, 0x8B: 2, 0x8C: 4, 0x0D: 1, 0x8E: 8, 0x8F: 8, 0x90: 8}
	btSigned = map[byte]bool{0x01: true, 0x83: true, 0x85: true, 0x88: true, 0x89: true, 0x8E: true}
	btFloat  = map[byte]bool{0x88: true, 0x89: true}
	allBase  = []byte{0x00, 0x01, 0x02, 0x83, 0x84, 0x85, 0x86, 0x07, 0x88, 0x89, 0x0A, 0x8B, 0x8C, 0x0D, 0x8E, 0x8F, 0x90}
)

// decompressed base type of a profile type code
func tcBase(t int) byte {
	c := byte(t) & 0x1F
	switch c {
	case 0x03:
		return 0x83
	case 0x04:
		return 0x84
	case 0x05:
		return 0x85
	case 0x06:
		return 0x86
	case 0x08:
		return 0x88
	case 0x09:
		return 0x89
	case 0x0B:
		return 0x8B
	case 0x0C:
		return 0x8C
	case 0x0E:
		return 0x8E
	case 0x0F:
		return 0x8F
	case 0x10:
		return 0x90
	}
	return c
}
func tcArray(t int) bool { return (t>>5)&1 == 1 }
func tcKind(t int) int   { return (t >> 6) & 7 }
