package main

import (
	"archive/zip"
	"bytes"
	"encoding/xml"
	"fmt"
	"io"
	"path"
	"strconv"
	"strings"
)

// Independent reader for the FIT profile workbooks (zip + XML; no spreadsheet library): returns
// the sheets, in workbook order, as rows of cell strings.

type xlsxSheet struct {
	Name string
	Rows [][]string
	// raw XML of the sheet and its zip entry name, for building variants
	Entry string
	XML   []byte
}

type xlsxBook struct {
	Sheets  []xlsxSheet
	Strings []string
	files   map[string][]byte
	order   []string
}

func readZipFile(f *zip.File) ([]byte, error) {
	rc, err := f.Open()
	if err != nil {
		return nil, err
	}
	defer rc.Close()
	return io.ReadAll(rc)
}

func colIndex(ref string) int {
	n := 0
	for _, c := range ref {
		if c >= 'A' && c <= 'Z' {
			n = n*26 + int(c-'A') + 1
		} else {
			break
		}
	}
	return n - 1
}

func openXlsx(data []byte) (*xlsxBook, error) {
	zr, err := zip.NewReader(bytes.NewReader(data), int64(len(data)))
	if err != nil {
		return nil, err
	}
	b := &xlsxBook{files: map[string][]byte{}}
	for _, f := range zr.File {
		c, err := readZipFile(f)
		if err != nil {
			return nil, err
		}
		b.files[f.Name] = c
		b.order = append(b.order, f.Name)
	}
	// shared strings
	if ss, ok := b.files["xl/sharedStrings.xml"]; ok {
		type tnode struct {
			T string `xml:",chardata"`
		}
		type si struct {
			T []tnode `xml:"t"`
			R []struct {
				T []tnode `xml:"t"`
			} `xml:"r"`
		}
		var sst struct {
			SI []si `xml:"si"`
		}
		if err := xml.Unmarshal(ss, &sst); err != nil {
			return nil, fmt.Errorf("sharedStrings: %w", err)
		}
		for _, s := range sst.SI {
			var sb strings.Builder
			for _, t := range s.T {
				sb.WriteString(t.T)
			}
			for _, r := range s.R {
				for _, t := range r.T {
					sb.WriteString(t.T)
				}
			}
			b.Strings = append(b.Strings, sb.String())
		}
	}
	// sheet order and targets
	var wb struct {
		Sheets []struct {
			Name string `xml:"name,attr"`
			RID  string `xml:"http://schemas.openxmlformats.org/officeDocument/2006/relationships id,attr"`
		} `xml:"sheets>sheet"`
	}
	if err := xml.Unmarshal(b.files["xl/workbook.xml"], &wb); err != nil {
		return nil, fmt.Errorf("workbook.xml: %w", err)
	}
	var rels struct {
		R []struct {
			ID     string `xml:"Id,attr"`
			Target string `xml:"Target,attr"`
		} `xml:"Relationship"`
	}
	if err := xml.Unmarshal(b.files["xl/_rels/workbook.xml.rels"], &rels); err != nil {
		return nil, fmt.Errorf("workbook rels: %w", err)
	}
	target := map[string]string{}
	for _, r := range rels.R {
		target[r.ID] = r.Target
	}
	for _, sh := range wb.Sheets {
		entry := path.Join("xl", target[sh.RID])
		if strings.HasPrefix(target[sh.RID], "/") {
			entry = strings.TrimPrefix(target[sh.RID], "/")
		}
		raw, ok := b.files[entry]
		if !ok {
			return nil, fmt.Errorf("sheet %s: missing %s", sh.Name, entry)
		}
		var ws struct {
			Rows []struct {
				R     int `xml:"r,attr"`
				Cells []struct {
					Ref string `xml:"r,attr"`
					T   string `xml:"t,attr"`
					V   string `xml:"v"`
					IS  struct {
						T string `xml:"t"`
					} `xml:"is"`
				} `xml:"c"`
			} `xml:"sheetData>row"`
		}
		if err := xml.Unmarshal(raw, &ws); err != nil {
			return nil, fmt.Errorf("sheet %s: %w", sh.Name, err)
		}
		sheet := xlsxSheet{Name: sh.Name, Entry: entry, XML: raw}
		ncols := 0
		for _, r := range ws.Rows {
			for _, c := range r.Cells {
				if k := colIndex(c.Ref) + 1; k > ncols {
					ncols = k
				}
			}
		}
		next := 1
		for _, r := range ws.Rows {
			for next < r.R { // rows missing in the XML are empty rows
				sheet.Rows = append(sheet.Rows, make([]string, ncols))
				next++
			}
			row := make([]string, ncols)
			for _, c := range r.Cells {
				k := colIndex(c.Ref)
				if k < 0 || k >= ncols {
					continue
				}
				switch c.T {
				case "s":
					if strings.TrimSpace(c.V) == "" {
						break // empty cell
					}
					i, err := strconv.Atoi(strings.TrimSpace(c.V))
					if err == nil && i >= 0 && i < len(b.Strings) {
						row[k] = b.Strings[i]
					}
				case "inlineStr":
					row[k] = c.IS.T
				default:
					row[k] = c.V
				}
			}
			sheet.Rows = append(sheet.Rows, row)
			next = r.R + 1
		}
		b.Sheets = append(b.Sheets, sheet)
	}
	return b, nil
}

// withSheetXML returns a new workbook file in which one sheet's XML is replaced.
func (b *xlsxBook) withSheetXML(entry string, xmlData []byte) ([]byte, error) {
	var out bytes.Buffer
	zw := zip.NewWriter(&out)
	for _, name := range b.order {
		w, err := zw.Create(name)
		if err != nil {
			return nil, err
		}
		c := b.files[name]
		if name == entry {
			c = xmlData
		}
		if _, err := w.Write(c); err != nil {
			return nil, err
		}
	}
	if err := zw.Close(); err != nil {
		return nil, err
	}
	return out.Bytes(), nil
}
