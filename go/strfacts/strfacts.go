// Package strfacts extracts, by go/ast, the generated FIT types with their constants (types.go,
// types_man.go) and the shape of every generated String method (types_string.go, types_man.go).
package strfacts

import (
	"fmt"
	"go/ast"
	"go/constant"
	"go/parser"
	"go/token"
	"math/big"
	"sort"
	"strconv"
	"strings"
)

type Const struct {
	Name  string
	Value int64
}

type TypeInfo struct {
	Name       string
	Underlying string
	Bits       int
	Signed     bool
	Manual     bool // declared in types_man.go (hand-written, prefix kept in String)
	Consts     []Const
}

type Run struct {
	Lo, Hi int64
	Off    int64  // value subtracted before indexing
	Name   string // the name constant's value
	Index  []int  // nil: the whole name is returned
}

type MapEntry struct {
	Key int64
	Str string
}

type Shape struct {
	Type   string
	Kind   string // "runs" | "single" | "map"
	Runs   []Run
	Map    []MapEntry
	Single Run // Kind == "single": Off, Name, Index
}

var widths = map[string][2]int{"byte": {8, 0}, "uint8": {8, 0}, "uint16": {16, 0}, "uint32": {32, 0}, "uint64": {64, 0},
	"int8": {8, 1}, "int16": {16, 1}, "int32": {32, 1}, "int64": {64, 1}}

func evalInt(e ast.Expr, env map[string]constant.Value) (int64, bool) {
	switch x := e.(type) {
	case *ast.BasicLit:
		v := constant.MakeFromLiteral(x.Value, x.Kind, 0)
		if v.Kind() == constant.Int {
			n, ok := constant.Int64Val(v)
			if ok {
				return n, true
			}
			if u, ok := constant.Uint64Val(v); ok {
				return int64(u), true
			}
		}
	case *ast.ParenExpr:
		return evalInt(x.X, env)
	case *ast.UnaryExpr:
		if v, ok := evalInt(x.X, env); ok && x.Op == token.SUB {
			return -v, true
		}
	case *ast.BinaryExpr:
		a, ok1 := evalInt(x.X, env)
		b, ok2 := evalInt(x.Y, env)
		if ok1 && ok2 {
			switch x.Op {
			case token.ADD:
				return a + b, true
			case token.SUB:
				return a - b, true
			case token.MUL:
				return a * b, true
			case token.SHL:
				return a << uint(b), true
			case token.OR:
				return a | b, true
			}
		}
	case *ast.Ident:
		if v, ok := env[x.Name]; ok {
			n, ok := constant.Int64Val(v)
			return n, ok
		}
	case *ast.CallExpr: // T(123)
		if len(x.Args) == 1 {
			return evalInt(x.Args[0], env)
		}
	}
	return 0, false
}

// ParseTypes returns the named integer types and their constants, in source order.
func ParseTypes(files ...string) ([]TypeInfo, error) {
	fset := token.NewFileSet()
	var res []TypeInfo
	idx := map[string]int{}
	env := map[string]constant.Value{}
	for _, fn := range files {
		f, err := parser.ParseFile(fset, fn, nil, 0)
		if err != nil {
			return nil, err
		}
		for _, d := range f.Decls {
			gd, ok := d.(*ast.GenDecl)
			if !ok {
				continue
			}
			switch gd.Tok {
			case token.TYPE:
				for _, s := range gd.Specs {
					ts := s.(*ast.TypeSpec)
					if id, ok := ts.Type.(*ast.Ident); ok {
						if w, ok := widths[id.Name]; ok {
							idx[ts.Name.Name] = len(res)
							res = append(res, TypeInfo{Name: ts.Name.Name, Underlying: id.Name, Bits: w[0], Signed: w[1] == 1, Manual: strings.HasSuffix(fn, "_man.go")})
						}
					}
				}
			case token.CONST:
				for _, s := range gd.Specs {
					vs := s.(*ast.ValueSpec)
					tid, ok := vs.Type.(*ast.Ident)
					if !ok {
						continue
					}
					ti, ok := idx[tid.Name]
					if !ok {
						continue
					}
					for i, n := range vs.Names {
						if i >= len(vs.Values) {
							return nil, fmt.Errorf("%s: constant %s without explicit value", fn, n.Name)
						}
						v, ok := evalInt(vs.Values[i], env)
						if !ok {
							return nil, fmt.Errorf("%s: cannot evaluate constant %s", fn, n.Name)
						}
						env[n.Name] = constant.MakeInt64(v)
						res[ti].Consts = append(res[ti].Consts, Const{n.Name, v})
					}
				}
			}
		}
	}
	return res, nil
}

// ParseShapes returns the shape of every `func (i T) String() string`.
func ParseShapes(files ...string) (map[string]Shape, error) {
	fset := token.NewFileSet()
	strConsts := map[string]string{}
	idxArrays := map[string][]int{}
	type rawMapEntry struct {
		key      int64
		name     string
		lo, hi   int
		whole    bool
		wholeStr string
	}
	maps := map[string][]rawMapEntry{}
	var funcs []*ast.FuncDecl
	for _, fn := range files {
		f, err := parser.ParseFile(fset, fn, nil, 0)
		if err != nil {
			return nil, err
		}
		for _, d := range f.Decls {
			switch x := d.(type) {
			case *ast.FuncDecl:
				if x.Name.Name == "String" && x.Recv != nil && len(x.Recv.List) == 1 {
					funcs = append(funcs, x)
				}
			case *ast.GenDecl:
				for _, s := range x.Specs {
					vs, ok := s.(*ast.ValueSpec)
					if !ok {
						continue
					}
					for i, n := range vs.Names {
						if i >= len(vs.Values) {
							continue
						}
						switch v := vs.Values[i].(type) {
						case *ast.BasicLit:
							if v.Kind == token.STRING {
								s, _ := strconv.Unquote(v.Value)
								strConsts[n.Name] = s
							}
						case *ast.CompositeLit:
							switch v.Type.(type) {
							case *ast.ArrayType:
								var arr []int
								for _, e := range v.Elts {
									k, ok := evalInt(e, nil)
									if !ok {
										arr = nil // not an index array of the generated shapes: ignored
										break
									}
									arr = append(arr, int(k))
								}
								if arr != nil || len(v.Elts) == 0 {
									idxArrays[n.Name] = arr
								}
							case *ast.MapType:
								for _, e := range v.Elts {
									kv, isKV := e.(*ast.KeyValueExpr)
									if !isKV {
										delete(maps, n.Name)
										break
									}
									k, ok := evalInt(kv.Key, nil)
									if !ok {
										delete(maps, n.Name)
										break
									}
									switch val := kv.Value.(type) {
									case *ast.SliceExpr:
										lo, _ := evalInt(val.Low, nil)
										hi, _ := evalInt(val.High, nil)
										if id, isId := val.X.(*ast.Ident); isId {
											maps[n.Name] = append(maps[n.Name], rawMapEntry{key: k, name: id.Name, lo: int(lo), hi: int(hi)})
										}
									case *ast.Ident:
										maps[n.Name] = append(maps[n.Name], rawMapEntry{key: k, name: val.Name, whole: true})
									}
								}
							}
						}
					}
				}
			}
		}
	}
	res := map[string]Shape{}
	Failed = nil
	for _, fd := range funcs {
		sh, tname, err := func() (sh Shape, tname string, err error) {
			defer func() {
				if p := recover(); p != nil {
					err = fmt.Errorf("%s: unrecognised shape (%v)", tname, p)
				}
			}()
			return parseOneShape(fd, strConsts, idxArrays, func(mn string) []MapEntry {
				var out []MapEntry
				for _, e := range maps[mn] {
					s := strConsts[e.name]
					if !e.whole {
						if e.lo < 0 || e.hi > len(s) || e.lo > e.hi {
							panic("map slice out of range")
						}
						s = s[e.lo:e.hi]
					}
					out = append(out, MapEntry{e.key, s})
				}
				return out
			})
		}()
		if tname == "" {
			continue
		}
		if err != nil {
			Failed = append(Failed, tname)
			continue
		}
		res[tname] = sh
	}
	sort.Strings(Failed)
	return res, nil
}

// Failed lists the types whose String method ParseShapes could not read (a shape it does not know);
// the caller decides what to do about them.
var Failed []string

func parseOneShape(fd *ast.FuncDecl, strConsts map[string]string, idxArrays map[string][]int, mapOf func(string) []MapEntry) (Shape, string, error) {
	{
		var tname string
		switch t := fd.Recv.List[0].Type.(type) {
		case *ast.Ident:
			tname = t.Name
		default:
			return Shape{}, "", nil
		}
		if fd.Recv.List[0].Names == nil || fd.Recv.List[0].Names[0].Name != "i" {
			return Shape{}, "", nil // not a generated method (e.g. Latitude)
		}
		sh := Shape{Type: tname}
		body := fd.Body.List
		// returnExpr: name constant (whole) or name[index[i]:index[i+1]]
		retRun := func(e ast.Expr) (Run, error) {
			switch x := e.(type) {
			case *ast.Ident:
				s, ok := strConsts[x.Name]
				if !ok {
					return Run{}, fmt.Errorf("%s: unknown name constant %s", tname, x.Name)
				}
				return Run{Name: s}, nil
			case *ast.SliceExpr:
				nm := x.X.(*ast.Ident).Name
				s, ok := strConsts[nm]
				if !ok {
					return Run{}, fmt.Errorf("%s: unknown name constant %s", tname, nm)
				}
				lo, ok1 := x.Low.(*ast.IndexExpr)
				hi, ok2 := x.High.(*ast.IndexExpr)
				if !ok1 || !ok2 {
					return Run{}, fmt.Errorf("%s: unrecognised slice bounds", tname)
				}
				an := lo.X.(*ast.Ident).Name
				if hi.X.(*ast.Ident).Name != an {
					return Run{}, fmt.Errorf("%s: slice bounds use different arrays", tname)
				}
				if _, isI := lo.Index.(*ast.Ident); !isI {
					return Run{}, fmt.Errorf("%s: low index is not i", tname)
				}
				if be, ok := hi.Index.(*ast.BinaryExpr); !ok || be.Op != token.ADD {
					return Run{}, fmt.Errorf("%s: high index is not i+1", tname)
				}
				arr, ok := idxArrays[an]
				if !ok {
					return Run{}, fmt.Errorf("%s: unknown index array %s", tname, an)
				}
				return Run{Name: s, Index: arr}, nil
			}
			return Run{}, fmt.Errorf("%s: unrecognised return expression", tname)
		}
		offOf := func(s ast.Stmt) (int64, bool) {
			as, ok := s.(*ast.AssignStmt)
			if !ok || as.Tok != token.SUB_ASSIGN {
				return 0, false
			}
			v, ok := evalInt(as.Rhs[0], nil)
			return v, ok
		}
		switch first := body[0].(type) {
		case *ast.SwitchStmt:
			sh.Kind = "runs"
			for _, c := range first.Body.List {
				cc := c.(*ast.CaseClause)
				if cc.List == nil {
					continue // default
				}
				var run Run
				cond := cc.List[0].(*ast.BinaryExpr)
				switch cond.Op {
				case token.EQL:
					v, ok := evalInt(cond.Y, nil)
					if !ok {
						return Shape{}, tname, fmt.Errorf("%s: case value", tname)
					}
					run.Lo, run.Hi = v, v
				case token.LAND:
					l := cond.X.(*ast.BinaryExpr) // lo <= i
					h := cond.Y.(*ast.BinaryExpr) // i <= hi
					lo, ok1 := evalInt(l.X, nil)
					hi, ok2 := evalInt(h.Y, nil)
					if !ok1 || !ok2 || l.Op != token.LEQ || h.Op != token.LEQ {
						return Shape{}, tname, fmt.Errorf("%s: case bounds", tname)
					}
					run.Lo, run.Hi = lo, hi
				default:
					return Shape{}, tname, fmt.Errorf("%s: unrecognised case condition", tname)
				}
				stmts := cc.Body
				if off, ok := offOf(stmts[0]); ok {
					run.Off = off
					stmts = stmts[1:]
				}
				ret, ok := stmts[0].(*ast.ReturnStmt)
				if !ok {
					return Shape{}, tname, fmt.Errorf("%s: case body", tname)
				}
				r, err := retRun(ret.Results[0])
				if err != nil {
					return Shape{}, tname, err
				}
				run.Name, run.Index = r.Name, r.Index
				sh.Runs = append(sh.Runs, run)
			}
		case *ast.IfStmt:
			if first.Init != nil { // map lookup
				sh.Kind = "map"
				as := first.Init.(*ast.AssignStmt)
				mn := as.Rhs[0].(*ast.IndexExpr).X.(*ast.Ident).Name
				sh.Map = mapOf(mn)
				sort.Slice(sh.Map, func(a, b int) bool { return sh.Map[a].Key < sh.Map[b].Key })
			} else { // single run without offset
				sh.Kind = "single"
				ret := body[1].(*ast.ReturnStmt)
				r, err := retRun(ret.Results[0])
				if err != nil {
					return Shape{}, tname, err
				}
				sh.Single = r
			}
		case *ast.AssignStmt: // i -= K; if ...; return
			off, ok := offOf(first)
			if !ok || len(body) < 3 {
				return Shape{}, tname, fmt.Errorf("%s: unrecognised method body", tname)
			}
			sh.Kind = "single"
			ret := body[2].(*ast.ReturnStmt)
			r, err := retRun(ret.Results[0])
			if err != nil {
				return Shape{}, tname, err
			}
			r.Off = off
			sh.Single = r
		default:
			return Shape{}, tname, fmt.Errorf("%s: unrecognised method body", tname)
		}
		return sh, tname, nil
	}
}

// LeanCodes renders an ASCII string as a Lean list of character codes.
func LeanCodes(s string) string {
	if len(s) == 0 {
		return "[]"
	}
	n := new(big.Int)
	b := []byte(s)
	for i := len(b) - 1; i >= 0; i-- {
		n.Lsh(n, 8)
		n.Or(n, big.NewInt(int64(b[i])))
	}
	return "(unpack " + strconv.Itoa(len(b)) + " " + n.String() + ")"
}

// GoString renders a string as a Lean string literal.
func LeanString(s string) string {
	var b strings.Builder
	b.WriteByte('"')
	for _, c := range s {
		switch {
		case c == '"' || c == '\\':
			b.WriteByte('\\')
			b.WriteRune(c)
		case c < 32 || c > 126:
			fmt.Fprintf(&b, "\\u{%x}", c)
		default:
			b.WriteRune(c)
		}
	}
	b.WriteByte('"')
	return b.String()
}
