import FitModel.Basic
/-
  Model of /repo/internal/types/base.go and fit.go: base-type byte operations and the packed
  `types.Fit` code.  A base type is the raw byte `b`; the tables are indexed by `b & 0x1F`.
-/
namespace Fit.Base

def bsize : List Nat := [1, 1, 1, 2, 2, 4, 4, 1, 4, 8, 1, 2, 4, 1, 8, 8, 8]
def binteger : List Bool :=
  [false, true, true, true, true, true, true, false, false, false, true, true, true, false, true, true, true]
def bsigned : List Bool :=
  [false, true, false, true, false, true, false, false, true, true, false, false, false, false, true, false, false]

/-- number of entries of `bname` -/
def nNames : Nat := 17

def index (b : Nat) : Nat := b % 32            -- b & 0x1F
def multibyte (b : Nat) : Bool := b % 256 ≥ 128  -- b & 0x80 == 0x80

/-- `Size()`; out-of-range index would panic in Go, callers check `known` first. -/
def size (b : Nat) : Nat := bsize.getD (index b) 0
def signed (b : Nat) : Bool := bsigned.getD (index b) false
def integer (b : Nat) : Bool := binteger.getD (index b) false
def isFloat (b : Nat) : Bool := !integer b && signed b

/-- `Known()` -/
def known (b : Nat) : Bool :=
  decide (index b < nNames) && (multibyte b == decide (size b > 1))

def enum : Nat := 0x00
def sint8 : Nat := 0x01
def uint8 : Nat := 0x02
def sint16 : Nat := 0x83
def uint16 : Nat := 0x84
def sint32 : Nat := 0x85
def uint32 : Nat := 0x86
def string : Nat := 0x07
def float32 : Nat := 0x88
def float64 : Nat := 0x89
def uint8z : Nat := 0x0A
def uint16z : Nat := 0x8B
def uint32z : Nat := 0x8C
def byte : Nat := 0x0D
def sint64 : Nat := 0x8E
def uint64 : Nat := 0x8F
def uint64z : Nat := 0x90

/-- `decompress` of fit.go: 5-bit code back to the full base-type byte. -/
def decompress (b : Nat) : Nat :=
  let c := b % 32
  if c = 0x03 then sint16 else if c = 0x04 then uint16 else if c = 0x05 then sint32
  else if c = 0x06 then uint32 else if c = 0x08 then float32 else if c = 0x09 then float64
  else if c = 0x0B then uint16z else if c = 0x0C then uint32z else if c = 0x0E then sint64
  else if c = 0x0F then uint64 else if c = 0x10 then uint64z else c

/-- invalid value of a base type as an unsigned integer of its width (floats: all ones) -/
def invalidNat (b : Nat) : Nat :=
  match index b with
  | 0 => 0xFF | 1 => 0x7F | 2 => 0xFF | 3 => 0x7FFF | 4 => 0xFFFF | 5 => 0x7FFFFFFF
  | 6 => 0xFFFFFFFF | 7 => 0 | 8 => 0xFFFFFFFF | 9 => 0xFFFFFFFFFFFFFFFF | 10 => 0 | 11 => 0
  | 12 => 0 | 13 => 0xFF | 14 => 0x7FFFFFFFFFFFFFFF | 15 => 0xFFFFFFFFFFFFFFFF | _ => 0

end Fit.Base

namespace Fit

/-- kinds of `types.Fit` -/
inductive Kind | native | timeUTC | timeLocal | lat | lng | unknown (k : Nat)
deriving DecidableEq, Repr, Inhabited

/-- operations on the packed 16-bit profile type code `types.Fit` -/
def tcKind (t : Nat) : Kind :=
  match (t / 64) % 8 with    -- (f & 0x1C0) >> 6
  | 0 => .native | 1 => .timeUTC | 2 => .timeLocal | 3 => .lat | 4 => .lng | k => .unknown k

def tcArray (t : Nat) : Bool := (t / 32) % 2 == 1   -- (f & 0x20) >> 5 == 1
def tcBase (t : Nat) : Nat := Base.decompress (t % 256)

end Fit
