/-
  Basic vocabulary of the model: values stored in message struct fields, the Go kind of a
  struct field ("slot"), canonical text rendering shared with the Go harness, hex helpers.
  Core Lean only.
-/
namespace Fit

abbrev Bytes := List UInt8

/-! ### hex -/

def hexDigit (n : Nat) : Char :=
  if n < 10 then Char.ofNat (48 + n) else Char.ofNat (87 + n)

def hexByte (b : UInt8) : String :=
  String.ofList [hexDigit (b.toNat / 16), hexDigit (b.toNat % 16)]

def hexOf (bs : Bytes) : String :=
  String.ofList (bs.foldr (fun b acc => hexDigit (b.toNat / 16) :: hexDigit (b.toNat % 16) :: acc) [])

def hexVal (c : Char) : Option Nat :=
  if '0' ≤ c ∧ c ≤ '9' then some (c.toNat - 48)
  else if 'a' ≤ c ∧ c ≤ 'f' then some (c.toNat - 87)
  else if 'A' ≤ c ∧ c ≤ 'F' then some (c.toNat - 55)
  else none

def unhexChars : List Char → Option Bytes
  | [] => some []
  | [_] => none
  | a :: b :: rest =>
    match hexVal a, hexVal b, unhexChars rest with
    | some x, some y, some r => some (UInt8.ofNat (x * 16 + y) :: r)
    | _, _, _ => none

def unhex (s : String) : Option Bytes := unhexChars s.toList

/-! ### string splitting on plain lists (independent of the String API) -/

def splitChars (sep : Char) : List Char → List Char → List (List Char)
  | [], cur => [cur.reverse]
  | c :: cs, cur => if c == sep then cur.reverse :: splitChars sep cs [] else splitChars sep cs (c :: cur)

/-- split `s` at every `sep` (always at least one piece) -/
def splitOnChar (s : String) (sep : Char) : List String :=
  (splitChars sep s.toList []).map String.ofList

def natOfChars (cs : List Char) : Option Nat :=
  if cs.isEmpty then none
  else cs.foldl (fun acc c => match acc with
    | none => none
    | some n => if '0' ≤ c ∧ c ≤ '9' then some (n * 10 + (c.toNat - 48)) else none) (some 0)

def parseNat? (s : String) : Option Nat := natOfChars s.toList

def parseInt? (s : String) : Option Int :=
  match s.toList with
  | '-' :: rest => (natOfChars rest).map fun n => -(n : Int)
  | cs => (natOfChars cs).map fun n => (n : Int)

/-! ### little/big endian -/

inductive Endian | le | be
deriving DecidableEq, Repr, Inhabited

/-- unsigned value of a byte string in little-endian order -/
def leNat : Bytes → Nat
  | [] => 0
  | b :: bs => b.toNat + 256 * leNat bs

/-- unsigned value of a byte string in big-endian order -/
def beNat (bs : Bytes) : Nat := bs.foldl (fun acc b => acc * 256 + b.toNat) 0

def Endian.dec (e : Endian) (bs : Bytes) : Nat :=
  match e with
  | .le => leNat bs
  | .be => beNat bs

/-- `w` bytes of `n`, little-endian -/
def natLE : (w : Nat) → Nat → Bytes
  | 0, _ => []
  | w + 1, n => UInt8.ofNat (n % 256) :: natLE w (n / 256)

def natBE (w : Nat) (n : Nat) : Bytes := (natLE w n).reverse

def Endian.enc (e : Endian) (w n : Nat) : Bytes :=
  match e with
  | .le => natLE w n
  | .be => natBE w n

/-- two's-complement reading of an unsigned `bits`-bit value -/
def toSigned (bits : Nat) (n : Nat) : Int :=
  let m := n % 2 ^ bits
  if m < 2 ^ (bits - 1) then (m : Int) else (m : Int) - (2 ^ bits : Nat)

/-- unsigned `bits`-bit representation of an integer (wrap-around) -/
def toUnsigned (bits : Nat) (z : Int) : Nat := (z % (2 ^ bits : Nat)).toNat

/-! ### values held by message struct fields -/

/-- Go kind of a scalar: unsigned / signed / float of a bit width, or string. -/
inductive Sc
  | u (w : Nat) | i (w : Nat) | f (w : Nat) | s
deriving DecidableEq, Repr, Inhabited

/-- Go type of a message struct field, as far as `reflect` distinguishes it. -/
inductive SlotKind
  | sc (k : Sc)      -- scalar (named or unnamed) of that kind
  | sl (k : Sc)      -- slice whose element has that kind
  | time | lat | lng -- exactly time.Time / fit.Latitude / fit.Longitude
  | other
deriving DecidableEq, Repr, Inhabited

inductive Val
  | u (n : Nat)
  | i (z : Int)
  | f (bits : Nat)
  | s (b : Bytes)
  | us (xs : Option (List Nat))
  | is (xs : Option (List Int))
  | fs (xs : Option (List Nat))
  | ss (xs : Option (List Bytes))
  | t (secs : Int) (off : Int) (loc : Nat)   -- seconds since FIT epoch, zone offset, 0 = UTC / 1 = FITLOCAL / 2 = other
  | lat (z : Int)
  | lng (z : Int)
deriving DecidableEq, Repr, Inhabited

def joinWith (sep : String) : List String → String
  | [] => ""
  | [x] => x
  | x :: xs => x ++ sep ++ joinWith sep xs

def renderInt (z : Int) : String := toString z

def Val.render : Val → String
  | .u n => "u" ++ toString n
  | .i z => "i" ++ renderInt z
  | .f b => "f" ++ toString b
  | .s b => "s" ++ hexOf b
  | .us none => "n"
  | .us (some xs) => "U[" ++ joinWith "." (xs.map toString) ++ "]"
  | .is none => "n"
  | .is (some xs) => "I[" ++ joinWith "." (xs.map renderInt) ++ "]"
  | .fs none => "n"
  | .fs (some xs) => "F[" ++ joinWith "." (xs.map toString) ++ "]"
  | .ss none => "n"
  | .ss (some xs) => "S[" ++ joinWith "." (xs.map hexOf) ++ "]"
  | .t secs off loc => "t" ++ renderInt secs ++ "/" ++ renderInt off ++ "/" ++ toString loc
  | .lat z => "a" ++ renderInt z
  | .lng z => "o" ++ renderInt z

/-- A message: global number and the values of all struct fields in struct order. -/
structure Msg where
  num : Nat
  vals : List Val
deriving DecidableEq, Repr, Inhabited

def Msg.render (m : Msg) : String :=
  toString m.num ++ ":" ++ joinWith "," (m.vals.map Val.render)

/-- replace element `i` of a list (no-op when out of range) -/
def setAt {α} : List α → Nat → α → List α
  | [], _, _ => []
  | _ :: xs, 0, v => v :: xs
  | x :: xs, i + 1, v => x :: setAt xs i v

end Fit
