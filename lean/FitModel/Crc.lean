/-
  Model of /repo/dyncrc16/dyncrc16.go (nibble-table CRC-16/ARC) and its
  bit-serial specification.  Core Lean only.
-/
namespace Fit.Crc

/-- `crcTable` of dyncrc16.go, as written there. -/
def table : List (BitVec 16) :=
  [0x0000#16, 0xCC01#16, 0xD801#16, 0x1400#16,
   0xF001#16, 0x3C00#16, 0x2800#16, 0xE401#16,
   0xA001#16, 0x6C00#16, 0x7800#16, 0xB401#16,
   0x5000#16, 0x9C01#16, 0x8801#16, 0x4400#16]

/-- `crcTable[i & 0x0F]` -/
def tab (i : BitVec 16) : BitVec 16 :=
  table.getD (i &&& 0x000F#16).toNat 0#16

/-- `updateByte` of dyncrc16.go, statement by statement. -/
def updateByte (c : BitVec 16) (data : BitVec 8) : BitVec 16 :=
  let d := c
  let tmp := tab d
  let d := (d >>> 4) &&& 0x0FFF#16
  let d := d ^^^ tmp ^^^ tab (data.zeroExtend 16)
  let tmp := tab d
  let d := (d >>> 4) &&& 0x0FFF#16
  let d := d ^^^ tmp ^^^ tab ((data >>> 4).zeroExtend 16)
  d

/-- `update` : fold over the bytes. -/
def update (c : BitVec 16) (data : List UInt8) : BitVec 16 :=
  data.foldl (fun c b => updateByte c b.toBitVec) c

/-- `Checksum`. -/
def checksum (data : List UInt8) : BitVec 16 := update 0#16 data

/-- The streaming object (`crc16` behind `Hash16`): state is the register. -/
structure Hash where
  reg : BitVec 16
deriving Repr

def Hash.new : Hash := ⟨0#16⟩
def Hash.write (h : Hash) (d : List UInt8) : Hash := ⟨update h.reg d⟩
def Hash.sum16 (h : Hash) : BitVec 16 := h.reg
def Hash.reset (_ : Hash) : Hash := ⟨0#16⟩
/-- `Sum(in)` appends big-endian (hi, lo). -/
def Hash.sum (h : Hash) (inp : List UInt8) : List UInt8 :=
  inp ++ [UInt8.ofNat ((h.reg >>> 8).toNat % 256), UInt8.ofNat (h.reg.toNat % 256)]

/-! ### Specification: reflected bit-serial CRC-16, polynomial 0xA001, init 0 -/

def poly : BitVec 16 := 0xA001#16

/-- One step of the reflected shift register with input bit `b`. -/
def bitStep (c : BitVec 16) (b : Bool) : BitVec 16 :=
  let fb := (c.getLsbD 0) ^^ b
  let s := c >>> 1
  if fb then s ^^^ poly else s

/-- Feed bits, first element first. -/
def bitsStep (c : BitVec 16) (bs : List Bool) : BitVec 16 := bs.foldl bitStep c

/-- Bits of a byte, least-significant first. -/
def byteBits (b : BitVec 8) : List Bool :=
  [b.getLsbD 0, b.getLsbD 1, b.getLsbD 2, b.getLsbD 3,
   b.getLsbD 4, b.getLsbD 5, b.getLsbD 6, b.getLsbD 7]

def specByte (c : BitVec 16) (b : BitVec 8) : BitVec 16 := bitsStep c (byteBits b)

def specUpdate (c : BitVec 16) (data : List UInt8) : BitVec 16 :=
  data.foldl (fun c b => specByte c b.toBitVec) c

def specChecksum (data : List UInt8) : BitVec 16 := specUpdate 0#16 data

/-- Low and high byte of a register (little-endian append order). -/
def lo (c : BitVec 16) : UInt8 := ⟨c.truncate 8⟩
def hi (c : BitVec 16) : UInt8 := ⟨(c >>> 8).truncate 8⟩

end Fit.Crc
