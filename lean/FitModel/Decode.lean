import FitModel.Source
import FitModel.File
/-
  Model of reader.go + header.go: the decoder as a `Prog Outcome`.
  Every Go panic site on the decode path is an explicit `panic` outcome.
-/
namespace Fit

/-! ### constants (consts.go, time.go) -/

def compressedHeaderMask : Nat := 0x80
def mesgDefinitionMask : Nat := 0x40
def devDataMask : Nat := 0x20
def headerSizeCRC : Nat := 14
def headerSizeNoCRC : Nat := 12
def fieldNumTimeStamp : Nat := 253
def systemTimeMarker : Nat := 0x10000000
def mesgNumInvalid : Nat := 0xFFFF
def protoMajorMax : Nat := 2
def fitTag : Bytes := [0x2E, 0x46, 0x49, 0x54]   -- ".FIT"

/-- `b & mask == mask` for single-bit masks -/
def hasBit (b mask : Nat) : Bool := (b / mask) % 2 == 1

inductive Mode | full | headerOnly | fileIdOnly | crcOnly
deriving DecidableEq, Repr, Inhabited

def fail (st : DecSt) (c : ErrClass) : Outcome := { err := some c, st := st }
def panicOut (st : DecSt) : Outcome := { err := none, panic := true, st := st }
def okOut (st : DecSt) : Outcome := { err := none, st := st }

/-- An early exit of the record phase: an error class or (`none`) a panic — by construction never
    a success. -/
structure ErrExit where
  err : Option ErrClass
  st : DecSt
deriving Repr, Inhabited

def ErrExit.toOutcome (e : ErrExit) : Outcome :=
  match e.err with
  | some c => fail e.st c
  | none => panicOut e.st

/-- programs of the record phase: early exit or the decoder state -/
abbrev DP := DProg ErrExit DecSt

def dfail (st : DecSt) (c : ErrClass) : DP := .exit ⟨some c, st⟩
def dpanic (st : DecSt) : DP := .exit ⟨none, st⟩

/-- error class of a failed buffered read (`fill` → FormatError, `noEOF`) -/
def bufErr : RdStop → ErrClass
  | .limit => .format
  | .eof => .ueof
  | .fault => .fault

/-- `readFull` / `readByte` / `skipByte`: `k` bytes of the data area -/
def rd (st : DecSt) (k : Nat) (cont : Bytes → DecSt → DP) : DP :=
  .readBuf k (fun e => ⟨some (bufErr e), st⟩)
    (fun bs => cont bs { st with n := st.n + k, crc := Crc.update st.crc bs })

/-! ### validateFieldDef -/

def validateFieldDef (P : Profile) (gmn : Nat) (fd : FieldDef) : Bool :=
  if !Base.known fd.btype then false
  else
    let pf := if P.known gmn then P.getField gmn fd.num else none
    if fd.btype = Base.string then
      match pf with
      | none => true
      | some p => tcBase p.tcode = fd.btype
    else if fd.size < Base.size fd.btype then false
    else match pf with
      | none => true
      | some p =>
        let pb := tcBase p.tcode
        if !tcArray p.tcode then
          if fd.size > Base.size pb then false
          else if fd.btype ≠ pb then
            if Base.signed pb ≠ Base.signed fd.btype then false
            else if Base.isFloat fd.btype && !Base.isFloat pb then false
            else if pb = Base.string ∧ fd.btype ≠ Base.string then false
            else true
          else true
        else
          if fd.size % Base.size fd.btype ≠ 0 then false
          else if fd.btype ≠ pb then false
          else true

/-! ### reflection on message structs -/

/-- `fieldv.SetUint(x)` -/
def setUint (k : SlotKind) (x : Nat) : Option Val :=
  match k with
  | .sc (.u w) => some (.u (x % 2 ^ w))
  | _ => none

/-- `fieldv.SetInt(x)` -/
def setInt (k : SlotKind) (x : Int) : Option Val :=
  match k with
  | .sc (.i w) => some (.i (toSigned w (toUnsigned 64 x)))
  | _ => none

def setFloat (k : SlotKind) (bits : Nat) : Option Val :=
  match k with
  | .sc (.f _) => some (.f bits)
  | _ => none

/-- split `dsize` bytes into `dsize / w` elements of `w` bytes -/
def chunks (w : Nat) (bs : Bytes) : (fuel : Nat) → List Bytes
  | 0 => []
  | fuel + 1 => if bs.length < w ∨ w = 0 then [] else bs.take w :: chunks w (bs.drop w) fuel

/-- the string-array loop of `parseFitFieldArray` (tmp[0:dsize] = `bs`, dsize > 0) -/
def splitStrings (bs : Bytes) : List Bytes :=
  let rec go (rest : Bytes) (cur : Bytes) (acc : List Bytes) : List Bytes :=
    match rest with
    | [] => if cur.isEmpty then acc else acc ++ [cur]     -- no terminator, no room for one
    | b :: rest' =>
      if b == 0 then
        if cur.isEmpty then acc                            -- k == 0: stop
        else go rest' [] (acc ++ [cur])
      else go rest' (cur ++ [b]) acc
  go bs [] []

inductive FieldRes
  | ok (v : Option Val)      -- new value, or field left untouched
  | err                      -- returned error ("unknown base type")
  | panic

/-- `parseFitField`: scalar profile field, decoded by the *definition's* base type from
    `tmp[:dsize]`. -/
def parseFitField (arch : Endian) (fd : FieldDef) (k : SlotKind) (tmp : Bytes) : FieldRes :=
  let b := fd.btype
  let first := (tmp.headD 0).toNat
  let wrapU (o : Option Val) : FieldRes := match o with | some v => .ok (some v) | none => .panic
  if b = Base.byte ∨ b = Base.enum ∨ b = Base.uint8 ∨ b = Base.uint8z then
    if tmp.isEmpty then .panic else wrapU (setUint k first)
  else if b = Base.sint8 then
    if tmp.isEmpty then .panic else wrapU (setInt k (toSigned 8 first))
  else if b = Base.sint16 then
    if tmp.length < 2 then .panic else wrapU (setInt k (toSigned 16 (arch.dec (tmp.take 2))))
  else if b = Base.uint16 ∨ b = Base.uint16z then
    if tmp.length < 2 then .panic else wrapU (setUint k (arch.dec (tmp.take 2)))
  else if b = Base.sint32 then
    if tmp.length < 4 then .panic else wrapU (setInt k (toSigned 32 (arch.dec (tmp.take 4))))
  else if b = Base.uint32 ∨ b = Base.uint32z then
    if tmp.length < 4 then .panic else wrapU (setUint k (arch.dec (tmp.take 4)))
  else if b = Base.float32 then
    if tmp.length < 4 then .panic else wrapU (setFloat k (arch.dec (tmp.take 4)))
  else if b = Base.float64 then
    if tmp.length < 8 then .panic else wrapU (setFloat k (arch.dec (tmp.take 8)))
  else if b = Base.string then
    let s := tmp.takeWhile (· != 0)
    if s.isEmpty then .ok none
    else match k with
      | .sc .s => .ok (some (.s s))
      | _ => .panic
  else .err

/-- `parseFitFieldArray` -/
def parseFitFieldArray (arch : Endian) (fd : FieldDef) (k : SlotKind) (tmp : Bytes) : FieldRes :=
  let b := fd.btype
  if b = Base.byte then
    match k with
    | .sl (.u 8) => .ok (some (.us (some (tmp.map (·.toNat)))))
    | _ => .panic
  else match k with
    | .sl ek =>
      let w := Base.size b
      if w = 0 then .panic   -- division by zero (unreachable: b is Known)
      else
        let elems := chunks w tmp tmp.length
        let us (f : Nat → Option Val) : FieldRes :=
          match elems.mapM (fun e => f (arch.dec e)) with
          | some vs =>
            match ek with
            | .u _ => .ok (some (.us (some (vs.filterMap fun v => match v with | .u n => some n | _ => none))))
            | .i _ => .ok (some (.is (some (vs.filterMap fun v => match v with | .i n => some n | _ => none))))
            | .f _ => .ok (some (.fs (some (vs.filterMap fun v => match v with | .f n => some n | _ => none))))
            | .s => .panic
          | none => .panic
        if b = Base.uint8 ∨ b = Base.uint8z ∨ b = Base.enum ∨ b = Base.uint16 ∨ b = Base.uint16z
            ∨ b = Base.uint32 ∨ b = Base.uint32z then us (fun x => setUint (.sc ek) x)
        else if b = Base.sint8 ∨ b = Base.sint16 ∨ b = Base.sint32 then us (fun x => setInt (.sc ek) x)
        else if b = Base.float32 ∨ b = Base.float64 then us (fun x => setFloat (.sc ek) x)
        else if b = Base.string then
          if fd.size = 0 then .ok none
          else match ek with
            | .s =>
              let ss := splitStrings tmp
              .ok (some (.ss (if ss.isEmpty then none else some ss)))
            | _ => .panic
        else .err
    | _ => .panic   -- reflect.MakeSlice on a non-slice type

/-! ### time stamps -/

/-- the compressed-timestamp reference kept by the decoder -/
structure TsRef where
  timestamp : Nat
  lastOff : Nat
deriving DecidableEq, Repr, Inhabited

/-- advance the reference by a 5-bit offset (compressed-timestamp header) -/
def tsAdvance (timestamp lastOff off : Nat) : Nat :=
  (timestamp + ((off + 32 - lastOff) % 32)) % 2 ^ 32

/-- `parseTimeStamp`: returns the new field value (if any) and the updated reference -/
def parseTimeStamp (ts : TsRef) (pf : PField) (u32 : Nat) : Option Val × TsRef :=
  if u32 = 0xFFFFFFFF then (none, ts)
  else if tcKind pf.tcode = .timeUTC then
    let ts' := if pf.num = fieldNumTimeStamp then { timestamp := u32, lastOff := u32 % 32 } else ts
    (some (.t u32 0 0), ts')
  else
    if ts.timestamp = 0 ∨ ts.timestamp < systemTimeMarker then
      (some (.t u32 0 1), ts)            -- no reference: zero offset; the reference is not touched
    else
      (some (.t ts.timestamp ((u32 : Int) - (ts.timestamp : Int)) 1), ts)

/-! ### data records -/

/-- Widen the `dsize` bytes read into `tmp` to the profile size `psize` in the definition's
    byte order (time and coordinate fields read 4 bytes whatever the definition says):
    zero-extended, or sign-extended when the definition's base type is a signed integer. -/
def padTmp (arch : Endian) (btype : Nat) (raw : Bytes) (dsize psize : Nat) : Bytes :=
  if dsize < psize ∧ 0 < dsize then
    let msb := match arch with
      | .le => (raw.getLastD 0).toNat
      | .be => (raw.headD 0).toNat
    let fill : UInt8 := if Base.signed btype ∧ Base.integer btype ∧ msb ≥ 128 then 0xFF else 0
    match arch with
    | .le => raw ++ List.replicate (psize - dsize) fill
    | .be => List.replicate (psize - dsize) fill ++ raw
  else raw

inductive FieldsRes
  | ok (m : Option Msg) (ts : TsRef)
  | err                      -- "unknown base type" error
  | panic

/-- One field of `parseDataFields`, after its `dsize` bytes have been read.  It can only
    change the message under construction and the timestamp reference. -/
def applyField (P : Profile) (dm : DefMsg) (known : Bool) (fd : FieldDef) (raw : Bytes)
    (m : Option Msg) (ts : TsRef) : FieldsRes :=
  match P.getField dm.global fd.num with
  | none => .ok m ts
  | some pf =>
    let pb := tcBase pf.tcode
    -- native fields are decoded by the definition's own type from tmp[:dsize]; only time and
    -- coordinate fields are widened to the profile size
    let tmp :=
      if pb ≠ Base.string ∧ !tcArray pf.tcode ∧ tcKind pf.tcode ≠ .native then
        padTmp dm.arch fd.btype raw fd.size (Base.size pb)
      else raw
    if !known then .ok m ts
    else match m, P.msg? dm.global with
      | some msg, some pm =>
        match pm.layout[pf.sindex]? with
        | none => .panic                               -- msgv.Field(i) out of range
        | some k =>
          let store (v : Option Val) (ts : TsRef) : FieldsRes :=
            match v with
            | none => .ok (some msg) ts
            | some v => .ok (some { msg with vals := setAt msg.vals pf.sindex v }) ts
          match tcKind pf.tcode with
          | .native =>
            let r := if !tcArray pf.tcode then parseFitField dm.arch fd k (tmp.take fd.size)
                     else parseFitFieldArray dm.arch fd k (tmp.take fd.size)
            match r with
            | .ok v => store v ts
            | .err => .err
            | .panic => .panic
          | .timeUTC | .timeLocal =>
            if tmp.length < 4 then .panic
            else
              let (v, ts') := parseTimeStamp ts pf (dm.arch.dec (tmp.take 4))
              if v.isSome ∧ k ≠ .time then .panic else store v ts'
          | .lat =>
            if tmp.length < 4 then .panic
            else if k ≠ .lat then .panic
            else
              let s := toSigned 32 (dm.arch.dec (tmp.take 4))
              -- NewLatitude
              let s' : Int := if s = 0x7FFFFFFF then 0x7FFFFFFF
                else if s < -1073741824 ∨ s > 1073741823 then 0x7FFFFFFF else s
              store (some (.lat s')) ts
          | .lng =>
            if tmp.length < 4 then .panic
            else if k ≠ .lng then .panic
            else store (some (.lng (toSigned 32 (dm.arch.dec (tmp.take 4))))) ts
          | .unknown _ => .panic                       -- "unreachable: unknown kind"
      | _, _ => .panic                                 -- known message without a struct value

def DecSt.ts (st : DecSt) : TsRef := ⟨st.timestamp, st.lastOff⟩
def DecSt.setTs (st : DecSt) (ts : TsRef) : DecSt := { st with timestamp := ts.timestamp, lastOff := ts.lastOff }

/-- the field loop of `parseDataFields` -/
def parseFields (P : Profile) (dm : DefMsg) (known : Bool) :
    List FieldDef → Option Msg → DecSt → (Option Msg → DecSt → DP) → DP
  | [], m, st, cont => cont m st
  | fd :: fds, m, st, cont =>
    let st :=
      -- counted unconditionally; `finalize` publishes the counts only when the option is set
      if (P.getField dm.global fd.num).isNone ∧ known then
        { st with unkF := bump (dm.global, fd.num) st.unkF }
      else st
    rd st fd.size fun raw st =>
      match applyField P dm known fd raw m st.ts with
      | .err => dfail st .other
      | .panic => dpanic st
      | .ok m ts => parseFields P dm known fds m (st.setTs ts) cont

/-- developer fields are read and dropped -/
def skipDev : List DevDesc → DecSt → (DecSt → DP) → DP
  | [], st, cont => cont st
  | d :: ds, st, cont => rd st d.size fun _ st => skipDev ds st cont

/-- `parseDataMessage` + `parseDataFields` -/
def parseData (P : Profile) (hb : Nat) (compressed : Bool) (st : DecSt)
    (cont : Option Msg → DecSt → DP) : DP :=
  let localT := if compressed then (hb / 32) % 4 else hb % 16
  let useTs : Bool := compressed && decide (st.timestamp ≠ 0)   -- a compressed header needs a reference
  match st.defs.getD localT none with
  | none => dfail st .other
  | some dm =>
    let known := P.known dm.global
    let ctor := match P.msg? dm.global with
      | some pm => if pm.hasCtor then some (Msg.mk dm.global pm.invalid) else none
      | none => none
    if known ∧ ctor.isNone then dpanic st       -- getMesgAllInvalid: nil / out of range
    else
      let m : Option Msg := if known then ctor else none
      let st := if !known then { st with unkM := bump dm.global st.unkM } else st
      let body (m : Option Msg) (st : DecSt) : DP :=
        parseFields P dm known dm.fields m st fun m st =>
          skipDev dm.dev st fun st => cont m st
      if !useTs then body m st
      else
        let off := hb % 32
        let ts : Nat := tsAdvance st.timestamp st.lastOff off
        let st := { st with timestamp := ts, lastOff := off }
        match P.getField dm.global fieldNumTimeStamp with
        | none => body m st
        | some pf =>
          match m, P.msg? dm.global with
          | some msg, some pm =>
            match pm.layout[pf.sindex]? with
            | some .time => body (some { msg with vals := setAt msg.vals pf.sindex (.t (Int.ofNat ts) 0 0) }) st
            | _ => dpanic st
          | _, _ => dpanic st                   -- msgv.Field on the zero Value

def parseFieldDefs (bs : Bytes) : (n : Nat) → List FieldDef
  | 0 => []
  | n + 1 =>
    match bs with
    | a :: b :: c :: rest => ⟨a.toNat, b.toNat, c.toNat⟩ :: parseFieldDefs rest n
    | _ => []

def parseDevDescs (bs : Bytes) : (n : Nat) → List DevDesc
  | 0 => []
  | n + 1 =>
    match bs with
    | a :: b :: c :: rest => ⟨a.toNat, b.toNat, c.toNat⟩ :: parseDevDescs rest n
    | _ => []

/-- `parseDefinitionMessage` -/
def parseDefinition (P : Profile) (hb : Nat) (st : DecSt) (cont : DefMsg → DecSt → DP) : DP :=
  let localT := hb % 16
  rd st 1 fun _ st =>                                    -- reserved
  rd st 1 fun a st =>
    let archB := (a.headD 0).toNat
    if archB > 1 then dfail st .other
    else
      let arch : Endian := if archB = 0 then .le else .be
      rd st 2 fun g st =>
        let global := arch.dec g
        if global = mesgNumInvalid then dfail st .format
        else rd st 1 fun nf st =>
          let nfields := (nf.headD 0).toNat
          if nfields = 0 ∧ !hasBit hb devDataMask then cont ⟨localT, arch, global, [], []⟩ st
          else rd st (3 * nfields) fun fb st =>
            let fds := parseFieldDefs fb nfields
            if !(fds.all (validateFieldDef P global)) then dfail st .other
            else if hasBit hb devDataMask then
              rd st 1 fun nd st =>
                let ndev := (nd.headD 0).toNat
                rd st (3 * ndev) fun db st =>
                  cont ⟨localT, arch, global, fds, parseDevDescs db ndev⟩ st
            else cont ⟨localT, arch, global, fds, []⟩ st

/-- `d.file.add(msg)` -/
def addMsg (P : Profile) (m : Option Msg) (st : DecSt) : Option DecSt :=
  match m with
  | none => some st
  | some msg =>
    match st.file with
    | none => none
    | some f =>
      match f.add P msg st.glob with
      | none => none
      | some (f', g') => some { st with file := some f', glob := g' }

/-- `decodeFileData` -/
def decodeFileData (P : Profile) (limit : Nat) :
    (fuel : Nat) → DecSt → (DecSt → DP) → DP
  | 0, st, cont => cont st
  | fuel + 1, st, cont =>
    if st.n < limit then
      rd st 1 fun hbs st =>
        let hb := (hbs.headD 0).toNat
        if hasBit hb compressedHeaderMask then
          parseData P hb true st fun m st =>
            match addMsg P m st with
            | none => dpanic st
            | some st => decodeFileData P limit fuel st cont
        else if hasBit hb mesgDefinitionMask then
          parseDefinition P hb st fun dm st =>
            decodeFileData P limit fuel { st with defs := setAt st.defs dm.localT (some dm) } cont
        else
          parseData P hb false st fun m st =>
            match addMsg P m st with
            | none => dpanic st
            | some st => decodeFileData P limit fuel st cont
    else cont st

/-- `parseFileIdMsg` -/
def parseFileIdMsg (P : Profile) (st : DecSt) (cont : DecSt → DP) : DP :=
  rd st 1 fun hbs st =>
    let hb := (hbs.headD 0).toNat
    if !hasBit hb mesgDefinitionMask then dfail st .other
    else parseDefinition P hb st fun dm st =>
      if dm.global ≠ mnFileId then dfail st .other
      else
        let st := { st with defs := setAt st.defs dm.localT (some dm) }
        rd st 1 fun hbs2 st =>
          let hb2 := (hbs2.headD 0).toNat
          parseData P hb2 false st fun m st =>
            match m with
            | none => dpanic st                 -- msg.Interface() on the zero Value
            | some msg =>
              if msg.num ≠ mnFileId then dfail st .other
              else match addMsg P (some msg) st with
                | none => dpanic st
                | some st => cont st

/-- `checkCRC` -/
def checkCRC (st : DecSt) : TProg Outcome :=
  .readDirect 2
    (fun _ stop => fail st (match stop with | .eof => .ueof | .fault => .fault))
    (fun bs =>
      let crc := Crc.update st.crc bs
      let st := { st with crc := crc, file := st.file.map fun f => { f with crc := leNat bs } }
      .done (if crc = 0#16 then okOut st else fail st .integrity))

/-- `decodeHeader` -/
abbrev HP := HProg Outcome ErrExit DecSt

/-- The checks `decodeHeader` makes once the size byte `sb` and the remaining `size - 1` header
    bytes `tmp` are read (protocol version, tag, CRC); fills in `st.hdr` and the running CRC. -/
def headerCheck (st : DecSt) (sb tmp : Bytes) : Except (ErrClass × DecSt) DecSt :=
  let size := (sb.headD 0).toNat
  let proto := (tmp.headD 0).toNat
  if proto / 16 > protoMajorMax then .error (.notsupported, st)
  else
    let pv := leNat ((tmp.drop 1).take 2)
    let ds := leNat ((tmp.drop 3).take 4)
    let h : Header := { st.hdr with proto := proto, profile := pv, dataSize := ds }
    let st := { st with hdr := h }
    if (tmp.drop 7).take 4 ≠ fitTag then .error (.format, st)
    else
      let h := { h with dtype := (tmp.drop 7).take 4 }
      let crc := Crc.update (Crc.update st.crc sb) tmp
      let st := { st with hdr := h, crc := crc }
      if size = headerSizeNoCRC then .ok st
      else
        let hc := leNat ((tmp.drop 11).take 2)
        let st := { st with hdr := { h with crc := hc } }
        if hc = 0 then .ok st
        else if crc ≠ 0#16 then .error (.integrity, st)
        else .ok st

/-- `decodeHeader` -/
def decodeHeader (st : DecSt) (cont : DecSt → HP) : HP :=
  .readDirect 1
    (fun _ stop => match stop with
      | .eof => { fail st .ioerr with cleanEOF := true }     -- errReadSize: no byte of a header
      | .fault => fail st .fault)
    (fun sb =>
      let size := (sb.headD 0).toNat
      let st := { st with hdr := { st.hdr with size := size } }
      if size ≠ headerSizeCRC ∧ size ≠ headerSizeNoCRC then .done (fail st .format)
      else .readDirect (size - 1)
        (fun _ stop => fail st (match stop with | .eof => .ioerr | .fault => .fault))
        (fun tmp =>
          match headerCheck st sb tmp with
          | .error (c, st') => .done (fail st' c)
          | .ok st' => cont st'))

/-- `Header.MarshalBinary` layout with the stored CRC (14 bytes; 12 without CRC) -/
def Header.marshal (h : Header) : Bytes :=
  [u8' h.size, u8' h.proto] ++ natLE 2 h.profile ++ natLE 4 h.dataSize ++ h.dtype ++
    (if h.size = headerSizeNoCRC then [] else natLE 2 h.crc)
where u8' (n : Nat) : UInt8 := UInt8.ofNat n

/-- `Header.CheckIntegrity` (the method on a Header value) -/
def Header.checkIntegrity (h : Header) : Option ErrClass :=
  if h.proto / 16 > protoMajorMax then some .notsupported
  else if h.dtype ≠ fitTag then some .format
  else if h.size = headerSizeNoCRC then none
  else if h.size ≠ headerSizeCRC then some .format          -- illegal header size
  else if h.crc = 0 then none
  else if Crc.checksum h.marshal ≠ 0#16 then some .integrity
  else none

/-- zero value of `FileIdMsg` (the `new(File)` state) -/
def zeroFileId (P : Profile) : Msg :=
  match P.msg? mnFileId with
  | some pm => ⟨mnFileId, pm.layout.map zeroVal⟩
  | none => ⟨mnFileId, []⟩

/-- the record phase after the header: file_id, `init`, all records (`decodeFileData`) -/
def recordsProg (P : Profile) (mode : Mode) (st : DecSt) : DP :=
  parseFileIdMsg P st fun st =>
    if mode = .fileIdOnly then .done st
    else match st.file with
      | none => dpanic st
      | some f =>
        match f.init P with
        | .error c => dfail st c
        | .ok f' =>
          let st := { st with file := some f' }
          decodeFileData P st.hdr.dataSize (st.hdr.dataSize + 1) st fun st => .done st

/-- `(*decoder).decode` -/
def decodeProg (P : Profile) (mode : Mode) (g : Globals) : HP :=
  decodeHeader (DecSt.init g) fun st =>
    let st := { st with file := some { hdr := st.hdr, fileId := zeroFileId P } }
    match mode with
    | .headerOnly => .done (okOut st)
    | .crcOnly =>
      .copyAll st.hdr.dataSize
        (fun stop => fail st (match stop with | .eof => .eof | .fault => .fault))
        (fun bs => checkCRC { st with crc := Crc.update st.crc bs })
    | .fileIdOnly =>
      .dataOnly st.hdr.dataSize (recordsProg P mode { st with unkInit := true }) ErrExit.toOutcome okOut
    | .full =>
      -- records, then the pre-CRC invariant check (`n == limit`, else panic), then the trailer
      .data st.hdr.dataSize (recordsProg P mode { st with unkInit := true }) ErrExit.toOutcome panicOut checkCRC

/-- sort an association list by key (insertion sort; keys are distinct) -/
def insertBy {α} (lt : α → α → Bool) (x : α) : List α → List α
  | [] => [x]
  | y :: ys => if lt x y then x :: y :: ys else y :: insertBy lt x ys

def sortBy {α} (lt : α → α → Bool) (xs : List α) : List α := xs.foldr (insertBy lt) []

/-- the deferred `handleUnknownFields` / `handleUnknownMessages` -/
def finalize (opts : Opts) (o : Outcome) : Outcome :=
  if !o.st.unkInit then o
  else
    let uf : List (Nat × Nat × Nat) :=
      (sortBy (fun a b => a.1.1 < b.1.1 ∨ (a.1.1 = b.1.1 ∧ a.1.2 < b.1.2)) o.st.unkF).map
        fun ((m, n), c) => (m, n, c)
    let um : List (Nat × Nat) := sortBy (fun a b => a.1 < b.1) o.st.unkM
    let f := o.st.file.map fun f =>
      let f := if opts.unkFields then { f with unkF := some uf } else f
      if opts.unkMsgs then { f with unkM := some um } else f
    { o with st := { o.st with file := f } }

/-- one call of `d.decode(r, …)` on a fresh decoder -/
def decode (P : Profile) (opts : Opts) (mode : Mode) (g : Globals) (r : Reader) : Outcome × Reader :=
  let (o, r') := runBuffered (decodeProg P mode g) r
  (finalize opts o, r')

/-- the same call under the specification interpreter -/
def decodeSpec (P : Profile) (opts : Opts) (mode : Mode) (g : Globals) (data : Bytes) (stop : Stop) :
    Outcome × SpecSt :=
  let (o, s) := runSpec (decodeProg P mode g) { rest := data, stop := stop, taken := 0 }
  (finalize opts o, s)

structure ChainRes where
  files : List FileSt
  err : Option ErrClass
  panic : Bool
  glob : Globals
  r : Reader

/-- `DecodeChained` -/
def decodeChained (P : Profile) (opts : Opts) : (fuel : Nat) → Nat → List FileSt → Globals → Reader → ChainRes
  | 0, _, acc, g, r => ⟨acc, none, false, g, r⟩
  | fuel + 1, i, acc, g, r =>
    let (o, r') := decode P opts .full g r
    if o.panic then ⟨acc, none, true, o.st.glob, r'⟩
    else match o.err with
      | some c =>
        if o.cleanEOF ∧ i ≠ 0 then ⟨acc, none, false, o.st.glob, r'⟩   -- clean end on a file boundary
        else
          let acc := match o.st.file with
            | some f => acc ++ [f]
            | none => acc
          ⟨acc, some c, false, o.st.glob, r'⟩
      | none =>
        match o.st.file with
        | some f => decodeChained P opts fuel (i + 1) (acc ++ [f]) o.st.glob r'
        | none => ⟨acc, none, true, o.st.glob, r'⟩

structure ChainSpecRes where
  files : List FileSt
  err : Option ErrClass
  panic : Bool
  glob : Globals
  rest : Bytes

/-- `DecodeChained` under the specification interpreter: each decode starts where the previous
    one stopped in the byte list -/
def decodeChainedSpec (P : Profile) (opts : Opts) :
    (fuel : Nat) → Nat → List FileSt → Globals → Bytes → Stop → ChainSpecRes
  | 0, _, acc, g, d, _ => ⟨acc, none, false, g, d⟩
  | fuel + 1, i, acc, g, d, stop =>
    let res := decodeSpec P opts .full g d stop
    if res.1.panic then ⟨acc, none, true, res.1.st.glob, res.2.rest⟩
    else match res.1.err with
      | some c =>
        if res.1.cleanEOF ∧ i ≠ 0 then ⟨acc, none, false, res.1.st.glob, res.2.rest⟩
        else ⟨(match res.1.st.file with | some f => acc ++ [f] | none => acc), some c, false, res.1.st.glob, res.2.rest⟩
      | none =>
        match res.1.st.file with
        | some f => decodeChainedSpec P opts fuel (i + 1) (acc ++ [f]) res.1.st.glob res.2.rest stop
        | none => ⟨acc, none, true, res.1.st.glob, res.2.rest⟩

end Fit
