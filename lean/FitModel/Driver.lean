import FitModel.Decode
import FitModel.Options
import FitModel.Items
import FitModel.LatLng
import FitModel.Encode
import FitModel.Parse
import FitModel.Gen.Strings
import FitModel.GenCore
import FitModel.ExpandSpec
import FitModel.Gen.Profile
/-
  Line-protocol driver: one case per input line, one canonical result line per case.
  The Go harness sends the same cases to the real code and diffs the two streams.
-/
namespace Fit.Driver
open Fit

def P : Profile := Gen.profile

def parseNatList (s : String) (sep : Char) : List Nat :=
  if s.isEmpty then [] else (splitOnChar s sep).map (fun t => (parseNat? t).getD 0)

/-- option string `LFM`, as the harness reads it (impl.go, parseOpts): L = 0 no logger, 1 `WithLogger`
    first, 2 `WithLogger` last, 3 `WithStdLogger` first, 4 `WithStdLogger` last; F unknown fields;
    M unknown messages — the list in the order in which the options are passed to the real code -/
def parseOptList (s : String) : List DOpt :=
  let cs := s.toList
  let l := cs.getD 0 '0'
  (if l == '1' then [DOpt.logger] else if l == '3' then [DOpt.stdLogger] else []) ++
  (if cs.getD 1 '0' == '1' then [DOpt.unkFields] else []) ++
  (if cs.getD 2 '0' == '1' then [DOpt.unkMsgs] else []) ++
  (if l == '2' then [DOpt.logger] else if l == '4' then [DOpt.stdLogger] else [])

def parseOpts (s : String) : Opts := applyOpts (parseOptList s)

/-- reader spec: `-` or `+`-joined tokens `s:<n.n.n>` (schedule), `e` (last bytes with error), `f` (ends in fault) -/
def parseReader (spec : String) (data : Bytes) : Reader :=
  let toks := if spec == "-" then [] else splitOnChar spec '+'
  toks.foldl (fun r t =>
    if t == "e" then { r with errWithData := true }
    else if t == "f" then { r with stop := .fault }
    else match t.toList with
      | 's' :: ':' :: rest => { r with sched := parseNatList (String.ofList rest) '.' }
      | _ => r
) (Reader.ofBytes data)

def parseAccu (s : String) : Accu :=
  match parseNatList s ',' with
  | [p, v, l, m] => { present := p == 1, value := v, last := l, mask := m }
  | _ => {}

def parseGlobals (s : String) : Globals :=
  if s == "-" then {}
  else match splitOnChar s '/' with
    | [a, b, c] => { dist := parseAccu a, cyc := parseAccu b, pow := parseAccu c }
    | _ => {}

def renderAccu (a : Accu) : String :=
  if !a.present then "0,0,0,0" else s!"1,{a.value},{a.last},{a.mask}"

def renderGlobals (g : Globals) : String :=
  renderAccu g.dist ++ "/" ++ renderAccu g.cyc ++ "/" ++ renderAccu g.pow

def outcomeTag (o : Outcome) : String :=
  if o.panic then "panic"
  else match o.err with
    | none => "ok"
    | some c => "err:" ++ c.render

def renderFileOpt (f : Option FileSt) : String :=
  match f with
  | none => "nil"
  | some f => f.render P

def runDec (entry opts rspec accu hex : String) : String :=
  match unhex hex with
  | none => "bad-hex"
  | some data =>
    let r := parseReader rspec data
    let o := parseOpts opts
    let g := parseGlobals accu
    if entry == "chained" then
      let res := decodeChained P o (data.length + 2) 0 [] g r
      let tag := if res.panic then "panic" else match res.err with | none => "ok" | some c => "err:" ++ c.render
      s!"{tag} {res.r.pos} {renderGlobals res.glob} " ++
        (if res.files.isEmpty then "none" else joinWith "##" (res.files.map (·.render P)))
    else
      let mode : Option Mode :=
        if entry == "decode" then some .full
        else if entry == "integ" then some .crcOnly
        else if entry == "integhdr" then some .headerOnly
        else if entry == "header" then some .headerOnly
        else if entry == "headerfid" then some .fileIdOnly
        else none
      match mode with
      | none => "bad-entry"
      | some mode =>
        let (out, r') := decode P (if entry == "decode" then o else {}) mode g r
        let dump :=
          if out.panic then "-"
          else if entry == "decode" then renderFileOpt out.st.file
          else if entry == "header" then
            (if out.err.isSome then ({} : Header).render else out.st.hdr.render)
          else if entry == "headerfid" then
            (if out.err.isSome then ({} : Header).render ++ ";" ++ (zeroFileId P).render
             else out.st.hdr.render ++ ";" ++ (match out.st.file with | some f => f.fileId.render | none => "nil"))
          else "-"
        s!"{outcomeTag out} {r'.pos} {renderGlobals out.st.glob} {dump}"

/-! ### item-level streams (`wire`) -/

/-- comma-separated hex parts; an empty part is written `z` (so that a list of one empty part
    differs from the empty list) -/
def parseHexList (s : String) : Option (List Bytes) :=
  if s.isEmpty then some [] else (splitOnChar s ',').mapM fun p => if p == "z" then some [] else unhex p

def parseTriples (s : String) : List (Nat × Nat × Nat) :=
  if s.isEmpty then []
  else (splitOnChar s ',').filterMap fun t =>
    match parseNatList t '.' with
    | [a, b, c] => some (a, b, c)
    | _ => none

def parseItem (s : String) : Option Item :=
  match s.toList with
  | 'D' :: rest =>
    match splitOnChar (String.ofList rest) ':' with
    | [h, fs, ds] =>
      match parseNatList h '.' with
      | [l, a, g, dv] =>
        let fields := (parseTriples fs).map fun (x, y, z) => FieldDef.mk x y z
        let devs := (parseTriples ds).map fun (x, y, z) => DevDesc.mk x y z
        some (.defn ⟨l, if a == 0 then .le else .be, g, fields, devs⟩ (dv == 1))
      | _ => none
    | _ => none
  | 'R' :: rest =>
    match splitOnChar (String.ofList rest) ':' with
    | [h, fs, ds] =>
      match parseNat? h, parseHexList fs, parseHexList ds with
      | some l, some f, some d => some (.data l f d)
      | _, _, _ => none
    | _ => none
  | 'C' :: rest =>
    match splitOnChar (String.ofList rest) ':' with
    | [h, fs, ds] =>
      match parseNatList h '.', parseHexList fs, parseHexList ds with
      | [l, o], some f, some d => some (.cdata l o f d)
      | _, _, _ => none
    | _ => none
  | _ => none

/-- decode `frame (serialize items)` with the byte-level model and, independently, run the
    item machine on the items; `SPEC=ok` iff both yield the same File -/
def runWire (opts accu items : String) : String :=
  match (splitOnChar items '|').mapM parseItem with
  | none => "bad-items"
  | some its =>
    let data := frameBytes 0x20 2115 (serialize its)
    let o := parseOpts opts
    let g := parseGlobals accu
    let (out, r') := decode P o .full g (Reader.ofBytes data)
    let line := s!"{outcomeTag out} {r'.pos} {renderGlobals out.st.glob} {renderFileOpt out.st.file}"
    let hdr : Header := match out.st.file with | some f => f.hdr | none => {}
    let spec :=
      match runItems P hdr g its with
      | .ok st =>
        let o2 := finalize o (okOut st)
        let f2 := o2.st.file.map fun f => { f with crc := match out.st.file with | some f1 => f1.crc | none => 0 }
        if out.err.isNone ∧ !out.panic ∧ renderFileOpt f2 == renderFileOpt out.st.file
            ∧ renderGlobals o2.st.glob == renderGlobals out.st.glob then "ok"
        else "items-differ:" ++ renderFileOpt f2
      | .stop o2 =>
        if outcomeTag o2 == outcomeTag out then "ok" else "items-stop:" ++ outcomeTag o2
    line ++ " SPEC=" ++ spec

def hex4 (n : Nat) : String :=
  String.ofList [hexDigit ((n / 4096) % 16), hexDigit ((n / 256) % 16), hexDigit ((n / 16) % 16), hexDigit (n % 16)]

/-- all 256 transitions out of one register state -/
def runCrcRow (state : String) : String :=
  match parseNat? state with
  | none => "bad-state"
  | some s =>
    let c := BitVec.ofNat 16 s
    String.join ((List.range 256).map fun b => hex4 (Crc.updateByte c (BitVec.ofNat 8 b)).toNat)

/-- split `data` at the given cut positions -/
def splitAt (data : Bytes) (cuts : List Nat) : List Bytes :=
  let rec go (d : Bytes) (pos : Nat) : List Nat → List Bytes
    | [] => [d]
    | c :: cs => d.take (c - pos) :: go (d.drop (c - pos)) c cs
  go data 0 cuts

/-- streaming interface: New, Write parts, Sum16, Sum(nil), Reset, Sum16; and Checksum -/
def runCrcSplit (cuts hex : String) : String :=
  match unhex hex with
  | none => "bad-hex"
  | some data =>
    let parts := splitAt data (if cuts == "-" then [] else parseNatList cuts '.')
    let h := parts.foldl Crc.Hash.write Crc.Hash.new
    s!"{h.sum16.toNat} {hexOf (h.sum [])} {(h.reset).sum16.toNat} {(Crc.checksum data).toNat}"

/-- `crcmany <n> <hex>`: `n` hashes alive at the same time, hash `i` fed the data rotated by `i` in two
    writes (other hashes are created and fed between the two); the sums, 4 hex digits each -/
def runCrcMany (n hex : String) : String :=
  match parseNat? n, unhex hex with
  | some n, some data =>
    let len := data.length
    String.join ((List.range n).map fun i =>
      let k := if len == 0 then 0 else i % len
      let d := data.drop k ++ data.take k
      let h := (Crc.Hash.new.write (d.take (len / 2))).write (d.drop (len / 2))
      hexOf [UInt8.ofNat ((h.sum16.toNat / 256) % 256), UInt8.ofNat (h.sum16.toNat % 256)])
  | _, _ => "bad-arg"

/-- bytes of the harness's congruential generator (`x ← (1103515245·x + 12345) mod 2^31`, byte = bits 16–23) -/
def lcgBytes (seed n : Nat) : Bytes :=
  let rec go : Nat → Nat → Bytes → Bytes
    | 0, _, acc => acc.reverse
    | k + 1, x, acc =>
      let x' := (1103515245 * x + 12345) % 2147483648
      go k x' (UInt8.ofNat ((x' / 65536) % 256) :: acc)
  go n seed []

/-- `crcbig <seed> <len> <cuts>`: a long generated buffer written in the given pieces: Sum16 of the
    pieces, Checksum of the whole, Checksum of the whole followed by its sum little-endian -/
def runCrcBig (seed len cuts : String) : String :=
  match parseNat? seed, parseNat? len with
  | some sd, some n =>
    let data := lcgBytes sd n
    let parts := splitAt data (if cuts == "-" then [] else parseNatList cuts '.')
    let h := parts.foldl Crc.Hash.write Crc.Hash.new
    let c := Crc.checksum data
    s!"{h.sum16.toNat} {c.toNat} {(Crc.checksum (data ++ [UInt8.ofNat (c.toNat % 256), UInt8.ofNat (c.toNat / 256)])).toNat}"
  | _, _ => "bad-arg"

/-- coordinates: `ll lat|lng <semicircles>` → stored value, invalid flag, degrees numerator (×2^-31) -/
def runLL (which s : String) : String :=
  match parseInt? s with
  | none => "bad-int"
  | some z =>
    let stored := if which == "lat" then LatLng.newLatitude z else LatLng.newLongitude z
    let inv := LatLng.invalid stored
    s!"{stored} {if inv then 1 else 0} {match LatLng.degreesNum stored with | some n => toString n | none => "nan"}"

/-- time: `tm <uint32>` → decode (seconds), re-encode, IsBaseTime; `te <secs>` → encodeTime -/
def runTm (s : String) : String :=
  match parseNat? s with
  | none => "bad-nat"
  | some v =>
    let d := LatLng.decodeDateTime v
    s!"{d} {LatLng.encodeTime d} {if LatLng.isBaseTime d then 1 else 0}"

def runTe (s : String) : String :=
  match parseInt? s with
  | none => "bad-int"
  | some z => toString (LatLng.encodeTime z)

def optTag : Option ErrClass → String
  | none => "ok"
  | some c => "err:" ++ c.render

/-- `hdr size proto profile datasize dtypehex crc`: Header.CheckIntegrity on the value, and
    DecodeHeader / CheckIntegrity(headerOnly) on its 14-byte (12-byte) wire form -/
def runHdr (a : List String) : String :=
  match a with
  | [sz, pr, pf, ds, dt, cr] =>
    match parseNat? sz, parseNat? pr, parseNat? pf, parseNat? ds, unhex dt, parseNat? cr with
    | some size, some proto, some prof, some dsz, some dtype, some crc =>
      let h : Header := { size := size, proto := proto, profile := prof, dataSize := dsz, dtype := dtype, crc := crc }
      let raw := h.marshal
      let (o1, _) := decode P {} .headerOnly {} (Reader.ofBytes raw)
      s!"{optTag h.checkIntegrity} {outcomeTag o1} {hexOf raw}"
    | _, _, _, _, _, _ => "bad-hdr"
  | _ => "bad-hdr"

/-! ### encoder ops -/

def archOf (s : String) : Endian := if s == "1" then .be else .le

/-- content of a File without header and CRC sections (they change with the serialisation) -/
def renderContent (f : FileSt) : String :=
  let secs := splitOnChar (f.render P) ';'
  joinWith ";" (secs.filter fun x => !(x.startsWith "H" || x.startsWith "C"))

def encTag : EncRes → String
  | .ok _ _ => "ok"
  | .error => "err"
  | .panic => "panic"

/-- `enc <arch> <file dump>`: bytes written, and the File's header / CRC fields afterwards -/
def runEnc (arch dump : String) : String :=
  match parseFile P dump with
  | none => "bad-file"
  | some f =>
    match encode P (archOf arch) f with
    | .ok bs f' => s!"ok {hexOf bs} H{f'.hdr.render} C{f'.crc}"
    | .error => "err - - -"
    | .panic => "panic - - -"

/-- `enc2 <arch> <proto> <file dump>`: Encode, set the protocol version of the File that came back
    (whose header now carries the data size and CRCs just written) to `proto`, Encode again -/
def runEnc2 (arch proto dump : String) : String :=
  match parseFile P dump, parseNat? proto with
  | some f, some pv =>
    match encode P (archOf arch) f with
    | .ok _ f1 =>
      match encode P (archOf arch) { f1 with hdr := { f1.hdr with proto := pv } } with
      | .ok bs f2 => s!"ok {hexOf bs} H{f2.hdr.render} C{f2.crc}"
      | .error => "err - - -"
      | .panic => "panic - - -"
    | .error => "err1 - - -"
    | .panic => "panic1 - - -"
  | _, _ => "bad-file"

/-- `rt <arch> <file dump>`: Encode, then Decode of the written bytes -/
def runRt (arch dump : String) : String :=
  match parseFile P dump with
  | none => "bad-file"
  | some f =>
    match encode P (archOf arch) f with
    | .ok bs _ =>
      let (out, r') := decode P {} .full {} (Reader.ofBytes bs)
      s!"ok {outcomeTag out} {r'.pos} {renderFileOpt out.st.file}"
    | .error => "err - - -"
    | .panic => "panic - - -"

/-- `c07 <arch> <hex>`: Decode; re-Encode; CheckIntegrity; Decode; Encode in the other byte
    order; Decode — tags of every stage and the content of generations 1, 2 and 3 -/
def runC07 (arch hex : String) : String :=
  match unhex hex with
  | none => "bad-hex"
  | some data =>
    let (d1, _) := decode P {} .full {} (Reader.ofBytes data)
    match d1.err, d1.panic, d1.st.file with
    | none, false, some f1 =>
      match encode P (archOf arch) f1 with
      | .ok b1 _ =>
        let (i1, _) := decode P {} .crcOnly {} (Reader.ofBytes b1)
        let (d2, _) := decode P {} .full d1.st.glob (Reader.ofBytes b1)
        match d2.err, d2.panic, d2.st.file with
        | none, false, some f2 =>
          let other : Endian := if arch == "1" then .le else .be
          match encode P other f2 with
          | .ok b2 _ =>
            let (d3, _) := decode P {} .full d2.st.glob (Reader.ofBytes b2)
            s!"d1=ok e1=ok i1={outcomeTag i1} d2=ok e2=ok d3={outcomeTag d3} X1={renderContent f1} X2={renderContent f2} X3={match d3.st.file with | some f3 => renderContent f3 | none => "nil"}"
          | r => s!"d1=ok e1=ok i1={outcomeTag i1} d2=ok e2={encTag r}"
        | _, _, _ => s!"d1=ok e1=ok i1={outcomeTag i1} d2={outcomeTag d2}"
      | r => s!"d1=ok e1={encTag r}"
    | _, _, _ => s!"d1={outcomeTag d1}"

/-- `encrep k arch dump`: Encode is a function — repeated calls give identical bytes -/
def runEncRep (arch dump : String) : String :=
  match parseFile P dump with
  | none => "bad-file"
  | some f =>
    match encode P (archOf arch) f with
    | .ok _ _ => "same"
    | .error => "err"
    | .panic => "panic"

/-- `strs <Type> <lo> <hi>`: String() of every value in [lo, hi], hex, comma separated -/
def runStrs (tname lo hi : String) : String :=
  match Gen.Str.tables.find? (fun t => t.tname.toString == tname), parseInt? lo, parseInt? hi with
  | some T, some a, some b =>
    joinWith "," ((Str.intRange a b).map fun i => hexOf ((Str.strOf T i).map UInt8.ofNat))
  | _, _, _ => "bad-strs"

/-- `gencore msg:num:enabled:code;…` → `msg:sindex:num:code;…` -/
def runGenCore (rows : String) : String :=
  let rs := (splitOnChar rows ';').filterMap fun s =>
    match splitOnChar s ':' with
    | [m, n, e, c] =>
      match parseNat? n, parseNat? c with
      | some num, some code => some (GenCore.Row.mk m num (e == "1") code)
      | _, _ => none
    | _ => none
  joinWith ";" ((GenCore.gen rs).map fun e => s!"{e.msg}:{e.sindex}:{e.num}:{e.tcode}")

/-- `devs <accu> <hex>`: decode and classify the expansion of every component-bearing message
    against the rule-driven specification -/
def runDevs (accu hex : String) : String :=
  match unhex hex with
  | none => "bad-hex"
  | some data =>
    let (out, _) := decode P {} .full (parseGlobals accu) (Reader.ofBytes data)
    match out.st.file with
    | none => "none"
    | some f =>
      let c := XSpec.classify P f.xlog
      if c = "unclassified" then "unclassified " ++ XSpec.firstDiff P f.xlog else c

def runLine1 (line : String) : String :=
  match splitOnChar line ' ' with
  | ["devs", accu, hex] => runDevs accu hex
  | ["gencore", rows] => runGenCore rows
  | ["strs", t, lo, hi] => runStrs t lo hi
  | ["encrep", _, arch, dump] => runEncRep arch dump
  | ["enc", arch, dump] => runEnc arch dump
  | ["enc2", arch, proto, dump] => runEnc2 arch proto dump
  | ["rt", arch, dump] => runRt arch dump
  | ["c07", arch, hex] => runC07 arch hex
  | "hdr" :: rest => runHdr rest
  | ["ll", which, s] => runLL which s
  | ["tm", s] => runTm s
  | ["te", s] => runTe s
  | ["wire", opts, accu, items] => runWire opts accu items
  | ["crcrow", st] => runCrcRow st
  | ["crcsplit", cuts, hex] => runCrcSplit cuts hex
  | ["crcsplit", cuts] => runCrcSplit cuts ""
  | ["crcmany", n, hex] => runCrcMany n hex
  | ["crcbig", seed, len, cuts] => runCrcBig seed len cuts
  | ["dec", entry, opts, rspec, accu, hex] => runDec entry opts rspec accu hex
  | ["dec", entry, opts, rspec, accu] => runDec entry opts rspec accu ""
  | _ => "bad-op"

/-- a history: calls separated by `^`; the accumulators left by one call are the next call's -/
def runHist (calls : List String) : String :=
  let rec go (cs : List String) (accu : Option String) (acc : List String) (fuel : Nat) : List String :=
    match fuel, cs with
    | 0, _ => acc
    | _, [] => acc
    | fuel + 1, c :: rest =>
      let toks := splitOnChar c ' '
      let c' := match accu, toks with
        | some a, "dec" :: e :: o :: r :: _ :: tl => joinWith " " ("dec" :: e :: o :: r :: a :: tl)
        | _, _ => c
      let out := runLine1 c'
      let accu' := match toks, splitOnChar out ' ' with
        | "dec" :: _, _ :: _ :: a :: _ => some a
        | _, _ => accu
      go rest accu' (acc ++ [out]) fuel
  joinWith "^" (go calls none [] (calls.length + 1))

def runLine (line : String) : String :=
  match line.toList with
  | 'h' :: 'i' :: 's' :: 't' :: ' ' :: rest => runHist (splitOnChar (String.ofList rest) '^')
  | _ => runLine1 line

partial def loop (h : IO.FS.Stream) (out : IO.FS.Stream) : IO Unit := do
  let line ← h.getLine
  if line.isEmpty then return ()
  let l := String.ofList (line.toList.filter (fun c => c != '\n' && c != '\r'))
  out.putStrLn (runLine l)
  loop h out

def main (_args : List String) : IO Unit := do
  let stdin ← IO.getStdin
  let stdout ← IO.getStdout
  loop stdin stdout

end Fit.Driver
