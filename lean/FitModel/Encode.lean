import FitModel.Decode
import FitModel.LatLng
/-
  Model of writer.go (`Encode`) and `Header.MarshalBinary`.
-/
namespace Fit

/-! ### utf8.Valid -/

/-- `utf8.Valid(bs)`: well-formed UTF-8 (no overlong forms, no surrogates, ≤ U+10FFFF) -/
def utf8Valid : Bytes → Bool
  | [] => true
  | b0 :: rest =>
    let x := b0.toNat
    if x < 0x80 then utf8Valid rest
    else if x < 0xC2 then false
    else if x < 0xE0 then
      match rest with
      | b1 :: r => (0x80 ≤ b1.toNat && b1.toNat ≤ 0xBF) && utf8Valid r
      | _ => false
    else if x < 0xF0 then
      match rest with
      | b1 :: b2 :: r =>
        let lo := if x = 0xE0 then 0xA0 else 0x80
        let hi := if x = 0xED then 0x9F else 0xBF
        (lo ≤ b1.toNat && b1.toNat ≤ hi) && (0x80 ≤ b2.toNat && b2.toNat ≤ 0xBF) && utf8Valid r
      | _ => false
    else if x < 0xF5 then
      match rest with
      | b1 :: b2 :: b3 :: r =>
        let lo := if x = 0xF0 then 0x90 else 0x80
        let hi := if x = 0xF4 then 0x8F else 0xBF
        (lo ≤ b1.toNat && b1.toNat ≤ hi) && (0x80 ≤ b2.toNat && b2.toNat ≤ 0xBF) &&
          (0x80 ≤ b3.toNat && b3.toNat ≤ 0xBF) && utf8Valid r
      | _ => false
    else false

/-! ### values -/

inductive EncErr | error | panic
deriving DecidableEq, Repr, Inhabited

/-- `encodeString(str, size)` -/
def encodeString (str : Bytes) (size : Nat) : Except EncErr Bytes :=
  if size = 0 then .error .panic            -- str[:length] with length = -1
  else
    let len := min str.length (size - 1)
    let bstr := str.take len ++ List.replicate (size - len) 0
    if utf8Valid bstr then .ok bstr else .error .error

/-- width in bytes of the Go value `binary.Write` receives for a scalar of kind `k` -/
def scWidth : Sc → Nat
  | .u w => w / 8
  | .i w => w / 8
  | .f w => w / 8
  | .s => 0

/-- `encodeValue` for one scalar (or array element); `k` is the Go kind of the value written -/
def encodeScalar (arch : Endian) (pf : PField) (k : Sc) (v : Val) : Except EncErr Bytes :=
  match tcKind pf.tcode, v with
  | .timeUTC, .t secs _ _ => .ok (arch.enc 4 (LatLng.encodeTime secs))
  | .timeLocal, .t secs off _ => .ok (arch.enc 4 (toUnsigned 32 ((LatLng.encodeTime secs : Int) + off)))
  | .lat, .lat z => .ok (arch.enc 4 (toUnsigned 32 z))
  | .lng, .lng z => .ok (arch.enc 4 (toUnsigned 32 z))
  | .native, .s b =>
    if tcBase pf.tcode = Base.string then
      match encodeString b pf.length with
      | .ok bs => .ok bs
      | .error e => .error e
    else .error .error                        -- binary.Write of a Go string: "invalid type"
  | .native, .u n => if tcBase pf.tcode = Base.string then .error .error else .ok (arch.enc (scWidth k) n)
  | .native, .i z => if tcBase pf.tcode = Base.string then .error .error else .ok (arch.enc (scWidth k) (toUnsigned (8 * scWidth k) z))
  | .native, .f n => if tcBase pf.tcode = Base.string then .error .error else .ok (arch.enc (scWidth k) n)
  | _, _ => .error .panic                    -- type assertion on the wrong dynamic type

def concatE : List (Except EncErr Bytes) → Except EncErr Bytes
  | [] => .ok []
  | .ok b :: rest => match concatE rest with
    | .ok r => .ok (b ++ r)
    | .error e => .error e
  | .error e :: _ => .error e

/-- `writeField` -/
def writeField (arch : Endian) (pf : PField) (k : SlotKind) (v : Val) : Except EncErr Bytes :=
  if !tcArray pf.tcode then
    match k with
    | .sc sk => encodeScalar arch pf sk v
    | .time => encodeScalar arch pf (.u 32) v
    | .lat => encodeScalar arch pf (.i 32) v
    | .lng => encodeScalar arch pf (.i 32) v
    | _ => .error .panic
  else if tcBase pf.tcode = Base.string then .error .error      -- "can't encode array of strings"
  else
    let elems : List Val := match v with
      | .us (some xs) => xs.map Val.u
      | .is (some xs) => xs.map Val.i
      | .fs (some xs) => xs.map Val.f
      | _ => []
    let ek : Sc := match k with | .sl e => e | _ => .u 8
    let max := min elems.length pf.length                  -- value.Len(), capped at the profile length
    let invW := Base.size (tcBase pf.tcode)                -- the padding value has the base type's own Go type
    match concatE ((elems.take max).map (encodeScalar arch pf ek)) with
    | .error e => .error e
    | .ok body => .ok (body ++ (List.replicate (pf.length - max) (arch.enc invW (Base.invalidNat (tcBase pf.tcode)))).flatten)

/-! ### message definitions -/

/-- `getFieldBySindex`: the first lookup entry (in field-number order) with that struct index -/
def fieldBySindex (pm : PMsg) (i : Nat) : Option PField := pm.fields.find? (·.sindex == i)

/-- is struct field `i` of the message left at its invalid value (and therefore not encoded)? -/
def isInvalidVal (pm : PMsg) (i : Nat) (v : Val) : Bool :=
  match v with
  | .us none | .is none | .fs none | .ss none => true
  | .us (some xs) => xs.isEmpty
  | .is (some xs) => xs.isEmpty
  | .fs (some xs) => xs.isEmpty
  | .ss (some xs) => xs.isEmpty
  | _ => (pm.invalid[i]? == some v)

/-- `getEncodeMesgDef`: the lookup entries of the valid fields, in struct order; `none` = panic
    (a valid field without lookup entry: nil `*field`) -/
def encodeMesgDef (pm : PMsg) (m : Msg) : Option (List PField) :=
  let idx := List.range m.vals.length
  idx.foldr (fun i acc =>
    match acc with
    | none => none
    | some fs =>
      let v := m.vals.getD i (.u 0)
      if isInvalidVal pm i v then some fs
      else match fieldBySindex pm i with
        | some pf => some (pf :: fs)
        | none => none) (some [])

/-- `writeDefMesg` -/
def defBytes (arch : Endian) (global : Nat) (fs : List PField) : Bytes :=
  [UInt8.ofNat 0x40, 0, archByteOf arch] ++ arch.enc 2 global ++ [UInt8.ofNat (fs.length % 256)] ++
    (fs.map fun pf =>
      let b := tcBase pf.tcode
      let sz := if b = Base.string then pf.length
                else if tcArray pf.tcode then (Base.size b * pf.length) % 256 else Base.size b
      [UInt8.ofNat pf.num, UInt8.ofNat (sz % 256), UInt8.ofNat b]).flatten
where archByteOf : Endian → UInt8
  | .le => 0
  | .be => 1

/-- `writeMesg` -/
def mesgBytes (arch : Endian) (pm : PMsg) (m : Msg) (fs : List PField) : Except EncErr Bytes :=
  match concatE (fs.map fun pf =>
      match pm.layout[pf.sindex]?, m.vals[pf.sindex]? with
      | some k, some v => writeField arch pf k v
      | _, _ => .error .panic) with
  | .ok body => .ok (UInt8.ofNat 0 :: body)
  | .error e => .error e

/-- `encodeDefAndDataMesg` for one message -/
def encodeOne (P : Profile) (arch : Endian) (m : Msg) : Except EncErr Bytes :=
  match P.msg? m.num with
  | none => .error .panic
  | some pm =>
    if !(pm.hasCtor && pm.hasType) ∨ m.vals.length ≠ pm.invalid.length then .error .panic
    else match encodeMesgDef pm m with
      | none => .error .panic
      | some fs =>
        match mesgBytes arch pm m fs with
        | .ok b => .ok (defBytes arch m.num fs ++ b)
        | .error e => .error e

/-- insert keeping the list sorted by struct index, without duplicates of the same field number -/
def insertField (pf : PField) : List PField → List PField
  | [] => [pf]
  | x :: xs =>
    if x.num = pf.num then x :: xs
    else if pf.sindex < x.sindex then pf :: x :: xs
    else x :: insertField pf xs

/-- a slice of messages: one definition with the union of the valid fields, then every message -/
def encodeGroup (P : Profile) (arch : Endian) (ms : List Msg) : Except EncErr Bytes :=
  match ms with
  | [] => .ok []
  | m0 :: _ =>
    match P.msg? m0.num with
    | none => .error .panic
    | some pm =>
      if !(pm.hasCtor && pm.hasType) ∨ ms.any (fun m => m.vals.length ≠ pm.invalid.length) then .error .panic
      else
        match ms.mapM (encodeMesgDef pm) with
        | none => .error .panic
        | some defs =>
          let fs := defs.flatten.foldl (fun acc pf => insertField pf acc) []
          match concatE (ms.map fun m => mesgBytes arch pm m fs) with
          | .ok b => .ok (defBytes arch m0.num fs ++ b)
          | .error e => .error e

/-- `Header.MarshalBinary` -/
def marshalHeader (h : Header) : Bytes × Nat :=
  let h12 : Bytes := [UInt8.ofNat h.size, UInt8.ofNat h.proto] ++ natLE 2 h.profile ++ natLE 4 h.dataSize ++ h.dtype.take 4
  let c := (Crc.checksum h12).toNat
  (if h.size = headerSizeCRC then h12 ++ natLE 2 c else h12, c)

inductive EncRes
  | ok (bytes : Bytes) (f : FileSt)
  | error
  | panic
deriving Repr, Inhabited

/-- all record bytes: file_id, file_creator, timestamp_correlation, then the container's fields -/
def encodeBody (P : Profile) (arch : Endian) (f : FileSt) (c : Container) : Except EncErr Bytes :=
  concatE (
    [encodeOne P arch f.fileId,
     (match f.creator with | some m => encodeOne P arch m | none => .ok []),
     (match f.tscorr with | some m => encodeOne P arch m | none => .ok [])] ++
    (c.slots.zip f.slots).map (fun (cs, ms) =>
      if cs.many then encodeGroup P arch ms
      else match ms with
        | m :: _ => encodeOne P arch m
        | [] => .ok []))

/-- header with the data size filled in, record bytes, file CRC; and the updated File -/
def finishEncode (f : FileSt) (body : Bytes) : Bytes × FileSt :=
  let h := { f.hdr with dataSize := body.length % 4294967296 }
  let hb := (marshalHeader h).1
  let hc := (marshalHeader h).2
  let h' := if h.size = headerSizeCRC then { h with crc := hc } else h
  let fc := (Crc.checksum (hb ++ body)).toNat
  (hb ++ body ++ natLE 2 fc, { f with hdr := h', crc := fc })

/-- `Encode` -/
def encode (P : Profile) (arch : Endian) (f : FileSt) : EncRes :=
  match P.initAns (fileTypeOf f) with
  | .format | .notsupported => .error                       -- "Unknown filetype"
  | .container j =>
    match f.cidx with
    | none => .panic                                         -- accessor returned a nil container
    | some i =>
      if i ≠ j then .panic
      else
        match encodeBody P arch f (P.containers.getD i default) with
        | .error .error => .error
        | .error .panic => .panic
        | .ok body => .ok (finishEncode f body).1 (finishEncode f body).2

end Fit
