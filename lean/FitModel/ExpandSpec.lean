import FitModel.File
/-
  Rule-driven specification of component expansion, interpreted from a table of the FIT
  profile's component rules (source field, destination fields with bit widths, accumulate flags),
  independent of the code-faithful `expand` of File.lean.  `Quirks` switch on, one by one, the three
  deviations of the generated code that are recorded as known findings (D10, D11, D12), so that a
  disagreement between `expand` and the specification can be attributed to exactly those — or not.
-/
namespace Fit.XSpec
open Fit

structure Comp where
  dst : String
  bits : Nat
  accumulate : Bool := false
deriving Repr, Inhabited

structure Rule where
  src : String
  invalid : Nat               -- scalar sources: the invalid value (sources equal to it expand nothing)
  comps : List Comp
  /-- event data: the rule applies only for these values of the `Event` field ([] = always) -/
  onlyEvents : List Nat := []
deriving Repr, Inhabited

def speedAlt5 : List Rule :=
  [⟨"AvgSpeed", 0xFFFF, [⟨"EnhancedAvgSpeed", 16, false⟩], []⟩,
   ⟨"MaxSpeed", 0xFFFF, [⟨"EnhancedMaxSpeed", 16, false⟩], []⟩,
   ⟨"AvgAltitude", 0xFFFF, [⟨"EnhancedAvgAltitude", 16, false⟩], []⟩,
   ⟨"MaxAltitude", 0xFFFF, [⟨"EnhancedMaxAltitude", 16, false⟩], []⟩,
   ⟨"MinAltitude", 0xFFFF, [⟨"EnhancedMinAltitude", 16, false⟩], []⟩]

/-- component rules of the five messages named by the property (FIT profile, messages sheet) -/
def rulesFor (num : Nat) : List Rule :=
  if num = mnRecord then
    [⟨"Altitude", 0xFFFF, [⟨"EnhancedAltitude", 16, false⟩], []⟩,
     ⟨"Speed", 0xFFFF, [⟨"EnhancedSpeed", 16, false⟩], []⟩,
     ⟨"CompressedSpeedDistance", 0xFF, [⟨"Speed", 12, false⟩, ⟨"Distance", 12, true⟩], []⟩,
     ⟨"Cycles", 0xFF, [⟨"TotalCycles", 8, true⟩], []⟩,
     ⟨"CompressedAccumulatedPower", 0xFFFF, [⟨"AccumulatedPower", 16, true⟩], []⟩]
  else if num = mnSession ∨ num = mnLap then speedAlt5
  else if num = mnSegmentLap then speedAlt5.drop 2
  else if num = mnEvent then
    [⟨"Data16", 0xFFFF, [⟨"Data", 16, false⟩], []⟩,
     ⟨"Data", 0xFFFFFFFF, [⟨"Score", 16, false⟩, ⟨"OpponentScore", 16, false⟩], [evSportPoint]⟩,
     ⟨"Data", 0xFFFFFFFF, [⟨"RearGearNum", 8, false⟩, ⟨"RearGear", 8, false⟩, ⟨"FrontGearNum", 8, false⟩, ⟨"FrontGear", 8, false⟩],
       [evFrontGearChange, evRearGearChange]⟩]
  else []

structure Quirks where
  d10 : Bool := false     -- distance half of compressed_speed_distance loses its top nibble
  d11c : Bool := false    -- the total_cycles accumulator has mask 0
  d11p : Bool := false    -- the accumulated_power accumulator has mask 0
deriving Repr, Inhabited, DecidableEq

/-- value of a source: a scalar, or the little-endian number of a byte array of exactly the
    rule's size (3 bytes for compressed_speed_distance) — `none` if absent or invalid -/
def srcValue (m : Msg) (i : Nat) (inv : Nat) : Option Nat :=
  match m.vals[i]? with
  | some (.u n) => if n = inv then none else some n
  | some (.us (some [b0, b1, b2])) =>
    if b0 = inv ∧ b1 = inv ∧ b2 = inv then none else some (b0 + 256 * b1 + 65536 * b2)
  | _ => none

def accuOf (g : Globals) (dst : String) : Accu :=
  if dst = "Distance" then g.dist else if dst = "TotalCycles" then g.cyc else g.pow

def setAccu (g : Globals) (dst : String) (a : Accu) : Globals :=
  if dst = "Distance" then { g with dist := a } else if dst = "TotalCycles" then { g with cyc := a } else { g with pow := a }

/-- distribute the bits of `v`, least-significant component first -/
def applyComps (q : Quirks) (pm : PMsg) (isBytes : Bool) : List Comp → Nat → Msg → Globals → Msg × Globals
  | [], _, m, g => (m, g)
  | c :: cs, v, m, g =>
    let slice := v % 2 ^ c.bits
    -- D10: the generated code shifts the third byte inside uint8, so only 8 of the 12 bits survive
    let slice := if q.d10 ∧ isBytes ∧ c.dst = "Distance" then slice % 256 else slice
    match pm.idx c.dst with
    | none => applyComps q pm isBytes cs (v / 2 ^ c.bits) m g
    | some di =>
      if c.accumulate then
        let a0 := accuOf g c.dst
        let a := if a0.present then a0
                 else if (q.d11c ∧ c.dst = "TotalCycles") ∨ (q.d11p ∧ c.dst = "AccumulatedPower") then Accu.zero else Accu.new c.bits
        let r := a.accumulate slice
        applyComps q pm isBytes cs (v / 2 ^ c.bits) (m.setU di r.2) (setAccu g c.dst r.1)
      else applyComps q pm isBytes cs (v / 2 ^ c.bits) (m.setU di slice) g

def applyRules (q : Quirks) (pm : PMsg) : List Rule → Msg → Globals → Msg × Globals
  | [], m, g => (m, g)
  | r :: rs, m, g =>
    let evOK := r.onlyEvents.isEmpty ||
      (match pm.idx "Event" with
       | some ei => (match m.getU ei with | some ev => r.onlyEvents.contains ev | none => false)
       | none => false)
    match pm.idx r.src with
    | none => applyRules q pm rs m g
    | some si =>
      match (if evOK then srcValue m si r.invalid else none) with
      | none => applyRules q pm rs m g
      | some v =>
        let isBytes := match m.vals[si]? with | some (.us _) => true | _ => false
        let res := applyComps q pm isBytes r.comps v m g
        applyRules q pm rs res.1 res.2

/-- the specification of `expandComponents` for one message -/
def expandSpec (q : Quirks) (P : Profile) (m : Msg) (g : Globals) : Msg × Globals :=
  match P.msg? m.num with
  | none => (m, g)
  | some pm => applyRules q pm (rulesFor m.num) m g

/-- replay the expansion log of one file against the specification; accumulators start at zero
    for the file (or, with `d12`, from the process state the decoder found) -/
def logAgrees (q : Quirks) (d12 : Bool) (P : Profile) (log : List (Msg × Globals)) : Bool :=
  let start : Globals := match log with
    | (_, g0) :: _ => if d12 then g0 else {}
    | [] => {}
  let rec go : List (Msg × Globals) → Globals → Bool
    | [], _ => true
    | (m, g) :: rest, sg =>
      let model := expand P m g
      let spec := expandSpec q P m sg
      model.1 == spec.1 && go rest spec.2
  go log start

/-- first message on which the model's expansion and the specification (with every known deviation
    switched on) differ: index, message number, the three values lists -/
def firstDiff (P : Profile) (log : List (Msg × Globals)) : String :=
  let q : Quirks := { d10 := true, d11c := true, d11p := true }
  let start : Globals := match log with | (_, g0) :: _ => g0 | [] => {}
  let rec go : List (Msg × Globals) → Globals → Nat → String
    | [], _, _ => "no-difference"
    | (m, g) :: rest, sg, i =>
      let model := expand P m g
      let spec := expandSpec q P m sg
      if model.1 == spec.1 then go rest spec.2 (i + 1)
      else s!"msg#{i} num={m.num} in={repr m.vals} model={repr model.1.vals} spec={repr spec.1.vals} g={repr g} sg={repr sg}"
  go log start 0

/-- all sublists, smaller ones first -/
def subsetsBySize {α} (l : List α) : List (List α) :=
  let all := l.foldr (fun x acc => acc ++ acc.map (x :: ·)) [[]]
  (List.range (l.length + 1)).flatMap fun k => all.filter (·.length == k)

/-- the smallest set of known deviations under which the model's expansion of this file equals the
    specification: "none", a `+`-joined subset of d10/d11c/d11p/d12, or "unclassified" -/
def classify (P : Profile) (log : List (Msg × Globals)) : String :=
  let names := ["d10", "d11c", "d11p", "d12"]
  let cands := subsetsBySize names
  match cands.find? (fun c =>
      logAgrees { d10 := c.contains "d10", d11c := c.contains "d11c", d11p := c.contains "d11p" } (c.contains "d12") P log) with
  | some [] => "none"
  | some c => "+".intercalate c
  | none => "unclassified"

end Fit.XSpec
