import FitModel.Types
/-
  Model of file.go / file_types.go (routing of decoded messages into the typed container) and
  of the generated `expandComponents` methods of messages.go with accumu.go.
-/
namespace Fit

/-! ### component expansion -/

def PMsg.idx (pm : PMsg) (name : String) : Option Nat :=
  let i := pm.fnames.idxOf name
  if i < pm.fnames.length then some i else none

def Msg.getU (m : Msg) (i : Nat) : Option Nat :=
  match m.vals[i]? with
  | some (.u n) => some n
  | _ => none

def Msg.setU (m : Msg) (i : Nat) (n : Nat) : Msg := { m with vals := setAt m.vals i (.u n) }

/-- `dst = uint32((src >> 0) & (1<<bits - 1))` guarded by `src != invalid` -/
def copyIfValid (pm : PMsg) (m : Msg) (src dst : String) (invalid : Nat) : Msg :=
  match pm.idx src, pm.idx dst with
  | some si, some di =>
    match m.getU si with
    | some v => if v ≠ invalid then m.setU di v else m
    | none => m
  | _, _ => m

/-- `(*uint32Accumulator).accumulate` -/
def Accu.accumulate (a : Accu) (value : Nat) : Accu × Nat :=
  let d := ((value + 2 ^ 32 - a.last) % 2 ^ 32) &&& a.mask
  let v := (a.value + d) % 2 ^ 32
  ({ a with value := v, last := value }, v)

/-- `uint32NewAccumulator(bits)` -/
def Accu.new (bits : Nat) : Accu := { present := true, value := 0, last := 0, mask := 2 ^ bits - 1 }
/-- `new(uint32Accumulator)` (mask 0) -/
def Accu.zero : Accu := { present := true, value := 0, last := 0, mask := 0 }

def expandSpeedAlt5 (pm : PMsg) (m : Msg) : Msg :=
  let m := copyIfValid pm m "AvgSpeed" "EnhancedAvgSpeed" 0xFFFF
  let m := copyIfValid pm m "MaxSpeed" "EnhancedMaxSpeed" 0xFFFF
  let m := copyIfValid pm m "AvgAltitude" "EnhancedAvgAltitude" 0xFFFF
  let m := copyIfValid pm m "MaxAltitude" "EnhancedMaxAltitude" 0xFFFF
  copyIfValid pm m "MinAltitude" "EnhancedMinAltitude" 0xFFFF

def expandSegmentLap (pm : PMsg) (m : Msg) : Msg :=
  let m := copyIfValid pm m "AvgAltitude" "EnhancedAvgAltitude" 0xFFFF
  let m := copyIfValid pm m "MaxAltitude" "EnhancedMaxAltitude" 0xFFFF
  copyIfValid pm m "MinAltitude" "EnhancedMinAltitude" 0xFFFF

/-- compressed_speed_distance → speed (12 bits) and accumulated distance (12 bits) -/
def expandCsd (pm : PMsg) (m : Msg) (g : Globals) : Msg × Globals :=
  match pm.idx "CompressedSpeedDistance", pm.idx "Speed", pm.idx "Distance" with
  | some ci, some si, some di =>
    match m.vals[ci]? with
    | some (.us (some [b0, b1, b2])) =>
      if b0 ≠ 0xFF ∨ b1 ≠ 0xFF ∨ b2 ≠ 0xFF then
        let a := if g.dist.present then g.dist else Accu.new 12
        -- uint32(b1>>4) | uint32(b2<<4): the second shift is evaluated in uint8
        let r := a.accumulate ((b1 >>> 4) ||| ((b2 <<< 4) % 256))
        ((m.setU si (b0 ||| ((b1 &&& 0x0F) <<< 8))).setU di r.2, { g with dist := r.1 })
      else (m, g)
    | _ => (m, g)
  | _, _, _ => (m, g)

/-- cycles → total_cycles (accumulated) -/
def expandCycles (pm : PMsg) (m : Msg) (g : Globals) : Msg × Globals :=
  match pm.idx "Cycles", pm.idx "TotalCycles" with
  | some ci, some ti =>
    match m.getU ci with
    | some c =>
      if c ≠ 0xFF then
        let a := if g.cyc.present then g.cyc else Accu.zero
        let r := a.accumulate c
        (m.setU ti r.2, { g with cyc := r.1 })
      else (m, g)
    | none => (m, g)
  | _, _ => (m, g)

/-- compressed_accumulated_power → accumulated_power (accumulated) -/
def expandPower (pm : PMsg) (m : Msg) (g : Globals) : Msg × Globals :=
  match pm.idx "CompressedAccumulatedPower", pm.idx "AccumulatedPower" with
  | some ci, some ai =>
    match m.getU ci with
    | some c =>
      if c ≠ 0xFFFF then
        let a := if g.pow.present then g.pow else Accu.zero
        let r := a.accumulate c
        (m.setU ai r.2, { g with pow := r.1 })
      else (m, g)
    | none => (m, g)
  | _, _ => (m, g)

def expandRecord (pm : PMsg) (m : Msg) (g : Globals) : Msg × Globals :=
  let m := copyIfValid pm m "Altitude" "EnhancedAltitude" 0xFFFF
  let m := copyIfValid pm m "Speed" "EnhancedSpeed" 0xFFFF
  let r1 := expandCsd pm m g
  let r2 := expandCycles pm r1.1 r1.2
  expandPower pm r2.1 r2.2

def evSportPoint : Nat := 33
def evFrontGearChange : Nat := 42
def evRearGearChange : Nat := 43

/-- score / gear components of event data -/
def expandEventData (pm : PMsg) (m : Msg) (d ev : Nat) : Msg :=
  if d ≠ 0xFFFFFFFF then
    if ev = evSportPoint then
      match pm.idx "Score", pm.idx "OpponentScore" with
      | some s, some o => (m.setU s (d % 65536)).setU o ((d / 65536) % 65536)
      | _, _ => m
    else if ev = evFrontGearChange ∨ ev = evRearGearChange then
      match pm.idx "RearGearNum", pm.idx "RearGear", pm.idx "FrontGearNum", pm.idx "FrontGear" with
      | some a, some b, some c, some e =>
        (((m.setU a (d % 256)).setU b ((d / 256) % 256)).setU c ((d / 65536) % 256)).setU e ((d / 16777216) % 256)
      | _, _, _, _ => m
    else m
  else m

def expandEvent (pm : PMsg) (m : Msg) : Msg :=
  let m := copyIfValid pm m "Data16" "Data" 0xFFFF
  match pm.idx "Data", pm.idx "Event" with
  | some di, some ei =>
    match m.getU di, m.getU ei with
    | some d, some ev => expandEventData pm m d ev
    | _, _ => m
  | _, _ => m

/-- message numbers whose container arms call `expandComponents` -/
def expandSet : List Nat := [mnSession, mnLap, mnRecord, mnEvent, mnSegmentLap]

def expand (P : Profile) (m : Msg) (g : Globals) : Msg × Globals :=
  match P.msg? m.num with
  | none => (m, g)
  | some pm =>
    if m.num = mnRecord then expandRecord pm m g
    else if m.num = mnSession ∨ m.num = mnLap then (expandSpeedAlt5 pm m, g)
    else if m.num = mnSegmentLap then (expandSegmentLap pm m, g)
    else if m.num = mnEvent then (expandEvent pm m, g)
    else (m, g)

/-! ### routing -/

/-- index of the first container slot holding message number `n` -/
def slotFor (c : Container) (n : Nat) : Option Nat :=
  let i := c.slots.findIdx (·.msg == n)
  if i < c.slots.length then some i else none

/-- `msgAdder.add` of the attached container -/
def containerAdd (P : Profile) (c : Container) (slots : List (List Msg)) (m : Msg) (g : Globals) :
    List (List Msg) × Globals :=
  match slotFor c m.num with
  | none => (slots, g)
  | some i =>
    let (m', g') := if expandSet.contains m.num then expand P m g else (m, g)
    let many := (c.slots.getD i default).many
    let cur := slots.getD i []
    (setAt slots i (if many then cur ++ [m'] else [m']), g')

/-- `File.init`: attach the container for the file type in `FileId.Type` -/
def fileTypeOf (f : FileSt) : Nat :=
  match f.fileId.vals with
  | .u t :: _ => t
  | _ => 0

def FileSt.init (P : Profile) (f : FileSt) : Except ErrClass FileSt :=
  match P.initAns (fileTypeOf f) with
  | .container i =>
    let c := P.containers.getD i default
    .ok { f with cidx := some i, slots := List.replicate c.slots.length [] }
  | .format => .error .format
  | .notsupported => .error .notsupported

/-- `File.add`; `none` = panic (nil `msgAdder`) -/
def FileSt.add (P : Profile) (f : FileSt) (m : Msg) (g : Globals) : Option (FileSt × Globals) :=
  if m.num = mnFileId then
    -- once the container is attached a later file_id cannot change the file type
    let m' := match f.cidx, m.vals, f.fileId.vals with
      | some _, _ :: rest, t :: _ => { m with vals := t :: rest }
      | _, _, _ => m
    some ({ f with fileId := m' }, g)
  else if m.num = mnFileCreator then some ({ f with creator := some m }, g)
  else if m.num = mnTimestampCorrelation then some ({ f with tscorr := some m }, g)
  else if m.num = mnFieldDescription then some ({ f with fieldDescs := f.fieldDescs ++ [m] }, g)
  else if m.num = mnDeveloperDataId then some ({ f with devIds := f.devIds ++ [m] }, g)
  else match f.cidx with
    | none => none
    | some i =>
      let c := P.containers.getD i default
      let (slots, g') := containerAdd P c f.slots m g
      let xl := if (slotFor c m.num).isSome && expandSet.contains m.num then f.xlog ++ [(m, g)] else f.xlog
      some ({ f with slots := slots, xlog := xl }, g')

/-! ### canonical dump -/

def renderOptMsg : Option Msg → String
  | none => "-"
  | some m => m.render

def renderSlots (c : Container) (slots : List (List Msg)) : String :=
  joinWith "~" ((c.slots.zip slots).map fun (cs, ms) =>
    if cs.many then "[" ++ joinWith "|" (ms.map Msg.render) ++ "]"
    else match ms with
      | [] => "-"
      | m :: _ => m.render)

def renderUnkM : Option (List (Nat × Nat)) → String
  | none => "n"
  | some xs => "[" ++ joinWith "." (xs.map fun (m, c) => toString m ++ "=" ++ toString c) ++ "]"

def renderUnkF : Option (List (Nat × Nat × Nat)) → String
  | none => "n"
  | some xs => "[" ++ joinWith "." (xs.map fun (m, f, c) => toString m ++ "/" ++ toString f ++ "=" ++ toString c) ++ "]"

/-- which accessor answers for the file's current type: container index it would return -/
def FileSt.render (P : Profile) (f : FileSt) : String :=
  let cont := match f.cidx with
    | none => "none"
    | some i =>
      let c := P.containers.getD i default
      c.name ++ "{" ++ renderSlots c f.slots ++ "}"
  joinWith ";" [
    "H" ++ f.hdr.render,
    "C" ++ toString f.crc,
    "I" ++ f.fileId.render,
    "R" ++ renderOptMsg f.creator,
    "Z" ++ renderOptMsg f.tscorr,
    "D[" ++ joinWith "|" (f.fieldDescs.map Msg.render) ++ "]",
    "E[" ++ joinWith "|" (f.devIds.map Msg.render) ++ "]",
    "UM" ++ renderUnkM f.unkM,
    "UF" ++ renderUnkF f.unkF,
    "K" ++ cont,
    "A" ++ String.ofList (P.accessors.map fun (_, ts) =>
      -- the accessor checks FileId.Type and returns the field for its own type
      if ts.contains (fileTypeOf f) then
        (match f.cidx, P.initAns (fileTypeOf f) with
          | some i, .container j => if i = j then 'c' else 'n'
          | _, _ => 'n')
      else 'e') ]

end Fit
