-- GENERATED. DO NOT EDIT.
import FitModel.Gen.Strings
import FitModel.Gen.StrOK0
import FitModel.Gen.StrOK1
import FitModel.Gen.StrOK2
import FitModel.Gen.StrOK3
import FitModel.Gen.StrOK4
import FitModel.Gen.StrOK5
import FitModel.Gen.StrOK6
import FitModel.Gen.StrOK7
import FitModel.Gen.StrOK8
import FitModel.Gen.StrOK9
import FitModel.Gen.StrOK10
import FitModel.Gen.StrOK11
namespace Fit.Gen.Str
open Fit.Str

theorem tables_ok : tables.all tableOK = true := by
  simp only [tables, List.all_append, Bool.and_eq_true]
  exact ⟨⟨⟨⟨⟨⟨⟨⟨⟨⟨⟨chunk0_ok, chunk1_ok⟩, chunk2_ok⟩, chunk3_ok⟩, chunk4_ok⟩, chunk5_ok⟩, chunk6_ok⟩, chunk7_ok⟩, chunk8_ok⟩, chunk9_ok⟩, chunk10_ok⟩, chunk11_ok⟩

end Fit.Gen.Str
