-- GENERATED. DO NOT EDIT.
import FitModel.Gen.Strings
namespace Fit.Gen.Str
open Fit.Str

/-- kernel evaluation of the table check for this chunk of the generated string tables -/
theorem chunk4_ok : chunk4.all tableOK = true := by decide +kernel

end Fit.Gen.Str
