/-
  Model of fitgen's row → struct index → lookup entry pipeline (cmd/fitgen/internal/profile:
  transform.go `Field.transform` skipping rule, codegen.go `genFields` / `genFieldsArray`).
-/
namespace Fit.GenCore

/-- one field row of the messages sheet, after type resolution -/
structure Row where
  msg : String
  num : Nat
  enabled : Bool      -- example column neither empty nor "0"
  tcode : Nat         -- base type, array flag and kind, packed as types.Fit
deriving DecidableEq, Repr, Inhabited

structure Entry where
  msg : String
  sindex : Nat
  num : Nat
  tcode : Nat
deriving DecidableEq, Repr, Inhabited

/-- number of enabled rows of message `m` in a list -/
def countMsg (m : String) (rows : List Row) : Nat := (rows.filter (fun r => r.enabled && r.msg == m)).length

/-- the generator: rows are processed in order; `seen` are the rows already processed -/
def genFrom (seen : List Row) : List Row → List Entry
  | [] => []
  | r :: rest =>
    if r.enabled then ⟨r.msg, countMsg r.msg seen, r.num, r.tcode⟩ :: genFrom (seen ++ [r]) rest
    else genFrom (seen ++ [r]) rest

def gen (rows : List Row) : List Entry := genFrom [] rows

end Fit.GenCore
