import FitModel.Decode
/-
  The record layer as a machine over *items* (parsed records) instead of bytes.

  `serializeItem` writes the FIT record grammar; `stepItem` is what the decoder does with one
  record once its bytes are split into fields.  `FitProofs/Framing.lean` proves that the byte-level
  parser of `Decode.lean`, run on `serialize items`, performs exactly `stepItem` on each item.
  The per-field value semantics (`applyField`) and the bookkeeping (definition table, timestamp
  reference, unknown-item counters, routing) are shared, so properties of the item machine are
  properties of the decoder on every well-formed stream.
-/
namespace Fit

inductive Item
  | defn (d : DefMsg) (devBit : Bool)
  | data (localT : Nat) (fields : List Bytes) (dev : List Bytes)
  | cdata (localT : Nat) (off : Nat) (fields : List Bytes) (dev : List Bytes)
deriving Repr, Inhabited

def u8 (n : Nat) : UInt8 := UInt8.ofNat n

def serializeFieldDefs : List FieldDef → Bytes
  | [] => []
  | f :: fs => u8 f.num :: u8 f.size :: u8 f.btype :: serializeFieldDefs fs

def serializeDevDescs : List DevDesc → Bytes
  | [] => []
  | f :: fs => u8 f.num :: u8 f.size :: u8 f.idx :: serializeDevDescs fs

def archByte : Endian → UInt8
  | .le => 0
  | .be => 1

def serializeItem : Item → Bytes
  | .defn d devBit =>
    [u8 (0x40 + (if devBit then 0x20 else 0) + d.localT), 0, archByte d.arch]
      ++ d.arch.enc 2 d.global ++ [u8 d.fields.length] ++ serializeFieldDefs d.fields
      ++ (if devBit then u8 d.dev.length :: serializeDevDescs d.dev else [])
  | .data l fs dev => u8 l :: (fs.flatten ++ dev.flatten)
  | .cdata l off fs dev => u8 (0x80 + l * 32 + off) :: (fs.flatten ++ dev.flatten)

def serialize (its : List Item) : Bytes := (its.map serializeItem).flatten

inductive StepRes
  | ok (st : DecSt)
  | stop (o : Outcome)

inductive FRes
  | ok (m : Option Msg) (st : DecSt)
  | fail (o : Outcome)

/-- the field loop of `parseDataFields` on already split field bytes -/
def stepFields (P : Profile) (dm : DefMsg) (known : Bool) :
    List FieldDef → List Bytes → Option Msg → DecSt → FRes
  | [], _, m, st => .ok m st
  | _ :: _, [], m, st => .ok m st
  | fd :: fds, raw :: raws, m, st =>
    let st :=
      if (P.getField dm.global fd.num).isNone ∧ known then
        { st with unkF := bump (dm.global, fd.num) st.unkF }
      else st
    let st := { st with n := st.n + fd.size, crc := Crc.update st.crc raw }
    match applyField P dm known fd raw m st.ts with
    | .err => .fail (fail st .other)
    | .panic => .fail (panicOut st)
    | .ok m ts => stepFields P dm known fds raws m (st.setTs ts)

def stepDev : List DevDesc → List Bytes → DecSt → DecSt
  | [], _, st => st
  | _ :: _, [], st => st
  | d :: ds, raw :: raws, st => stepDev ds raws { st with n := st.n + d.size, crc := Crc.update st.crc raw }

/-- `parseDataMessage` + `file.add` for one data record whose header byte is `hb` -/
def stepData (P : Profile) (hb : Nat) (compressed : Bool) (fields dev : List Bytes) (st : DecSt) : StepRes :=
  let localT := if compressed then (hb / 32) % 4 else hb % 16
  let useTs : Bool := compressed && decide (st.timestamp ≠ 0)   -- a compressed header needs a reference
  match st.defs.getD localT none with
  | none => .stop (fail st .other)
  | some dm =>
    let known := P.known dm.global
    let ctor := match P.msg? dm.global with
      | some pm => if pm.hasCtor then some (Msg.mk dm.global pm.invalid) else none
      | none => none
    if known ∧ ctor.isNone then .stop (panicOut st)
    else
      let m : Option Msg := if known then ctor else none
      let st := if !known then { st with unkM := bump dm.global st.unkM } else st
      let body (m : Option Msg) (st : DecSt) : StepRes :=
        match stepFields P dm known dm.fields fields m st with
        | .fail o => .stop o
        | .ok m st =>
          let st := stepDev dm.dev dev st
          match addMsg P m st with
          | none => .stop (panicOut st)
          | some st => .ok st
      if !useTs then body m st
      else
        let off := hb % 32
        let ts : Nat := tsAdvance st.timestamp st.lastOff off
        let st := { st with timestamp := ts, lastOff := off }
        match P.getField dm.global fieldNumTimeStamp with
        | none => body m st
        | some pf =>
          match m, P.msg? dm.global with
          | some msg, some pm =>
            match pm.layout[pf.sindex]? with
            | some .time => body (some { msg with vals := setAt msg.vals pf.sindex (.t (Int.ofNat ts) 0 0) }) st
            | _ => .stop (panicOut st)
          | _, _ => .stop (panicOut st)

/-- consume the bytes of `bs` in the state's counters -/
def DecSt.eat (st : DecSt) (bs : Bytes) : DecSt :=
  { st with n := st.n + bs.length, crc := Crc.update st.crc bs }

/-- one record: what `decodeFileData` does with it -/
def stepItem (P : Profile) (st : DecSt) (it : Item) : StepRes :=
  match it with
  | .defn d devBit =>
    if d.global = mesgNumInvalid then .stop (fail st .format)   -- (state details of failing runs are not used)
    else if !(d.fields.all (validateFieldDef P d.global)) then .stop (fail st .other)
    else
      let st := st.eat (serializeItem (.defn d devBit))
      let d' : DefMsg := if devBit then d else { d with dev := [] }
      .ok { st with defs := setAt st.defs d.localT (some d') }
  | .data l fs dev =>
    stepData P l false fs dev (st.eat [u8 l])
  | .cdata l off fs dev =>
    let hb := 0x80 + l * 32 + off
    stepData P hb true fs dev (st.eat [u8 hb])

def stepItems (P : Profile) : DecSt → List Item → StepRes
  | st, [] => .ok st
  | st, it :: its =>
    match stepItem P st it with
    | .ok st' => stepItems P st' its
    | .stop o => .stop o

end Fit

namespace Fit

/-- header (14 bytes, with CRC) + record bytes + file CRC, as a FIT writer produces them -/
def frameBytes (proto profile : Nat) (records : Bytes) : Bytes :=
  let h12 : Bytes := [14, u8 proto] ++ natLE 2 profile ++ natLE 4 records.length ++ fitTag
  let hc := Crc.checksum h12
  let hdr := h12 ++ [Crc.lo hc, Crc.hi hc]
  let body := hdr ++ records
  let fc := Crc.checksum body
  body ++ [Crc.lo fc, Crc.hi fc]

/-- Run a whole record area through the item machine, the way `decode` sequences it:
    file_id definition and data record first, then `init`, then the remaining records.
    `crc0` is the checksum register the header phase leaves (0 after a header with its CRC). -/
def runItems (P : Profile) (hdr : Header) (g : Globals) (its : List Item) (crc0 : BitVec 16 := 0#16) : StepRes :=
  let st0 : DecSt := { DecSt.init g with hdr := hdr, crc := crc0, file := some { hdr := hdr, fileId := zeroFileId P }, unkInit := true }
  match its with
  | d :: r :: rest =>
    match stepItem P st0 d with
    | .stop o => .stop o
    | .ok st1 =>
      match stepItem P st1 r with
      | .stop o => .stop o
      | .ok st2 =>
        match st2.file with
        | none => .stop (panicOut st2)
        | some f =>
          match f.init P with
          | .error c => .stop (fail st2 c)
          | .ok f' => stepItems P { st2 with file := some f' } rest
  | _ => .stop (fail st0 .other)

end Fit
