import FitModel.Basic
/-
  Model of latlng.go (integer part) and time.go.
-/
namespace Fit.LatLng

def sint32Invalid : Int := 0x7FFFFFFF

/-- `NewLatitude(semicircles)`: the stored semicircle value -/
def newLatitude (s : Int) : Int :=
  if s = sint32Invalid then sint32Invalid
  else if s < -1073741824 ∨ s > 1073741823 then sint32Invalid   -- math.MinInt32/2, math.MaxInt32/2
  else s

/-- `NewLongitude(semicircles)` -/
def newLongitude (s : Int) : Int := s

def invalid (stored : Int) : Bool := stored == sint32Invalid

/-- `Degrees()` as an exact fraction: numerator over 2^31 (NaN for invalid = `none`) -/
def degreesNum (stored : Int) : Option Int := if invalid stored then none else some (stored * 180)

/-- `int32(x)` of a real `x` given as the exact product before truncation toward zero; the float
    step itself is treated in FitProps/C17.lean -/
def truncToInt (num den : Int) : Int := Int.tdiv num den

/-! ### time.go -/

/-- `decodeDateTime(dt)`: seconds since the FIT epoch -/
def decodeDateTime (v : Nat) : Int := (v : Int)

/-- `time.Duration` saturates at ±2^63−1 ns in `t.Sub(timeBase)` -/
def clampDuration (ns : Int) : Int :=
  if ns > 9223372036854775807 then 9223372036854775807
  else if ns < -9223372036854775808 then -9223372036854775808 else ns

/-- `encodeTime(t)` for a time `secs` whole seconds after the epoch: `uint32(t.Sub(timeBase) / time.Second)` -/
def encodeTime (secs : Int) : Nat :=
  toUnsigned 32 (Int.tdiv (clampDuration (secs * 1000000000)) 1000000000)

/-- `IsBaseTime` -/
def isBaseTime (secs : Int) : Bool := secs == 0

end Fit.LatLng
