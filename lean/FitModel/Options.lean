import FitModel.Types
/-!
The decode options as the caller gives them (`opts.go`): a list of option values applied in order
to the zero option record, `for _, opt := range opts { opt(&d.opts) }` in `Decode` / `DecodeChained`.
The driver builds `Opts` through `applyOpts` from the list in the order the harness passes them, so
the correspondence run compares orders too.
-/
namespace Fit

/-- the four option constructors of `opts.go` (`WithLogger` with a non-nil logger) -/
inductive DOpt where
  | logger
  | stdLogger
  | unkFields
  | unkMsgs
deriving DecidableEq, Repr, Inhabited

def DOpt.isLogger : DOpt → Bool
  | .logger => true
  | .stdLogger => true
  | _ => false

/-- one option applied: it sets its own field and touches nothing else -/
def Opts.apply1 (o : Opts) : DOpt → Opts
  | .logger => { o with logger := true }
  | .stdLogger => { o with logger := true }
  | .unkFields => { o with unkFields := true }
  | .unkMsgs => { o with unkMsgs := true }

def applyOpts (l : List DOpt) : Opts := l.foldl Opts.apply1 {}

end Fit
