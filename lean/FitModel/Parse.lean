import FitModel.File
/-
  Parser for the canonical dump format (inverse of `Val.render` / `Msg.render` / `FileSt.render`),
  used by the driver to receive Files from the harness.
-/
namespace Fit

def dropPrefix (s : String) (n : Nat) : String := String.ofList (s.toList.drop n)

def parseNatDots (s : String) : Option (List Nat) :=
  if s.isEmpty then some [] else (splitOnChar s '.').mapM parseNat?

def parseIntDots (s : String) : Option (List Int) :=
  if s.isEmpty then some [] else (splitOnChar s '.').mapM parseInt?

def parseHexDots (s : String) : Option (List Bytes) :=
  if s.isEmpty then some [] else (splitOnChar s '.').mapM unhex

/-- strip one leading and one trailing character -/
def inner (s : String) : String :=
  let cs := s.toList
  String.ofList ((cs.drop 1).take (cs.length - 2))

def parseVal (k : SlotKind) (s : String) : Option Val :=
  match s.toList with
  | 'u' :: r => (natOfChars r).map Val.u
  | 'i' :: r => (parseInt? (String.ofList r)).map Val.i
  | 'f' :: r => (natOfChars r).map Val.f
  | 's' :: r => (unhexChars r).map Val.s
  | 'a' :: r => (parseInt? (String.ofList r)).map Val.lat
  | 'o' :: r => (parseInt? (String.ofList r)).map Val.lng
  | 't' :: r =>
    match splitOnChar (String.ofList r) '/' with
    | [a, b, c] =>
      match parseInt? a, parseInt? b, parseNat? c with
      | some x, some y, some z => some (.t x y z)
      | _, _, _ => none
    | _ => none
  | ['n'] =>
    match k with
    | .sl (.u _) => some (.us none)
    | .sl (.i _) => some (.is none)
    | .sl (.f _) => some (.fs none)
    | .sl .s => some (.ss none)
    | _ => none
  | 'U' :: r => (parseNatDots (inner (String.ofList r))).map fun xs => Val.us (some xs)
  | 'I' :: r => (parseIntDots (inner (String.ofList r))).map fun xs => Val.is (some xs)
  | 'F' :: r => (parseNatDots (inner (String.ofList r))).map fun xs => Val.fs (some xs)
  | 'S' :: r => (parseHexDots (inner (String.ofList r))).map fun xs => Val.ss (some xs)
  | _ => none

def zipParse : List SlotKind → List String → Option (List Val)
  | [], [] => some []
  | k :: ks, s :: ss =>
    match parseVal k s, zipParse ks ss with
    | some v, some vs => some (v :: vs)
    | _, _ => none
  | _, _ => none

/-- `num:v,v,v` -/
def parseMsg (P : Profile) (s : String) : Option Msg :=
  match splitOnChar s ':' with
  | [n, vs] =>
    match parseNat? n with
    | none => none
    | some num =>
      match P.msg? num with
      | none => none
      | some pm => (zipParse pm.layout (if vs.isEmpty then [] else splitOnChar vs ',')).map fun vals => ⟨num, vals⟩
  | _ => none

def parseOptMsg (P : Profile) (s : String) : Option (Option Msg) :=
  if s == "-" then some none else (parseMsg P s).map some

def parseHeader (s : String) : Option Header :=
  match splitOnChar s '/' with
  | [a, b, c, d, e, f] =>
    match parseNat? a, parseNat? b, parseNat? c, parseNat? d, unhex e, parseNat? f with
    | some size, some proto, some prof, some ds, some dt, some crc =>
      some { size := size, proto := proto, profile := prof, dataSize := ds, dtype := dt, crc := crc }
    | _, _, _, _, _, _ => none
  | _ => none

def parseSlot (P : Profile) (many : Bool) (s : String) : Option (List Msg) :=
  if many then
    let body := inner s
    if body.isEmpty then some [] else (splitOnChar body '|').mapM (parseMsg P)
  else if s == "-" then some [] else (parseMsg P s).map fun m => [m]

def zipSlots (P : Profile) : List CSlot → List String → Option (List (List Msg))
  | [], [] => some []
  | c :: cs, s :: ss =>
    match parseSlot P c.many s, zipSlots P cs ss with
    | some v, some vs => some (v :: vs)
    | _, _ => none
  | _, _ => none

/-- `Name{slot~slot~…}` or `none` -/
def parseContainer (P : Profile) (s : String) : Option (Option Nat × List (List Msg)) :=
  if s == "none" then some (none, [])
  else
    match splitOnChar s '{' with
    | name :: rest =>
      let body := String.ofList ((String.intercalate "{" rest).toList.dropLast)
      let i := P.containers.findIdx (·.name == name)
      if i < P.containers.length then
        let c := P.containers.getD i default
        (zipSlots P c.slots (splitOnChar body '~')).map fun sl => (some i, sl)
      else none
    | _ => none

/-- sections `H…;C…;I…;R…;Z…;K…` (other sections are ignored) -/
def parseFile (P : Profile) (s : String) : Option FileSt :=
  let secs := splitOnChar s ';'
  let find (p : String) : Option String :=
    (secs.find? (fun x => x.startsWith p)).map fun x => dropPrefix x p.length
  match find "H", find "C", find "I", find "R", find "Z", find "K" with
  | some h, some c, some i, some r, some z, some k =>
    match parseHeader h, parseNat? c, parseMsg P i, parseOptMsg P r, parseOptMsg P z, parseContainer P k with
    | some hdr, some crc, some fid, some cr, some ts, some (cidx, slots) =>
      some { hdr := hdr, crc := crc, fileId := fid, creator := cr, tscorr := ts, cidx := cidx, slots := slots }
    | _, _, _, _, _, _ => none
  | _, _, _, _, _, _ => none

end Fit
