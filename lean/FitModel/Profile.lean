import FitModel.Base
/-
  The compiled-in profile as data: lookup table `_fields`, `knownMsgNums`, `msgsTypes`
  (as struct layouts), `newMesgFuncs` (as the all-invalid values they return), and the
  file containers.  The instance for the current tree is generated into
  `FitModel/Gen/Profile.lean` on every run.
-/
namespace Fit

/-- one non-nil entry of `_fields[msg][num]` -/
structure PField where
  sindex : Nat
  num : Nat
  tcode : Nat
  length : Nat
deriving DecidableEq, Repr, Inhabited

/-- everything the tables say about one message number -/
structure PMsg where
  num : Nat
  known : Bool               -- knownMsgNums[num]
  inFields : Bool            -- num < len(_fields)
  hasType : Bool             -- msgsTypes[num] exists and is non-nil
  hasCtor : Bool             -- newMesgFuncs[num] exists and is non-nil
  fields : List PField       -- non-nil entries of the row, ascending field number
  layout : List SlotKind     -- struct fields of msgsTypes[num], in order
  fnames : List String       -- their Go names
  invalid : List Val         -- value returned by the constructor, field by field
deriving Repr, Inhabited

/-- one field of a container struct -/
structure CSlot where
  name : String
  msg : Nat                  -- global message number of the element type
  many : Bool                -- slice (append) or pointer (overwrite)
deriving DecidableEq, Repr, Inhabited

structure Container where
  name : String
  slots : List CSlot
deriving Repr, Inhabited

/-- what `NewFile(t)` / `init` answers for a file-type value -/
inductive InitAns
  | container (idx : Nat)    -- index into `Profile.containers`
  | format | notsupported
deriving DecidableEq, Repr, Inhabited

structure Profile where
  msgs : List PMsg
  containers : List Container
  fileTypes : List InitAns   -- 256 entries, index = file-type value
  accessors : List (String × List Nat)   -- accessor methods of *File, by name, with the file types they answer for
  profileVersion : Nat
deriving Repr, Inhabited

def Profile.msg? (P : Profile) (n : Nat) : Option PMsg := P.msgs.find? (·.num == n)

def Profile.known (P : Profile) (n : Nat) : Bool :=
  match P.msg? n with
  | some m => m.known
  | none => false

/-- `getField` -/
def Profile.getField (P : Profile) (gmn fdn : Nat) : Option PField :=
  match P.msg? gmn with
  | some m => if m.inFields then m.fields.find? (·.num == fdn) else none
  | none => none

def Profile.initAns (P : Profile) (t : Nat) : InitAns := P.fileTypes.getD t .format

/-- message numbers handled by `File.add` itself -/
def mnFileId : Nat := 0
def mnFileCreator : Nat := 49
def mnTimestampCorrelation : Nat := 162
def mnFieldDescription : Nat := 206
def mnDeveloperDataId : Nat := 207
def mnSession : Nat := 18
def mnLap : Nat := 19
def mnRecord : Nat := 20
def mnEvent : Nat := 21
def mnSegmentLap : Nat := 142

end Fit
