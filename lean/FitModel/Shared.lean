/-
  Small-step model of concurrent calls sharing the package-level accumulators.
  An `accumulate` is a *non-atomic* read of the accumulator followed by a write.
-/
namespace Fit.Shared

inductive Act
  | loc (out : Nat)            -- local computation producing an output
  | rd (k : Nat)               -- read accumulator k into the call's register
  | wr (k : Nat) (delta : Nat) -- write register + delta to accumulator k, and output it
deriving DecidableEq, Repr

structure CallSt where
  todo : List Act
  reg : Nat := 0
  outs : List Nat := []
deriving Repr

abbrev Mem := List Nat           -- the accumulators

def memGet (m : Mem) (k : Nat) : Nat := m.getD k 0
def memSet : Mem → Nat → Nat → Mem
  | [], _, _ => []
  | _ :: xs, 0, v => v :: xs
  | x :: xs, k + 1, v => x :: memSet xs k v

/-- one step of call `c` -/
def stepCall (m : Mem) (c : CallSt) : Mem × CallSt :=
  match c.todo with
  | [] => (m, c)
  | .loc o :: rest => (m, { c with todo := rest, outs := c.outs ++ [o] })
  | .rd k :: rest => (m, { c with todo := rest, reg := memGet m k })
  | .wr k d :: rest => (memSet m k (c.reg + d), { c with todo := rest, outs := c.outs ++ [c.reg + d] })

def updateAt (cs : List CallSt) (i : Nat) (c : CallSt) : List CallSt :=
  match cs, i with
  | [], _ => []
  | _ :: xs, 0 => c :: xs
  | x :: xs, i + 1 => x :: updateAt xs i c

/-- run a schedule: the list says which call takes the next step -/
def run (m : Mem) (cs : List CallSt) : List Nat → Mem × List CallSt
  | [] => (m, cs)
  | i :: sched =>
    match cs[i]? with
    | none => run m cs sched
    | some c =>
      let r := stepCall m c
      run r.1 (updateAt cs i r.2) sched

/-- a call run alone to completion from memory `m` -/
def runAlone (m : Mem) (c : CallSt) : (fuel : Nat) → Mem × CallSt
  | 0 => (m, c)
  | fuel + 1 =>
    let r := stepCall m c
    runAlone r.1 r.2 fuel

def Act.isLocal : Act → Bool
  | .loc _ => true
  | _ => false

end Fit.Shared
