import FitModel.Basic
/-
  Readers and programs that read.

  * `Reader` is an `io.Reader` as far as the decoder can observe it: remaining bytes, how the
    reader splits them into `Read` results, and how it ends (EOF or a non-EOF error).
    Every `Read` delivers at least one byte or reports the end (the io.Reader contract).
  * A decode is a program in three phases, mirroring `(*decoder).decode`:
      - header phase  (`HProg`): `io.ReadFull` directly on the reader;
      - data phase    (`DProg`): bytes pulled through the 4096-byte buffer, never more than the
                                 header's data size (`fill`/`readByte`/`skipByte`/`readFull`);
      - trailer phase (`TProg`): `io.ReadFull` directly on the reader again (file CRC), entered
                                 only through `endData`, i.e. when exactly `limit` bytes were consumed
                                 (the decoder's "pre-CRC" invariant check), or after `io.CopyN`
                                 (CheckIntegrity).
  * `runBuffered…` mirrors reader.go's buffering; `runSpec…` simply consumes from the list.
    `FitProofs/Refine.lean` proves that they agree.
-/
namespace Fit

inductive Stop | eof | fault
deriving DecidableEq, Repr, Inhabited

structure Reader where
  data : Bytes            -- bytes not yet delivered
  stop : Stop             -- what Read reports once `data` is exhausted
  sched : List Nat        -- sizes of successive Read results, cyclic; [] = as much as asked
  tick : Nat              -- number of Read calls so far (index into `sched`)
  errWithData : Bool      -- the Read that delivers the last byte also reports `stop`
  pos : Nat               -- bytes delivered so far
deriving Repr, Inhabited

def Reader.ofBytes (d : Bytes) : Reader :=
  { data := d, stop := .eof, sched := [], tick := 0, errWithData := false, pos := 0 }

/-- size of the next Read result allowed by the schedule (at least 1) -/
def Reader.chunk (r : Reader) : Option Nat :=
  match r.sched with
  | [] => none
  | s => some (max 1 (s.getD (r.tick % s.length) 1))

/-- number of bytes a `Read(p)` with `len(p) = want` delivers when data is left -/
def Reader.amount (r : Reader) (want : Nat) : Nat :=
  match r.chunk with
  | none => min want r.data.length
  | some c => min (min want c) r.data.length

/-- One `Read(p)` with `len(p) = want` (`want ≥ 1`): delivered bytes, error, new reader. -/
def Reader.read (r : Reader) (want : Nat) : Bytes × Option Stop × Reader :=
  match r.data with
  | [] => ([], some r.stop, { r with tick := r.tick + 1 })
  | _ :: _ =>
    let k := r.amount want
    let out := r.data.take k
    let rest := r.data.drop k
    let err := if r.errWithData && rest.isEmpty then some r.stop else none
    (out, err, { r with data := rest, tick := r.tick + 1, pos := r.pos + k })

/-- why a buffered read could not be completed -/
inductive RdStop | limit | eof | fault
deriving DecidableEq, Repr, Inhabited

def RdStop.ofStop : Stop → RdStop
  | .eof => .eof
  | .fault => .fault

/-- trailer phase: `io.ReadFull(r, k bytes)`; on failure the handler gets the number of bytes obtained -/
inductive TProg (α : Type) where
  | done : α → TProg α
  | readDirect : (k : Nat) → (onErr : Nat → Stop → α) → (cont : Bytes → TProg α) → TProg α

/-- data phase: reads exactly-sized pieces through the buffer; ends normally with a `β` or leaves
    early with an `ε` (a failed read can only lead to an early exit) -/
inductive DProg (ε β : Type) where
  | done : β → DProg ε β
  | exit : ε → DProg ε β
  /-- exactly `k` bytes through the buffer (`readFull`; `readByte`/`skipByte` are k = 1) -/
  | readBuf : (k : Nat) → (onErr : RdStop → ε) → (cont : Bytes → DProg ε β) → DProg ε β

/-- header phase and the sequencing of the phases.  The data phase returns either an early exit
    `ε` (for the decoder: an error or a panic, never a success) or its result `β`. -/
inductive HProg (α ε β : Type) where
  | done : α → HProg α ε β
  | readDirect : (k : Nat) → (onErr : Nat → Stop → α) → (cont : Bytes → HProg α ε β) → HProg α ε β
  /-- `d.bytes.limit = limit`, the buffered phase, then — only if exactly `limit` bytes were
      consumed (else `onBad`, the decoder's "pre-CRC" panic) — the trailer -/
  | data : (limit : Nat) → (p : DProg ε β) → (onExit : ε → α) → (onBad : β → α) →
      (after : β → TProg α) → HProg α ε β
  /-- the buffered phase without a trailer (DecodeHeaderAndFileID) -/
  | dataOnly : (limit : Nat) → (p : DProg ε β) → (onExit : ε → α) → (fin : β → α) → HProg α ε β
  /-- `io.CopyN(dst, r, limit)`, then the trailer; the continuation gets the copied bytes -/
  | copyAll : (limit : Nat) → (onErr : Stop → α) → (cont : Bytes → TProg α) → HProg α ε β

/-! ### buffered interpreter (reader.go) -/

def bufSize : Nat := 4096
def copyBufSize : Nat := 32768

structure BufSt where
  r : Reader
  pending : Bytes      -- buf[i:j]
  n : Nat              -- d.bytes.n
  limit : Nat          -- d.bytes.limit
deriving Repr, Inhabited

/-- `readFull(p)` with `len(p) = k`, including the `fill` calls it makes. -/
def readFullB (k : Nat) (b : BufSt) : Except RdStop Bytes × BufSt :=
  if k = 0 then (.ok [], b)
  else if hp : b.pending ≠ [] then
    -- copy from the buffer
    let c := b.pending.take k
    let r := readFullB (k - c.length) { b with pending := b.pending.drop k, n := b.n + c.length }
    match r.1 with
    | .ok rest => (.ok (c ++ rest), r.2)
    | .error e => (.error e, r.2)
  else if b.limit ≤ b.n then (.error .limit, b)      -- fill: "requested data beyond data size"
  else
    -- fill: one Read of at most min(4096, limit - n) bytes
    let res := b.r.read (min bufSize (b.limit - b.n))
    if hr : res.1.isEmpty then
      (.error (match res.2.1 with | some .fault => .fault | _ => .eof), { b with r := res.2.2 })
    else readFullB k { b with r := res.2.2, pending := res.1 }
termination_by (k, if b.pending.isEmpty then 1 else 0)
decreasing_by
  · apply Prod.Lex.left
    have : 0 < (List.take k b.pending).length := by
      cases hb : b.pending with
      | nil => exact absurd hb hp
      | cons x xs => simp only [List.length_take, List.length_cons]; omega
    omega
  · have hp' : b.pending = [] := by
      cases hb : b.pending with
      | nil => rfl
      | cons x xs => rw [hb] at hp; simp at hp
    rw [hp']
    apply Prod.Lex.right
    simp only [List.isEmpty_nil, ↓reduceIte]
    cases hres : (b.r.read (min bufSize (b.limit - b.n))).1 with
    | nil => exact absurd hres (by simpa using hr)
    | cons _ _ => simp

/-- `io.ReadFull` on the reader itself: loop until `k` bytes or the reader stops. -/
def readDirectB (fuel : Nat) (k : Nat) (r : Reader) (acc : Bytes) : Except (Nat × Stop) Bytes × Reader :=
  if k = 0 then (.ok acc, r)
  else match fuel with
    | 0 => (.error (acc.length, r.stop), r)   -- unreachable: every Read delivers ≥ 1 byte or stops
    | fuel + 1 =>
      let res := r.read k
      if res.1.isEmpty then (.error (acc.length, (res.2.1.getD .eof)), res.2.2)
      else readDirectB fuel (k - res.1.length) res.2.2 (acc ++ res.1)

/-- `io.CopyN`: reads of at most `min 32768 remaining` bytes until `k` bytes are copied. -/
def copyNB (fuel : Nat) (k : Nat) (r : Reader) (acc : Bytes) : Except Stop Bytes × Reader :=
  if k = 0 then (.ok acc, r)
  else match fuel with
    | 0 => (.error r.stop, r)
    | fuel + 1 =>
      let res := r.read (min copyBufSize k)
      if res.1.isEmpty then (.error (res.2.1.getD .eof), res.2.2)
      else if res.2.1 = some .fault then
        -- bytes delivered together with a non-EOF error: copied, then the error is returned
        if res.1.length = k then (.ok (acc ++ res.1), res.2.2) else (.error .fault, res.2.2)
      else copyNB fuel (k - res.1.length) res.2.2 (acc ++ res.1)

def runBufferedT {α} : TProg α → Reader → α × Reader
  | .done a, r => (a, r)
  | .readDirect k onErr cont, r =>
    match readDirectB k k r [] with
    | (.ok bs, r') => runBufferedT (cont bs) r'
    | (.error (got, e), r') => (onErr got e, r')

def runBufferedD {ε β} : DProg ε β → BufSt → (ε ⊕ β) × BufSt
  | .done x, b => (.inr x, b)
  | .exit e, b => (.inl e, b)
  | .readBuf k onErr cont, b =>
    match readFullB k b with
    | (.ok bs, b') => runBufferedD (cont bs) b'
    | (.error e, b') => (.inl (onErr e), b')

def runBuffered {α ε β} : HProg α ε β → Reader → α × Reader
  | .done a, r => (a, r)
  | .readDirect k onErr cont, r =>
    match readDirectB k k r [] with
    | (.ok bs, r') => runBuffered (cont bs) r'
    | (.error (got, e), r') => (onErr got e, r')
  | .data limit p onExit onBad after, r =>
    match runBufferedD p { r := r, pending := [], n := 0, limit := limit } with
    | (.inl e, b) => (onExit e, b.r)
    | (.inr x, b) => if b.n = b.limit then runBufferedT (after x) b.r else (onBad x, b.r)
  | .dataOnly limit p onExit fin, r =>
    match runBufferedD p { r := r, pending := [], n := 0, limit := limit } with
    | (.inl e, b) => (onExit e, b.r)
    | (.inr x, b) => (fin x, b.r)
  | .copyAll limit onErr cont, r =>
    match copyNB limit limit r [] with
    | (.ok bs, r') => runBufferedT (cont bs) r'
    | (.error e, r') => (onErr e, r')

/-! ### specification interpreter: consume from a list -/

/-- the stream as a list and how it ends; `taken` counts the bytes consumed -/
structure SpecSt where
  rest : Bytes
  stop : Stop
  taken : Nat
  frameEnd : Nat := 0     -- ghost: position where the data area ends, once the header is read
deriving Repr, Inhabited

def runSpecT {α} : TProg α → SpecSt → α × SpecSt
  | .done a, s => (a, s)
  | .readDirect k onErr cont, s =>
    if k ≤ s.rest.length then
      runSpecT (cont (s.rest.take k)) { s with rest := s.rest.drop k, taken := s.taken + k }
    else (onErr s.rest.length s.stop, { s with rest := [], taken := s.taken + s.rest.length })

/-- data phase over the list; `n` bytes of `limit` consumed so far; returns the new `n` -/
def runSpecD {ε β} (limit : Nat) : DProg ε β → Nat → SpecSt → (ε ⊕ β) × Nat × SpecSt
  | .done x, n, s => (.inr x, n, s)
  | .exit e, n, s => (.inl e, n, s)
  | .readBuf k onErr cont, n, s =>
    if k ≤ limit - n ∧ k ≤ s.rest.length then
      runSpecD limit (cont (s.rest.take k)) (n + k) { s with rest := s.rest.drop k, taken := s.taken + k }
    else if limit - n ≤ s.rest.length then (.inl (onErr .limit), n, s)
    else (.inl (onErr (RdStop.ofStop s.stop)), n, s)

def runSpec {α ε β} : HProg α ε β → SpecSt → α × SpecSt
  | .done a, s => (a, s)
  | .readDirect k onErr cont, s =>
    if k ≤ s.rest.length then
      runSpec (cont (s.rest.take k)) { s with rest := s.rest.drop k, taken := s.taken + k }
    else (onErr s.rest.length s.stop, { s with rest := [], taken := s.taken + s.rest.length })
  | .data limit p onExit onBad after, s =>
    match runSpecD limit p 0 { s with frameEnd := s.taken + limit } with
    | (.inl e, _, s') => (onExit e, s')
    | (.inr x, n, s') => if n = limit then runSpecT (after x) s' else (onBad x, s')
  | .dataOnly limit p onExit fin, s =>
    match runSpecD limit p 0 { s with frameEnd := s.taken + limit } with
    | (.inl e, _, s') => (onExit e, s')
    | (.inr x, _, s') => (fin x, s')
  | .copyAll limit onErr cont, s =>
    if limit ≤ s.rest.length then
      runSpecT (cont (s.rest.take limit))
        { s with rest := s.rest.drop limit, taken := s.taken + limit, frameEnd := s.taken + limit }
    else (onErr s.stop, { s with rest := [], taken := s.taken + s.rest.length, frameEnd := s.taken + limit })

end Fit
