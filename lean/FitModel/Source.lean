import FitModel.Basic
/-
  Readers and programs that read.

  * `Reader` is an `io.Reader` as far as the decoder can observe it: remaining bytes, how the
    reader splits them into `Read` results, and how it ends (EOF or a non-EOF error).
    Every `Read` delivers at least one byte or reports the end (the io.Reader contract).
  * `Prog α` is a computation whose only effects are the three ways reader.go pulls bytes:
    through the 4096-byte buffer limited by the header's data size (`fill`/`readByte`/
    `skipByte`/`readFull`), `io.ReadFull` on the reader itself (header, trailing CRC) and
    `io.CopyN` (CheckIntegrity).
  * `runBuffered` mirrors reader.go's buffering; `runSpec` simply consumes from the list.
-/
namespace Fit

inductive Stop | eof | fault
deriving DecidableEq, Repr, Inhabited

structure Reader where
  data : Bytes            -- bytes not yet delivered
  stop : Stop             -- what Read reports once `data` is exhausted
  sched : List Nat        -- sizes of successive Read results, cyclic; [] = as much as asked
  tick : Nat              -- number of Read calls so far (index into `sched`)
  errWithData : Bool      -- the Read that delivers the last byte also reports `stop`
  pos : Nat               -- bytes delivered so far
deriving Repr, Inhabited

def Reader.ofBytes (d : Bytes) : Reader :=
  { data := d, stop := .eof, sched := [], tick := 0, errWithData := false, pos := 0 }

/-- size of the next Read result allowed by the schedule (at least 1) -/
def Reader.chunk (r : Reader) : Option Nat :=
  match r.sched with
  | [] => none
  | s => some (max 1 (s.getD (r.tick % s.length) 1))

/-- One `Read(p)` with `len(p) = want` (`want ≥ 1`): delivered bytes, error, new reader. -/
def Reader.read (r : Reader) (want : Nat) : Bytes × Option Stop × Reader :=
  match r.data with
  | [] => ([], some r.stop, { r with tick := r.tick + 1 })
  | _ :: _ =>
    let k := match r.chunk with
      | none => min want r.data.length
      | some c => min (min want c) r.data.length
    let out := r.data.take k
    let rest := r.data.drop k
    let err := if r.errWithData && rest.isEmpty then some r.stop else none
    (out, err, { r with data := rest, tick := r.tick + 1, pos := r.pos + k })

/-- why a read could not be completed -/
inductive RdStop | limit | eof | fault
deriving DecidableEq, Repr, Inhabited

def RdStop.ofStop : Stop → RdStop
  | .eof => .eof
  | .fault => .fault

inductive Prog (α : Type) where
  | done : α → Prog α
  /-- exactly `k` bytes through the buffer (`readFull`; `readByte`/`skipByte` are k = 1) -/
  | readBuf : (k : Nat) → (onErr : RdStop → α) → (cont : Bytes → Prog α) → Prog α
  /-- `io.ReadFull(r, k bytes)`; on failure the handler gets the number of bytes obtained -/
  | readDirect : (k : Nat) → (onErr : Nat → Stop → α) → (cont : Bytes → Prog α) → Prog α
  /-- `io.CopyN(dst, r, k)`; the continuation gets the copied bytes -/
  | copyN : (k : Nat) → (onErr : Stop → α) → (cont : Bytes → Prog α) → Prog α
  /-- `d.bytes.limit = n` -/
  | setLimit : (n : Nat) → (cont : Prog α) → Prog α

/-! ### buffered interpreter (reader.go) -/

def bufSize : Nat := 4096
def copyBufSize : Nat := 32768

structure BufSt where
  r : Reader
  pending : Bytes      -- buf[i:j]
  n : Nat              -- d.bytes.n
  limit : Nat          -- d.bytes.limit
deriving Repr, Inhabited

/-- `readFull(p)` with `len(p) = k`, including the `fill` calls it makes. -/
def readFullB (k : Nat) (b : BufSt) : Except RdStop Bytes × BufSt :=
  if k = 0 then (.ok [], b)
  else match hp : b.pending with
    | x :: xs =>
      let c := (x :: xs).take k
      let b' := { b with pending := (x :: xs).drop k, n := b.n + c.length }
      match readFullB (k - c.length) b' with
      | (.ok rest, b'') => (.ok (c ++ rest), b'')
      | (.error e, b'') => (.error e, b'')
    | [] =>
      if b.limit ≤ b.n then (.error .limit, b)
      else
        let want := min bufSize (b.limit - b.n)
        match b.r.read want with
        | ([], err, r') => (.error (match err with | some .fault => .fault | _ => .eof), { b with r := r' })
        | (y :: ys, _, r') => readFullB k { b with r := r', pending := y :: ys }
termination_by (k, if b.pending.isEmpty then 1 else 0)
decreasing_by
  · apply Prod.Lex.left
    have : 0 < (List.take k (x :: xs)).length := by
      simp only [List.length_take, List.length_cons]; omega
    omega
  · rw [hp]
    apply Prod.Lex.right
    simp

/-- `io.ReadFull` on the reader itself: loop until `k` bytes or the reader stops. -/
def readDirectB (fuel : Nat) (k : Nat) (r : Reader) (acc : Bytes) : Except (Nat × Stop) Bytes × Reader :=
  if k = 0 then (.ok acc, r)
  else match fuel with
    | 0 => (.error (acc.length, r.stop), r)   -- unreachable: every Read delivers ≥ 1 byte or stops
    | fuel + 1 =>
      match r.read k with
      | ([], err, r') => (.error (acc.length, (err.getD .eof)), r')
      | (bs, _, r') => readDirectB fuel (k - bs.length) r' (acc ++ bs)

/-- `io.CopyN`: reads of at most `min 32768 remaining` bytes until `k` bytes are copied. -/
def copyNB (fuel : Nat) (k : Nat) (r : Reader) (acc : Bytes) : Except Stop Bytes × Reader :=
  if k = 0 then (.ok acc, r)
  else match fuel with
    | 0 => (.error r.stop, r)
    | fuel + 1 =>
      match r.read (min copyBufSize k) with
      | ([], err, r') => (.error (err.getD .eof), r')
      | (bs, some .fault, r') =>
        -- bytes delivered together with a non-EOF error: copied, then the error is returned
        if bs.length = k then (.ok (acc ++ bs), r') else (.error .fault, r')
      | (bs, _, r') => copyNB fuel (k - bs.length) r' (acc ++ bs)

def runBuffered {α} : Prog α → BufSt → α × BufSt
  | .done a, b => (a, b)
  | .readBuf k onErr cont, b =>
    match readFullB k b with
    | (.ok bs, b') => runBuffered (cont bs) b'
    | (.error e, b') => (onErr e, b')
  | .readDirect k onErr cont, b =>
    match readDirectB k k b.r [] with
    | (.ok bs, r') => runBuffered (cont bs) { b with r := r' }
    | (.error (got, e), r') => (onErr got e, { b with r := r' })
  | .copyN k onErr cont, b =>
    match copyNB k k b.r [] with
    | (.ok bs, r') => runBuffered (cont bs) { b with r := r' }
    | (.error e, r') => (onErr e, { b with r := r' })
  | .setLimit n cont, b => runBuffered cont { b with limit := n, n := 0, pending := [] }

/-! ### specification interpreter: consume from a list -/

structure SpecSt where
  rest : Bytes         -- bytes of the stream not yet consumed
  stop : Stop          -- how the stream ends
  n : Nat
  limit : Nat
  taken : Nat          -- bytes consumed so far
deriving Repr, Inhabited

def runSpec {α} : Prog α → SpecSt → α × SpecSt
  | .done a, s => (a, s)
  | .readBuf k onErr cont, s =>
    let room := s.limit - s.n
    if k ≤ room ∧ k ≤ s.rest.length then
      runSpec (cont (s.rest.take k)) { s with rest := s.rest.drop k, n := s.n + k, taken := s.taken + k }
    else if room ≤ s.rest.length then (onErr .limit, s)
    else (onErr (RdStop.ofStop s.stop), s)
  | .readDirect k onErr cont, s =>
    if k ≤ s.rest.length then
      runSpec (cont (s.rest.take k)) { s with rest := s.rest.drop k, taken := s.taken + k }
    else (onErr s.rest.length s.stop, { s with rest := [], taken := s.taken + s.rest.length })
  | .copyN k onErr cont, s =>
    if k ≤ s.rest.length then
      runSpec (cont (s.rest.take k)) { s with rest := s.rest.drop k, taken := s.taken + k }
    else (onErr s.stop, { s with rest := [], taken := s.taken + s.rest.length })
  | .setLimit n cont, s => runSpec cont { s with limit := n, n := 0 }

end Fit
