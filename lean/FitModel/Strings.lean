import FitModel.Basic
/-
  Model of the generated `String` methods (types_string.go, types_man.go): the three shapes the
  repository's stringer emits, evaluated the way the Go code does (range tests, offset, index
  arrays into one name constant, map lookup), and the specification from the constant list.
-/
namespace Fit.Str

/-- strings as lists of character codes (kernel evaluation of `String` is very slow) -/
abbrev Str := List Nat

def Str.toString (s : Str) : String := String.ofList (s.map Char.ofNat)

/-- a string packed into one natural number, least-significant byte first (cheap to elaborate and
    to evaluate in the kernel, unlike long list or string literals) -/
def unpack : (len : Nat) → Nat → Str
  | 0, _ => []
  | len + 1, n => n % 256 :: unpack len (n / 256)

/-- decimal digits of a natural number -/
def digitsAux : (fuel : Nat) → Nat → Str → Str
  | 0, _, acc => acc
  | fuel + 1, n, acc => if n < 10 then (48 + n) :: acc else digitsAux fuel (n / 10) ((48 + n % 10) :: acc)

def natStr (n : Nat) : Str := digitsAux 40 n []

def intStr (i : Int) : Str := if i < 0 then 45 :: natStr (-i).toNat else natStr i.toNat

structure Run where
  lo : Int
  hi : Int
  off : Int              -- value subtracted before indexing (`i -= off`)
  name : Str             -- the name constant
  index : List Nat       -- index array; empty: the whole name constant is returned
deriving Repr, Inhabited

inductive Shape
  | runs (rs : List Run)                                  -- switch over value ranges
  | single (off : Int) (name : Str) (index : List Nat) -- one run, bounds test after `i -= off`
  | map (entries : List (Int × Str))                   -- map lookup
deriving Repr, Inhabited

structure Table where
  tname : Str
  bits : Nat
  signed : Bool
  keepPrefix : Bool                -- hand-written type (types_man.go): names are printed with the type prefix
  consts : List (Str × Int)     -- constants of the type, declaration order
  shape : Shape
deriving Repr, Inhabited

/-- `name[index[j]:index[j+1]]` -/
def slice (name : Str) (index : List Nat) (j : Nat) : Str :=
  let a := index.getD j 0
  let b := index.getD (j + 1) 0
  (name.drop a).take (b - a)

/-- `"T(" + strconv.FormatInt(int64(i), 10) + ")"` -/
def dflt (T : Table) (i : Int) : Str := T.tname ++ [40] ++ intStr i ++ [41]

def runStr (r : Run) (i : Int) : Str :=
  if r.index.isEmpty then r.name else slice r.name r.index (i - r.off).toNat

/-- the generated `String` method -/
def strOf (T : Table) (i : Int) : Str :=
  match T.shape with
  | .runs rs =>
    match rs.find? (fun r => decide (r.lo ≤ i ∧ i ≤ r.hi)) with
    | some r => runStr r i
    | none => dflt T i
  | .single off name index =>
    -- unsigned subtraction wraps around
    let j := if T.signed then i - off else (i - off) % (2 ^ T.bits : Nat)
    if j < 0 ∨ j ≥ (index.length : Int) - 1 then dflt T i else slice name index j.toNat
  | .map es =>
    match es.find? (fun e => e.1 == i) with
    | some e => e.2
    | none => dflt T i

/-- constant name without the type prefix -/
def trim (T : Table) (cname : Str) : Str :=
  if T.keepPrefix then cname else cname.drop T.tname.length

/-- the specification: a value that is a constant prints one of its names without the type
    prefix; every other value prints as `Type(n)` -/
def specOK (T : Table) (i : Int) (s : Str) : Bool :=
  if T.consts.any (fun c => c.2 == i) then T.consts.any (fun c => c.2 == i && trim T c.1 == s)
  else s == dflt T i

def intRange (lo hi : Int) : List Int := (List.range (hi - lo + 1).toNat).map (fun (k : Nat) => lo + Int.ofNat k)

/-- the values for which the method does not take its default branch -/
def covered (T : Table) : List Int :=
  match T.shape with
  | .runs rs => rs.flatMap (fun r => intRange r.lo r.hi)
  | .single off _ index => intRange off (off + (index.length : Int) - 2)
  | .map es => es.map (·.1)

/-- decidable table check: the method is right on every covered value, and every constant's value
    is covered (so no constant prints as `Type(n)`); index arrays stay inside the name constants -/
def shapeFits (T : Table) : Bool :=
  match T.shape with
  | .single off _ index => decide (0 ≤ off) && decide (off + (index.length : Int) - 1 ≤ (2 ^ T.bits : Nat)) && !T.signed
  | _ => true

def tableOK (T : Table) : Bool :=
  shapeFits T &&
  (covered T).all (fun i => specOK T i (strOf T i)) &&
  T.consts.all (fun c => (covered T).contains c.2) &&
  (covered T).all (fun i => T.consts.any (fun c => c.2 == i))

end Fit.Str
