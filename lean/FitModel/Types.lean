import FitModel.Profile
import FitModel.Crc
/-
  Decoder-side data types shared by header, decoder, file routing and encoder models.
-/
namespace Fit

inductive ErrClass
  | integrity | format | notsupported | ioerr | ueof | eof | fault | other | wrongfiletype
deriving DecidableEq, Repr, Inhabited

def ErrClass.render : ErrClass → String
  | .integrity => "integrity" | .format => "format" | .notsupported => "notsupported"
  | .ioerr => "ioerr" | .ueof => "ueof" | .eof => "eof" | .fault => "fault"
  | .other => "other" | .wrongfiletype => "wrongfiletype"

structure Opts where
  logger : Bool := false
  unkFields : Bool := false
  unkMsgs : Bool := false
deriving DecidableEq, Repr, Inhabited

structure Header where
  size : Nat := 0
  proto : Nat := 0
  profile : Nat := 0
  dataSize : Nat := 0
  dtype : Bytes := [0, 0, 0, 0]
  crc : Nat := 0
deriving DecidableEq, Repr, Inhabited

def Header.render (h : Header) : String :=
  joinWith "/" [toString h.size, toString h.proto, toString h.profile, toString h.dataSize,
    hexOf h.dtype, toString h.crc]

structure FieldDef where
  num : Nat
  size : Nat
  btype : Nat
deriving DecidableEq, Repr, Inhabited

structure DevDesc where
  num : Nat
  size : Nat
  idx : Nat
deriving DecidableEq, Repr, Inhabited

structure DefMsg where
  localT : Nat
  arch : Endian
  global : Nat
  fields : List FieldDef
  dev : List DevDesc
deriving DecidableEq, Repr, Inhabited

/-- one package-level component accumulator (`*uint32Accumulator`, nil until first use) -/
structure Accu where
  present : Bool := false
  value : Nat := 0
  last : Nat := 0
  mask : Nat := 0
deriving DecidableEq, Repr, Inhabited

/-- the package-level variables written on the decode path -/
structure Globals where
  dist : Accu := {}
  cyc : Accu := {}
  pow : Accu := {}
deriving DecidableEq, Repr, Inhabited

/-- `*File` as built by the decoder -/
structure FileSt where
  hdr : Header
  crc : Nat := 0
  fileId : Msg
  creator : Option Msg := none
  tscorr : Option Msg := none
  fieldDescs : List Msg := []
  devIds : List Msg := []
  cidx : Option Nat := none                -- attached container (index into profile.containers)
  slots : List (List Msg) := []            -- contents per container slot (single slots: ≤ 1 message)
  unkM : Option (List (Nat × Nat)) := none            -- nil until handleUnknownMessages ran
  unkF : Option (List (Nat × Nat × Nat)) := none
  xlog : List (Msg × Globals) := []      -- ghost: messages as they reached `expandComponents`, with the accumulators then
deriving Repr, Inhabited

structure DecSt where
  defs : List (Option DefMsg)              -- 16 local message types
  timestamp : Nat := 0
  lastOff : Nat := 0
  n : Nat := 0                             -- bytes consumed from the data area
  crc : BitVec 16 := 0#16
  hdr : Header := {}
  file : Option FileSt := none
  unkInit : Bool := false                  -- the unknown-item maps exist (defers registered)
  unkF : List ((Nat × Nat) × Nat) := []
  unkM : List (Nat × Nat) := []
  glob : Globals := {}
deriving Repr, Inhabited

def DecSt.init (g : Globals) : DecSt :=
  { defs := List.replicate 16 none, glob := g }

structure Outcome where
  err : Option ErrClass
  panic : Bool := false
  st : DecSt
  cleanEOF : Bool := false                 -- errReadSize: the reader ended before the first header byte
deriving Repr, Inhabited

/-- Go zero value of a struct field -/
def zeroTimeSecs : Int := -62766662400   -- time.Time{} relative to the FIT epoch

def zeroVal : SlotKind → Val
  | .sc (.u _) => .u 0
  | .sc (.i _) => .i 0
  | .sc (.f _) => .f 0
  | .sc .s => .s []
  | .sl (.u _) => .us none
  | .sl (.i _) => .is none
  | .sl (.f _) => .fs none
  | .sl .s => .ss none
  | .time => .t zeroTimeSecs 0 0
  | .lat => .lat 0
  | .lng => .lng 0
  | .other => .u 0

/-- increment the count of `k` in an insertion-ordered association list -/
def bump {κ} [BEq κ] (k : κ) : List (κ × Nat) → List (κ × Nat)
  | [] => [(k, 1)]
  | (k', c) :: rest => if k' == k then (k', c + 1) :: rest else (k', c) :: bump k rest

end Fit
