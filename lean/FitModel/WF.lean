import FitModel.Profile
/-
  Well-formedness of a profile (lookup tables, struct layouts, constructors, containers): the
  decidable facts the decoder and encoder rely on when they access message structs by reflection.
  The instance for the regenerated tables is checked by kernel evaluation in FitProps/C15.lean.
-/
namespace Fit

/-- Go kind of a scalar holding base type `b` -/
def scOfBase (b : Nat) : Option Sc :=
  match Base.index b with
  | 0 => some (.u 8) | 1 => some (.i 8) | 2 => some (.u 8) | 3 => some (.i 16) | 4 => some (.u 16)
  | 5 => some (.i 32) | 6 => some (.u 32) | 7 => some .s | 8 => some (.f 32) | 9 => some (.f 64)
  | 10 => some (.u 8) | 11 => some (.u 16) | 12 => some (.u 32) | 13 => some (.u 8)
  | 14 => some (.i 64) | 15 => some (.u 64) | 16 => some (.u 64) | _ => none

/-- the struct field type a profile type code calls for -/
def slotOfType (t : Nat) : Option SlotKind :=
  match tcKind t with
  | .native =>
    match scOfBase (tcBase t) with
    | some k => some (if tcArray t then .sl k else .sc k)
    | none => none
  | .timeUTC | .timeLocal => if tcArray t then none else some .time
  | .lat => if tcArray t then none else some .lat
  | .lng => if tcArray t then none else some .lng
  | .unknown _ => none

/-- the all-invalid value of a field of that type -/
def invalidOfType (t : Nat) : Option Val :=
  match tcKind t with
  | .native =>
    let b := tcBase t
    match scOfBase b with
    | some (.u _) => some (if tcArray t then .us none else .u (Base.invalidNat b))
    | some (.i w) => some (if tcArray t then .is none else .i (toSigned w (Base.invalidNat b)))
    | some (.f _) => some (if tcArray t then .fs none else .f (Base.invalidNat b))
    | some .s => some (if tcArray t then .ss none else .s [])
    | none => none
  | .timeUTC | .timeLocal => some (.t 0 0 0)
  | .lat => some (.lat 0x7FFFFFFF)
  | .lng => some (.lng 0x7FFFFFFF)
  | .unknown _ => none

def allDistinct (l : List Nat) : Bool :=
  match l with
  | [] => true
  | x :: xs => !xs.contains x && allDistinct xs

/-- one lookup entry against the message's layout and constructor -/
def fieldWF (m : PMsg) (f : PField) : Bool :=
  decide (f.num < 255) && decide (f.tcode < 65536) &&
  Base.known (tcBase f.tcode) &&
  -- no float and no 64-bit profile fields (the decoder has no case for them)
  !(Base.isFloat (tcBase f.tcode)) && decide (Base.size (tcBase f.tcode) ≤ 4) &&
  -- time and coordinate kinds carry their fixed 4-byte base types and are never arrays
  (match tcKind f.tcode with
    | .native => true
    | .timeUTC | .timeLocal => tcBase f.tcode == Base.uint32 && !tcArray f.tcode
    | .lat | .lng => tcBase f.tcode == Base.sint32 && !tcArray f.tcode
    | .unknown _ => false) &&
  -- field number 253 (`fieldNumTimeStamp`) is a date_time: the compressed-timestamp path stores a
  -- time.Time into it by reflection
  (decide (f.num ≠ 253) || (tcKind f.tcode == .timeUTC)) &&
  -- the struct field exists, has the Go type the code calls for, and the constructor
  -- initialises it to that type's invalid value
  (match m.layout[f.sindex]?, slotOfType f.tcode with
    | some k, some k' => k == k'
    | _, _ => false) &&
  (match m.invalid[f.sindex]?, invalidOfType f.tcode with
    | some v, some v' => v == v'
    | _, _ => false) &&
  -- encoded sizes fit in one byte
  decide (1 ≤ f.length) &&
  (if tcArray f.tcode || tcBase f.tcode == Base.string then decide (Base.size (tcBase f.tcode) * f.length ≤ 255) else true)

def msgWF (m : PMsg) : Bool :=
  -- lookup rows exist only for known messages; known messages have type, constructor and row
  (m.fields.isEmpty || (m.inFields && m.known)) &&
  (!m.known || (m.inFields && m.hasType && m.hasCtor)) &&
  (!(m.hasType && m.hasCtor) || m.invalid.length == m.layout.length) &&
  m.layout.length == m.fnames.length &&
  -- message numbers are 16-bit and not the invalid marker 0xFFFF, field counts fit the definition record's one-byte count
  decide (m.num < 65535) && decide (m.layout.length < 256) &&
  allDistinct (m.fields.map (·.num)) && allDistinct (m.fields.map (·.sindex)) &&
  m.fields.all (fieldWF m) &&
  -- every struct field is named by exactly one lookup entry (nothing decodes into a field
  -- the table does not know, nothing in the struct is unreachable)
  (!m.known || (List.range m.layout.length).all (fun i => m.fields.any (·.sindex == i)))

def containerWF (P : Profile) (c : Container) : Bool :=
  c.slots.all (fun s => P.known s.msg)

def ProfileWF (P : Profile) : Bool :=
  allDistinct (P.msgs.map (·.num)) && P.msgs.all msgWF && P.containers.all (containerWF P) &&
  P.fileTypes.length == 256 && P.known mnFileId

end Fit
