import FitProofs.Refine
/-
  A run only ever moves the reader forward: the reader after a run is the reader before it,
  minus the bytes delivered (same way of ending, same schedule).
-/
namespace Fit

theorem Reader.read_after (r : Reader) (want : Nat) (hw : 1 ≤ want) : ∃ j, r.After (r.read want).2.2 j := by
  by_cases hd : r.data = []
  · obtain ⟨r', h, ha⟩ := Reader.read_nil r want hd
    exact ⟨0, by rw [h]; exact ha⟩
  · obtain ⟨a, e, r', h, ha, _⟩ := Reader.read_cons r want hw hd
    exact ⟨a, by rw [h]; exact ha⟩

theorem readFullB_after (k : Nat) (b : BufSt) : ∃ j, b.r.After (readFullB k b).2.r j := by
  induction k, b using readFullB.induct with
  | case1 b =>
    rw [readFullB]; simp only [↓reduceIte]
    exact ⟨0, Reader.After.refl _⟩
  | case2 k b hk hp c r rest hr ih =>
    rw [readFullB]
    simp only [hk, ↓reduceIte, hp, ne_eq, not_false_eq_true, ↓reduceDIte]
    obtain ⟨j, hj⟩ := ih
    refine ⟨j, ?_⟩
    split <;> exact hj
  | case3 k b hk hp c r e hr ih =>
    rw [readFullB]
    simp only [hk, ↓reduceIte, hp, ne_eq, not_false_eq_true, ↓reduceDIte]
    obtain ⟨j, hj⟩ := ih
    refine ⟨j, ?_⟩
    split <;> exact hj
  | case4 k b hk hp hl =>
    rw [readFullB]
    simp only [hk, ↓reduceIte, hp, ↓reduceDIte, hl]
    exact ⟨0, Reader.After.refl _⟩
  | case5 k b hk hp hl res hr =>
    rw [readFullB]
    simp only [hk, ↓reduceIte, hp, ↓reduceDIte, hl]
    have hw : 1 ≤ min bufSize (b.limit - b.n) := by unfold bufSize; omega
    obtain ⟨j, hj⟩ := Reader.read_after b.r (min bufSize (b.limit - b.n)) hw
    have hr' : (b.r.read (min bufSize (b.limit - b.n))).1.isEmpty = true := hr
    simp only [hr', ↓reduceDIte]
    exact ⟨j, hj⟩
  | case6 k b hk hp hl res hr ih =>
    rw [readFullB]
    simp only [hk, ↓reduceIte, hp, ↓reduceDIte, hl]
    have hw : 1 ≤ min bufSize (b.limit - b.n) := by unfold bufSize; omega
    obtain ⟨j, hj⟩ := Reader.read_after b.r (min bufSize (b.limit - b.n)) hw
    have hr' : ¬ (b.r.read (min bufSize (b.limit - b.n))).1.isEmpty = true := hr
    simp only [hr', ↓reduceDIte]
    obtain ⟨j2, hj2⟩ := ih
    exact ⟨j + j2, hj.trans hj2⟩

theorem runBufferedT_after {α} (p : TProg α) (r : Reader) : ∃ j, r.After (runBufferedT p r).2 j := by
  induction p generalizing r with
  | done a => exact ⟨0, Reader.After.refl _⟩
  | readDirect k onErr cont ih =>
    obtain ⟨h1, h2⟩ := readDirectB_spec k k r [] (Nat.le_refl k)
    by_cases hk : k ≤ r.data.length
    · obtain ⟨r', hr, ha⟩ := h1 hk
      simp only [runBufferedT, hr]
      obtain ⟨j, hj⟩ := ih (r.data.take k) r'
      simp only [List.nil_append] at hj ⊢
      exact ⟨k + j, ha.trans hj⟩
    · obtain ⟨r', hr, ha⟩ := h2 (by omega)
      simp only [runBufferedT, hr]
      exact ⟨_, ha⟩

theorem runBufferedD_after {ε β} (p : DProg ε β) (b : BufSt) : ∃ j, b.r.After (runBufferedD p b).2.r j := by
  induction p generalizing b with
  | done x => exact ⟨0, Reader.After.refl _⟩
  | exit e => exact ⟨0, Reader.After.refl _⟩
  | readBuf k onErr cont ih =>
    simp only [runBufferedD]
    obtain ⟨j, hj⟩ := readFullB_after k b
    generalize readFullB k b = res at hj
    obtain ⟨o, b'⟩ := res
    cases o with
    | ok bs =>
      simp only
      obtain ⟨j2, hj2⟩ := ih bs b'
      exact ⟨j + j2, hj.trans hj2⟩
    | error e => exact ⟨j, hj⟩

/-- the reader after any run = the reader before it, some bytes further -/
theorem runBuffered_after {α ε β} (p : HProg α ε β) (r : Reader) : ∃ j, r.After (runBuffered p r).2 j := by
  induction p generalizing r with
  | done a => exact ⟨0, Reader.After.refl _⟩
  | readDirect k onErr cont ih =>
    obtain ⟨h1, h2⟩ := readDirectB_spec k k r [] (Nat.le_refl k)
    by_cases hk : k ≤ r.data.length
    · obtain ⟨r', hr, ha⟩ := h1 hk
      simp only [runBuffered, hr]
      obtain ⟨j, hj⟩ := ih (r.data.take k) r'
      simp only [List.nil_append] at hj ⊢
      exact ⟨k + j, ha.trans hj⟩
    · obtain ⟨r', hr, ha⟩ := h2 (by omega)
      simp only [runBuffered, hr]
      exact ⟨_, ha⟩
  | data limit p onExit onBad after =>
    simp only [runBuffered]
    obtain ⟨j, hj⟩ := runBufferedD_after p { r := r, pending := [], n := 0, limit := limit }
    generalize runBufferedD p { r := r, pending := [], n := 0, limit := limit } = res at hj
    obtain ⟨o, b'⟩ := res
    cases o with
    | inl e => exact ⟨j, hj⟩
    | inr x =>
      simp only
      split
      · obtain ⟨j2, hj2⟩ := runBufferedT_after (after x) b'.r
        exact ⟨j + j2, hj.trans hj2⟩
      · exact ⟨j, hj⟩
  | dataOnly limit p onExit fin =>
    simp only [runBuffered]
    obtain ⟨j, hj⟩ := runBufferedD_after p { r := r, pending := [], n := 0, limit := limit }
    generalize runBufferedD p { r := r, pending := [], n := 0, limit := limit } = res at hj
    obtain ⟨o, b'⟩ := res
    cases o <;> exact ⟨j, hj⟩
  | copyAll limit onErr cont =>
    obtain ⟨h1, h2⟩ := copyNB_spec limit limit r [] (Nat.le_refl limit)
    by_cases hk : limit ≤ r.data.length
    · obtain ⟨r', hr, ha⟩ := h1 hk
      simp only [runBuffered, hr]
      obtain ⟨j, hj⟩ := runBufferedT_after (cont (r.data.take limit)) r'
      simp only [List.nil_append] at hj ⊢
      exact ⟨limit + j, ha.trans hj⟩
    · obtain ⟨r', hr, ha⟩ := h2 (by omega)
      simp only [runBuffered, hr]
      exact ⟨_, ha⟩

end Fit
