import FitProofs.MsgRoundtrip
import FitProofs.Codec
/-
  C06: full-length arrays of unsigned elements round-trip field by field.
-/
namespace Fit

/-- cutting the concatenation of `w`-byte encodings into `w`-byte pieces gives the encodings back -/
theorem chunks_encodings (arch : Endian) (w : Nat) (hw : 0 < w) (xs : List Nat) (fuel : Nat)
    (hf : (xs.map (arch.enc w)).flatten.length ≤ fuel) :
    chunks w (xs.map (arch.enc w)).flatten fuel = xs.map (arch.enc w) := by
  induction xs generalizing fuel with
  | nil =>
    cases fuel with
    | zero => rfl
    | succ f => simp [chunks]
  | cons x xs ih =>
    simp only [List.map_cons, List.flatten_cons, List.length_append, enc_length] at hf ⊢
    cases fuel with
    | zero => omega
    | succ f =>
      unfold chunks
      have h1 : ¬ ((arch.enc w x ++ (xs.map (arch.enc w)).flatten).length < w ∨ w = 0) := by
        simp only [List.length_append, enc_length]; omega
      rw [if_neg h1]
      have ht : (arch.enc w x ++ (xs.map (arch.enc w)).flatten).take w = arch.enc w x :=
        List.take_left' (enc_length arch w x)
      have hd : (arch.enc w x ++ (xs.map (arch.enc w)).flatten).drop w = (xs.map (arch.enc w)).flatten :=
        List.drop_left' (enc_length arch w x)
      rw [ht, hd, ih f (by omega)]

theorem concatE_all_ok {α} (f : α → Bytes) (l : List α) :
    concatE (l.map fun x => (Except.ok (f x) : Except EncErr Bytes)) = .ok (l.map f).flatten := by
  induction l with
  | nil => rfl
  | cons x xs ih => simp only [List.map_cons, concatE, ih, List.flatten_cons]

theorem mapM_setUint (w : Nat) (xs : List Nat) :
    (xs.mapM fun x => setUint (.sc (.u w)) x) = some (xs.map fun x => Val.u (x % 2 ^ w)) := by
  induction xs with
  | nil => rfl
  | cons x xs ih =>
    rw [List.mapM_cons, ih]
    rfl

theorem filterMap_u (xs : List Nat) :
    (xs.map Val.u).filterMap (fun v => match v with | .u n => some n | _ => none) = xs := by
  induction xs with
  | nil => rfl
  | cons x xs ih => simp only [List.map_cons, List.filterMap_cons, ih]

/-- what `writeField` emits for a full-length array of unsigned elements: the element encodings, no
    padding -/
theorem writeField_unsigned_array (arch : Endian) (pf : PField) (w : Nat) (xs : List Nat)
    (harr : tcArray pf.tcode = true) (hns : tcBase pf.tcode ≠ Base.string) (hnat : tcKind pf.tcode = .native)
    (hlen : xs.length = pf.length) (hl256 : pf.length < 256) :
    writeField arch pf (.sl (.u (8 * w))) (.us (some xs)) = .ok (xs.map (arch.enc w)).flatten := by
  unfold writeField
  simp only [harr, Bool.not_true, Bool.false_eq_true, ↓reduceIte, hns, List.length_map]
  have hmax : min xs.length pf.length = xs.length := by
    rw [hlen]; exact Nat.min_self _
  rw [hmax]
  have htk : (xs.map Val.u).take xs.length = xs.map Val.u := List.take_of_length_le (by simp)
  rw [htk]
  have henc : (xs.map Val.u).map (encodeScalar arch pf (.u (8 * w))) =
      xs.map fun x => (Except.ok (arch.enc w x) : Except EncErr Bytes) := by
    rw [List.map_map]
    apply List.map_congr_left
    intro x _
    simp only [Function.comp, encodeScalar, hnat, hns, ↓reduceIte, scWidth]
    congr 2
    omega
  rw [henc, concatE_all_ok]
  simp only [hlen, Nat.sub_self, List.replicate_zero, List.flatten_nil, List.append_nil]

end Fit

namespace Fit

/-- what `writeField` writes for an array of unsigned elements no longer than the profile length
    (`none`: a nil slice): the elements, then the base type's invalid value up to the profile length -/
theorem writeField_unsigned_short (arch : Endian) (pf : PField) (w : Nat) (xs : Option (List Nat))
    (harr : tcArray pf.tcode = true) (hns : tcBase pf.tcode ≠ Base.string) (hnat : tcKind pf.tcode = .native)
    (hsize : Base.size (tcBase pf.tcode) = w) (hlen : (xs.getD []).length ≤ pf.length) :
    writeField arch pf (.sl (.u (8 * w))) (.us xs) =
      .ok (((xs.getD []).map (arch.enc w)).flatten ++
        (List.replicate (pf.length - (xs.getD []).length) (arch.enc w (Base.invalidNat (tcBase pf.tcode)))).flatten) := by
  have henc : ∀ ys : List Nat, (ys.map Val.u).map (encodeScalar arch pf (.u (8 * w))) =
      ys.map fun x => (Except.ok (arch.enc w x) : Except EncErr Bytes) := by
    intro ys
    rw [List.map_map]
    apply List.map_congr_left
    intro x _
    simp only [Function.comp, encodeScalar, hnat, hns, ↓reduceIte, scWidth]
    congr 2
    omega
  unfold writeField
  simp only [harr, Bool.not_true, Bool.false_eq_true, ↓reduceIte, hns, hsize]
  cases xs with
  | none =>
    simp only [Option.getD_none, List.length_nil, Nat.zero_min, List.take_zero, List.map_nil, concatE, Nat.sub_zero,
      List.flatten_nil, List.nil_append]
  | some ys =>
    simp only [Option.getD_some, List.length_map] at hlen ⊢
    have hmax : min ys.length pf.length = ys.length := Nat.min_eq_left hlen
    rw [hmax]
    have htk : (ys.map Val.u).take ys.length = ys.map Val.u := List.take_of_length_le (by simp)
    rw [htk, henc, concatE_all_ok]

/-- a short (or nil) array is written exactly as the array padded to the profile length -/
theorem writeField_pad (arch : Endian) (pf : PField) (w : Nat) (xs : Option (List Nat))
    (harr : tcArray pf.tcode = true) (hns : tcBase pf.tcode ≠ Base.string) (hnat : tcKind pf.tcode = .native)
    (hsize : Base.size (tcBase pf.tcode) = w) (hlen : (xs.getD []).length ≤ pf.length) :
    writeField arch pf (.sl (.u (8 * w))) (.us xs) =
      writeField arch pf (.sl (.u (8 * w))) (.us (some (xs.getD [] ++
        List.replicate (pf.length - (xs.getD []).length) (Base.invalidNat (tcBase pf.tcode))))) := by
  rw [writeField_unsigned_short arch pf w xs harr hns hnat hsize hlen]
  rw [writeField_unsigned_short arch pf w (some _) harr hns hnat hsize (by simp; omega)]
  simp only [Option.getD_some, List.length_append, List.length_replicate]
  have e : pf.length - ((xs.getD []).length + (pf.length - (xs.getD []).length)) = 0 := by omega
  rw [e]
  simp [List.map_append, List.map_replicate]

end Fit

namespace Fit

/-- arrays of signed elements: two's complement elements, then the base type's invalid value up to
    the profile length -/
theorem writeField_signed_short (arch : Endian) (pf : PField) (w : Nat) (zs : Option (List Int))
    (harr : tcArray pf.tcode = true) (hns : tcBase pf.tcode ≠ Base.string) (hnat : tcKind pf.tcode = .native)
    (hsize : Base.size (tcBase pf.tcode) = w) (hlen : (zs.getD []).length ≤ pf.length) :
    writeField arch pf (.sl (.i (8 * w))) (.is zs) =
      .ok (((zs.getD []).map fun z => arch.enc w (toUnsigned (8 * w) z)).flatten ++
        (List.replicate (pf.length - (zs.getD []).length) (arch.enc w (Base.invalidNat (tcBase pf.tcode)))).flatten) := by
  have henc : ∀ ys : List Int, (ys.map Val.i).map (encodeScalar arch pf (.i (8 * w))) =
      ys.map fun z => (Except.ok (arch.enc w (toUnsigned (8 * w) z)) : Except EncErr Bytes) := by
    intro ys
    rw [List.map_map]
    apply List.map_congr_left
    intro x _
    simp only [Function.comp, encodeScalar, hnat, hns, ↓reduceIte, scWidth]
    have e : 8 * w / 8 = w := by omega
    rw [e]
  unfold writeField
  simp only [harr, Bool.not_true, Bool.false_eq_true, ↓reduceIte, hns, hsize]
  cases zs with
  | none =>
    simp only [Option.getD_none, List.length_nil, Nat.zero_min, List.take_zero, List.map_nil, concatE, Nat.sub_zero,
      List.flatten_nil, List.nil_append]
  | some ys =>
    simp only [Option.getD_some, List.length_map] at hlen ⊢
    have hmax : min ys.length pf.length = ys.length := Nat.min_eq_left hlen
    rw [hmax]
    have htk : (ys.map Val.i).take ys.length = ys.map Val.i := List.take_of_length_le (by simp)
    rw [htk, henc]
    have := concatE_all_ok (fun z => arch.enc w (toUnsigned (8 * w) z)) ys
    rw [this]

theorem writeField_pad_signed (arch : Endian) (pf : PField) (w : Nat) (zs : Option (List Int))
    (harr : tcArray pf.tcode = true) (hns : tcBase pf.tcode ≠ Base.string) (hnat : tcKind pf.tcode = .native)
    (hsize : Base.size (tcBase pf.tcode) = w) (hlen : (zs.getD []).length ≤ pf.length)
    (hinv : toUnsigned (8 * w) (Base.invalidNat (tcBase pf.tcode) : Nat) = Base.invalidNat (tcBase pf.tcode)) :
    writeField arch pf (.sl (.i (8 * w))) (.is zs) =
      writeField arch pf (.sl (.i (8 * w))) (.is (some (zs.getD [] ++
        List.replicate (pf.length - (zs.getD []).length) ((Base.invalidNat (tcBase pf.tcode) : Nat) : Int)))) := by
  rw [writeField_signed_short arch pf w zs harr hns hnat hsize hlen]
  rw [writeField_signed_short arch pf w (some _) harr hns hnat hsize (by simp; omega)]
  simp only [Option.getD_some, List.length_append, List.length_replicate]
  have e : pf.length - ((zs.getD []).length + (pf.length - (zs.getD []).length)) = 0 := by omega
  rw [e]
  simp [List.map_append, List.map_replicate, hinv]

end Fit
