import Lean
/-!
  `#audit_ns Foo.Bar` lists every theorem declared in namespace `Foo.Bar` (direct children)
  with the axioms its proof depends on, one line each:
    AUDIT <name> axioms=[a,b,c]
  Used by bin/check to count proof obligations and to reject sorry / native_decide / extra axioms.
-/
open Lean Elab Command

elab "#audit_ns " ns:ident : command => do
  let env ← getEnv
  let nsName := ns.getId
  let mut names : Array Name := #[]
  for (n, ci) in env.constants.toList do
    if n.getPrefix == nsName && !n.isInternal then
      match ci with
      | .thmInfo _ => names := names.push n
      | _ => pure ()
  let sorted := names.qsort (fun a b => a.toString < b.toString)
  for n in sorted do
    let axs ← Lean.collectAxioms n
    let axs := axs.qsort (fun a b => a.toString < b.toString)
    let s := ", ".intercalate (axs.toList.map toString)
    logInfo m!"AUDIT {n} axioms=[{s}]"
