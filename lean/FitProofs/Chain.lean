import FitProofs.Frame
import FitProofs.After
/-
  DecodeChained: the buffered loop equals the loop over the byte list.
-/
namespace Fit

theorem decode_out_eq_spec (P : Profile) (o : Opts) (m : Mode) (g : Globals) (r : Reader) :
    (decode P o m g r).1 = (decodeSpec P o m g r.data r.stop).1 := by
  simp only [decode, decodeSpec]
  have := (run_refines (decodeProg P m g) r 0).1
  rw [this]
  have := runSpec_pos_irrelevant (decodeProg P m g)
    { rest := r.data, stop := r.stop, taken := r.pos, frameEnd := 0 }
    { rest := r.data, stop := r.stop, taken := 0 } rfl rfl
  rw [this]

theorem spec_success_of (P : Profile) (o : Opts) (m : Mode) (g : Globals) (d : Bytes) (stop : Stop)
    (h : (decodeSpec P o m g d stop).1.success) :
    (runSpec (decodeProg P m g) { rest := d, stop := stop, taken := 0 }).1.success := by
  unfold decodeSpec at h
  simp only at h
  have := finalize_err o (runSpec (decodeProg P m g) { rest := d, stop := stop, taken := 0 }).1
  unfold Outcome.success at h ⊢
  rw [this.1, this.2.1] at h
  exact h

/-- after a successful decode the reader stands exactly at the end of the frame -/
theorem decode_success_reader (P : Profile) (o : Opts) (g : Globals) (r : Reader)
    (h : (decode P o .full g r).1.success) :
    (decode P o .full g r).2.data = (decodeSpec P o .full g r.data r.stop).2.rest ∧
    (decode P o .full g r).2.stop = r.stop := by
  have hs : (decodeSpec P o .full g r.data r.stop).1.success := by rw [← decode_out_eq_spec]; exact h
  have hspec := spec_success_of P o .full g r.data r.stop hs
  have h1 := (prog_consumes_exactly P .full (Or.inl rfl) g _ hspec).1
  have h2 := (runSpec_conserve (decodeProg P .full g) { rest := r.data, stop := r.stop, taken := 0 }).2.2.1
  simp only [Nat.zero_add, Nat.sub_zero] at h1 h2
  -- position of the buffered reader
  have hr := run_refines (decodeProg P .full g) r 0
  simp only at hr
  obtain ⟨e1, e2, e3⟩ := hr
  have hs2 : (runSpec (decodeProg P .full g) { rest := r.data, stop := r.stop, taken := r.pos, frameEnd := 0 }).1.success := by
    simp only [decode] at h
    have := finalize_err o (runBuffered (decodeProg P .full g) r).1
    unfold Outcome.success at h ⊢
    rw [this.1, this.2.1, e1] at h
    exact h
  obtain ⟨c1, c2, c3⟩ := prog_consumes_exactly P .full (Or.inl rfl) g _ hs2
  simp only at c1 c3
  obtain ⟨j, hj⟩ := runBuffered_after (decodeProg P .full g) r
  have hpos := hj.pos
  have hj' : j = frameLen r.data := by omega
  simp only [decode, decodeSpec]
  refine ⟨?_, hj.stop⟩
  rw [hj.data, hj', h2, h1]

/-- **DecodeChained = the chain over the byte list**, for any read schedule. -/
theorem chained_eq_spec (P : Profile) (o : Opts) (fuel i : Nat) (acc : List FileSt) (g : Globals) (r : Reader) :
    let a := decodeChained P o fuel i acc g r
    let b := decodeChainedSpec P o fuel i acc g r.data r.stop
    a.files = b.files ∧ a.err = b.err ∧ a.panic = b.panic ∧ a.glob = b.glob := by
  induction fuel generalizing i acc g r with
  | zero => simp [decodeChained, decodeChainedSpec]
  | succ fuel ih =>
    simp only [decodeChained, decodeChainedSpec]
    have e := decode_out_eq_spec P o .full g r
    rw [← e]
    generalize hres : decode P o .full g r = res at e
    obtain ⟨out, r'⟩ := res
    simp only at e ⊢
    by_cases hp : out.panic = true
    · simp [hp]
    · simp only [hp, Bool.false_eq_true, ↓reduceIte]
      cases he : out.err with
      | some c =>
        simp only
        split <;> simp
      | none =>
        simp only
        cases hf : out.st.file with
        | none => simp
        | some f =>
          simp only
          have hsucc : (decode P o .full g r).1.success := by
            rw [hres]; exact ⟨he, by simpa using hp⟩
          obtain ⟨d1, d2⟩ := decode_success_reader P o g r hsucc
          rw [hres] at d1 d2
          simp only at d1 d2
          have := ih (i + 1) (acc ++ [f]) out.st.glob r'
          simp only at this
          rw [d1, d2] at this
          exact this

end Fit

namespace Fit

theorem spec_short_not_success (P : Profile) (o : Opts) (m : Mode) (hm : m = .full ∨ m = .crcOnly)
    (g : Globals) (data : Bytes) (stop : Stop) (hshort : data.length < frameLen data) :
    ¬ (decodeSpec P o m g data stop).1.success := by
  intro h
  have hs := spec_success_of P o m g data stop h
  have h1 := (prog_consumes_exactly P m hm g _ hs).1
  have h2 := (runSpec_conserve (decodeProg P m g) { rest := data, stop := stop, taken := 0 }).1
  simp only [Nat.zero_add] at h1 h2
  omega

theorem spec_cleanEOF (P : Profile) (o : Opts) (m : Mode) (g : Globals) (d : Bytes) (stop : Stop)
    (h : (decodeSpec P o m g d stop).1.cleanEOF = true) : d = [] ∧ stop = .eof := by
  unfold decodeSpec at h
  simp only at h
  rw [(finalize_err o _).2.2] at h
  exact cleanEOF_only_on_empty P m g _ h

/-- decoding a frame followed by anything = decoding the frame, with the rest left over -/
theorem spec_append (P : Profile) (o : Opts) (m : Mode) (g : Globals) (f tail : Bytes) (stop : Stop)
    (hs : (decodeSpec P o m g f stop).1.success) :
    (decodeSpec P o m g (f ++ tail) stop).1 = (decodeSpec P o m g f stop).1 ∧
    (decodeSpec P o m g (f ++ tail) stop).2.rest = (decodeSpec P o m g f stop).2.rest ++ tail := by
  have hspec := spec_success_of P o m g f stop hs
  have := prog_extension P m g { rest := f, stop := stop, taken := 0 } tail hspec
  simp only [SpecSt.extend] at this
  simp only [decodeSpec, this]
  exact ⟨trivial, trivial⟩

end Fit
