import FitModel.Basic
/-!
  Byte-order encoders and decoders are inverse of each other.
-/
namespace Fit

theorem natLE_length (w n : Nat) : (natLE w n).length = w := by
  induction w generalizing n with
  | zero => rfl
  | succ w ih => simp [natLE, ih]

theorem u8_toNat_mod (n : Nat) : (UInt8.ofNat (n % 256)).toNat = n % 256 := by
  simp [Nat.mod_eq_of_lt (Nat.mod_lt n (by decide : 256 > 0))]

theorem leNat_natLE (w n : Nat) : leNat (natLE w n) = n % 256 ^ w := by
  induction w generalizing n with
  | zero => simp [natLE, leNat, Nat.mod_one]
  | succ w ih =>
    simp only [natLE, leNat, u8_toNat_mod, ih, Nat.pow_succ]
    rw [Nat.mul_comm (256 ^ w) 256, Nat.mod_mul, Nat.add_comm]

theorem beNat_append_single (bs : Bytes) (b : UInt8) : beNat (bs ++ [b]) = beNat bs * 256 + b.toNat := by
  simp [beNat, List.foldl_append]

theorem beNat_reverse (bs : Bytes) : beNat bs.reverse = leNat bs := by
  induction bs with
  | nil => rfl
  | cons b bs ih =>
    rw [List.reverse_cons, beNat_append_single, ih]
    simp only [leNat]
    omega

theorem dec_enc (arch : Endian) (w n : Nat) : arch.dec (arch.enc w n) = n % 256 ^ w := by
  cases arch with
  | le => exact leNat_natLE w n
  | be =>
    simp only [Endian.dec, Endian.enc, natBE]
    rw [beNat_reverse]
    exact leNat_natLE w n

theorem enc_length (arch : Endian) (w n : Nat) : (arch.enc w n).length = w := by
  cases arch <;> simp [Endian.enc, natBE, natLE_length]

end Fit
