import FitModel.Source
/-
  Accounting lemmas for the specification interpreter: bytes are conserved
  (`taken + rest.length` is invariant), the data phase consumes exactly the growth of its
  counter, and predicates over all values a program can return.
-/
namespace Fit

/-! ### conservation -/

theorem runSpecT_conserve {α} (p : TProg α) (s : SpecSt) :
    (runSpecT p s).2.taken + (runSpecT p s).2.rest.length = s.taken + s.rest.length ∧
    (runSpecT p s).2.stop = s.stop ∧ (runSpecT p s).2.frameEnd = s.frameEnd ∧
    (runSpecT p s).2.rest = s.rest.drop ((runSpecT p s).2.taken - s.taken) ∧
    s.taken ≤ (runSpecT p s).2.taken := by
  induction p generalizing s with
  | done a => simp [runSpecT]
  | readDirect k onErr cont ih =>
    simp only [runSpecT]
    split
    · rename_i hk
      have := ih (s.rest.take k) { s with rest := s.rest.drop k, taken := s.taken + k }
      simp only [List.length_drop, List.drop_drop] at this
      obtain ⟨h1, h2, h3, h4, h5⟩ := this
      refine ⟨by omega, h2, h3, ?_, by omega⟩
      rw [h4]; congr 1; omega
    · simp

theorem runSpecD_conserve {ε β} (limit : Nat) (p : DProg ε β) (n : Nat) (s : SpecSt) :
    let r := runSpecD limit p n s
    r.2.2.taken + r.2.2.rest.length = s.taken + s.rest.length ∧
    r.2.2.taken = s.taken + (r.2.1 - n) ∧ n ≤ r.2.1 ∧ r.2.2.stop = s.stop ∧
    (n ≤ limit → r.2.1 ≤ limit) ∧ r.2.2.frameEnd = s.frameEnd ∧
    r.2.2.rest = s.rest.drop (r.2.2.taken - s.taken) := by
  induction p generalizing n s with
  | done x => simp [runSpecD]
  | exit e => simp [runSpecD]
  | readBuf k onErr cont ih =>
    simp only [runSpecD]
    split
    · rename_i hk
      have := ih (s.rest.take k) (n + k) { s with rest := s.rest.drop k, taken := s.taken + k }
      simp only [List.length_drop, List.drop_drop] at this
      obtain ⟨h1, h2, h3, h4, h5, h6, h7⟩ := this
      refine ⟨by omega, by omega, by omega, h4, fun hn => h5 (by omega), h6, ?_⟩
      rw [h7]; congr 1; omega
    · split <;> simp

theorem runSpec_conserve {α ε β} (p : HProg α ε β) (s : SpecSt) :
    (runSpec p s).2.taken + (runSpec p s).2.rest.length = s.taken + s.rest.length ∧
    (runSpec p s).2.stop = s.stop ∧
    (runSpec p s).2.rest = s.rest.drop ((runSpec p s).2.taken - s.taken) ∧
    s.taken ≤ (runSpec p s).2.taken := by
  induction p generalizing s with
  | done a => simp [runSpec]
  | readDirect k onErr cont ih =>
    simp only [runSpec]
    split
    · have := ih (s.rest.take k) { s with rest := s.rest.drop k, taken := s.taken + k }
      simp only [List.length_drop, List.drop_drop] at this
      obtain ⟨h1, h2, h3, h4⟩ := this
      refine ⟨by omega, h2, ?_, by omega⟩
      rw [h3]; congr 1; omega
    · simp
  | data limit p onExit onBad after =>
    simp only [runSpec]
    have hd := runSpecD_conserve limit p 0 { s with frameEnd := s.taken + limit }
    generalize runSpecD limit p 0 { s with frameEnd := s.taken + limit } = r at hd
    obtain ⟨o, n, s'⟩ := r
    simp only at hd
    obtain ⟨d1, d2, d3, d4, d5, d6, d7⟩ := hd
    cases o with
    | inl e => exact ⟨d1, d4, d7, show s.taken ≤ s'.taken by omega⟩
    | inr x =>
      simp only
      split
      · obtain ⟨t1, t2, t3, t4, t5⟩ := runSpecT_conserve (after x) s'
        refine ⟨by omega, by rw [t2, d4], ?_, by omega⟩
        rw [t4, d7, List.drop_drop]; congr 1; omega
      · exact ⟨d1, d4, d7, show s.taken ≤ s'.taken by omega⟩
  | dataOnly limit p onExit fin =>
    simp only [runSpec]
    have hd := runSpecD_conserve limit p 0 { s with frameEnd := s.taken + limit }
    generalize runSpecD limit p 0 { s with frameEnd := s.taken + limit } = r at hd
    obtain ⟨o, n, s'⟩ := r
    simp only at hd
    obtain ⟨d1, d2, d3, d4, d5, d6, d7⟩ := hd
    cases o <;> exact ⟨d1, d4, d7, show s.taken ≤ s'.taken by omega⟩
  | copyAll limit onErr cont =>
    simp only [runSpec]
    split
    · obtain ⟨t1, t2, t3, t4, t5⟩ := runSpecT_conserve (cont (s.rest.take limit))
        { s with rest := s.rest.drop limit, taken := s.taken + limit, frameEnd := s.taken + limit }
      simp only [List.length_drop, List.drop_drop] at t1 t2 t4 t5
      refine ⟨by omega, t2, ?_, by omega⟩
      rw [t4]; congr 1; omega
    · simp

/-! ### every value a program can return -/

/-- `Q` holds of every value the trailer program can return, whatever the input -/
def TProg.All {α} (Q : α → Prop) : TProg α → Prop
  | .done a => Q a
  | .readDirect _ onErr cont => (∀ n s, Q (onErr n s)) ∧ ∀ bs, TProg.All Q (cont bs)

/-- `Q` holds of every value the program can return, whatever the input and whatever the data
    phase does -/
def HProg.All {α ε β} (Q : α → Prop) : HProg α ε β → Prop
  | .done a => Q a
  | .readDirect _ onErr cont => (∀ n s, Q (onErr n s)) ∧ ∀ bs, HProg.All Q (cont bs)
  | .data _ _ onExit onBad after => (∀ e, Q (onExit e)) ∧ (∀ x, Q (onBad x)) ∧ ∀ x, TProg.All Q (after x)
  | .dataOnly _ _ onExit fin => (∀ e, Q (onExit e)) ∧ ∀ x, Q (fin x)
  | .copyAll _ onErr cont => (∀ s, Q (onErr s)) ∧ ∀ bs, TProg.All Q (cont bs)

theorem TProg.All.run {α} {Q : α → Prop} (p : TProg α) (h : p.All Q) (s : SpecSt) : Q (runSpecT p s).1 := by
  induction p generalizing s with
  | done a => exact h
  | readDirect k onErr cont ih =>
    simp only [runSpecT]
    split
    · exact ih _ (h.2 _) _
    · exact h.1 _ _

theorem HProg.All.run {α ε β} {Q : α → Prop} (p : HProg α ε β) (h : p.All Q) (s : SpecSt) : Q (runSpec p s).1 := by
  induction p generalizing s with
  | done a => exact h
  | readDirect k onErr cont ih =>
    simp only [runSpec]
    split
    · exact ih _ (h.2 _) _
    · exact h.1 _ _
  | data limit p onExit onBad after =>
    simp only [runSpec]
    generalize runSpecD limit p 0 { s with frameEnd := s.taken + limit } = r
    obtain ⟨o, n, s'⟩ := r
    cases o with
    | inl e => exact h.1 e
    | inr x =>
      simp only
      split
      · exact TProg.All.run _ (h.2.2 x) _
      · exact h.2.1 x
  | dataOnly limit p onExit fin =>
    simp only [runSpec]
    generalize runSpecD limit p 0 { s with frameEnd := s.taken + limit } = r
    obtain ⟨o, n, s'⟩ := r
    cases o with
    | inl e => exact h.1 e
    | inr x => exact h.2 x
  | copyAll limit onErr cont =>
    simp only [runSpec]
    split
    · exact TProg.All.run _ (h.2 _) _
    · exact h.1 _

end Fit

namespace Fit

/-! ### handlers that never answer "ok", and extension of the input -/

/-- no failure handler of the program returns a value satisfying `ok` -/
def TProg.Safe {α} (ok : α → Prop) : TProg α → Prop
  | .done _ => True
  | .readDirect _ onErr cont => (∀ n s, ¬ ok (onErr n s)) ∧ ∀ bs, TProg.Safe ok (cont bs)

def HProg.Safe {α ε β} (ok : α → Prop) : HProg α ε β → Prop
  | .done _ => True
  | .readDirect _ onErr cont => (∀ n s, ¬ ok (onErr n s)) ∧ ∀ bs, HProg.Safe ok (cont bs)
  | .data _ _ onExit onBad after => (∀ e, ¬ ok (onExit e)) ∧ (∀ x, ¬ ok (onBad x)) ∧ ∀ x, TProg.Safe ok (after x)
  | .dataOnly _ _ onExit _ => ∀ e, ¬ ok (onExit e)
  | .copyAll _ onErr cont => (∀ s, ¬ ok (onErr s)) ∧ ∀ bs, TProg.Safe ok (cont bs)

def SpecSt.extend (s : SpecSt) (extra : Bytes) : SpecSt := { s with rest := s.rest ++ extra }

theorem take_append_le (l extra : Bytes) (k : Nat) (h : k ≤ l.length) : (l ++ extra).take k = l.take k := by
  rw [List.take_append_of_le_length h]

theorem drop_append_le (l extra : Bytes) (k : Nat) (h : k ≤ l.length) : (l ++ extra).drop k = l.drop k ++ extra := by
  rw [List.drop_append_of_le_length h]

/-- a trailer run that ends "ok" read only bytes that were there: more input changes nothing -/
theorem runSpecT_extend {α} {ok : α → Prop} (p : TProg α) (hs : p.Safe ok) (s : SpecSt) (extra : Bytes)
    (h : ok (runSpecT p s).1) :
    runSpecT p (s.extend extra) = ((runSpecT p s).1, (runSpecT p s).2.extend extra) := by
  induction p generalizing s with
  | done a => rfl
  | readDirect k onErr cont ih =>
    simp only [runSpecT] at h ⊢
    by_cases hk : k ≤ s.rest.length
    · have hk' : k ≤ (s.extend extra).rest.length := by
        simp only [SpecSt.extend, List.length_append]; omega
      simp only [hk, hk', ↓reduceIte] at h ⊢
      have := ih (s.rest.take k) (hs.2 _) { s with rest := s.rest.drop k, taken := s.taken + k } h
      simp only [SpecSt.extend] at this ⊢
      rw [take_append_le _ _ _ hk, drop_append_le _ _ _ hk]
      exact this
    · simp only [hk, ↓reduceIte] at h
      exact absurd h (hs.1 _ _)

/-- a data phase that ends normally read only bytes that were there -/
theorem runSpecD_extend {ε β} (limit : Nat) (p : DProg ε β) (n : Nat) (s : SpecSt) (extra : Bytes) (x : β)
    (h : (runSpecD limit p n s).1 = .inr x) :
    runSpecD limit p n (s.extend extra) =
      (.inr x, (runSpecD limit p n s).2.1, (runSpecD limit p n s).2.2.extend extra) := by
  induction p generalizing n s with
  | done y =>
    simp only [runSpecD] at h ⊢
    cases h; rfl
  | exit e => simp [runSpecD] at h
  | readBuf k onErr cont ih =>
    simp only [runSpecD] at h ⊢
    by_cases hk : k ≤ limit - n ∧ k ≤ s.rest.length
    · have hk' : k ≤ limit - n ∧ k ≤ (s.extend extra).rest.length := by
        simp only [SpecSt.extend, List.length_append]; omega
      simp only [hk, hk', and_self, ↓reduceIte] at h ⊢
      have := ih (s.rest.take k) (n + k) { s with rest := s.rest.drop k, taken := s.taken + k } h
      simp only [SpecSt.extend] at this ⊢
      rw [take_append_le _ _ _ hk.2, drop_append_le _ _ _ hk.2]
      exact this
    · simp only [hk, ↓reduceIte] at h
      split at h <;> cases h

theorem runSpec_extend {α ε β} {ok : α → Prop} (p : HProg α ε β) (hs : p.Safe ok) (s : SpecSt) (extra : Bytes)
    (h : ok (runSpec p s).1) :
    runSpec p (s.extend extra) = ((runSpec p s).1, (runSpec p s).2.extend extra) := by
  induction p generalizing s with
  | done a => rfl
  | readDirect k onErr cont ih =>
    simp only [runSpec] at h ⊢
    by_cases hk : k ≤ s.rest.length
    · have hk' : k ≤ (s.extend extra).rest.length := by
        simp only [SpecSt.extend, List.length_append]; omega
      simp only [hk, hk', ↓reduceIte] at h ⊢
      have := ih (s.rest.take k) (hs.2 _) { s with rest := s.rest.drop k, taken := s.taken + k } h
      simp only [SpecSt.extend] at this ⊢
      rw [take_append_le _ _ _ hk, drop_append_le _ _ _ hk]
      exact this
    · simp only [hk, ↓reduceIte] at h
      exact absurd h (hs.1 _ _)
  | data limit p onExit onBad after =>
    simp only [runSpec] at h ⊢
    have hd := runSpecD_extend limit p 0 { s with frameEnd := s.taken + limit } extra
    have e0 : ({ s.extend extra with frameEnd := (s.extend extra).taken + limit } : SpecSt) =
        ({ s with frameEnd := s.taken + limit } : SpecSt).extend extra := rfl
    rw [e0]
    generalize runSpecD limit p 0 { s with frameEnd := s.taken + limit } = r at h hd
    obtain ⟨o, n, s'⟩ := r
    cases o with
    | inl e => exact absurd h (hs.1 e)
    | inr x =>
      rw [hd x rfl]
      simp only at h ⊢
      by_cases hn : n = limit
      · simp only [hn, ↓reduceIte] at h ⊢
        exact runSpecT_extend (after x) (hs.2.2 x) s' extra h
      · simp only [hn, ↓reduceIte] at h
        exact absurd h (hs.2.1 x)
  | dataOnly limit p onExit fin =>
    simp only [runSpec] at h ⊢
    have hd := runSpecD_extend limit p 0 { s with frameEnd := s.taken + limit } extra
    have e0 : ({ s.extend extra with frameEnd := (s.extend extra).taken + limit } : SpecSt) =
        ({ s with frameEnd := s.taken + limit } : SpecSt).extend extra := rfl
    rw [e0]
    generalize runSpecD limit p 0 { s with frameEnd := s.taken + limit } = r at h hd
    obtain ⟨o, n, s'⟩ := r
    cases o with
    | inl e => exact absurd h (hs e)
    | inr x => rw [hd x rfl]
  | copyAll limit onErr cont =>
    simp only [runSpec] at h ⊢
    by_cases hk : limit ≤ s.rest.length
    · have hk' : limit ≤ (s.extend extra).rest.length := by
        simp only [SpecSt.extend, List.length_append]; omega
      simp only [hk, hk', ↓reduceIte] at h ⊢
      have := runSpecT_extend (cont (s.rest.take limit)) (hs.2 _)
        { s with rest := s.rest.drop limit, taken := s.taken + limit, frameEnd := s.taken + limit } extra h
      simp only [SpecSt.extend] at this ⊢
      rw [take_append_le _ _ _ hk, drop_append_le _ _ _ hk]
      exact this
    · simp only [hk, ↓reduceIte] at h
      exact absurd h (hs.1 _)

end Fit
