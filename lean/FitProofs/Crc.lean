import FitModel.Crc
/-!
  Helper lemmas about the CRC model: XOR-linearity of the bit-serial register,
  the nibble decomposition behind `updateByte`, injectivity of the zero-input
  step and the leading-bit invariant used for burst detection.
-/
namespace Fit.Crc

theorem xor_cancel_left (p x : BitVec 16) : p ^^^ (p ^^^ x) = x := by
  rw [← BitVec.xor_assoc, BitVec.xor_self, BitVec.zero_xor]

/-- The register step is XOR-linear in (register, input bit). -/
theorem bitStep_xor (a b : BitVec 16) (x y : Bool) :
    bitStep (a ^^^ b) (x ^^ y) = bitStep a x ^^^ bitStep b y := by
  unfold bitStep
  simp only [BitVec.getLsbD_xor, BitVec.ushiftRight_xor_distrib]
  cases a.getLsbD 0 <;> cases b.getLsbD 0 <;> cases x <;> cases y <;>
    simp [BitVec.xor_assoc, BitVec.xor_comm poly]

/-- Linearity lifted to bit lists of equal length. -/
theorem bitsStep_xor (xs ys : List Bool) (h : xs.length = ys.length) (a b : BitVec 16) :
    bitsStep (a ^^^ b) (List.zipWith (· ^^ ·) xs ys) = bitsStep a xs ^^^ bitsStep b ys := by
  induction xs generalizing ys a b with
  | nil =>
    cases ys with
    | nil => simp [bitsStep]
    | cons _ _ => simp at h
  | cons x xs ih =>
    cases ys with
    | nil => simp at h
    | cons y ys =>
      simp only [List.length_cons, Nat.add_right_cancel_iff] at h
      simp only [bitsStep, List.zipWith_cons_cons, List.foldl_cons, bitStep_xor]
      exact ih ys h _ _

theorem bitsStep_append (c : BitVec 16) (xs ys : List Bool) :
    bitsStep c (xs ++ ys) = bitsStep (bitsStep c xs) ys := by
  simp [bitsStep, List.foldl_append]

/-- With a clear low bit and a zero input the step is a plain shift. -/
theorem bitStep_false_of_lsb (c : BitVec 16) (h : c.getLsbD 0 = false) :
    bitStep c false = c >>> 1 := by
  unfold bitStep
  rw [h]
  rfl

theorem bitStep_zero_false : bitStep 0#16 false = 0#16 := by decide

theorem bitsStep_zero_replicate (n : Nat) : bitsStep 0#16 (List.replicate n false) = 0#16 := by
  induction n with
  | zero => rfl
  | succ n ih => simp only [List.replicate_succ, bitsStep, List.foldl_cons, bitStep_zero_false]; exact ih

/-! ### nibble decomposition -/

def zeros4 : List Bool := [false, false, false, false]

def nibBits (n : BitVec 16) : List Bool :=
  [n.getLsbD 0, n.getLsbD 1, n.getLsbD 2, n.getLsbD 3]

theorem shr4_and (c : BitVec 16) : (c >>> 4) &&& 0x0FFF#16 = c >>> 4 := by
  apply BitVec.eq_of_toNat_eq
  simp only [BitVec.toNat_and, BitVec.toNat_ushiftRight, BitVec.toNat_ofNat]
  have h := c.isLt
  rw [show (0xFFF % 2^16 : Nat) = 2^12 - 1 by decide, Nat.and_two_pow_sub_one_eq_mod,
    Nat.shiftRight_eq_div_pow]
  omega

theorem shr1_4 (c : BitVec 16) : c >>> 1 >>> 1 >>> 1 >>> 1 = c >>> 4 := by
  rw [← BitVec.shiftRight_add, ← BitVec.shiftRight_add, ← BitVec.shiftRight_add]

theorem high4 (c : BitVec 16) : (c &&& 0xFFF0#16) >>> 4 = c >>> 4 := by
  rw [BitVec.ushiftRight_and_distrib]
  have : (0xFFF0#16 >>> 4) = 0x0FFF#16 := by decide
  rw [this, shr4_and]

/-- four zero-input steps of a register whose low nibble is clear: plain shift by 4 -/
theorem four_steps_high (c : BitVec 16) :
    bitsStep (c &&& 0xFFF0#16) zeros4 = c >>> 4 := by
  have e : ∀ i, i < 4 → (c &&& 0xFFF0#16).getLsbD i = false := by
    intro i hi
    have : i = 0 ∨ i = 1 ∨ i = 2 ∨ i = 3 := by omega
    rcases this with rfl | rfl | rfl | rfl <;> simp
  simp only [bitsStep, zeros4, List.foldl_cons, List.foldl_nil]
  have s1 := bitStep_false_of_lsb (c &&& 0xFFF0#16) (e 0 (by omega))
  have s2 := bitStep_false_of_lsb ((c &&& 0xFFF0#16) >>> 1)
    (by rw [BitVec.getLsbD_ushiftRight]; exact e _ (by omega))
  have s3 := bitStep_false_of_lsb ((c &&& 0xFFF0#16) >>> 1 >>> 1)
    (by rw [BitVec.getLsbD_ushiftRight, BitVec.getLsbD_ushiftRight]; exact e _ (by omega))
  have s4 := bitStep_false_of_lsb ((c &&& 0xFFF0#16) >>> 1 >>> 1 >>> 1)
    (by rw [BitVec.getLsbD_ushiftRight, BitVec.getLsbD_ushiftRight, BitVec.getLsbD_ushiftRight]
        exact e _ (by omega))
  rw [s1, s2, s3, s4, shr1_4, high4]

/-- splitting a register into high part and low nibble -/
theorem split_nibble (c : BitVec 16) : c = (c &&& 0xFFF0#16) ^^^ (c &&& 0x000F#16) := by
  ext i hi
  simp only [BitVec.getElem_xor, BitVec.getElem_and]
  have : i < 4 ∨ 4 ≤ i := by omega
  rcases this with h | h
  · have : i = 0 ∨ i = 1 ∨ i = 2 ∨ i = 3 := by omega
    rcases this with rfl | rfl | rfl | rfl <;> simp
  · have : i = 4 ∨ i = 5 ∨ i = 6 ∨ i = 7 ∨ i = 8 ∨ i = 9 ∨ i = 10 ∨ i = 11 ∨ i = 12 ∨
        i = 13 ∨ i = 14 ∨ i = 15 := by omega
    rcases this with rfl | rfl | rfl | rfl | rfl | rfl | rfl | rfl | rfl | rfl | rfl | rfl <;> simp

theorem low_case : ∀ n : BitVec 4,
    bitsStep (n.zeroExtend 16) zeros4 = tab (n.zeroExtend 16) := by decide

theorem in_case : ∀ n : BitVec 4,
    bitsStep 0#16 (nibBits (n.zeroExtend 16)) = tab (n.zeroExtend 16) := by decide

theorem and_F_eq (c : BitVec 16) : c &&& 0x000F#16 = (c.truncate 4).zeroExtend 16 := by
  ext i hi
  simp only [BitVec.getElem_and, BitVec.truncate_eq_setWidth, BitVec.getElem_setWidth,
    BitVec.getLsbD_setWidth]
  have : i < 4 ∨ 4 ≤ i := by omega
  rcases this with h | h
  · have : i = 0 ∨ i = 1 ∨ i = 2 ∨ i = 3 := by omega
    rcases this with rfl | rfl | rfl | rfl <;> simp
  · have : i = 4 ∨ i = 5 ∨ i = 6 ∨ i = 7 ∨ i = 8 ∨ i = 9 ∨ i = 10 ∨ i = 11 ∨ i = 12 ∨
        i = 13 ∨ i = 14 ∨ i = 15 := by omega
    rcases this with rfl | rfl | rfl | rfl | rfl | rfl | rfl | rfl | rfl | rfl | rfl | rfl <;> simp

theorem tab_mask (c : BitVec 16) : tab (c &&& 0x000F#16) = tab c := by
  unfold tab
  rw [BitVec.and_assoc, BitVec.and_self]

theorem nibBits_mask (c : BitVec 16) : nibBits (c &&& 0x000F#16) = nibBits c := by
  simp [nibBits]

theorem low_steps (c : BitVec 16) : bitsStep (c &&& 0x000F#16) zeros4 = tab c := by
  rw [← tab_mask, and_F_eq]; exact low_case _

theorem in_steps (n : BitVec 16) : bitsStep 0#16 (nibBits n) = tab n := by
  rw [← tab_mask, ← nibBits_mask, and_F_eq]; exact in_case _

theorem zip_zeros4 (a b c d : Bool) :
    List.zipWith (· ^^ ·) zeros4 [a, b, c, d] = [a, b, c, d] := by
  simp [zeros4]

/-- Four register steps fed with the low nibble of `n` = one table step of the Go code. -/
theorem spec4 (c n : BitVec 16) :
    bitsStep c (nibBits n) = ((c >>> 4) &&& 0x0FFF#16) ^^^ tab c ^^^ tab n := by
  have h1 : bitsStep ((c &&& 0xFFF0#16) ^^^ (c &&& 0x000F#16))
      (List.zipWith (· ^^ ·) zeros4 (nibBits n))
      = bitsStep (c &&& 0xFFF0#16) zeros4 ^^^ bitsStep (c &&& 0x000F#16) (nibBits n) :=
    bitsStep_xor _ _ (by simp [zeros4, nibBits]) _ _
  have h2 : bitsStep ((c &&& 0x000F#16) ^^^ 0#16)
      (List.zipWith (· ^^ ·) zeros4 (nibBits n))
      = bitsStep (c &&& 0x000F#16) zeros4 ^^^ bitsStep 0#16 (nibBits n) :=
    bitsStep_xor _ _ (by simp [zeros4, nibBits]) _ _
  have hz : List.zipWith (· ^^ ·) zeros4 (nibBits n) = nibBits n := zip_zeros4 _ _ _ _
  rw [hz, ← split_nibble] at h1
  rw [hz, BitVec.xor_zero] at h2
  rw [h1, h2, four_steps_high, low_steps, in_steps, shr4_and, BitVec.xor_assoc]

theorem byteBits_split (b : BitVec 8) :
    byteBits b = nibBits (b.zeroExtend 16) ++ nibBits ((b >>> 4).zeroExtend 16) := by
  simp [byteBits, nibBits]

/-- **The table implementation equals the bit-serial specification**, for every
    register value and every byte. -/
theorem updateByte_eq_specByte (c : BitVec 16) (b : BitVec 8) :
    updateByte c b = specByte c b := by
  unfold specByte updateByte
  rw [byteBits_split, bitsStep_append, spec4, spec4]

theorem update_eq_specUpdate (c : BitVec 16) (d : List UInt8) : update c d = specUpdate c d := by
  simp only [update, specUpdate, updateByte_eq_specByte]

theorem update_append (c : BitVec 16) (xs ys : List UInt8) :
    update c (xs ++ ys) = update (update c xs) ys := by
  simp [update, List.foldl_append]

/-! ### residue -/

theorem tab_xor_self (x : BitVec 16) : tab x ^^^ tab x = 0#16 := BitVec.xor_self

/-- Feeding the low byte of the register shifts it right by eight. -/
theorem updateByte_lo (c : BitVec 16) : updateByte c (c.truncate 8) = c >>> 8 := by
  unfold updateByte
  have e1 : tab ((c.truncate 8).zeroExtend 16) = tab c := by
    rw [← tab_mask, ← tab_mask c]
    congr 1
    ext i hi
    simp only [BitVec.getElem_and, BitVec.truncate_eq_setWidth, BitVec.getElem_setWidth,
      BitVec.getLsbD_setWidth]
    have : i < 4 ∨ 4 ≤ i := by omega
    rcases this with h | h
    · have : i = 0 ∨ i = 1 ∨ i = 2 ∨ i = 3 := by omega
      rcases this with rfl | rfl | rfl | rfl <;> simp
    · have : i = 4 ∨ i = 5 ∨ i = 6 ∨ i = 7 ∨ i = 8 ∨ i = 9 ∨ i = 10 ∨ i = 11 ∨ i = 12 ∨
          i = 13 ∨ i = 14 ∨ i = 15 := by omega
      rcases this with rfl | rfl | rfl | rfl | rfl | rfl | rfl | rfl | rfl | rfl | rfl | rfl <;> simp
  have e2 : tab (((c.truncate 8) >>> 4).zeroExtend 16) = tab (c >>> 4) := by
    rw [← tab_mask, ← tab_mask (c >>> 4)]
    congr 1
    ext i hi
    simp only [BitVec.getElem_and, BitVec.truncate_eq_setWidth, BitVec.getElem_setWidth,
      BitVec.getLsbD_setWidth, BitVec.getLsbD_ushiftRight, BitVec.getElem_ushiftRight]
    have : i < 4 ∨ 4 ≤ i := by omega
    rcases this with h | h
    · have : i = 0 ∨ i = 1 ∨ i = 2 ∨ i = 3 := by omega
      rcases this with rfl | rfl | rfl | rfl <;> simp
    · have : i = 4 ∨ i = 5 ∨ i = 6 ∨ i = 7 ∨ i = 8 ∨ i = 9 ∨ i = 10 ∨ i = 11 ∨ i = 12 ∨
          i = 13 ∨ i = 14 ∨ i = 15 := by omega
      rcases this with rfl | rfl | rfl | rfl | rfl | rfl | rfl | rfl | rfl | rfl | rfl | rfl <;> simp
  have k : c >>> 4 ^^^ tab c ^^^ tab c = c >>> 4 := by
    rw [BitVec.xor_assoc, BitVec.xor_self, BitVec.xor_zero]
  simp only [e1, e2, shr4_and, k, BitVec.xor_assoc, BitVec.xor_self, BitVec.xor_zero]
  rw [← BitVec.shiftRight_add]

/-! ### burst detection -/

/-- the zero-input step never sends a non-zero register to zero (the reflected polynomial has its
    top bit set, the shifted register has not) -/
theorem bitStep_false_ne_zero (c : BitVec 16) (h : c ≠ 0#16) : bitStep c false ≠ 0#16 := by
  unfold bitStep
  simp only [Bool.bne_false]
  by_cases hl : c.getLsbD 0 = true
  · simp only [hl, ↓reduceIte]
    intro h0
    -- msb of (c >>> 1) is false, msb of poly is true
    have : (c >>> 1 ^^^ poly).msb = true := by
      rw [BitVec.msb_xor]
      have h1 : (c >>> 1).msb = false := by
        rw [BitVec.msb_eq_decide]
        simp only [BitVec.toNat_ushiftRight, Nat.shiftRight_eq_div_pow]
        have := c.isLt
        simp; omega
      have h2 : poly.msb = true := by decide
      simp [h1, h2]
    rw [h0] at this
    simp at this
  · simp only [hl, Bool.false_eq_true, ↓reduceIte]
    intro h0
    apply h
    -- c >>> 1 = 0 and lsb c = 0 give c = 0
    apply BitVec.eq_of_toNat_eq
    have h1 : (c >>> 1).toNat = 0 := by rw [h0]; rfl
    simp only [BitVec.toNat_ushiftRight, Nat.shiftRight_eq_div_pow] at h1
    have hl' : c.getLsbD 0 = false := by simpa using hl
    have h2 : c.toNat % 2 = 0 := by
      have hb : c.toNat.testBit 0 = false := hl'
      rw [Nat.testBit_zero] at hb
      simp at hb
      omega
    simp
    omega

theorem bitsStep_zeros_ne_zero (c : BitVec 16) (h : c ≠ 0#16) (n : Nat) :
    bitsStep c (List.replicate n false) ≠ 0#16 := by
  induction n generalizing c with
  | zero => simpa [bitsStep]
  | succ n ih =>
    simp only [List.replicate_succ, bitsStep, List.foldl_cons]
    exact ih _ (bitStep_false_ne_zero c h)

/-- leading-bit invariant: a register that is at least 2^(15-m) stays non-zero for `15 - m` more
    steps, whatever bits are fed -/
theorem bitStep_lower (c : BitVec 16) (b : Bool) (m : Nat) (hm : m < 15) (h : 2 ^ (15 - m) ≤ c.toNat) :
    2 ^ (15 - (m + 1)) ≤ (bitStep c b).toNat := by
  unfold bitStep
  have hsh : (c >>> 1).toNat = c.toNat / 2 := by
    simp [BitVec.toNat_ushiftRight, Nat.shiftRight_eq_div_pow]
  have hp : (2 : Nat) ^ (15 - m) = 2 * 2 ^ (15 - (m + 1)) := by
    have : 15 - m = (15 - (m + 1)) + 1 := by omega
    rw [this, Nat.pow_succ, Nat.mul_comm]
  simp only
  by_cases hfb : (c.getLsbD 0 ^^ b) = true <;> simp only [hfb, ↓reduceIte, Bool.false_eq_true]
  · -- xor with poly sets bit 15
    have : (c >>> 1 ^^^ poly).msb = true := by
      rw [BitVec.msb_xor]
      have h1 : (c >>> 1).msb = false := by
        rw [BitVec.msb_eq_decide]
        have := c.isLt
        simp [hsh]; omega
      have h2 : poly.msb = true := by decide
      simp [h1, h2]
    rw [BitVec.msb_eq_decide] at this
    have h15 : 2 ^ (16 - 1) ≤ (c >>> 1 ^^^ poly).toNat := of_decide_eq_true this
    have hle : 2 ^ (15 - (m + 1)) ≤ 2 ^ 15 := Nat.pow_le_pow_right (by decide) (by omega)
    simp only [Nat.add_one_sub_one] at h15
    omega
  · rw [hsh]
    omega

theorem bitsStep_lower (c : BitVec 16) (bs : List Bool) (m : Nat) (hm : m + bs.length ≤ 15)
    (h : 2 ^ (15 - m) ≤ c.toNat) : bitsStep c bs ≠ 0#16 := by
  induction bs generalizing c m with
  | nil =>
    simp only [bitsStep, List.foldl_nil]
    intro h0
    have hz : (0#16).toNat = 0 := rfl
    rw [h0, hz] at h
    have := Nat.two_pow_pos (15 - m)
    omega
  | cons b bs ih =>
    simp only [bitsStep, List.foldl_cons]
    simp only [List.length_cons] at hm
    exact ih _ (m + 1) (by omega) (bitStep_lower c b m (by omega) h)

/-- a non-zero pattern of at most 16 bits fed into the zero register leaves it non-zero -/
theorem pattern_ne_zero (d : List Bool) (hl : d.length ≤ 16) (hn : true ∈ d) :
    bitsStep 0#16 d ≠ 0#16 := by
  -- split at the first set bit
  induction d with
  | nil => simp at hn
  | cons b bs ih =>
    cases b with
    | false =>
      simp only [bitsStep, List.foldl_cons, bitStep_zero_false]
      simp only [List.mem_cons, Bool.true_eq_false, false_or] at hn
      exact ih (by simp at hl; omega) hn
    | true =>
      simp only [bitsStep, List.foldl_cons]
      have hp : bitStep 0#16 true = poly := by decide
      rw [hp]
      apply bitsStep_lower poly bs 0 (by simp at hl; omega)
      decide

theorem xor_eq_zero_iff (a b : BitVec 16) : a ^^^ b = 0#16 ↔ a = b := by
  constructor
  · intro h
    have : a ^^^ b ^^^ b = 0#16 ^^^ b := by rw [h]
    rw [BitVec.xor_assoc, BitVec.xor_self, BitVec.xor_zero, BitVec.zero_xor] at this
    exact this
  · intro h; rw [h, BitVec.xor_self]

theorem zipWith_xor_self (xs : List Bool) : List.zipWith (· ^^ ·) xs xs = List.replicate xs.length false := by
  induction xs with
  | nil => rfl
  | cons x xs ih =>
    simp only [List.zipWith_cons_cons, Bool.xor_self, List.length_cons, List.replicate_succ, ih]

theorem exists_diff (w w' : List Bool) (hlen : w.length = w'.length) (hne : w ≠ w') :
    true ∈ List.zipWith (· ^^ ·) w w' := by
  induction w generalizing w' with
  | nil =>
    cases w' with
    | nil => exact absurd rfl hne
    | cons _ _ => simp at hlen
  | cons x xs ih =>
    cases w' with
    | nil => simp at hlen
    | cons y ys =>
      simp only [List.zipWith_cons_cons, List.mem_cons]
      by_cases hxy : x = y
      · right
        subst hxy
        apply ih ys (by simpa using hlen)
        intro h; apply hne; rw [h]
      · left
        cases x <;> cases y <;> simp_all

/-- **Burst detection at the register level.**  Two bit streams that agree outside a window of at
    most 16 bits and differ inside it drive the register — from any common starting state — to
    different values, whatever follows the window. -/
theorem burst_changes_register (c : BitVec 16) (pre w w' post : List Bool)
    (hlen : w.length = w'.length) (h16 : w.length ≤ 16) (hne : w ≠ w') :
    bitsStep c (pre ++ w ++ post) ≠ bitsStep c (pre ++ w' ++ post) := by
  rw [bitsStep_append, bitsStep_append, bitsStep_append, bitsStep_append]
  generalize bitsStep c pre = c1
  -- after the window the registers differ
  have hd : bitsStep c1 w ^^^ bitsStep c1 w' ≠ 0#16 := by
    have := bitsStep_xor w w' hlen c1 c1
    rw [BitVec.xor_self] at this
    rw [← this]
    apply pattern_ne_zero
    · simp [List.length_zipWith, hlen]; omega
    · exact exists_diff w w' hlen hne
  -- and zero-difference input keeps them different
  intro heq
  have hlin := bitsStep_xor post post rfl (bitsStep c1 w) (bitsStep c1 w')
  rw [zipWith_xor_self, heq, BitVec.xor_self] at hlin
  exact bitsStep_zeros_ne_zero _ hd _ hlin

end Fit.Crc
