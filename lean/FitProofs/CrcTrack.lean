import FitProofs.Frame
import FitProofs.Crc
/-
  The decoder's running checksum is the checksum of exactly the bytes consumed, on every path of
  the record phase — the model's form of "every byte read inside the data area is written to the
  running CRC".
-/
namespace Fit
open Fit.Crc

/-- the two counters `fill` maintains: running checksum and bytes consumed from the data area -/
def DecSt.ctr (st : DecSt) : BitVec 16 × Nat := (st.crc, st.n)

/-- every normal end state of `p` carries the counters `c` advanced by the bytes read -/
def Tracks (c : BitVec 16 × Nat) : DP → Prop
  | .done st => st.ctr = c
  | .exit _ => True
  | .readBuf k _ cont => ∀ bs, Tracks (update c.1 bs, c.2 + k) (cont bs)

/-- a continuation that tracks from whatever state it is given -/
def TracksK (cont : DecSt → DP) : Prop := ∀ st, Tracks st.ctr (cont st)

theorem rd_tracks (st : DecSt) (k : Nat) (cont : Bytes → DecSt → DP)
    (h : ∀ bs, TracksK (cont bs)) : Tracks st.ctr (rd st k cont) := by
  unfold rd
  intro bs
  exact h bs { st with n := st.n + k, crc := update st.crc bs }

theorem Tracks.run (limit : Nat) (p : DP) (c : BitVec 16 × Nat) (h : Tracks c p) (n : Nat) (s : SpecSt) (st : DecSt)
    (hr : (runSpecD limit p n s).1 = .inr st) :
    st.crc = update c.1 (s.rest.take ((runSpecD limit p n s).2.2.taken - s.taken)) ∧
    st.n = c.2 + ((runSpecD limit p n s).2.1 - n) := by
  induction p generalizing c n s with
  | done x =>
    simp only [runSpecD] at hr ⊢
    cases hr
    simp only [Nat.sub_self, List.take_zero, Nat.add_zero]
    have : st.ctr = c := h
    rw [← this]
    exact ⟨rfl, rfl⟩
  | exit e => simp [runSpecD] at hr
  | readBuf k onErr cont ih =>
    simp only [runSpecD] at hr ⊢
    by_cases hk : k ≤ limit - n ∧ k ≤ s.rest.length
    · simp only [hk, and_self, ↓reduceIte] at hr ⊢
      have := ih (s.rest.take k) (update c.1 (s.rest.take k), c.2 + k) (h _) (n + k)
        { s with rest := s.rest.drop k, taken := s.taken + k } hr
      have hm := runSpecD_conserve limit (cont (s.rest.take k)) (n + k)
        { s with rest := s.rest.drop k, taken := s.taken + k }
      simp only at hm this
      obtain ⟨_, hm2, hm3, _⟩ := hm
      generalize (runSpecD limit (cont (s.rest.take k)) (n + k)
        { s with rest := s.rest.drop k, taken := s.taken + k }).2.2.taken = t at hm2 this ⊢
      generalize (runSpecD limit (cont (s.rest.take k)) (n + k)
        { s with rest := s.rest.drop k, taken := s.taken + k }).2.1 = n' at hm2 hm3 this ⊢
      refine ⟨?_, by omega⟩
      rw [this.1, ← update_append]
      congr 1
      have e1 : t - (s.taken + k) = n' - (n + k) := by omega
      have e2 : t - s.taken = k + (n' - (n + k)) := by omega
      rw [e1, e2, List.take_add]
    · simp only [hk, ↓reduceIte] at hr
      split at hr <;> cases hr

end Fit

namespace Fit
open Fit.Crc

theorem TracksK.app {cont : DecSt → DP} (h : TracksK cont) (st : DecSt) (c : BitVec 16 × Nat) (hc : st.ctr = c) :
    Tracks c (cont st) := by
  subst hc; exact h st

theorem rd_tracks' (st : DecSt) (k : Nat) (cont : Bytes → DecSt → DP) (c : BitVec 16 × Nat) (hc : st.ctr = c)
    (h : ∀ bs, TracksK (cont bs)) : Tracks c (rd st k cont) := by
  subst hc; exact rd_tracks st k cont h

macro "crc_side" : tactic => `(tactic| first | rfl | (split <;> rfl) | (split <;> split <;> rfl))

theorem parseFields_tracks (P : Profile) (dm : DefMsg) (known : Bool) (cont : Option Msg → DecSt → DP)
    (h : ∀ m, TracksK (cont m)) (fds : List FieldDef) (m : Option Msg) (st : DecSt) (c : BitVec 16 × Nat)
    (hc : st.ctr = c) :
    Tracks c (parseFields P dm known fds m st cont) := by
  induction fds generalizing m st c with
  | nil => exact (h m).app st c hc
  | cons fd fds ih =>
    unfold parseFields
    dsimp only
    apply rd_tracks'
    · subst hc; crc_side
    · intro raw st2
      dsimp only
      split
      · trivial
      · trivial
      · exact ih _ (st2.setTs _) _ rfl

theorem skipDev_tracks (cont : DecSt → DP) (h : TracksK cont) (ds : List DevDesc) (st : DecSt) (c : BitVec 16 × Nat)
    (hc : st.ctr = c) :
    Tracks c (skipDev ds st cont) := by
  induction ds generalizing st c with
  | nil => exact h.app st c hc
  | cons d ds ih =>
    unfold skipDev
    apply rd_tracks' _ _ _ _ hc
    intro _ st2
    exact ih st2 _ rfl

theorem parseData_tracks (P : Profile) (hb : Nat) (compressed : Bool) (cont : Option Msg → DecSt → DP)
    (h : ∀ m, TracksK (cont m)) (st : DecSt) (c : BitVec 16 × Nat) (hc : st.ctr = c) :
    Tracks c (parseData P hb compressed st cont) := by
  have body : ∀ (dm : DefMsg) (m : Option Msg) (st : DecSt) (c : BitVec 16 × Nat), st.ctr = c →
      Tracks c (parseFields P dm (P.known dm.global) dm.fields m st fun m st =>
        skipDev dm.dev st fun st => cont m st) := by
    intro dm m st c hc
    apply parseFields_tracks _ _ _ _ _ _ _ _ _ hc
    intro m st
    apply skipDev_tracks _ _ _ _ _ rfl
    exact h m
  subst hc
  unfold parseData
  dsimp only
  repeat (first | trivial | (apply body; crc_side) | split)

end Fit

namespace Fit
open Fit.Crc

theorem addMsg_crc (P : Profile) (m : Option Msg) (st st' : DecSt) (h : addMsg P m st = some st') :
    st'.ctr = st.ctr := by
  unfold addMsg at h
  split at h
  · cases h; rfl
  · split at h
    · cases h
    · split at h
      · cases h
      · cases h; rfl

macro "rd_step" : tactic =>
  `(tactic| (refine rd_tracks' _ _ _ _ (by crc_side) ?_; intro _ _; dsimp only))

theorem parseDefinition_tracks (P : Profile) (hb : Nat) (cont : DefMsg → DecSt → DP)
    (h : ∀ dm, TracksK (cont dm)) (st : DecSt) (c : BitVec 16 × Nat) (hc : st.ctr = c) :
    Tracks c (parseDefinition P hb st cont) := by
  subst hc
  unfold parseDefinition
  dsimp only
  repeat (first | trivial | exact h _ _ | rd_step | split)

theorem decodeFileData_tracks (P : Profile) (limit : Nat) (cont : DecSt → DP) (h : TracksK cont)
    (fuel : Nat) (st : DecSt) (c : BitVec 16 × Nat) (hc : st.ctr = c) :
    Tracks c (decodeFileData P limit fuel st cont) := by
  induction fuel generalizing st c with
  | zero => exact h.app st c hc
  | succ fuel ih =>
    unfold decodeFileData
    split
    · apply rd_tracks' _ _ _ _ hc
      intro hbs st
      dsimp only
      have data : ∀ (comp : Bool) (st : DecSt), Tracks st.ctr (parseData P (hbs.headD 0).toNat comp st fun m st =>
          match addMsg P m st with
          | none => dpanic st
          | some st => decodeFileData P limit fuel st cont) := by
        intro comp st
        apply parseData_tracks _ _ _ _ _ _ _ rfl
        intro m st2
        dsimp only
        split
        · trivial
        · rename_i st3 heq
          exact ih st3 _ (addMsg_crc P m st2 st3 heq)
      split
      · exact data true st
      · split
        · apply parseDefinition_tracks _ _ _ _ _ _ rfl
          intro dm st2
          exact ih _ _ rfl
        · exact data false st
    · exact h.app st c hc

theorem parseFileIdMsg_tracks (P : Profile) (cont : DecSt → DP) (h : TracksK cont)
    (st : DecSt) (c : BitVec 16 × Nat) (hc : st.ctr = c) :
    Tracks c (parseFileIdMsg P st cont) := by
  unfold parseFileIdMsg
  apply rd_tracks' _ _ _ _ hc
  intro hbs st
  dsimp only
  split
  · trivial
  · apply parseDefinition_tracks _ _ _ _ _ _ rfl
    intro dm st
    dsimp only
    split
    · trivial
    · rd_step
      apply parseData_tracks _ _ _ _ _ _ _ rfl
      intro m st
      dsimp only
      split
      · trivial
      · split
        · trivial
        · split
          · trivial
          · rename_i st3 heq
            exact h.app st3 _ (addMsg_crc P _ st st3 heq)

/-- the record phase as a whole: whenever it ends normally, the state's checksum register is the
    initial one advanced by exactly the bytes consumed -/
theorem recordsProg_tracks (P : Profile) (mode : Mode) (st : DecSt) : Tracks st.ctr (recordsProg P mode st) := by
  unfold recordsProg
  apply parseFileIdMsg_tracks _ _ _ _ _ rfl
  intro st
  split
  · rfl
  · dsimp only
    split
    · trivial
    · split
      · trivial
      · refine decodeFileData_tracks _ _ _ ?_ _ _ _ (by rfl)
        intro st; rfl

end Fit

namespace Fit
open Fit.Crc

theorem take_take_drop (l : Bytes) (a b : Nat) : l.take (a + b) = l.take a ++ (l.drop a).take b := by
  rw [List.take_add]

/-- **Accepted ⇒ residue zero.** If `Decode` (mode `full`) or `CheckIntegrity` (mode `crcOnly`)
    succeeds, the CRC-16 of the frame's bytes (header, data and stored CRC) is zero. -/
theorem prog_success_residue (P : Profile) (m : Mode) (hm : m = .full ∨ m = .crcOnly)
    (g : Globals) (s : SpecSt)
    (hs : (runSpec (decodeProg P m g) s).1.success) :
    checksum (s.rest.take (frameLen s.rest)) = 0#16 := by
  unfold decodeProg at hs
  obtain ⟨st', size, hsz, hlen, hsize, hds, hcrc, _, heq⟩ := decodeHeader_success _ _ _ hs
  rw [heq] at hs
  simp only at hs
  have hc0 : st'.crc = update 0#16 (s.rest.take size) := by rw [hcrc]; rfl
  unfold frameLen checksum
  rw [← hsize, ← hds]
  rcases hm with rfl | rfl
  · simp only [runSpec] at hs
    have hd := runSpecD_conserve st'.hdr.dataSize
      (recordsProg P .full { st' with file := some { hdr := st'.hdr, fileId := zeroFileId P }, unkInit := true }) 0
      { rest := s.rest.drop size, stop := s.stop, taken := s.taken + size, frameEnd := s.taken + size + st'.hdr.dataSize }
    have ht := Tracks.run st'.hdr.dataSize
      (recordsProg P .full { st' with file := some { hdr := st'.hdr, fileId := zeroFileId P }, unkInit := true })
      (st'.crc, st'.n) (recordsProg_tracks P .full { st' with file := some { hdr := st'.hdr, fileId := zeroFileId P }, unkInit := true }) 0
      { rest := s.rest.drop size, stop := s.stop, taken := s.taken + size, frameEnd := s.taken + size + st'.hdr.dataSize }
    generalize runSpecD st'.hdr.dataSize
      (recordsProg P .full { st' with file := some { hdr := st'.hdr, fileId := zeroFileId P }, unkInit := true }) 0
      { rest := s.rest.drop size, stop := s.stop, taken := s.taken + size, frameEnd := s.taken + size + st'.hdr.dataSize } = r at hs hd ht
    obtain ⟨out, n, s'⟩ := r
    cases out with
    | inl e => exact absurd hs (toOutcome_not_success e)
    | inr x =>
      simp only at hs hd ht
      have hx := (ht x rfl).1
      by_cases hn : n = st'.hdr.dataSize
      · simp only [hn, ↓reduceIte] at hs
        obtain ⟨_, _, _, hres⟩ := checkCRC_success x s' hs
        obtain ⟨_, d2, _, _, _, _, d7⟩ := hd
        have e1 : s'.taken - (s.taken + size) = st'.hdr.dataSize := by omega
        rw [e1] at hx d7
        rw [hx, d7, hc0, ← update_append, ← update_append] at hres
        rw [← hres]
        congr 1
        rw [Nat.add_assoc, take_take_drop, take_take_drop]
      · simp only [hn, ↓reduceIte] at hs
        simp [panicOut, Outcome.success] at hs
  · simp only [runSpec] at hs
    by_cases hl : st'.hdr.dataSize ≤ (s.rest.drop size).length
    · simp only [hl, ↓reduceIte] at hs
      obtain ⟨_, _, _, hres⟩ := checkCRC_success _ _ hs
      simp only at hres
      rw [hc0, ← update_append, ← update_append] at hres
      rw [← hres]
      congr 1
      rw [Nat.add_assoc, take_take_drop, take_take_drop]
    · simp only [hl, ↓reduceIte] at hs
      cases s.stop <;> exact absurd hs (fail_not_success _ _)

end Fit

namespace Fit
open Fit.Crc

/-- **What `Decode` accepts, `CheckIntegrity` accepts** (on the same stream, from the same state). -/
theorem full_success_integ_success (P : Profile) (g : Globals) (s : SpecSt)
    (hs : (runSpec (decodeProg P .full g) s).1.success) :
    (runSpec (decodeProg P .crcOnly g) s).1.success := by
  have hres := prog_success_residue P .full (Or.inl rfl) g s hs
  obtain ⟨c1, c14, _⟩ := prog_consumes_exactly P .full (Or.inl rfl) g s hs
  have hcons := (runSpec_conserve (decodeProg P .full g) s).1
  unfold decodeProg at hs ⊢
  obtain ⟨st', size, hsz, hlen, hsize, hds, hcrc, hhc, heq⟩ := decodeHeader_success _ _ _ hs
  rw [decodeHeader_run_ok _ st' _ s size hsz hlen hsize hhc]
  simp only [runSpec]
  have hfl : frameLen s.rest = size + st'.hdr.dataSize + 2 := by
    unfold frameLen; rw [← hsize, ← hds]
  have htot : size + st'.hdr.dataSize + 2 ≤ s.rest.length := by omega
  have hl : st'.hdr.dataSize ≤ (s.rest.drop size).length := by simp only [List.length_drop]; omega
  simp only [hl, ↓reduceIte]
  unfold checkCRC
  simp only [runSpecT]
  have h2 : 2 ≤ ((s.rest.drop size).drop st'.hdr.dataSize).length := by simp only [List.length_drop]; omega
  simp only [h2, ↓reduceIte]
  have hc0 : st'.crc = update 0#16 (s.rest.take size) := by rw [hcrc]; rfl
  have hz : update (update st'.crc ((s.rest.drop size).take st'.hdr.dataSize))
      (((s.rest.drop size).drop st'.hdr.dataSize).take 2) = 0#16 := by
    rw [hc0, ← update_append, ← update_append]
    have e : s.rest.take size ++ ((s.rest.drop size).take st'.hdr.dataSize ++
        ((s.rest.drop size).drop st'.hdr.dataSize).take 2) = s.rest.take (size + st'.hdr.dataSize + 2) := by
      rw [Nat.add_assoc, take_take_drop, take_take_drop]
    rw [e, ← hfl]
    exact hres
  simp only [hz, ↓reduceIte]
  exact ⟨rfl, rfl⟩

end Fit
