/-
  Bit-level facts about the two 12-bit halves of compressed_speed_distance, by evaluation over all
  byte pairs (kept in a module of their own: about half a minute of kernel time each).
-/
namespace Fit

theorem csd_distance_bits : ∀ x : Fin 256, ∀ y : Fin 256,
    (x.val / 16 + 16 * y.val) % 256 = ((x.val >>> 4) ||| ((y.val <<< 4) % 256)) := by
  decide +kernel

theorem csd_speed_bits : ∀ x : Fin 256, ∀ y : Fin 256,
    (x.val + 256 * y.val) % 4096 = (x.val ||| ((y.val &&& 0x0F) <<< 8)) := by
  decide +kernel

end Fit
