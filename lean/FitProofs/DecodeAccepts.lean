import FitProofs.EncodeFile
import FitProofs.WholeFile
import FitProofs.NoPanic
/-
  "Decode accepts what Encode wrote": the record machine does not stop on the items of
  `encode_wellformed`.
-/
namespace Fit

def listedBases : List Nat :=
  [Base.byte, Base.enum, Base.uint8, Base.uint8z, Base.sint8, Base.sint16, Base.uint16, Base.uint16z,
   Base.sint32, Base.uint32, Base.uint32z, Base.string]

theorem decompress_listed : ∀ x : Fin 256, Base.known (Base.decompress x.val) = true →
    Base.isFloat (Base.decompress x.val) = false → Base.size (Base.decompress x.val) ≤ 4 →
    listedBases.contains (Base.decompress x.val) = true := by
  decide +kernel

theorem tcBase_listed (pm : PMsg) (pf : PField) (facts : FieldFacts pm pf) : tcBase pf.tcode ∈ listedBases := by
  have := decompress_listed ⟨pf.tcode % 256, Nat.mod_lt _ (by decide)⟩ facts.known facts.nofloat facts.small
  simpa [tcBase] using this

theorem parseFitField_not_err (arch : Endian) (fd : FieldDef) (k : SlotKind) (tmp : Bytes)
    (h : fd.btype ∈ listedBases) : parseFitField arch fd k tmp ≠ .err := by
  have wrapNE : ∀ o : Option Val, (match o with | some v => FieldRes.ok (some v) | none => FieldRes.panic) ≠ .err := by
    intro o; cases o <;> simp
  simp only [listedBases, List.mem_cons, List.mem_nil_iff, or_false] at h
  unfold parseFitField
  dsimp only
  rcases h with h | h | h | h | h | h | h | h | h | h | h | h <;> rw [h] <;>
    simp only [Base.byte, Base.enum, Base.uint8, Base.uint8z, Base.sint8, Base.sint16, Base.uint16, Base.uint16z,
      Base.sint32, Base.uint32, Base.uint32z, Base.string, Base.float32, Base.float64, true_or, or_true, ↓reduceIte,
      Nat.reduceEqDiff, or_self, or_false, false_or] <;>
    (try (split <;> first | (exact wrapNE _) | simp)) <;>
    (try (split <;> simp))

end Fit

namespace Fit

theorem parseFitFieldArray_not_err (arch : Endian) (fd : FieldDef) (k : SlotKind) (tmp : Bytes)
    (h : fd.btype ∈ listedBases) : parseFitFieldArray arch fd k tmp ≠ .err := by
  simp only [listedBases, List.mem_cons, List.mem_nil_iff, or_false] at h
  unfold parseFitFieldArray
  dsimp only
  rcases h with h | h | h | h | h | h | h | h | h | h | h | h <;> rw [h] <;>
    simp only [Base.byte, Base.enum, Base.uint8, Base.uint8z, Base.sint8, Base.sint16, Base.uint16, Base.uint16z,
      Base.sint32, Base.uint32, Base.uint32z, Base.string, Base.float32, Base.float64, true_or, or_true, ↓reduceIte,
      Nat.reduceEqDiff, or_self, or_false, false_or] <;>
    (repeat' split) <;> simp

end Fit

namespace Fit

theorem applyField_not_err (P : Profile) (dm : DefMsg) (known : Bool) (fd : FieldDef) (raw : Bytes)
    (m : Option Msg) (ts : TsRef) (hl : fd.btype ∈ listedBases) : applyField P dm known fd raw m ts ≠ .err := by
  intro h
  unfold applyField at h
  repeat' (split at h)
  all_goals try (dsimp only at h)
  repeat' (split at h)
  all_goals try (dsimp only at h)
  repeat' (split at h)
  all_goals first
    | (cases h; done)
    | (rename_i hr; first
        | exact parseFitField_not_err _ _ _ _ hl hr
        | exact parseFitFieldArray_not_err _ _ _ _ hl hr)
    | (rename_i hr _; first
        | exact parseFitField_not_err _ _ _ _ hl hr
        | exact parseFitFieldArray_not_err _ _ _ _ hl hr)

end Fit

namespace Fit

/-- on a well-formed profile the field loop cannot stop on validated definitions of listed base types -/
theorem stepFields_ok (P : Profile) (hwf : ProfileWF P = true) (dm : DefMsg) (hkn : P.known dm.global = true)
    (fds : List FieldDef) (raws : List Bytes) (hfit : FieldsFit fds raws)
    (hv : ∀ fd ∈ fds, validateFieldDef P dm.global fd = true) (hl : ∀ fd ∈ fds, fd.btype ∈ listedBases)
    (msg : Msg) (st : DecSt) :
    ∃ msg' st', stepFields P dm true fds raws (some msg) st = .ok (some msg') st' := by
  induction fds generalizing raws msg st with
  | nil =>
    cases raws with
    | nil => exact ⟨msg, st, rfl⟩
    | cons _ _ => cases hfit
  | cons fd fds ih =>
    cases raws with
    | nil => cases hfit
    | cons raw raws =>
      obtain ⟨hlen, hfit'⟩ := hfit
      unfold stepFields
      dsimp only
      generalize (if (P.getField dm.global fd.num).isNone = true ∧ true = true
        then { st with unkF := bump (dm.global, fd.num) st.unkF } else st) = st1
      have hg := applyField_good P hwf dm true fd raw (some msg)
        (DecSt.ts { st1 with n := st1.n + fd.size, crc := Crc.update st1.crc raw }) hkn.symm
        (hv fd (List.mem_cons_self ..)) hlen (fun _ => rfl)
      have hne := applyField_not_err P dm true fd raw (some msg)
        (DecSt.ts { st1 with n := st1.n + fd.size, crc := Crc.update st1.crc raw }) (hl fd (List.mem_cons_self ..))
      generalize applyField P dm true fd raw (some msg)
        (DecSt.ts { st1 with n := st1.n + fd.size, crc := Crc.update st1.crc raw }) = r at hg hne
      cases r with
      | err => exact absurd rfl hne
      | panic => exact absurd hg (by simp [FieldsRes.Good])
      | ok m' ts' =>
        have hs : m'.isSome = true := hg rfl
        cases m' with
        | none => cases hs
        | some msg1 =>
          simp only
          exact ih raws hfit' (fun fd h => hv fd (List.mem_cons_of_mem _ h)) (fun fd h => hl fd (List.mem_cons_of_mem _ h)) msg1 _

end Fit

namespace Fit

/-- a definition at local type 0 for a known message, with the data records written for it -/
structure GoodBlock (P : Profile) (d : DefMsg) (partss : List (List Bytes)) : Prop where
  localT : d.localT = 0
  dev : d.dev = []
  wf : DefnWF d false
  acc : ¬ (d.global = mesgNumInvalid ∨ (!(d.fields.all (validateFieldDef P d.global))) = true)
  listed : ∀ fd ∈ d.fields, fd.btype ∈ listedBases
  known : P.known d.global = true
  fit : ∀ parts ∈ partss, FieldsFit d.fields parts

def blockItems (d : DefMsg) (partss : List (List Bytes)) : List Item :=
  .defn d false :: partss.map fun parts => Item.data 0 parts []

/-- the part of the decoder state that makes `file.add` succeed: a File, with its container attached
    (`c`), and a definition table -/
def RInv (c : Bool) (st : DecSt) : Prop :=
  (∃ f, st.file = some f ∧ (c = true → f.cidx.isSome = true)) ∧ 0 < st.defs.length

theorem dataPre_known0 (P : Profile) (hwf : ProfileWF P = true) (st : DecSt) (d : DefMsg)
    (hlook : st.defs.getD 0 none = some d) (hkn : P.known d.global = true) :
    ∃ pm, P.msg? d.global = some pm ∧ dataPre P 0 false st = .go d (some ⟨d.global, pm.invalid⟩) st := by
  obtain ⟨pm, hpm, hctor⟩ := known_hasCtor P hwf _ hkn
  refine ⟨pm, hpm, ?_⟩
  unfold dataPre
  simp only [Bool.false_eq_true, ↓reduceIte, Nat.zero_mod, hlook, hkn, hpm, hctor, Option.isNone_some, and_false,
    Bool.false_and, Bool.not_false, Bool.not_true]

theorem stepFields_file (P : Profile) (dm : DefMsg) (known : Bool) (fds : List FieldDef) (raws : List Bytes)
    (m : Option Msg) (st : DecSt) (m' : Option Msg) (st' : DecSt)
    (h : stepFields P dm known fds raws m st = .ok m' st') : st'.file = st.file ∧ st'.defs = st.defs := by
  induction fds generalizing raws m st with
  | nil => simp only [stepFields] at h; cases h; exact ⟨rfl, rfl⟩
  | cons fd fds ih =>
    cases raws with
    | nil => simp only [stepFields] at h; cases h; exact ⟨rfl, rfl⟩
    | cons raw raws =>
      unfold stepFields at h
      dsimp only at h
      split at h
      · cases h
      · cases h
      · obtain ⟨h1, h2⟩ := ih raws _ _ h
        rw [h1, h2]
        simp only [DecSt.setTs]
        constructor <;> (split <;> rfl)

theorem stepFields_glob (P : Profile) (dm : DefMsg) (known : Bool) (fds : List FieldDef) (raws : List Bytes)
    (m : Option Msg) (st : DecSt) (m' : Option Msg) (st' : DecSt)
    (h : stepFields P dm known fds raws m st = .ok m' st') : st'.glob = st.glob := by
  induction fds generalizing raws m st with
  | nil => simp only [stepFields] at h; cases h; rfl
  | cons fd fds ih =>
    cases raws with
    | nil => simp only [stepFields] at h; cases h; rfl
    | cons raw raws =>
      unfold stepFields at h
      dsimp only at h
      split at h
      · cases h
      · cases h
      · have h1 := ih raws _ _ h
        rw [h1]
        simp only [DecSt.setTs]
        split <;> rfl

/-- one data record of a good block is accepted -/
theorem stepItem_data_ok (P : Profile) (hwf : ProfileWF P = true) (c : Bool) (st : DecSt) (d : DefMsg) (parts : List Bytes)
    (hlook : st.defs.getD 0 none = some d) (hdev : d.dev = [])
    (hkn : P.known d.global = true)
    (hv : ∀ fd ∈ d.fields, validateFieldDef P d.global fd = true) (hl : ∀ fd ∈ d.fields, fd.btype ∈ listedBases)
    (hfit : FieldsFit d.fields parts) (hI : RInv c st) (hc : c = true ∨ d.global = mnFileId) :
    ∃ st', stepItem P st (.data 0 parts []) = .ok st' ∧ RInv c st' ∧ st'.defs = st.defs := by
  simp only [stepItem]
  rw [stepData_pre]
  have hlook1 : (st.eat [u8 0]).defs.getD 0 none = some d := hlook
  obtain ⟨pm, hpm, hpre⟩ := dataPre_known0 P hwf (st.eat [u8 0]) d hlook1 hkn
  rw [hpre]
  simp only [hkn]
  obtain ⟨msg', st2, hsf⟩ := stepFields_ok P hwf d hkn d.fields parts hfit hv hl ⟨d.global, pm.invalid⟩ (st.eat [u8 0])
  rw [hsf]
  simp only [hdev, stepDev]
  obtain ⟨msg2, hm2, hnum⟩ := stepFields_num P d true d.fields parts ⟨d.global, pm.invalid⟩ (st.eat [u8 0]) (some msg') st2 hsf
  cases hm2
  -- the state after the fields still has the File
  have hfile2 : st2.file = st.file ∧ st2.defs = st.defs := stepFields_file P d true d.fields parts _ (st.eat [u8 0]) _ _ hsf
  obtain ⟨⟨f, hf, hcx⟩, hdl⟩ := hI
  unfold addMsg
  simp only [hfile2.1, hf]
  have hcond : f.cidx.isSome = true ∨ msg'.num = mnFileId := by
    rcases hc with h | h
    · exact Or.inl (hcx h)
    · right; rw [hnum]; exact h
  obtain ⟨f', g', hadd, hci⟩ := add_some P f msg' st2.glob hcond
  simp only [hadd]
  refine ⟨_, rfl, ⟨⟨f', rfl, fun h => by rw [hci]; exact hcx h⟩, by show 0 < st2.defs.length; rw [hfile2.2]; exact hdl⟩, hfile2.2⟩

end Fit

namespace Fit

theorem stepItems_append (P : Profile) (st : DecSt) (a b : List Item) :
    stepItems P st (a ++ b) =
      match stepItems P st a with
      | .ok st' => stepItems P st' b
      | .stop o => .stop o := by
  induction a generalizing st with
  | nil => rfl
  | cons it its ih =>
    simp only [List.cons_append, stepItems]
    cases stepItem P st it with
    | ok st1 => exact ih st1
    | stop o => rfl

/-- **the record machine accepts a good block** and keeps the File and the table -/
theorem stepItems_block_ok (P : Profile) (hwf : ProfileWF P = true) (c : Bool) (st : DecSt) (d : DefMsg)
    (partss : List (List Bytes)) (hb : GoodBlock P d partss) (hI : RInv c st)
    (hc : c = true ∨ d.global = mnFileId) :
    ∃ st', stepItems P st (blockItems d partss) = .ok st' ∧ RInv c st' := by
  unfold blockItems
  -- the definition record
  have hdef : ∃ st1, stepItem P st (.defn d false) = .ok st1 ∧ RInv c st1 ∧ st1.defs.getD 0 none = some d := by
    unfold stepItem
    simp only
    have h1 : ¬ d.global = mesgNumInvalid := fun h => hb.acc (Or.inl h)
    have h2 : ¬ (!(d.fields.all (validateFieldDef P d.global))) = true := fun h => hb.acc (Or.inr h)
    rw [if_neg h1, if_neg h2]
    refine ⟨_, rfl, ⟨hI.1, by simp only [DecSt.eat, length_setAt]; exact hI.2⟩, ?_⟩
    simp only [DecSt.eat, Bool.false_eq_true, ↓reduceIte, hb.localT]
    rw [getD_setAt_same _ _ _ _ hI.2]
    congr 1
    have e1 := hb.dev
    have e2 := hb.localT
    cases d
    simp only at e1 e2
    subst e1 e2
    rfl
  obtain ⟨st1, hs1, hI1, hl1⟩ := hdef
  simp only [stepItems, hs1]
  -- the data records
  have hv : ∀ fd ∈ d.fields, validateFieldDef P d.global fd = true := mem_valid (fun h => hb.acc (Or.inr h))
  clear hs1 hI
  induction partss generalizing st1 with
  | nil => exact ⟨st1, rfl, hI1⟩
  | cons parts rest ih =>
    simp only [List.map_cons, stepItems]
    obtain ⟨st2, hs2, hI2, hd2⟩ := stepItem_data_ok P hwf c st1 d parts hl1 hb.dev hb.known hv hb.listed
      (hb.fit parts (List.mem_cons_self ..)) hI1 hc
    rw [hs2]
    exact ih ⟨hb.localT, hb.dev, hb.wf, hb.acc, hb.listed, hb.known, fun p hp => hb.fit p (List.mem_cons_of_mem _ hp)⟩
      st2 hI2 (by rw [hd2]; exact hl1)

end Fit

namespace Fit

/-- the definition the encoder writes for lookup entries of a known message, with its data
    records, is a good block -/
theorem defOf_good (P : Profile) (hwf : ProfileWF P = true) (arch : Endian) (g : Nat) (pm : PMsg)
    (hpm : P.msg? g = some pm) (hkn : P.known g = true) (fs : List PField) (hmem : ∀ pf ∈ fs, pf ∈ pm.fields)
    (hsmall : fs.length < 256) (partss : List (List Bytes)) (hfit : ∀ parts ∈ partss, FieldsFit (fs.map fdOf) parts) :
    GoodBlock P (defOf arch g fs) partss := by
  have hmw := msg?_wf P hwf g pm hpm
  obtain ⟨hnum, _, _, hall⟩ := msgWF_bounds pm hmw
  refine ⟨rfl, rfl, ?_, defOf_accepted P hwf arch g pm hpm fs hmem, ?_, hkn, hfit⟩
  · refine ⟨by show (0 : Nat) < 16; omega, ?_, ?_, ?_, (fun h => by cases h), (fun h => by cases h)⟩
    · show g < 65536
      rw [← msg?_num P g pm hpm]; omega
    · show (fs.map fdOf).length < 256
      rw [List.length_map]; exact hsmall
    · intro f hf
      simp only [defOf, List.mem_map] at hf
      obtain ⟨pf, hpf, rfl⟩ := hf
      have facts := fieldWF_facts pm pf (hall pf (hmem pf hpf))
      exact ⟨by have := facts.num; show pf.num < 256; omega, szOf_lt pf, tcBase_lt _⟩
  · intro fd hfd
    simp only [defOf, List.mem_map] at hfd
    obtain ⟨pf, hpf, rfl⟩ := hfd
    exact tcBase_listed pm pf (fieldWF_facts pm pf (hall pf (hmem pf hpf)))

/-- an encoder result that, when it succeeds, is a list of good blocks -/
def IsGood (P : Profile) (r : Except EncErr Bytes) : Prop :=
  ∀ bs, r = .ok bs → ∃ blocks : List (DefMsg × List (List Bytes)),
    bs = serialize (blocks.flatMap fun b => blockItems b.1 b.2) ∧ ∀ b ∈ blocks, GoodBlock P b.1 b.2

theorem isGood_nil (P : Profile) : IsGood P (.ok []) := by
  intro bs h; cases h; exact ⟨[], rfl, fun _ h => by cases h⟩

theorem isGood_one (P : Profile) (hwf : ProfileWF P = true) (arch : Endian) (m : Msg) (hkn : P.known m.num = true) :
    IsGood P (encodeOne P arch m) := by
  intro bs h
  obtain ⟨fs, parts, hbs, hfit, hd, pm, hpm, hmem⟩ := encodeOne_items P hwf arch m bs h
  refine ⟨[(defOf arch m.num fs, [parts])], ?_, ?_⟩
  · rw [hbs]; simp [blockItems]
  · intro b hb
    simp only [List.mem_singleton] at hb
    subst hb
    apply defOf_good P hwf arch m.num pm hpm hkn fs hmem
    · have := hd.nfields; simpa [defOf] using this
    · intro p hp; simp only [List.mem_singleton] at hp; subst hp; exact hfit

theorem isGood_group (P : Profile) (hwf : ProfileWF P = true) (arch : Endian) (ms : List Msg)
    (hkn : ∀ m ∈ ms, P.known m.num = true) : IsGood P (encodeGroup P arch ms) := by
  intro bs h
  cases ms with
  | nil => simp only [encodeGroup] at h; cases h; exact ⟨[], rfl, fun _ h => by cases h⟩
  | cons m0 rest =>
    unfold encodeGroup at h
    simp only at h
    cases hpm : P.msg? m0.num with
    | none => rw [hpm] at h; cases h
    | some pm =>
      rw [hpm] at h
      simp only at h
      split at h
      · cases h
      · cases hdefs : (m0 :: rest).mapM (encodeMesgDef pm) with
        | none => rw [hdefs] at h; cases h
        | some defsl =>
          rw [hdefs] at h
          simp only at h
          have hmw := msg?_wf P hwf m0.num pm hpm
          have hflat : ∀ pf ∈ defsl.flatten, pf ∈ pm.fields := by
            intro pf h1
            rw [List.mem_flatten] at h1
            obtain ⟨l, hl, hpl⟩ := h1
            obtain ⟨mx, _, hmx⟩ := mapM_some_all _ _ _ hdefs l hl
            exact (encodeMesgDef_mem pm mx l hmx).1 pf hpl
          have hsmall := group_def_small pm hmw defsl.flatten hflat
          generalize hfs : defsl.flatten.foldl (fun acc pf => insertField pf acc) [] = fs at h hsmall
          cases hc : concatE ((m0 :: rest).map fun m => mesgBytes arch pm m fs) with
          | error e => rw [hc] at h; cases h
          | ok b =>
            rw [hc] at h
            injection h with h
            subst h
            obtain ⟨_, _, _, hall⟩ := msgWF_bounds pm hmw
            have hmem : ∀ pf ∈ fs, pf ∈ pm.fields := by
              intro pf hp
              rw [← hfs] at hp
              rcases foldl_insertField_mem _ _ _ hp with h1 | h1
              · exact hflat pf h1
              · cases h1
            have hfw : ∀ pf ∈ fs, fieldWF pm pf = true := fun pf hp => hall pf (hmem pf hp)
            obtain ⟨partss, hlen, hb, hfit⟩ := group_datas arch pm fs (m0 :: rest) b hfw hc
            refine ⟨[(defOf arch m0.num fs, partss)], ?_, ?_⟩
            · rw [defBytes_eq, hb]
              simp [serialize, blockItems]
            · intro bl hbl
              simp only [List.mem_singleton] at hbl
              subst hbl
              exact defOf_good P hwf arch m0.num pm hpm (hkn m0 (List.mem_cons_self ..)) fs hmem hsmall partss hfit

theorem good_concat (P : Profile) (l : List (Except EncErr Bytes)) (hl : ∀ r ∈ l, IsGood P r) (body : Bytes)
    (h : concatE l = .ok body) :
    ∃ blocks : List (DefMsg × List (List Bytes)),
      body = serialize (blocks.flatMap fun b => blockItems b.1 b.2) ∧ ∀ b ∈ blocks, GoodBlock P b.1 b.2 := by
  induction l generalizing body with
  | nil => simp only [concatE] at h; cases h; exact ⟨[], rfl, fun _ h => by cases h⟩
  | cons r rs ih =>
    cases r with
    | error e => simp [concatE] at h
    | ok b =>
      simp only [concatE] at h
      cases hr : concatE rs with
      | error e => rw [hr] at h; cases h
      | ok br =>
        rw [hr] at h
        cases h
        obtain ⟨b1, h1, g1⟩ := hl (.ok b) (List.mem_cons_self ..) b rfl
        obtain ⟨b2, h2, g2⟩ := ih (fun r hr' => hl r (List.mem_cons_of_mem _ hr')) br hr
        refine ⟨b1 ++ b2, ?_, ?_⟩
        · rw [List.flatMap_append, serialize_append, h1, h2]
        · intro bl hbl
          rcases List.mem_append.mp hbl with h | h
          · exact g1 bl h
          · exact g2 bl h

/-- the record machine accepts any list of good blocks once the container is attached -/
theorem stepItems_blocks_ok (P : Profile) (hwf : ProfileWF P = true) (blocks : List (DefMsg × List (List Bytes)))
    (hg : ∀ b ∈ blocks, GoodBlock P b.1 b.2) (st : DecSt) (hI : RInv true st) :
    ∃ st', stepItems P st (blocks.flatMap fun b => blockItems b.1 b.2) = .ok st' ∧ RInv true st' := by
  induction blocks generalizing st with
  | nil => exact ⟨st, rfl, hI⟩
  | cons b bs ih =>
    simp only [List.flatMap_cons]
    rw [stepItems_append]
    obtain ⟨st1, h1, hI1⟩ := stepItems_block_ok P hwf true st b.1 b.2 (hg b (List.mem_cons_self ..)) hI (Or.inl rfl)
    rw [h1]
    exact ih (fun x hx => hg x (List.mem_cons_of_mem _ hx)) st1 hI1

end Fit

namespace Fit

/-- the file_id block of an encoded File, read back: the File's file_id message is restored -/
theorem fileid_block_ok (P : Profile) (hwf : ProfileWF P = true) (arch : Endian) (m : Msg) (bs : Bytes)
    (pm : PMsg) (hpm : P.msg? m.num = some pm) (hkn : P.known m.num = true) (m' : Msg) (hfid : m'.num = mnFileId)
    (hround : ∃ (fs : List PField) (parts : List Bytes),
      bs = serialize [.defn (defOf arch m.num fs) false, .data 0 parts []] ∧
      (∀ pf ∈ fs, pf ∈ pm.fields) ∧ FieldsFit (fs.map fdOf) parts ∧ fs.length < 256 ∧
      ∀ st : DecSt, ∃ st', stepFields P (defOf arch m.num fs) true (defOf arch m.num fs).fields parts
        (some ⟨m.num, pm.invalid⟩) st = .ok (some m') st')
    (st0 : DecSt) (f0 : FileSt) (hf0 : st0.file = some f0) (hc0 : f0.cidx = none) (hd0 : 0 < st0.defs.length) :
    ∃ (fs : List PField) (parts : List Bytes) (st1 st2 : DecSt),
      bs = serialize [.defn (defOf arch m.num fs) false, .data 0 parts []] ∧
      GoodBlock P (defOf arch m.num fs) [parts] ∧
      stepItem P st0 (.defn (defOf arch m.num fs) false) = .ok st1 ∧
      stepItem P st1 (.data 0 parts []) = .ok st2 ∧
      st2.file = some { f0 with fileId := m' } ∧ 0 < st2.defs.length ∧ st2.glob = st0.glob ∧
      st1.defs.getD 0 none = some (defOf arch m.num fs) := by
  obtain ⟨fs, parts, hbs, hmem, hfit, hsmall, hstep⟩ := hround
  have hgood : GoodBlock P (defOf arch m.num fs) [parts] :=
    defOf_good P hwf arch m.num pm hpm hkn fs hmem hsmall [parts]
      (fun p hp => by simp only [List.mem_singleton] at hp; subst hp; exact hfit)
  -- the definition record
  have h1 : ¬ (defOf arch m.num fs).global = mesgNumInvalid := fun h => hgood.acc (Or.inl h)
  have h2 : ¬ (!((defOf arch m.num fs).fields.all (validateFieldDef P (defOf arch m.num fs).global))) = true :=
    fun h => hgood.acc (Or.inr h)
  obtain ⟨st1, hst1⟩ : ∃ st1 : DecSt, st1 = { st0.eat (serializeItem (.defn (defOf arch m.num fs) false)) with
      defs := setAt st0.defs 0 (some (defOf arch m.num fs)) } := ⟨_, rfl⟩
  have hs1 : stepItem P st0 (.defn (defOf arch m.num fs) false) = .ok st1 := by
    unfold stepItem
    simp only
    rw [if_neg h1, if_neg h2, hst1]
    rfl
  have hf1 : st1.file = some f0 := by rw [hst1]; exact hf0
  have hd1 : 0 < st1.defs.length := by rw [hst1]; simp only [length_setAt]; exact hd0
  have hlook : (st1.eat [u8 0]).defs.getD 0 none = some (defOf arch m.num fs) := by
    rw [hst1]
    simp only [DecSt.eat]
    exact getD_setAt_same _ _ _ _ hd0
  refine ⟨fs, parts, st1, ?_⟩
  -- the data record
  have hdata : ∃ st2, stepItem P st1 (.data 0 parts []) = .ok st2 ∧ st2.file = some { f0 with fileId := m' } ∧
      0 < st2.defs.length ∧ st2.glob = st0.glob := by
    simp only [stepItem]
    rw [stepData_pre]
    obtain ⟨pm2, hpm2, hpre⟩ := dataPre_known0 P hwf (st1.eat [u8 0]) (defOf arch m.num fs) hlook hkn
    have hpm2' : pm2 = pm := by
      have e : P.msg? (defOf arch m.num fs).global = some pm := hpm
      rw [e] at hpm2; cases hpm2; rfl
    subst hpm2'
    rw [hpre]
    have hkn' : P.known (defOf arch m.num fs).global = true := hkn
    simp only [hkn']
    obtain ⟨stx, hsx⟩ := hstep (st1.eat [u8 0])
    have hsx' : stepFields P (defOf arch m.num fs) true (defOf arch m.num fs).fields parts
        (some ⟨(defOf arch m.num fs).global, pm2.invalid⟩) (st1.eat [u8 0]) = .ok (some m') stx := hsx
    rw [hsx']
    obtain ⟨hfx, hdx⟩ := stepFields_file P _ true _ parts _ (st1.eat [u8 0]) _ _ hsx
    have hfx' : stx.file = some f0 := by rw [hfx]; exact hf1
    simp only [defOf, stepDev]
    unfold addMsg
    simp only [hfx']
    unfold FileSt.add
    simp only [hfid, ↓reduceIte, hc0]
    refine ⟨_, rfl, rfl, ?_, ?_⟩
    · show 0 < stx.defs.length
      rw [hdx]; exact hd1
    · show stx.glob = st0.glob
      rw [stepFields_glob P _ true _ parts _ (st1.eat [u8 0]) _ _ hsx, hst1]
      rfl
  obtain ⟨st2, hs2, hf2, hd2, hg2⟩ := hdata
  exact ⟨st2, hbs, hgood, hs1, hs2, hf2, hd2, hg2, hlook⟩

end Fit

namespace Fit

theorem goodblocks_fitD (P : Profile) (blocks : List (DefMsg × List (List Bytes)))
    (hg : ∀ b ∈ blocks, GoodBlock P b.1 b.2) (defs : List (Option DefMsg)) (hd : 0 < defs.length) :
    ItemsFitD P defs (blocks.flatMap fun b => blockItems b.1 b.2) := by
  induction blocks generalizing defs with
  | nil => trivial
  | cons b bs ih =>
    simp only [List.flatMap_cons]
    rw [ItemsFitD_append]
    have gb := hg b (List.mem_cons_self ..)
    refine ⟨block_fitsD P defs b.1 b.2 hd gb.localT gb.dev gb.wf gb.acc gb.fit, ?_⟩
    exact ih (fun x hx => hg x (List.mem_cons_of_mem _ hx)) _ (by rw [defsAfterAll_length]; exact hd)

/-- what must hold of a File for the acceptance theorem: a 12- or 14-byte ".FIT" header, a file_id message
    whose fields round-trip, and only messages of known types -/
structure FileInDomain (P : Profile) (arch : Endian) (f : FileSt) : Prop where
  hdrSize : f.hdr.size = headerSizeNoCRC ∨ f.hdr.size = headerSizeCRC
  tag : f.hdr.dtype = fitTag
  proto : f.hdr.proto < 256 ∧ f.hdr.proto / 16 ≤ protoMajorMax
  fidNum : f.fileId.num = mnFileId
  fidKnown : P.known mnFileId = true
  fidRT : ∀ pm, P.msg? f.fileId.num = some pm →
    (∀ pf ∈ pm.fields, ∀ k v, pm.layout[pf.sindex]? = some k → f.fileId.vals[pf.sindex]? = some v →
      isInvalidVal pm pf.sindex v = false → ∀ fs, FieldRT P (defOf arch f.fileId.num fs) pf k v) ∧
    (∀ i v, f.fileId.vals[i]? = some v → isInvalidVal pm i v = true → pm.invalid[i]? = some v)
  creatorKnown : ∀ m, f.creator = some m → P.known m.num = true
  tscorrKnown : ∀ m, f.tscorr = some m → P.known m.num = true
  slotsKnown : ∀ ms ∈ f.slots, ∀ m ∈ ms, P.known m.num = true

end Fit

namespace Fit

theorem finalize_okOut_success (o : Opts) (st : DecSt) : (finalize o (okOut st)).success := by
  have := finalize_err o (okOut st)
  exact ⟨by rw [this.1]; rfl, by rw [this.2.1]; rfl⟩

theorem zip_mem_right {α β} (l1 : List α) (l2 : List β) (a : α) (b : β) (h : (a, b) ∈ l1.zip l2) : b ∈ l2 :=
  (List.of_mem_zip h).2

/-- **`Decode` accepts what `Encode` wrote.** On a well-formed profile, for every File in the
    domain above that `Encode` accepts: the bytes written, followed by anything, read through any
    reader, decode successfully. -/
theorem decode_accepts_encode (P : Profile) (hwf : ProfileWF P = true) (arch : Endian) (f f' : FileSt) (bs : Bytes)
    (h : encode P arch f = .ok bs f') (hdom : FileInDomain P arch f) (hsmall : bs.length < 4294967296)
    (o : Opts) (g : Globals) (tail : Bytes) (stop : Stop) :
    (decodeSpec P o .full g (bs ++ tail) stop).1.success := by
  -- unpack Encode
  unfold encode at h
  cases hia : P.initAns (fileTypeOf f) with
  | format => rw [hia] at h; cases h
  | notsupported => rw [hia] at h; cases h
  | container j =>
    rw [hia] at h
    simp only at h
    cases hci : f.cidx with
    | none => rw [hci] at h; cases h
    | some i =>
      rw [hci] at h
      simp only at h
      split at h
      · cases h
      · cases hbody : encodeBody P arch f (P.containers.getD i default) with
        | error e =>
          rw [hbody] at h
          cases e <;> cases h
        | ok body =>
          rw [hbody] at h
          simp only at h
          injection h with h1 h2
          have hblen : body.length < 4294967296 := by
            rw [← h1] at hsmall
            simp only [finishEncode, List.length_append] at hsmall
            omega
          rw [← h1, finishEncode_frame f body hdom.hdrSize hdom.tag hblen]
          generalize kindOfSize f.hdr.size = k
          -- the record area as blocks
          unfold encodeBody at hbody
          simp only [List.cons_append, List.nil_append] at hbody
          cases hfid : encodeOne P arch f.fileId with
          | error e => rw [hfid] at hbody; simp [concatE] at hbody
          | ok b0 =>
            rw [hfid] at hbody
            simp only [concatE] at hbody
            generalize htl : concatE _ = tl at hbody
            cases tl with
            | error e => cases hbody
            | ok br =>
              cases hbody
              have hgoodtl : ∀ r ∈ ((match f.creator with | some m => encodeOne P arch m | none => Except.ok []) ::
                  (match f.tscorr with | some m => encodeOne P arch m | none => Except.ok []) ::
                  ((P.containers.getD i default).slots.zip f.slots).map (fun (cs, ms) =>
                    if cs.many then encodeGroup P arch ms
                    else match ms with
                      | m :: _ => encodeOne P arch m
                      | [] => .ok [])), IsGood P r := by
                intro r hr
                simp only [List.mem_cons, List.mem_map] at hr
                rcases hr with rfl | rfl | ⟨⟨cs, ms⟩, hmem, rfl⟩
                · cases hc : f.creator with
                  | none => exact isGood_nil P
                  | some m => exact isGood_one P hwf arch m (hdom.creatorKnown m hc)
                · cases hc : f.tscorr with
                  | none => exact isGood_nil P
                  | some m => exact isGood_one P hwf arch m (hdom.tscorrKnown m hc)
                · have hms : ms ∈ f.slots := zip_mem_right _ _ _ _ hmem
                  simp only
                  split
                  · exact isGood_group P hwf arch ms (hdom.slotsKnown ms hms)
                  · cases ms with
                    | nil => exact isGood_nil P
                    | cons m _ => exact isGood_one P hwf arch m (hdom.slotsKnown _ hms m (List.mem_cons_self ..))
              obtain ⟨blocks, hbr, hgb⟩ := good_concat P _ hgoodtl br htl
              -- the file_id block
              obtain ⟨pm0, hpm0, _⟩ := known_hasCtor P hwf _ hdom.fidKnown
              have hpm0' : P.msg? f.fileId.num = some pm0 := by rw [hdom.fidNum]; exact hpm0
              obtain ⟨hrt, hinv⟩ := hdom.fidRT pm0 hpm0'
              have hknf : P.known f.fileId.num = true := by rw [hdom.fidNum]; exact hdom.fidKnown
              obtain ⟨fs, parts0, st1, st2, hb0, hgood0, hs1, hs2, hf2, hd2, _, _⟩ :=
                fileid_block_ok P hwf arch f.fileId b0 pm0 hpm0' hknf f.fileId hdom.fidNum
                  (message_roundtrip P hwf arch f.fileId b0 pm0 hpm0'
                    (by unfold Profile.known at hknf; rw [hpm0'] at hknf; exact hknf) hfid hrt hinv)
                  (recState0 P k g f.hdr.proto f.hdr.profile (b0 ++ br).length)
                  { hdr := (afterHeader k g f.hdr.proto f.hdr.profile (b0 ++ br).length).hdr, fileId := zeroFileId P }
                  rfl rfl (by simp [recState0, afterHeader, DecSt.init])
              -- the whole record area as items
              have hitems : b0 ++ br = serialize (.defn (defOf arch f.fileId.num fs) false ::
                  .data (defOf arch f.fileId.num fs).localT parts0 [] :: blocks.flatMap fun b => blockItems b.1 b.2) := by
                have e : (Item.defn (defOf arch f.fileId.num fs) false ::
                    Item.data (defOf arch f.fileId.num fs).localT parts0 [] :: blocks.flatMap fun b => blockItems b.1 b.2) =
                    [.defn (defOf arch f.fileId.num fs) false, .data 0 parts0 []] ++
                      blocks.flatMap fun b => blockItems b.1 b.2 := rfl
                rw [e, serialize_append, ← hb0, ← hbr]
              rw [hitems] at hs1 hf2 ⊢
              -- the item machine accepts them
              have hinit : ∃ f2 : FileSt, st2.file = some f2 ∧
                  ∃ f3, f2.init P = .ok f3 ∧ f3.cidx.isSome = true := by
                refine ⟨_, hf2, ?_⟩
                unfold FileSt.init
                have : fileTypeOf { ({ hdr := (afterHeader k g f.hdr.proto f.hdr.profile (serialize
                    (.defn (defOf arch f.fileId.num fs) false :: .data (defOf arch f.fileId.num fs).localT parts0 [] ::
                      blocks.flatMap fun b => blockItems b.1 b.2)).length).hdr, fileId := zeroFileId P } : FileSt)
                    with fileId := f.fileId } = fileTypeOf f := rfl
                rw [this, hia]
                exact ⟨_, rfl, rfl⟩
              obtain ⟨f2, hf2', f3, hinit3, hc3⟩ := hinit
              obtain ⟨st', hst', _⟩ := stepItems_blocks_ok P hwf blocks hgb { st2 with file := some f3 }
                ⟨⟨f3, rfl, fun _ => hc3⟩, hd2⟩
              have hrun : runItems P (afterHeader k g f.hdr.proto f.hdr.profile (serialize
                  (.defn (defOf arch f.fileId.num fs) false :: .data (defOf arch f.fileId.num fs).localT parts0 [] ::
                    blocks.flatMap fun b => blockItems b.1 b.2)).length).hdr g
                  (.defn (defOf arch f.fileId.num fs) false :: .data (defOf arch f.fileId.num fs).localT parts0 [] ::
                    blocks.flatMap fun b => blockItems b.1 b.2)
                  (afterHeader k g f.hdr.proto f.hdr.profile (serialize
                  (.defn (defOf arch f.fileId.num fs) false :: .data (defOf arch f.fileId.num fs).localT parts0 [] ::
                    blocks.flatMap fun b => blockItems b.1 b.2)).length).crc = .ok st' := by
                unfold runItems
                simp only
                have e0 : ({ DecSt.init g with
                    hdr := (afterHeader k g f.hdr.proto f.hdr.profile (serialize
                      (.defn (defOf arch f.fileId.num fs) false :: .data (defOf arch f.fileId.num fs).localT parts0 [] ::
                        blocks.flatMap fun b => blockItems b.1 b.2)).length).hdr,
                    crc := (afterHeader k g f.hdr.proto f.hdr.profile (serialize
                      (.defn (defOf arch f.fileId.num fs) false :: .data (defOf arch f.fileId.num fs).localT parts0 [] ::
                        blocks.flatMap fun b => blockItems b.1 b.2)).length).crc,
                    file := some { hdr := (afterHeader k g f.hdr.proto f.hdr.profile (serialize
                      (.defn (defOf arch f.fileId.num fs) false :: .data (defOf arch f.fileId.num fs).localT parts0 [] ::
                        blocks.flatMap fun b => blockItems b.1 b.2)).length).hdr, fileId := zeroFileId P },
                    unkInit := true } : DecSt) = recState0 P k g f.hdr.proto f.hdr.profile (serialize
                      (.defn (defOf arch f.fileId.num fs) false :: .data (defOf arch f.fileId.num fs).localT parts0 [] ::
                        blocks.flatMap fun b => blockItems b.1 b.2)).length := rfl
                rw [e0, hs1]
                simp only
                have hs2' : stepItem P st1 (.data (defOf arch f.fileId.num fs).localT parts0 []) = .ok st2 := hs2
                rw [hs2']
                simp only [hf2', hinit3]
                exact hst'
              have hfitD : ItemsFitD P (List.replicate 16 none)
                  (.defn (defOf arch f.fileId.num fs) false :: .data (defOf arch f.fileId.num fs).localT parts0 [] ::
                    blocks.flatMap fun b => blockItems b.1 b.2) := by
                have e : (Item.defn (defOf arch f.fileId.num fs) false ::
                    Item.data (defOf arch f.fileId.num fs).localT parts0 [] :: blocks.flatMap fun b => blockItems b.1 b.2) =
                    blockItems (defOf arch f.fileId.num fs) [parts0] ++
                      blocks.flatMap fun b => blockItems b.1 b.2 := rfl
                rw [e, ItemsFitD_append]
                refine ⟨block_fitsD P _ _ [parts0] (by simp) hgood0.localT hgood0.dev hgood0.wf hgood0.acc hgood0.fit, ?_⟩
                exact goodblocks_fitD P blocks hgb _ (by rw [defsAfterAll_length]; simp)
              have hlen' : (serialize (.defn (defOf arch f.fileId.num fs) false ::
                  .data (defOf arch f.fileId.num fs).localT parts0 [] ::
                    blocks.flatMap fun b => blockItems b.1 b.2)).length < 4294967296 := by
                rw [← hitems]; exact hblen
              have hg' : (defOf arch f.fileId.num fs).global = mnFileId := hdom.fidNum
              generalize hrest : (blocks.flatMap fun b => blockItems b.1 b.2) = restItems at *
              generalize hd0 : defOf arch f.fileId.num fs = d0 at *
              have key := decode_frame_ok P o k g f.hdr.proto f.hdr.profile d0 false parts0 []
                restItems tail stop st' hdom.proto.1 hdom.proto.2 hgood0.wf hg' hdom.fidKnown hlen' hfitD hrun
              rw [key]
              exact finalize_okOut_success o _

end Fit
