import FitProofs.DecodeAccepts
import FitProofs.MsgRoundtrip
import FitProofs.TypedFile
import FitProofs.Pad
/-
  C06 at file level: what `Decode` returns on the bytes `Encode` wrote.  The record machine, run
  on the blocks of `encode_wellformed`, hands exactly the File's messages — in the encoder's order —
  to `File.add`; so the decoded File is the replay of `add` over those messages.
-/
namespace Fit

/-- `File.add` over a list of messages, threading the package-level accumulators -/
def addAll (P : Profile) : FileSt × Globals → List Msg → Option (FileSt × Globals)
  | fg, [] => some fg
  | fg, m :: ms =>
    match fg.1.add P m fg.2 with
    | some fg' => addAll P fg' ms
    | none => none

theorem addAll_append (P : Profile) (fg : FileSt × Globals) (a b : List Msg) :
    addAll P fg (a ++ b) = match addAll P fg a with
      | some fg' => addAll P fg' b
      | none => none := by
  induction a generalizing fg with
  | nil => rfl
  | cons m ms ih =>
    simp only [List.cons_append, addAll]
    cases fg.1.add P m fg.2 with
    | none => rfl
    | some fg' => exact ih fg'

/-- with the container attached `add` never fails, and the container stays attached -/
theorem addAll_some (P : Profile) (fg : FileSt × Globals) (ms : List Msg) (h : fg.1.cidx.isSome = true) :
    ∃ fg', addAll P fg ms = some fg' ∧ fg'.1.cidx = fg.1.cidx := by
  induction ms generalizing fg with
  | nil => exact ⟨fg, rfl, rfl⟩
  | cons m ms ih =>
    obtain ⟨f', g', hadd, hci⟩ := add_some P fg.1 m fg.2 (Or.inl h)
    simp only [addAll, hadd]
    obtain ⟨fg', h1, h2⟩ := ih (f', g') (by rw [hci]; exact h)
    exact ⟨fg', h1, by rw [h2]; exact hci⟩

/-- the field loop, on these parts, rebuilds this message from the all-invalid one -/
def Rebuilds (P : Profile) (d : DefMsg) (parts : List Bytes) (m : Msg) : Prop :=
  ∀ pm, P.msg? d.global = some pm → ∀ st : DecSt,
    ∃ st', stepFields P d true d.fields parts (some ⟨d.global, pm.invalid⟩) st = .ok (some m) st'

/-- one data record of a block whose parts rebuild `m`: the machine adds `m` to the File -/
theorem stepItem_data_adds (P : Profile) (hwf : ProfileWF P = true) (st : DecSt) (d : DefMsg) (parts : List Bytes)
    (m : Msg) (hlook : st.defs.getD 0 none = some d) (hdev : d.dev = []) (hkn : P.known d.global = true)
    (hrb : Rebuilds P d parts m) (f : FileSt) (hf : st.file = some f) (f' : FileSt) (g' : Globals)
    (hadd : f.add P m st.glob = some (f', g')) :
    ∃ st', stepItem P st (.data 0 parts []) = .ok st' ∧ st'.file = some f' ∧ st'.glob = g' ∧ st'.defs = st.defs := by
  simp only [stepItem]
  rw [stepData_pre]
  have hlook1 : (st.eat [u8 0]).defs.getD 0 none = some d := hlook
  obtain ⟨pm, hpm, hpre⟩ := dataPre_known0 P hwf (st.eat [u8 0]) d hlook1 hkn
  rw [hpre]
  simp only [hkn]
  obtain ⟨st2, hsf⟩ := hrb pm hpm (st.eat [u8 0])
  rw [hsf]
  simp only [hdev, stepDev]
  have hfile2 := stepFields_file P d true d.fields parts _ (st.eat [u8 0]) _ _ hsf
  have hglob2 := stepFields_glob P d true d.fields parts _ (st.eat [u8 0]) _ _ hsf
  unfold addMsg
  have e1 : st2.file = some f := by rw [hfile2.1]; exact hf
  have e2 : st2.glob = st.glob := by rw [hglob2]; rfl
  simp only [e1, e2, hadd]
  exact ⟨_, rfl, rfl, rfl, hfile2.2⟩

/-- two lists related elementwise -/
inductive All2 {α β} (R : α → β → Prop) : List α → List β → Prop
  | nil : All2 R [] []
  | cons {a b as bs} : R a b → All2 R as bs → All2 R (a :: as) (b :: bs)

/-- a block together with the messages its data records carry -/
structure MsgBlock (P : Profile) (d : DefMsg) (partss : List (List Bytes)) (ms : List Msg) : Prop where
  good : GoodBlock P d partss
  rb : All2 (Rebuilds P d) partss ms

/-- the state facts the replay needs: a File with its container, the accumulators, a table -/
def CInv (st : DecSt) (f : FileSt) (g : Globals) : Prop :=
  st.file = some f ∧ st.glob = g ∧ f.cidx.isSome = true ∧ 0 < st.defs.length

theorem stepItems_msgblock (P : Profile) (hwf : ProfileWF P = true) (st : DecSt) (d : DefMsg)
    (partss : List (List Bytes)) (ms : List Msg) (hb : MsgBlock P d partss ms) (f : FileSt) (g : Globals)
    (hI : CInv st f g) :
    ∃ st' fg', stepItems P st (blockItems d partss) = .ok st' ∧ addAll P (f, g) ms = some fg' ∧
      CInv st' fg'.1 fg'.2 := by
  unfold blockItems
  have hg := hb.good
  have hdef : ∃ st1, stepItem P st (.defn d false) = .ok st1 ∧ CInv st1 f g ∧ st1.defs.getD 0 none = some d := by
    unfold stepItem
    simp only
    have h1 : ¬ d.global = mesgNumInvalid := fun h => hg.acc (Or.inl h)
    have h2 : ¬ (!(d.fields.all (validateFieldDef P d.global))) = true := fun h => hg.acc (Or.inr h)
    rw [if_neg h1, if_neg h2]
    refine ⟨_, rfl, ⟨hI.1, hI.2.1, hI.2.2.1, by simp only [DecSt.eat, length_setAt]; exact hI.2.2.2⟩, ?_⟩
    simp only [DecSt.eat, Bool.false_eq_true, ↓reduceIte, hg.localT]
    rw [getD_setAt_same _ _ _ _ hI.2.2.2]
    congr 1
    have e1 := hg.dev
    have e2 := hg.localT
    cases d
    simp only at e1 e2
    subst e1 e2
    rfl
  obtain ⟨st1, hs1, hI1, hl1⟩ := hdef
  simp only [stepItems, hs1]
  have hrb := hb.rb
  have hdev := hg.dev
  have hkn := hg.known
  clear hs1 hI hb hg
  induction hrb generalizing st1 f g with
  | nil => exact ⟨st1, (f, g), rfl, rfl, hI1⟩
  | @cons parts m partss ms hr _ ih =>
    simp only [List.map_cons, stepItems, addAll]
    obtain ⟨f', g', hadd, hci⟩ := add_some P f m g (Or.inl hI1.2.2.1)
    have hadd' : f.add P m st1.glob = some (f', g') := by rw [hI1.2.1]; exact hadd
    obtain ⟨st2, hs2, hf2, hg2, hd2⟩ := stepItem_data_adds P hwf st1 d parts m hl1 hdev hkn hr f hI1.1 f' g' hadd'
    rw [hs2, hadd]
    exact ih f' g' st2 ⟨hf2, hg2, by rw [hci]; exact hI1.2.2.1, by rw [hd2]; exact hI1.2.2.2⟩ (by rw [hd2]; exact hl1)

/-- blocks with their messages -/
structure MB where
  d : DefMsg
  partss : List (List Bytes)
  ms : List Msg

theorem stepItems_msgblocks (P : Profile) (hwf : ProfileWF P = true) (blocks : List MB)
    (hg : ∀ b ∈ blocks, MsgBlock P b.d b.partss b.ms) (st : DecSt) (f : FileSt) (g : Globals) (hI : CInv st f g) :
    ∃ st' fg', stepItems P st (blocks.flatMap fun b => blockItems b.d b.partss) = .ok st' ∧
      addAll P (f, g) (blocks.flatMap (·.ms)) = some fg' ∧ CInv st' fg'.1 fg'.2 := by
  induction blocks generalizing st f g with
  | nil => exact ⟨st, (f, g), rfl, rfl, hI⟩
  | cons b bs ih =>
    simp only [List.flatMap_cons]
    rw [stepItems_append, addAll_append]
    obtain ⟨st1, fg1, h1, h2, hI1⟩ := stepItems_msgblock P hwf st b.d b.partss b.ms (hg b (List.mem_cons_self ..)) f g hI
    rw [h1, h2]
    exact ih (fun x hx => hg x (List.mem_cons_of_mem _ hx)) st1 fg1.1 fg1.2 hI1

end Fit

namespace Fit

/-! ### the union definition of a group covers every valid field of every member -/

theorem insertField_keeps (pf : PField) (l : List PField) (x : PField) (h : x ∈ l) : x ∈ insertField pf l := by
  induction l with
  | nil => cases h
  | cons y ys ih =>
    unfold insertField
    split
    · exact h
    · split
      · exact List.mem_cons_of_mem _ h
      · cases h with
        | head => exact List.mem_cons_self ..
        | tail _ h' => exact List.mem_cons_of_mem _ (ih h')

theorem insertField_has (pf : PField) (l : List PField) : ∃ y ∈ insertField pf l, y.num = pf.num := by
  induction l with
  | nil => exact ⟨pf, by simp [insertField], rfl⟩
  | cons x xs ih =>
    unfold insertField
    split
    · rename_i h; exact ⟨x, List.mem_cons_self .., h⟩
    · split
      · exact ⟨pf, List.mem_cons_self .., rfl⟩
      · obtain ⟨y, hy, hn⟩ := ih
        exact ⟨y, List.mem_cons_of_mem _ hy, hn⟩

theorem foldl_insertField_keeps (xs acc : List PField) (x : PField) (h : x ∈ acc) :
    x ∈ xs.foldl (fun acc pf => insertField pf acc) acc := by
  induction xs generalizing acc with
  | nil => exact h
  | cons y ys ih => exact ih _ (insertField_keeps y acc x h)

theorem foldl_insertField_has (xs acc : List PField) (x : PField) (h : x ∈ xs) :
    ∃ y ∈ xs.foldl (fun acc pf => insertField pf acc) acc, y.num = x.num := by
  induction xs generalizing acc with
  | nil => cases h
  | cons z zs ih =>
    simp only [List.foldl_cons]
    cases h with
    | head =>
      obtain ⟨y, hy, hn⟩ := insertField_has x acc
      exact ⟨y, foldl_insertField_keeps zs _ y hy, hn⟩
    | tail _ h' => exact ih _ h'

/-- data records of a group, each linked to the message it was written from -/
theorem group_datas_linked (arch : Endian) (pm : PMsg) (fs : List PField) (ms : List Msg) (b : Bytes)
    (hfw : ∀ pf ∈ fs, fieldWF pm pf = true)
    (h : concatE (ms.map fun m => mesgBytes arch pm m fs) = .ok b) :
    ∃ partss : List (List Bytes),
      b = serialize (partss.map fun parts => Item.data 0 parts []) ∧
      (∀ parts ∈ partss, FieldsFit (fs.map fdOf) parts) ∧
      All2 (fun parts m => (fs.map fun pf =>
        match pm.layout[pf.sindex]?, m.vals[pf.sindex]? with
        | some k, some v => writeField arch pf k v
        | _, _ => .error .panic) = parts.map .ok) partss ms := by
  induction ms generalizing b with
  | nil =>
    simp only [List.map_nil, concatE] at h
    cases h
    exact ⟨[], rfl, (fun _ h => by cases h), .nil⟩
  | cons m ms ih =>
    simp only [List.map_cons] at h
    cases hm : mesgBytes arch pm m fs with
    | error e => rw [hm] at h; simp [concatE] at h
    | ok bm =>
      rw [hm] at h
      simp only [concatE] at h
      cases hr : concatE (ms.map fun m => mesgBytes arch pm m fs) with
      | error e => rw [hr] at h; cases h
      | ok br =>
        rw [hr] at h
        cases h
        obtain ⟨partss, hb, hfit, hall⟩ := ih br hr
        unfold mesgBytes at hm
        split at hm
        · rename_i body hc
          injection hm with hm
          subst hm
          obtain ⟨parts, hp1, hp2⟩ := concatE_ok _ _ hc
          refine ⟨parts :: partss, ?_, ?_, .cons hp1 hall⟩
          · rw [hb, hp2]
            simp [serialize, serializeItem, u8]
          · intro p hp
            cases hp with
            | head => exact parts_fit arch pm m fs parts hfw hp1
            | tail _ hp' => exact hfit p hp'
        · cases hm

theorem All2.imp {α β} {R S : α → β → Prop} {as : List α} {bs : List β} (h : All2 R as bs)
    (hi : ∀ a b, a ∈ as → b ∈ bs → R a b → S a b) : All2 S as bs := by
  induction h with
  | nil => exact .nil
  | cons hr _ ih =>
    exact .cons (hi _ _ (List.mem_cons_self ..) (List.mem_cons_self ..) hr)
      (ih fun a b ha hb => hi a b (List.mem_cons_of_mem _ ha) (List.mem_cons_of_mem _ hb))

theorem All2.map_right {α β γ} {R : α → β → Prop} {S : α → γ → Prop} {as : List α} {bs : List β} (f : β → γ)
    (h : All2 R as bs) (hi : ∀ a b, a ∈ as → b ∈ bs → R a b → S a (f b)) : All2 S as (bs.map f) := by
  induction h with
  | nil => exact .nil
  | cons hr _ ih =>
    exact .cons (hi _ _ (List.mem_cons_self ..) (List.mem_cons_self ..) hr)
      (ih fun a b ha hb => hi a b (List.mem_cons_of_mem _ ha) (List.mem_cons_of_mem _ hb))

/-- what the round trip needs of one message written under the fields `W`: every written field
    round-trips, and every field left invalid holds the constructor's invalid value -/
structure MsgDom (P : Profile) (arch : Endian) (pm : PMsg) (m : Msg) (W : PField → Prop) : Prop where
  /-- a valid field is read back as itself, an array padded to the profile length -/
  rt : ∀ pf ∈ pm.fields, W pf → ∀ k v, pm.layout[pf.sindex]? = some k → m.vals[pf.sindex]? = some v →
    isInvalidVal pm pf.sindex v = false → ∀ fs, FieldRTG P (defOf arch m.num fs) pf k v
      (pm.invalid.getD pf.sindex (.u 0)) (padVal pf v)
  /-- a field the definition carries although this message leaves it invalid (it is valid in another
      message of the group): its invalid value, written as a filler, is read back as "nothing to
      store" — or, for an array, as the all-invalid array of the profile length -/
  filler : ∀ pf ∈ pm.fields, W pf → ∀ k v, pm.layout[pf.sindex]? = some k → m.vals[pf.sindex]? = some v →
    isInvalidVal pm pf.sindex v = true → ∀ fs, FieldRTG P (defOf arch m.num fs) pf k v v (padVal pf v)
  inv : ∀ i v, m.vals[i]? = some v → isInvalidVal pm i v = true → pm.invalid[i]? = some v

/-- is the field valid in this message? -/
def validIn (pm : PMsg) (m : Msg) (pf : PField) : Prop :=
  isInvalidVal pm pf.sindex (m.vals.getD pf.sindex (.u 0)) = false

end Fit

namespace Fit

/-- an encoder result that, when it succeeds, is a list of blocks carrying exactly `msgs` -/
def IsMsgs (P : Profile) (r : Except EncErr Bytes) (msgs : List Msg) : Prop :=
  ∀ bs, r = .ok bs → ∃ blocks : List MB,
    bs = serialize (blocks.flatMap fun b => blockItems b.d b.partss) ∧
    (∀ b ∈ blocks, MsgBlock P b.d b.partss b.ms) ∧ blocks.flatMap (·.ms) = msgs

theorem isMsgs_nil (P : Profile) : IsMsgs P (.ok []) [] := by
  intro bs h; cases h; exact ⟨[], rfl, (fun _ h => by cases h), rfl⟩

theorem getD_of_getElem? {α} (l : List α) (i : Nat) (v d : α) (h : l[i]? = some v) : l.getD i d = v := by
  simp [List.getD_eq_getElem?_getD, h]

theorem isMsgs_one (P : Profile) (hwf : ProfileWF P = true) (arch : Endian) (m : Msg) (pm : PMsg)
    (hpm : P.msg? m.num = some pm) (hkn : P.known m.num = true)
    (hd : MsgDom P arch pm m (validIn pm m)) : IsMsgs P (encodeOne P arch m) [wireMsg pm [m] m] := by
  intro bs h
  have hknpm : pm.known = true := by
    unfold Profile.known at hkn; rw [hpm] at hkn; exact hkn
  obtain ⟨fs, parts, hbs, hmem, hfit, hsmall, hstep⟩ := message_roundtripG P hwf arch m bs pm hpm hknpm h
    (fun pf hp k v hk hv hiv fs => hd.rt pf hp (by unfold validIn; rw [getD_of_getElem? _ _ _ _ hv]; exact hiv) k v hk hv hiv fs)
    hd.inv
  refine ⟨[⟨defOf arch m.num fs, [parts], [wireMsg pm [m] m]⟩], ?_, ?_, rfl⟩
  · rw [hbs]; simp [blockItems]
  · intro b hb
    simp only [List.mem_singleton] at hb
    subst hb
    refine ⟨defOf_good P hwf arch m.num pm hpm hkn fs hmem hsmall [parts]
      (fun p hp => by simp only [List.mem_singleton] at hp; subst hp; exact hfit), .cons ?_ .nil⟩
    intro pm' hpm' st
    have e : pm' = pm := by
      have : P.msg? m.num = some pm' := hpm'
      rw [hpm] at this; cases this; rfl
    subst e
    exact hstep st

theorem mapM_some_fwd {α β} (f : α → Option β) (l : List α) (r : List β) (h : l.mapM f = some r) :
    ∀ x ∈ l, ∃ y ∈ r, f x = some y := by
  induction l generalizing r with
  | nil => intro x hx; cases hx
  | cons a as ih =>
    simp only [List.mapM_cons] at h
    cases ha : f a with
    | none => rw [ha] at h; simp at h
    | some b =>
      rw [ha] at h
      cases hr : as.mapM f with
      | none => rw [hr] at h; simp at h
      | some bs =>
        rw [hr] at h
        simp at h
        subst h
        intro x hx
        cases hx with
        | head => exact ⟨b, List.mem_cons_self .., ha⟩
        | tail _ hx' =>
          obtain ⟨y, hy, hfx⟩ := ih bs hr x hx'
          exact ⟨y, List.mem_cons_of_mem _ hy, hfx⟩

theorem sortedS_pairwise (l : List PField) (h : SortedS l) : l.Pairwise (fun a b => a.sindex < b.sindex) := by
  induction l with
  | nil => exact List.Pairwise.nil
  | cons x xs ih =>
    have ht := ih h.tail
    rw [List.pairwise_cons]
    refine ⟨?_, ht⟩
    intro y hy
    cases xs with
    | nil => cases hy
    | cons z zs =>
      have hxz := h.1
      cases hy with
      | head => exact hxz
      | tail _ hy' =>
        rw [List.pairwise_cons] at ht
        exact Nat.lt_trans hxz (ht.1 y hy')

theorem known_pm' (P : Profile) (g : Nat) (pm : PMsg) (hpm : P.msg? g = some pm) (hk : P.known g = true) : pm.known = true := by
  unfold Profile.known at hk
  rw [hpm] at hk
  exact hk

/-- **a group of messages round-trips**: under the union definition, the field loop rebuilds every
    member exactly -/
theorem isMsgs_group (P : Profile) (hwf : ProfileWF P = true) (arch : Endian) (m0 : Msg) (rest : List Msg) (pm : PMsg)
    (hpm : P.msg? m0.num = some pm) (hkn : P.known m0.num = true)
    (hnum : ∀ m ∈ m0 :: rest, m.num = m0.num)
    (hd : ∀ m ∈ m0 :: rest, MsgDom P arch pm m (fun pf => ∃ m' ∈ m0 :: rest, validIn pm m' pf)) :
    IsMsgs P (encodeGroup P arch (m0 :: rest)) ((m0 :: rest).map (wireMsg pm (m0 :: rest))) := by
  intro bs h
  unfold encodeGroup at h
  simp only at h
  rw [hpm] at h
  simp only at h
  split at h
  · cases h
  · rename_i hcond
    cases hdefs : (m0 :: rest).mapM (encodeMesgDef pm) with
    | none => rw [hdefs] at h; cases h
    | some defsl =>
      rw [hdefs] at h
      simp only at h
      have hmw := msg?_wf P hwf m0.num pm hpm
      have hflat : ∀ pf ∈ defsl.flatten, pf ∈ pm.fields := by
        intro pf h1
        rw [List.mem_flatten] at h1
        obtain ⟨l, hl, hpl⟩ := h1
        obtain ⟨mx, _, hmx⟩ := mapM_some_all _ _ _ hdefs l hl
        exact (encodeMesgDef_mem pm mx l hmx).1 pf hpl
      have hvalid : ∀ pf ∈ defsl.flatten, ∃ m' ∈ m0 :: rest, validIn pm m' pf := by
        intro pf h1
        rw [List.mem_flatten] at h1
        obtain ⟨l, hl, hpl⟩ := h1
        obtain ⟨mx, hmxm, hmx⟩ := mapM_some_all _ _ _ hdefs l hl
        exact ⟨mx, hmxm, ((encodeMesgDef_spec pm mx l hmx).1 pf hpl).2⟩
      have hsmall := group_def_small pm hmw defsl.flatten hflat
      have hsortedS := foldl_insertField_sorted pm.fields (msgWF_inj pm hmw) defsl.flatten [] hflat (fun x h => by cases h) trivial
      have hcover : ∀ m ∈ m0 :: rest, ∀ i, i < m.vals.length → isInvalidVal pm i (m.vals.getD i (.u 0)) = false →
          ∃ q ∈ defsl.flatten.foldl (fun acc pf => insertField pf acc) [], q.sindex = i := by
        intro m hm i hi hv
        obtain ⟨l, hl, hml⟩ := mapM_some_fwd _ _ _ hdefs m hm
        obtain ⟨pf, hpf, hpi⟩ := (encodeMesgDef_spec pm m l hml).2 i hi hv
        have hpflat : pf ∈ defsl.flatten := List.mem_flatten.mpr ⟨l, hl, hpf⟩
        obtain ⟨y, hy, hyn⟩ := foldl_insertField_has defsl.flatten [] pf hpflat
        refine ⟨y, hy, ?_⟩
        have hym : y ∈ pm.fields := by
          rcases foldl_insertField_mem _ _ _ hy with h1 | h1
          · exact hflat y h1
          · cases h1
        rw [← hpi]
        exact (msgWF_inj pm hmw y hym pf (hflat pf hpflat)).mp hyn
      generalize hfs : defsl.flatten.foldl (fun acc pf => insertField pf acc) [] = fs at h hsmall hcover hsortedS
      cases hc : concatE ((m0 :: rest).map fun m => mesgBytes arch pm m fs) with
      | error e => rw [hc] at h; cases h
      | ok b =>
        rw [hc] at h
        injection h with h
        subst h
        obtain ⟨_, _, _, hall⟩ := msgWF_bounds pm hmw
        have hmemflat : ∀ pf ∈ fs, pf ∈ defsl.flatten := by
          intro pf hp
          rw [← hfs] at hp
          rcases foldl_insertField_mem _ _ _ hp with h1 | h1
          · exact h1
          · cases h1
        have hmem : ∀ pf ∈ fs, pf ∈ pm.fields := fun pf hp => hflat pf (hmemflat pf hp)
        have hfw : ∀ pf ∈ fs, fieldWF pm pf = true := fun pf hp => hall pf (hmem pf hp)
        obtain ⟨partss, hb, hfit, hlinked⟩ := group_datas_linked arch pm fs (m0 :: rest) b hfw hc
        refine ⟨[⟨defOf arch m0.num fs, partss, (m0 :: rest).map (wireMsg pm (m0 :: rest))⟩], ?_, ?_, by simp⟩
        · rw [defBytes_eq, hb]
          simp [serialize, blockItems]
        · intro bl hbl
          simp only [List.mem_singleton] at hbl
          subst hbl
          refine ⟨defOf_good P hwf arch m0.num pm hpm hkn fs hmem hsmall partss hfit, ?_⟩
          show All2 (Rebuilds P (defOf arch m0.num fs)) partss ((m0 :: rest).map (wireMsg pm (m0 :: rest)))
          refine All2.map_right _ hlinked ?_
          intro parts m _ hm hparts pm' hpm' st
          have e : pm' = pm := by
            have : P.msg? m0.num = some pm' := hpm'
            rw [hpm] at this; cases this; rfl
          subst e
          have hmn : m.num = m0.num := hnum m hm
          have hvl : m.vals.length = pm'.invalid.length := by
            by_cases hv : m.vals.length = pm'.invalid.length
            · exact hv
            · exfalso
              apply hcond
              right
              simp only [List.any_eq_true, decide_eq_true_eq]
              exact ⟨m, hm, hv⟩
          have hinvlen : pm'.invalid.length = pm'.layout.length := (msgWF_known pm' hmw (known_pm' P m0.num pm' hpm hkn)).2.2.1
          have hrt' : ∀ pf ∈ fs, ∀ k v, pm'.layout[pf.sindex]? = some k → m.vals[pf.sindex]? = some v →
              FieldRTG P (defOf arch m0.num fs) pf k v (pm'.invalid.getD pf.sindex (.u 0))
                (padVal pf (m.vals.getD pf.sindex (.u 0))) := by
            intro pf hp k v hk hv
            rw [getD_of_getElem? _ _ _ _ hv]
            cases hiv : isInvalidVal pm' pf.sindex v with
            | false =>
              have := (hd m hm).rt pf (hmem pf hp) (hvalid pf (hmemflat pf hp)) k v hk hv hiv fs
              rw [hmn] at this
              exact this
            | true =>
              have := (hd m hm).filler pf (hmem pf hp) (hvalid pf (hmemflat pf hp)) k v hk hv hiv fs
              rw [hmn] at this
              have hinv := (hd m hm).inv pf.sindex v hv hiv
              rw [getD_of_getElem? _ _ _ _ hinv]
              exact this
          have hgf : ∀ pf ∈ fs, P.getField (defOf arch m0.num fs).global pf.num = some pf :=
            fun pf hp => getField_of_mem P m0.num pm' hpm hmw pf (hmem pf hp) hkn
          have hinit : ∀ pf ∈ fs, (⟨m0.num, pm'.invalid⟩ : Msg).vals[pf.sindex]? = some (pm'.invalid.getD pf.sindex (.u 0)) := by
            intro pf hp
            obtain ⟨k, hk, _⟩ := (fieldWF_facts pm' pf (hfw pf hp)).slot
            have hlt : pf.sindex < pm'.invalid.length := by rw [hinvlen]; exact (List.getElem?_eq_some_iff.mp hk).1
            simp only [List.getD_eq_getElem?_getD, List.getElem?_eq_getElem hlt, Option.getD_some]
          obtain ⟨msg', st', h1, h2, h3, h4, h5⟩ := stepFields_rebuildsG P (defOf arch m0.num fs) pm' m fs parts
            (fun pf => pm'.invalid.getD pf.sindex (.u 0)) (fun pf => padVal pf (m.vals.getD pf.sindex (.u 0)))
            (sortedS_pairwise fs hsortedS) hparts hrt' hgf
            ⟨m0.num, pm'.invalid⟩ st hvl.symm hinit
          refine ⟨st', ?_⟩
          have hm' : msg' = wireMsg pm' (m0 :: rest) m := by
            cases msg' with
            | mk num' vals' =>
              simp only at h2 h3 h4 h5
              have hw : wireMsg pm' (m0 :: rest) m = ⟨m.num, (wireMsg pm' (m0 :: rest) m).vals⟩ := rfl
              rw [hw]
              simp only [Msg.mk.injEq]
              refine ⟨by rw [h2, hmn], ?_⟩
              apply List.ext_getElem?
              intro i
              rw [wireMsg_getElem?]
              by_cases hin : ∃ pf ∈ fs, pf.sindex = i
              · obtain ⟨pf, hp, hpi⟩ := hin
                subst hpi
                rw [h4 pf hp]
                obtain ⟨k, hk, _⟩ := (fieldWF_facts pm' pf (hfw pf hp)).slot
                have hlt : pf.sindex < m.vals.length := by
                  rw [hvl, hinvlen]; exact (List.getElem?_eq_some_iff.mp hk).1
                have hv : m.vals[pf.sindex]? = some m.vals[pf.sindex] := List.getElem?_eq_getElem hlt
                rw [hv]
                simp only [Option.map_some]
                congr 1
                unfold wireVal
                rw [fieldBySindex_of_mem pm' hmw pf (hmem pf hp)]
                have hon : onIn pm' (m0 :: rest) pf = true := by
                  obtain ⟨mx, hmx, hvx⟩ := hvalid pf (hmemflat pf hp)
                  unfold onIn
                  rw [List.any_eq_true]
                  exact ⟨mx, hmx, by unfold validIn at hvx; rw [hvx]; rfl⟩
                simp only [hon, ↓reduceIte, getD_of_getElem? _ _ _ _ hv]
              · rw [h5 i hin]
                by_cases hil : i < m.vals.length
                · have hv : m.vals[i]? = some m.vals[i] := List.getElem?_eq_getElem hil
                  have hiv : isInvalidVal pm' i (m.vals.getD i (.u 0)) = true := by
                    cases hh : isInvalidVal pm' i (m.vals.getD i (.u 0)) with
                    | true => rfl
                    | false => exact absurd (hcover _ hm i hil hh) hin
                  rw [getD_of_getElem? _ _ _ _ hv] at hiv
                  show pm'.invalid[i]? = _
                  rw [(hd _ hm).inv i m.vals[i] hv hiv, hv]
                  simp only [Option.map_some]
                  congr 1
                  unfold wireVal
                  cases hf : fieldBySindex pm' i with
                  | none => rfl
                  | some pf =>
                    have hsi := fieldBySindex_sindex pm' i pf hf
                    have hon : onIn pm' (m0 :: rest) pf = false := by
                      cases hh : onIn pm' (m0 :: rest) pf with
                      | false => rfl
                      | true =>
                        exfalso
                        unfold onIn at hh
                        rw [List.any_eq_true] at hh
                        obtain ⟨mx, hmx, hvx⟩ := hh
                        have hmxl : mx.vals.length = pm'.invalid.length := by
                          by_cases hv' : mx.vals.length = pm'.invalid.length
                          · exact hv'
                          · exfalso
                            apply hcond
                            right
                            simp only [List.any_eq_true, decide_eq_true_eq]
                            exact ⟨mx, hmx, hv'⟩
                        have hix : i < mx.vals.length := by rw [hmxl, ← hvl]; exact hil
                        rw [hsi] at hvx
                        have hvx' : isInvalidVal pm' i (mx.vals.getD i (.u 0)) = false := by
                          cases h' : isInvalidVal pm' i (mx.vals.getD i (.u 0)) with
                          | false => rfl
                          | true => rw [h'] at hvx; cases hvx
                        exact hin (hcover mx hmx i hix hvx')
                    simp only [hon, Bool.false_eq_true, ↓reduceIte]
                · have h1' : m.vals[i]? = none := List.getElem?_eq_none (by omega)
                  have h2' : pm'.invalid[i]? = none := List.getElem?_eq_none (by omega)
                  show pm'.invalid[i]? = _
                  rw [h1', h2']; rfl
          rw [hm'] at h1
          exact h1

end Fit

namespace Fit

theorem msgs_concat (P : Profile) (l : List (Except EncErr Bytes × List Msg)) (hl : ∀ x ∈ l, IsMsgs P x.1 x.2)
    (body : Bytes) (h : concatE (l.map (·.1)) = .ok body) :
    ∃ blocks : List MB, body = serialize (blocks.flatMap fun b => blockItems b.d b.partss) ∧
      (∀ b ∈ blocks, MsgBlock P b.d b.partss b.ms) ∧ blocks.flatMap (·.ms) = l.flatMap (·.2) := by
  induction l generalizing body with
  | nil => simp only [List.map_nil, concatE] at h; cases h; exact ⟨[], rfl, (fun _ h => by cases h), rfl⟩
  | cons x xs ih =>
    obtain ⟨r, msgs⟩ := x
    cases r with
    | error e => simp [concatE] at h
    | ok b =>
      simp only [List.map_cons, concatE] at h
      cases hr : concatE (xs.map (·.1)) with
      | error e => rw [hr] at h; cases h
      | ok br =>
        rw [hr] at h
        cases h
        obtain ⟨b1, h1, g1, m1⟩ := hl (.ok b, msgs) (List.mem_cons_self ..) b rfl
        obtain ⟨b2, h2, g2, m2⟩ := ih (fun r hr' => hl r (List.mem_cons_of_mem _ hr')) br hr
        refine ⟨b1 ++ b2, ?_, ?_, ?_⟩
        · rw [List.flatMap_append, serialize_append, h1, h2]
        · intro bl hbl
          rcases List.mem_append.mp hbl with h | h
          · exact g1 bl h
          · exact g2 bl h
        · rw [List.flatMap_append, m1, m2]; rfl

/-- the messages `Encode` writes after file_id, in its order: file_creator, timestamp_correlation,
    then the container's fields in struct order (a slice contributes every message, a pointer field
    its message) -/
def encodedMsgs (c : Container) (f : FileSt) : List Msg :=
  f.creator.toList ++ (f.tscorr.toList ++
    (c.slots.zip f.slots).flatMap fun (cs, ms) => if cs.many then ms else ms.take 1)

/-- one slot's messages are of one known type and round-trip under the slot's union definition -/
def SlotDom (P : Profile) (arch : Endian) (ms : List Msg) : Prop :=
  ∀ m0 rest, ms = m0 :: rest → P.known m0.num = true ∧ (∀ m ∈ ms, m.num = m0.num) ∧
    ∀ pm, P.msg? m0.num = some pm → ∀ m ∈ ms, MsgDom P arch pm m (fun pf => ∃ m' ∈ ms, validIn pm m' pf)

/-- a single message round-trips under its own definition -/
def OneDom (P : Profile) (arch : Endian) (m : Msg) : Prop :=
  P.known m.num = true ∧ ∀ pm, P.msg? m.num = some pm → MsgDom P arch pm m (validIn pm m)

theorem MsgDom.mono {P : Profile} {arch : Endian} {pm : PMsg} {m : Msg} {W W' : PField → Prop}
    (h : MsgDom P arch pm m W) (hw : ∀ pf, W' pf → W pf) : MsgDom P arch pm m W' :=
  ⟨fun pf hp hwp => h.rt pf hp (hw pf hwp), fun pf hp hwp => h.filler pf hp (hw pf hwp), h.inv⟩

theorem SlotDom.head {P : Profile} {arch : Endian} {m : Msg} {rest : List Msg} (h : SlotDom P arch (m :: rest)) :
    OneDom P arch m := by
  obtain ⟨hk, _, hd⟩ := h m rest rfl
  exact ⟨hk, fun pm hpm => (hd pm hpm m (List.mem_cons_self ..)).mono fun pf hv => ⟨m, List.mem_cons_self .., hv⟩⟩

/-- the domain of the file-level round trip (C06): a 12- or 14-byte ".FIT" header, and every message
    round-trips field by field under the definition it is written with -/
structure FileRT (P : Profile) (arch : Endian) (f : FileSt) : Prop where
  hdrSize : f.hdr.size = headerSizeNoCRC ∨ f.hdr.size = headerSizeCRC
  tag : f.hdr.dtype = fitTag
  proto : f.hdr.proto < 256 ∧ f.hdr.proto / 16 ≤ protoMajorMax
  fidNum : f.fileId.num = mnFileId
  fid : OneDom P arch f.fileId
  creator : ∀ m, f.creator = some m → OneDom P arch m
  tscorr : ∀ m, f.tscorr = some m → OneDom P arch m
  slots : ∀ ms ∈ f.slots, SlotDom P arch ms

/-- what `finalize` leaves alone -/
def FileSt.sameContent (a b : FileSt) : Prop :=
  a.hdr = b.hdr ∧ a.crc = b.crc ∧ a.fileId = b.fileId ∧ a.creator = b.creator ∧ a.tscorr = b.tscorr ∧
  a.fieldDescs = b.fieldDescs ∧ a.devIds = b.devIds ∧ a.cidx = b.cidx ∧ a.slots = b.slots

theorem finalize_content (o : Opts) (out : Outcome) (F : FileSt) (h : out.st.file = some F) :
    ∃ F', (finalize o out).st.file = some F' ∧ F'.sameContent F ∧ (finalize o out).st.glob = out.st.glob := by
  unfold finalize
  split
  · exact ⟨F, h, ⟨rfl, rfl, rfl, rfl, rfl, rfl, rfl, rfl, rfl⟩, rfl⟩
  · dsimp only
    rw [h]
    refine ⟨_, rfl, ?_, rfl⟩
    cases o.unkFields <;> cases o.unkMsgs <;> exact ⟨rfl, rfl, rfl, rfl, rfl, rfl, rfl, rfl, rfl⟩

end Fit

namespace Fit

theorem isMsgs_oneDom (P : Profile) (hwf : ProfileWF P = true) (arch : Endian) (m : Msg) (h : OneDom P arch m) :
    IsMsgs P (encodeOne P arch m) [wire1 P m] := by
  obtain ⟨pm, hpm, _⟩ := known_hasCtor P hwf _ h.1
  have e : wire1 P m = wireMsg pm [m] m := by unfold wire1; rw [hpm]
  rw [e]
  exact isMsgs_one P hwf arch m pm hpm h.1 (h.2 pm hpm)

theorem isMsgs_opt (P : Profile) (hwf : ProfileWF P = true) (arch : Endian) (om : Option Msg)
    (h : ∀ m, om = some m → OneDom P arch m) :
    IsMsgs P (match (generalizing := false) om with | some m => encodeOne P arch m | none => .ok []) (om.map (wire1 P)).toList := by
  cases om with
  | none => exact isMsgs_nil P
  | some m => exact isMsgs_oneDom P hwf arch m (h m rfl)

theorem isMsgs_slot (P : Profile) (hwf : ProfileWF P = true) (arch : Endian) (many : Bool) (ms : List Msg)
    (h : SlotDom P arch ms) :
    IsMsgs P (if many then encodeGroup P arch ms
      else match (generalizing := false) ms with
        | m :: _ => encodeOne P arch m
        | [] => .ok []) (if many then wireSlot P many ms else (wireSlot P many ms).take 1) := by
  cases many with
  | true =>
    simp only [↓reduceIte]
    cases ms with
    | nil => simp only [encodeGroup, wireSlot]; exact isMsgs_nil P
    | cons m0 rest =>
      obtain ⟨hk, hnum, hd⟩ := h m0 rest rfl
      obtain ⟨pm, hpm, _⟩ := known_hasCtor P hwf _ hk
      have e : wireSlot P true (m0 :: rest) = (m0 :: rest).map (wireMsg pm (m0 :: rest)) := by
        simp only [wireSlot, ↓reduceIte, hpm]
      rw [e]
      exact isMsgs_group P hwf arch m0 rest pm hpm hk hnum (hd pm hpm)
  | false =>
    simp only [Bool.false_eq_true, ↓reduceIte]
    cases ms with
    | nil => simp only [wireSlot, List.take_nil]; exact isMsgs_nil P
    | cons m rest =>
      have e : (wireSlot P false (m :: rest)).take 1 = [wire1 P m] := by
        simp [wireSlot]
      rw [e]
      exact isMsgs_oneDom P hwf arch m h.head

end Fit

namespace Fit

/-- **`Decode ∘ Encode`, whole File.** On a well-formed profile, for every File in the round-trip
    domain that `Encode` accepts: decoding the bytes (followed by anything, through any reader)
    succeeds, and the File returned is the replay of `File.add` — from the freshly attached, empty
    container carrying the File's own file_id — over the File's messages in the encoder's order,
    each with the array fields its record carries padded to the profile length (`wireFile`). -/
theorem decode_encode_file (P : Profile) (hwf : ProfileWF P = true) (arch : Endian) (f f' : FileSt) (bs : Bytes)
    (h : encode P arch f = .ok bs f') (hdom : FileRT P arch f) (hsmall : bs.length < 4294967296)
    (o : Opts) (g : Globals) (tail : Bytes) (stop : Stop) :
    ∃ (i : Nat) (H : Header) (C : Nat) (F : FileSt) (G : Globals) (F' : FileSt),
      f.cidx = some i ∧
      addAll P ({ hdr := H, fileId := (wireFile P (P.containers.getD i default) f).fileId, cidx := some i,
                  slots := List.replicate (P.containers.getD i default).slots.length [] }, g)
        (encodedMsgs (P.containers.getD i default) (wireFile P (P.containers.getD i default) f)) = some (F, G) ∧
      (decodeSpec P o .full g (bs ++ tail) stop).1.success ∧
      (decodeSpec P o .full g (bs ++ tail) stop).1.st.glob = G ∧
      (decodeSpec P o .full g (bs ++ tail) stop).1.st.file = some F' ∧
      F'.sameContent { F with crc := C } ∧
      ((H.size = headerSizeNoCRC ∨ H.size = headerSizeCRC) ∧ H.dtype = fitTag ∧ H.proto = f.hdr.proto) := by
  -- unpack Encode
  unfold encode at h
  cases hia : P.initAns (fileTypeOf f) with
  | format => rw [hia] at h; cases h
  | notsupported => rw [hia] at h; cases h
  | container j =>
    rw [hia] at h
    simp only at h
    cases hci : f.cidx with
    | none => rw [hci] at h; cases h
    | some i =>
      rw [hci] at h
      simp only at h
      split at h
      · cases h
      · rename_i hij
        have hij' : i = j := by
          by_cases e : i = j
          · exact e
          · exact absurd e hij
        subst hij'
        cases hbody : encodeBody P arch f (P.containers.getD i default) with
        | error e =>
          rw [hbody] at h
          cases e <;> cases h
        | ok body =>
          rw [hbody] at h
          simp only at h
          injection h with h1 h2
          have hblen : body.length < 4294967296 := by
            rw [← h1] at hsmall
            simp only [finishEncode, List.length_append] at hsmall
            omega
          rw [← h1, finishEncode_frame f body hdom.hdrSize hdom.tag hblen]
          generalize kindOfSize f.hdr.size = k
          -- the record area as blocks with their messages
          unfold encodeBody at hbody
          simp only [List.cons_append, List.nil_append] at hbody
          cases hfid : encodeOne P arch f.fileId with
          | error e => rw [hfid] at hbody; simp [concatE] at hbody
          | ok b0 =>
            rw [hfid] at hbody
            simp only [concatE] at hbody
            generalize htl : concatE _ = tl at hbody
            cases tl with
            | error e => cases hbody
            | ok br =>
              cases hbody
              let c := P.containers.getD i default
              let l : List (Except EncErr Bytes × List Msg) :=
                ((match f.creator with | some m => encodeOne P arch m | none => Except.ok []), (f.creator.map (wire1 P)).toList) ::
                ((match f.tscorr with | some m => encodeOne P arch m | none => Except.ok []), (f.tscorr.map (wire1 P)).toList) ::
                (c.slots.zip f.slots).map (fun x =>
                  ((if x.1.many then encodeGroup P arch x.2
                    else match x.2 with
                      | m :: _ => encodeOne P arch m
                      | [] => .ok []), (if x.1.many then wireSlot P x.1.many x.2 else (wireSlot P x.1.many x.2).take 1)))
              have hl2 : l.flatMap (·.2) = encodedMsgs c (wireFile P c f) := by
                simp only [l, encodedMsgs, wireFile, List.flatMap_cons, List.flatMap_map, zip_map_zip]
              have hlm : ∀ x ∈ l, IsMsgs P x.1 x.2 := by
                intro x hx
                simp only [l, List.mem_cons, List.mem_map] at hx
                rcases hx with rfl | rfl | ⟨⟨cs, ms⟩, hmem, rfl⟩
                · exact isMsgs_opt P hwf arch f.creator hdom.creator
                · exact isMsgs_opt P hwf arch f.tscorr hdom.tscorr
                · exact isMsgs_slot P hwf arch cs.many ms (hdom.slots ms (zip_mem_right _ _ _ _ hmem))
              have htl' : concatE (l.map (·.1)) = .ok br := by
                simp only [l, List.map_cons, List.map_map, Function.comp_def]
                exact htl
              obtain ⟨blocks, hbr, hgb, hms⟩ := msgs_concat P l hlm br htl'
              rw [hl2] at hms
              -- the file_id block
              have hfidK : P.known mnFileId = true := by rw [← hdom.fidNum]; exact hdom.fid.1
              obtain ⟨pm0, hpm0, _⟩ := known_hasCtor P hwf _ hdom.fid.1
              have hd0 := hdom.fid.2 pm0 hpm0
              obtain ⟨fs, parts0, st1, st2, hb0, hgood0, hs1, hs2, hf2, hd2, hg2, _⟩ :=
                fileid_block_ok P hwf arch f.fileId b0 pm0 hpm0 hdom.fid.1 (wireMsg pm0 [f.fileId] f.fileId) hdom.fidNum
                  (message_roundtripG P hwf arch f.fileId b0 pm0 hpm0
                    (by have := hdom.fid.1; unfold Profile.known at this; rw [hpm0] at this; exact this) hfid
                    (fun pf hp k v hk hv hiv fs => hd0.rt pf hp (by unfold validIn; rw [getD_of_getElem? _ _ _ _ hv]; exact hiv) k v hk hv hiv fs)
                    hd0.inv)
                  (recState0 P k g f.hdr.proto f.hdr.profile (b0 ++ br).length)
                  { hdr := (afterHeader k g f.hdr.proto f.hdr.profile (b0 ++ br).length).hdr, fileId := zeroFileId P }
                  rfl rfl (by simp [recState0, afterHeader, DecSt.init])
              have hg2' : st2.glob = g := hg2
              -- the whole record area as items
              have hgb' : ∀ b ∈ blocks.map (fun b => (b.d, b.partss)), GoodBlock P b.1 b.2 := by
                intro b hb
                simp only [List.mem_map] at hb
                obtain ⟨x, hx, rfl⟩ := hb
                exact (hgb x hx).good
              have hflat : (blocks.flatMap fun b => blockItems b.d b.partss) =
                  (blocks.map (fun b => (b.d, b.partss))).flatMap fun b => blockItems b.1 b.2 := by
                rw [List.flatMap_map]
              have hitems : b0 ++ br = serialize (.defn (defOf arch f.fileId.num fs) false ::
                  .data (defOf arch f.fileId.num fs).localT parts0 [] :: blocks.flatMap fun b => blockItems b.d b.partss) := by
                have e : (Item.defn (defOf arch f.fileId.num fs) false ::
                    Item.data (defOf arch f.fileId.num fs).localT parts0 [] :: blocks.flatMap fun b => blockItems b.d b.partss) =
                    [.defn (defOf arch f.fileId.num fs) false, .data 0 parts0 []] ++
                      blocks.flatMap fun b => blockItems b.d b.partss := rfl
                rw [e, serialize_append, ← hb0, ← hbr]
              rw [hitems] at hs1 hf2 ⊢
              -- init attaches the container
              obtain ⟨H, hH⟩ : ∃ H : Header, H = (afterHeader k g f.hdr.proto f.hdr.profile (serialize
                    (.defn (defOf arch f.fileId.num fs) false :: .data (defOf arch f.fileId.num fs).localT parts0 [] ::
                      blocks.flatMap fun b => blockItems b.d b.partss)).length).hdr := ⟨_, rfl⟩
              obtain ⟨f3, hf3⟩ : ∃ f3 : FileSt, f3 = { hdr := H, fileId := wireMsg pm0 [f.fileId] f.fileId, cidx := some i, slots := List.replicate c.slots.length [] } := ⟨_, rfl⟩
              have hinit3 : FileSt.init P { ({ hdr := (afterHeader k g f.hdr.proto f.hdr.profile (serialize
                    (.defn (defOf arch f.fileId.num fs) false :: .data (defOf arch f.fileId.num fs).localT parts0 [] ::
                      blocks.flatMap fun b => blockItems b.d b.partss)).length).hdr, fileId := zeroFileId P } : FileSt)
                    with fileId := wireMsg pm0 [f.fileId] f.fileId } = .ok f3 := by
                unfold FileSt.init
                have : fileTypeOf { ({ hdr := (afterHeader k g f.hdr.proto f.hdr.profile (serialize
                    (.defn (defOf arch f.fileId.num fs) false :: .data (defOf arch f.fileId.num fs).localT parts0 [] ::
                      blocks.flatMap fun b => blockItems b.d b.partss)).length).hdr, fileId := zeroFileId P } : FileSt)
                    with fileId := wireMsg pm0 [f.fileId] f.fileId } = fileTypeOf f := by
                  rw [fileTypeOf_wire]; rfl
                rw [this, hia, hf3, hH]
              obtain ⟨st', fg', hst', hadd, hI'⟩ := stepItems_msgblocks P hwf blocks hgb { st2 with file := some f3 } f3 g
                ⟨rfl, hg2', by rw [hf3]; rfl, hd2⟩
              rw [hms] at hadd
              have hrun : runItems P (afterHeader k g f.hdr.proto f.hdr.profile (serialize
                  (.defn (defOf arch f.fileId.num fs) false :: .data (defOf arch f.fileId.num fs).localT parts0 [] ::
                    blocks.flatMap fun b => blockItems b.d b.partss)).length).hdr g
                  (.defn (defOf arch f.fileId.num fs) false :: .data (defOf arch f.fileId.num fs).localT parts0 [] ::
                    blocks.flatMap fun b => blockItems b.d b.partss)
                  (afterHeader k g f.hdr.proto f.hdr.profile (serialize
                  (.defn (defOf arch f.fileId.num fs) false :: .data (defOf arch f.fileId.num fs).localT parts0 [] ::
                    blocks.flatMap fun b => blockItems b.d b.partss)).length).crc = .ok st' := by
                unfold runItems
                simp only
                have e0 : ({ DecSt.init g with
                    hdr := (afterHeader k g f.hdr.proto f.hdr.profile (serialize
                      (.defn (defOf arch f.fileId.num fs) false :: .data (defOf arch f.fileId.num fs).localT parts0 [] ::
                        blocks.flatMap fun b => blockItems b.d b.partss)).length).hdr,
                    crc := (afterHeader k g f.hdr.proto f.hdr.profile (serialize
                      (.defn (defOf arch f.fileId.num fs) false :: .data (defOf arch f.fileId.num fs).localT parts0 [] ::
                        blocks.flatMap fun b => blockItems b.d b.partss)).length).crc,
                    file := some { hdr := (afterHeader k g f.hdr.proto f.hdr.profile (serialize
                      (.defn (defOf arch f.fileId.num fs) false :: .data (defOf arch f.fileId.num fs).localT parts0 [] ::
                        blocks.flatMap fun b => blockItems b.d b.partss)).length).hdr, fileId := zeroFileId P },
                    unkInit := true } : DecSt) = recState0 P k g f.hdr.proto f.hdr.profile (serialize
                      (.defn (defOf arch f.fileId.num fs) false :: .data (defOf arch f.fileId.num fs).localT parts0 [] ::
                        blocks.flatMap fun b => blockItems b.d b.partss)).length := rfl
                rw [e0, hs1]
                simp only
                have hs2' : stepItem P st1 (.data (defOf arch f.fileId.num fs).localT parts0 []) = .ok st2 := hs2
                rw [hs2']
                simp only [hf2, hinit3]
                exact hst'
              have hfitD : ItemsFitD P (List.replicate 16 none)
                  (.defn (defOf arch f.fileId.num fs) false :: .data (defOf arch f.fileId.num fs).localT parts0 [] ::
                    blocks.flatMap fun b => blockItems b.d b.partss) := by
                have e : (Item.defn (defOf arch f.fileId.num fs) false ::
                    Item.data (defOf arch f.fileId.num fs).localT parts0 [] :: blocks.flatMap fun b => blockItems b.d b.partss) =
                    blockItems (defOf arch f.fileId.num fs) [parts0] ++
                      blocks.flatMap fun b => blockItems b.d b.partss := rfl
                rw [e, ItemsFitD_append]
                refine ⟨block_fitsD P _ _ [parts0] (by simp) hgood0.localT hgood0.dev hgood0.wf hgood0.acc hgood0.fit, ?_⟩
                rw [hflat]
                exact goodblocks_fitD P _ hgb' _ (by rw [defsAfterAll_length]; simp)
              have hlen' : (serialize (.defn (defOf arch f.fileId.num fs) false ::
                  .data (defOf arch f.fileId.num fs).localT parts0 [] ::
                    blocks.flatMap fun b => blockItems b.d b.partss)).length < 4294967296 := by
                rw [← hitems]; exact hblen
              have hg' : (defOf arch f.fileId.num fs).global = mnFileId := hdom.fidNum
              generalize hrest : (blocks.flatMap fun b => blockItems b.d b.partss) = restItems at *
              generalize hd0' : defOf arch f.fileId.num fs = d0 at *
              have key := decode_frame_ok P o k g f.hdr.proto f.hdr.profile d0 false parts0 []
                restItems tail stop st' hdom.proto.1 hdom.proto.2 hgood0.wf hg' hfidK hlen' hfitD hrun
              rw [key]
              obtain ⟨hfile', hglob', hcx', _⟩ := hI'
              generalize (Crc.checksum (frameHdr k f.hdr.proto f.hdr.profile
                    (serialize (.defn d0 false :: .data d0.localT parts0 [] :: restItems)).length ++
                    serialize (.defn d0 false :: .data d0.localT parts0 [] :: restItems))).toNat = C
              obtain ⟨F', hF', hsame, hgl⟩ := finalize_content o (okOut { st' with crc := 0#16, file := st'.file.map fun x => { x with crc := C } }) { fg'.1 with crc := C } (by simp only [okOut, hfile', Option.map_some])
              refine ⟨i, H, C, fg'.1, fg'.2, F', rfl, ?_, finalize_okOut_success o _, ?_, hF', hsame,
                ⟨by rw [hH]; exact k.size_cases, by rw [hH]; rfl, by rw [hH]; rfl⟩⟩
              · rw [hf3] at hadd
                have e : (wireFile P (P.containers.getD i default) f).fileId = wireMsg pm0 [f.fileId] f.fileId := by
                  show wire1 P f.fileId = _
                  unfold wire1; rw [hpm0]
                rw [e]; exact hadd
              · rw [hgl]; exact hglob'

end Fit
