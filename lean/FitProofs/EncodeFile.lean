import FitProofs.EncodeItems
import FitProofs.MsgRoundtrip
import FitProofs.HdrKind
/-
  C05 at file level: the record area `Encode` writes is the serialisation of items that fit.
-/
namespace Fit

/-- the definition table after a list of items -/
def defsAfterAll (P : Profile) : List (Option DefMsg) → List Item → List (Option DefMsg)
  | defs, [] => defs
  | defs, it :: its => defsAfterAll P (defsAfter P defs it) its

theorem ItemsFitD_append (P : Profile) (defs : List (Option DefMsg)) (a b : List Item) :
    ItemsFitD P defs (a ++ b) ↔ ItemsFitD P defs a ∧ ItemsFitD P (defsAfterAll P defs a) b := by
  induction a generalizing defs with
  | nil => simp [ItemsFitD, defsAfterAll]
  | cons it its ih =>
    simp only [List.cons_append, ItemsFitD, defsAfterAll, ih, and_assoc]

theorem defsAfter_length (P : Profile) (defs : List (Option DefMsg)) (it : Item) :
    (defsAfter P defs it).length = defs.length := by
  cases it with
  | defn d b =>
    simp only [defsAfter]
    split
    · rfl
    · exact length_setAt _ _ _
  | data _ _ _ => rfl
  | cdata _ _ _ _ => rfl

theorem defsAfterAll_length (P : Profile) (defs : List (Option DefMsg)) (its : List Item) :
    (defsAfterAll P defs its).length = defs.length := by
  induction its generalizing defs with
  | nil => rfl
  | cons it its ih => simp only [defsAfterAll]; rw [ih, defsAfter_length]

/-- **`Decode` accepts the definitions `Encode` writes**: for a lookup entry of a well-formed
    profile, the field definition the encoder emits passes `validateFieldDef` -/
theorem validate_fdOf (P : Profile) (g : Nat) (pm : PMsg) (pf : PField) (facts : FieldFacts pm pf)
    (hgf : P.known g = true → P.getField g pf.num = some pf) :
    validateFieldDef P g (fdOf pf) = true := by
  have hkn : Base.known (tcBase pf.tcode) = true := facts.known
  have hsz : Base.size (tcBase pf.tcode) ≤ 4 := facts.small
  have hsz1 := known_size_pos _ facts.known
  have hlook : (if P.known g = true then P.getField g pf.num else none) = none ∨
      (if P.known g = true then P.getField g pf.num else none) = some pf := by
    by_cases hk : P.known g = true
    · right; simp only [hk, ↓reduceIte, hgf hk]
    · left; simp [hk]
  simp only [validateFieldDef, fdOf, hkn, Bool.not_true, Bool.false_eq_true, ↓reduceIte]
  by_cases hstr : tcBase pf.tcode = Base.string
  · simp only [hstr, ↓reduceIte]
    rcases hlook with h | h <;> simp [h, hstr]
  · simp only [hstr, ↓reduceIte]
    by_cases ha : tcArray pf.tcode = true
    · have hB := facts.lenB (Or.inl ha)
      have hl1 := facts.len1
      have hszof : szOf pf = Base.size (tcBase pf.tcode) * pf.length := by
        unfold szOf
        simp only [hstr, ↓reduceIte, ha]
        rw [Nat.mod_eq_of_lt (by omega), Nat.mod_eq_of_lt (by omega)]
      have hge : ¬ Base.size (tcBase pf.tcode) * pf.length < Base.size (tcBase pf.tcode) := by
        have : Base.size (tcBase pf.tcode) * 1 ≤ Base.size (tcBase pf.tcode) * pf.length :=
          Nat.mul_le_mul_left _ hl1
        omega
      simp only [hszof, hge, ↓reduceIte]
      rcases hlook with h | h <;> simp [h, ha]
    · have ha' : tcArray pf.tcode = false := by simpa using ha
      have hszof : szOf pf = Base.size (tcBase pf.tcode) := by
        unfold szOf
        simp only [hstr, ↓reduceIte, ha', Bool.false_eq_true]
        rw [Nat.mod_eq_of_lt (by omega)]
      simp only [hszof, Nat.lt_irrefl, ↓reduceIte]
      rcases hlook with h | h <;> simp [h, ha']

/-- a definition at local type 0 followed by data records of local type 0 that fit it: fine from
    any definition table -/
theorem block_fitsD (P : Profile) (defs : List (Option DefMsg)) (d : DefMsg) (partss : List (List Bytes))
    (hdefs : 0 < defs.length) (hl : d.localT = 0) (hdev : d.dev = []) (hwf : DefnWF d false)
    (hacc : ¬ (d.global = mesgNumInvalid ∨ (!(d.fields.all (validateFieldDef P d.global))) = true))
    (hfit : ∀ parts ∈ partss, FieldsFit d.fields parts) :
    ItemsFitD P defs (.defn d false :: partss.map fun parts => Item.data 0 parts []) := by
  refine ⟨hwf, ?_⟩
  · simp only [defsAfter, hacc, ↓reduceIte, Bool.false_eq_true]
    have hd0 : (setAt defs d.localT (some { d with dev := [] })).getD 0 none = some d := by
      rw [hl, getD_setAt_same _ _ _ _ hdefs]
      congr 1
      cases d; simp_all
    generalize setAt defs d.localT (some { d with dev := [] }) = defs' at hd0
    induction partss with
    | nil => trivial
    | cons parts rest ih =>
      simp only [List.map_cons]
      refine ⟨⟨by omega, ?_⟩, ?_⟩
      · intro dm hdm
        rw [hd0] at hdm
        cases hdm
        rw [hdev]
        exact ⟨hfit parts (List.mem_cons_self ..), trivial⟩
      · simp only [defsAfter]
        exact ih (fun p hp => hfit p (List.mem_cons_of_mem _ hp))

end Fit

namespace Fit

/-! ### the shared definition of a group has fewer than 256 fields -/

/-- strictly increasing struct indices -/
def SortedS : List PField → Prop
  | [] => True
  | [_] => True
  | x :: y :: rest => x.sindex < y.sindex ∧ SortedS (y :: rest)

theorem SortedS.tail {x : PField} {l : List PField} (h : SortedS (x :: l)) : SortedS l := by
  cases l with
  | nil => trivial
  | cons y ys => exact h.2

theorem sorted_length_le (l : List PField) (h : SortedS l) (lo n : Nat) (hlo : ∀ x ∈ l, lo ≤ x.sindex)
    (hn : ∀ x ∈ l, x.sindex < n) : lo + l.length ≤ n ∨ l = [] := by
  induction l generalizing lo with
  | nil => exact Or.inr rfl
  | cons x xs ih =>
    left
    cases xs with
    | nil =>
      have := hn x (List.mem_cons_self ..)
      have := hlo x (List.mem_cons_self ..)
      simp only [List.length_cons, List.length_nil]; omega
    | cons y ys =>
      have hxy := h.1
      have hx := hlo x (List.mem_cons_self ..)
      have h2 : ∀ z ∈ y :: ys, x.sindex + 1 ≤ z.sindex := by
        intro z hz
        -- every later element is at least y, which is above x
        have : ∀ (l : List PField) (a : PField), SortedS (a :: l) → ∀ z ∈ a :: l, a.sindex ≤ z.sindex := by
          intro l
          induction l with
          | nil => intro a _ z hz; cases hz with
            | head => exact Nat.le_refl _
            | tail _ h => cases h
          | cons b bs ihb =>
            intro a hs z hz
            cases hz with
            | head => exact Nat.le_refl _
            | tail _ hz' =>
              have := ihb b hs.2 z hz'
              have := hs.1
              omega
        have := this ys y h.2 z hz
        omega
      rcases ih h.2 (x.sindex + 1) h2 (fun z hz => hn z (List.mem_cons_of_mem _ hz)) with h3 | h3
      · simp only [List.length_cons] at h3 ⊢; omega
      · cases h3

/-- field identity inside one message: same number ⇔ same struct index -/
def FieldsInj (l : List PField) : Prop :=
  ∀ a ∈ l, ∀ b ∈ l, (a.num = b.num ↔ a.sindex = b.sindex)

theorem insertField_sorted (pf : PField) (l : List PField) (all : List PField) (hinj : FieldsInj all)
    (hpf : pf ∈ all) (hl : ∀ x ∈ l, x ∈ all) (hs : SortedS l) :
    SortedS (insertField pf l) ∧ (∀ x ∈ l, ∃ y, y ∈ insertField pf l ∧ y = x) ∧
    (∀ lo, (∀ x ∈ l, lo ≤ x.sindex) → lo ≤ pf.sindex → ∀ x ∈ insertField pf l, lo ≤ x.sindex) := by
  induction l with
  | nil =>
    refine ⟨trivial, (fun x hx => by cases hx), ?_⟩
    intro lo _ hp x hx
    simp only [insertField, List.mem_singleton] at hx
    subst hx
    exact hp
  | cons x xs ih =>
    have hx := hl x (List.mem_cons_self ..)
    unfold insertField
    split
    · exact ⟨hs, fun z hz => ⟨z, hz, rfl⟩, fun lo h _ z hz => h z hz⟩
    · rename_i hne
      split
      · rename_i hlt
        refine ⟨⟨hlt, hs⟩, fun z hz => ⟨z, List.mem_cons_of_mem _ hz, rfl⟩, ?_⟩
        intro lo h hp z hz
        cases hz with
        | head => exact hp
        | tail _ hz' => exact h z hz'
      · rename_i hnlt
        -- x.sindex < pf.sindex strictly (different fields)
        have hsne : x.sindex ≠ pf.sindex := fun e => hne ((hinj x hx pf hpf).mpr e)
        have hxlt : x.sindex < pf.sindex := by omega
        obtain ⟨i1, i2, i3⟩ := ih (fun z hz => hl z (List.mem_cons_of_mem _ hz)) hs.tail
        refine ⟨?_, ?_, ?_⟩
        · -- x in front of a sorted list all of whose elements are above x
          have hab : ∀ z ∈ insertField pf xs, x.sindex + 1 ≤ z.sindex := by
            apply i3 (x.sindex + 1)
            · intro z hz
              cases xs with
              | nil => cases hz
              | cons y ys =>
                have : ∀ (l : List PField) (a : PField), SortedS (a :: l) → ∀ z ∈ a :: l, a.sindex ≤ z.sindex := by
                  intro l
                  induction l with
                  | nil => intro a _ z hz; cases hz with
                    | head => exact Nat.le_refl _
                    | tail _ h => cases h
                  | cons b bs ihb =>
                    intro a hs z hz
                    cases hz with
                    | head => exact Nat.le_refl _
                    | tail _ hz' =>
                      have := ihb b hs.2 z hz'
                      have := hs.1
                      omega
                have := this ys y hs.2 z hz
                have := hs.1
                omega
            · omega
          cases hins : insertField pf xs with
          | nil => trivial
          | cons y ys =>
            rw [hins] at i1 hab
            exact ⟨by have := hab y (List.mem_cons_self ..); omega, i1⟩
        · intro z hz
          cases hz with
          | head => exact ⟨x, List.mem_cons_self .., rfl⟩
          | tail _ hz' =>
            obtain ⟨y, hy, e⟩ := i2 z hz'
            exact ⟨y, List.mem_cons_of_mem _ hy, e⟩
        · intro lo h hp z hz
          cases hz with
          | head => exact h x (List.mem_cons_self ..)
          | tail _ hz' => exact i3 lo (fun w hw => h w (List.mem_cons_of_mem _ hw)) hp z hz'

end Fit

namespace Fit

theorem allDistinct_inj (l : List PField) (f : PField → Nat) (h : allDistinct (l.map f) = true)
    (a b : PField) (ha : a ∈ l) (hb : b ∈ l) (he : f a = f b) : a = b := by
  induction l with
  | nil => cases ha
  | cons x xs ih =>
    simp only [List.map_cons, allDistinct, Bool.and_eq_true, Bool.not_eq_true'] at h
    obtain ⟨hx, hrest⟩ := h
    have hnot : ∀ y ∈ xs, f y ≠ f x := by
      intro y hy e
      have : (xs.map f).contains (f x) = true := by
        simp only [List.contains_eq_mem, List.mem_map, decide_eq_true_eq]
        exact ⟨y, hy, e⟩
      rw [this] at hx; cases hx
    cases ha with
    | head =>
      cases hb with
      | head => rfl
      | tail _ hb' => exact absurd he.symm (hnot b hb')
    | tail _ ha' =>
      cases hb with
      | head => exact absurd he (hnot a ha')
      | tail _ hb' => exact ih hrest ha' hb'

theorem msgWF_inj (pm : PMsg) (h : msgWF pm = true) : FieldsInj pm.fields := by
  unfold msgWF at h
  simp only [Bool.and_eq_true, decide_eq_true_eq, Bool.or_eq_true, Bool.not_eq_true', List.all_eq_true] at h
  obtain ⟨⟨⟨⟨_, hdn⟩, hds⟩, _⟩, _⟩ := h
  intro a ha b hb
  constructor
  · intro e
    rw [allDistinct_inj pm.fields (·.num) hdn a b ha hb e]
  · intro e
    rw [allDistinct_inj pm.fields (·.sindex) hds a b ha hb e]

theorem foldl_insertField_sorted (all : List PField) (hinj : FieldsInj all) (xs acc : List PField)
    (hxs : ∀ x ∈ xs, x ∈ all) (hacc : ∀ x ∈ acc, x ∈ all) (hs : SortedS acc) :
    SortedS (xs.foldl (fun acc pf => insertField pf acc) acc) := by
  induction xs generalizing acc with
  | nil => exact hs
  | cons x xs ih =>
    simp only [List.foldl_cons]
    apply ih _ (fun y hy => hxs y (List.mem_cons_of_mem _ hy))
    · intro y hy
      rcases insertField_mem x acc y hy with h | h
      · rw [h]; exact hxs x (List.mem_cons_self ..)
      · exact hacc y h
    · exact (insertField_sorted x acc all hinj (hxs x (List.mem_cons_self ..)) hacc hs).1

/-- the union definition of a group has at most as many fields as the message struct -/
theorem group_def_small (pm : PMsg) (hmw : msgWF pm = true) (xs : List PField) (hxs : ∀ x ∈ xs, x ∈ pm.fields) :
    (xs.foldl (fun acc pf => insertField pf acc) []).length < 256 := by
  have hs := foldl_insertField_sorted pm.fields (msgWF_inj pm hmw) xs [] hxs (fun x h => by cases h) trivial
  obtain ⟨_, hlay, _, hall⟩ := msgWF_bounds pm hmw
  have hmem : ∀ x ∈ xs.foldl (fun acc pf => insertField pf acc) [], x ∈ pm.fields := by
    intro x hx
    rcases foldl_insertField_mem _ _ _ hx with h | h
    · exact hxs x h
    · cases h
  have hlt : ∀ x ∈ xs.foldl (fun acc pf => insertField pf acc) [], x.sindex < pm.layout.length := by
    intro x hx
    have facts := fieldWF_facts pm x (hall x (hmem x hx))
    obtain ⟨k, hk, _⟩ := facts.slot
    exact (List.getElem?_eq_some_iff.mp hk).1
  rcases sorted_length_le _ hs 0 pm.layout.length (fun _ _ => Nat.zero_le _) hlt with h | h
  · omega
  · rw [h]; simp

end Fit

namespace Fit

theorem getField_of_mem (P : Profile) (g : Nat) (pm : PMsg) (hpm : P.msg? g = some pm) (hmw : msgWF pm = true)
    (pf : PField) (hmem : pf ∈ pm.fields) : P.known g = true → P.getField g pf.num = some pf := by
  intro hk
  obtain ⟨hdist, hinf⟩ := msgWF_distinct pm hmw
  have hkn : pm.known = true := by
    unfold Profile.known at hk; rw [hpm] at hk; exact hk
  unfold Profile.getField
  rw [hpm]
  simp only [hinf hkn, ↓reduceIte]
  exact find?_distinct pm.fields pf hdist hmem

/-- the definition the encoder writes for fields of a message is accepted by the decoder -/
theorem defOf_accepted (P : Profile) (hwf : ProfileWF P = true) (arch : Endian) (g : Nat) (pm : PMsg)
    (hpm : P.msg? g = some pm) (fs : List PField) (hmem : ∀ pf ∈ fs, pf ∈ pm.fields) :
    ¬ ((defOf arch g fs).global = mesgNumInvalid ∨
      (!((defOf arch g fs).fields.all (validateFieldDef P (defOf arch g fs).global))) = true) := by
  have hmw := msg?_wf P hwf g pm hpm
  obtain ⟨hnum, _, _, hall⟩ := msgWF_bounds pm hmw
  have hg : pm.num = g := msg?_num P g pm hpm
  intro h
  rcases h with h | h
  · simp only [defOf, mesgNumInvalid] at h; omega
  · simp only [defOf, Bool.not_eq_true', List.all_eq_false, List.mem_map] at h
    obtain ⟨fd, ⟨pf, hpf, rfl⟩, hv⟩ := h
    have facts := fieldWF_facts pm pf (hall pf (hmem pf hpf))
    have := validate_fdOf P g pm pf facts (getField_of_mem P g pm hpm hmw pf (hmem pf hpf))
    rw [this] at hv
    exact absurd rfl hv

/-- **one message, state-independent form** -/
theorem encodeOne_fitsD (P : Profile) (hwf : ProfileWF P = true) (arch : Endian) (m : Msg) (bs : Bytes)
    (h : encodeOne P arch m = .ok bs) :
    ∃ (d : DefMsg) (parts : List Bytes), d.global = m.num ∧ d.localT = 0 ∧
      bs = serialize [.defn d false, .data 0 parts []] ∧
      ∀ defs : List (Option DefMsg), 0 < defs.length → ItemsFitD P defs [.defn d false, .data 0 parts []] := by
  obtain ⟨fs, parts, hbs, hfit, hd, pm, hpm, hmem⟩ := encodeOne_items P hwf arch m bs h
  refine ⟨defOf arch m.num fs, parts, rfl, rfl, hbs, ?_⟩
  intro defs hdefs
  have := block_fitsD P defs (defOf arch m.num fs) [parts] hdefs rfl rfl hd
    (defOf_accepted P hwf arch m.num pm hpm fs hmem) (fun p hp => by
      simp only [List.mem_singleton] at hp; subst hp; exact hfit)
  simpa using this

end Fit

namespace Fit

/-- **a message group, state-independent form, without side conditions** -/
theorem encodeGroup_fitsD (P : Profile) (hwf : ProfileWF P = true) (arch : Endian) (ms : List Msg)
    (bs : Bytes) (hne : ms ≠ []) (h : encodeGroup P arch ms = .ok bs) :
    ∃ (d : DefMsg) (partss : List (List Bytes)),
      bs = serialize (.defn d false :: partss.map fun parts => Item.data 0 parts []) ∧
      partss.length = ms.length ∧
      ∀ defs : List (Option DefMsg), 0 < defs.length →
        ItemsFitD P defs (.defn d false :: partss.map fun parts => Item.data 0 parts []) := by
  unfold encodeGroup at h
  cases ms with
  | nil => exact absurd rfl hne
  | cons m0 rest =>
    simp only at h
    cases hpm : P.msg? m0.num with
    | none => rw [hpm] at h; cases h
    | some pm =>
      rw [hpm] at h
      simp only at h
      split at h
      · cases h
      · cases hdefs : (m0 :: rest).mapM (encodeMesgDef pm) with
        | none => rw [hdefs] at h; cases h
        | some defsl =>
          rw [hdefs] at h
          simp only at h
          have hmw := msg?_wf P hwf m0.num pm hpm
          have hflat : ∀ pf ∈ defsl.flatten, pf ∈ pm.fields := by
            intro pf h1
            rw [List.mem_flatten] at h1
            obtain ⟨l, hl, hpl⟩ := h1
            obtain ⟨mx, _, hmx⟩ := mapM_some_all _ _ _ hdefs l hl
            exact (encodeMesgDef_mem pm mx l hmx).1 pf hpl
          have hsmall := group_def_small pm hmw defsl.flatten hflat
          generalize hfs : defsl.flatten.foldl (fun acc pf => insertField pf acc) [] = fs at h hsmall
          cases hc : concatE ((m0 :: rest).map fun m => mesgBytes arch pm m fs) with
          | error e => rw [hc] at h; cases h
          | ok b =>
            rw [hc] at h
            injection h with h
            subst h
            obtain ⟨hnum, hlay, hinv, hall⟩ := msgWF_bounds pm hmw
            have hmem : ∀ pf ∈ fs, pf ∈ pm.fields := by
              intro pf hp
              rw [← hfs] at hp
              rcases foldl_insertField_mem _ _ _ hp with h1 | h1
              · exact hflat pf h1
              · cases h1
            have hfw : ∀ pf ∈ fs, fieldWF pm pf = true := fun pf hp => hall pf (hmem pf hp)
            obtain ⟨partss, hlen, hb, hfit⟩ := group_datas arch pm fs (m0 :: rest) b hfw hc
            refine ⟨defOf arch m0.num fs, partss, ?_, hlen, ?_⟩
            · rw [defBytes_eq, hb]
              simp [serialize]
            · intro defs hdl
              apply block_fitsD P defs _ partss hdl rfl rfl ?_ (defOf_accepted P hwf arch m0.num pm hpm fs hmem) hfit
              refine ⟨by show (0 : Nat) < 16; omega, ?_, ?_, ?_, (fun h => by cases h), (fun h => by cases h)⟩
              · show m0.num < 65536
                rw [← msg?_num P m0.num pm hpm]; omega
              · show (fs.map fdOf).length < 256
                rw [List.length_map]; exact hsmall
              · intro f hf
                simp only [defOf, List.mem_map] at hf
                obtain ⟨pf, hpf, rfl⟩ := hf
                have facts := fieldWF_facts pm pf (hfw pf hpf)
                exact ⟨by have := facts.num; show pf.num < 256; omega, szOf_lt pf, tcBase_lt _⟩

end Fit

namespace Fit

/-- an encoder result that, when it succeeds, is a self-contained block of items -/
def IsBlock (P : Profile) (r : Except EncErr Bytes) : Prop :=
  ∀ bs, r = .ok bs → ∃ items, bs = serialize items ∧
    ∀ defs : List (Option DefMsg), 0 < defs.length → ItemsFitD P defs items

theorem serialize_append (a b : List Item) : serialize (a ++ b) = serialize a ++ serialize b := by
  simp [serialize]

theorem blocks_concat (P : Profile) (l : List (Except EncErr Bytes)) (hl : ∀ r ∈ l, IsBlock P r) (body : Bytes)
    (h : concatE l = .ok body) :
    ∃ items, body = serialize items ∧ ∀ defs : List (Option DefMsg), 0 < defs.length → ItemsFitD P defs items := by
  induction l generalizing body with
  | nil => simp only [concatE] at h; cases h; exact ⟨[], rfl, fun _ _ => trivial⟩
  | cons r rs ih =>
    cases r with
    | error e => simp [concatE] at h
    | ok b =>
      simp only [concatE] at h
      cases hr : concatE rs with
      | error e => rw [hr] at h; cases h
      | ok br =>
        rw [hr] at h
        cases h
        obtain ⟨i1, h1, f1⟩ := hl (.ok b) (List.mem_cons_self ..) b rfl
        obtain ⟨i2, h2, f2⟩ := ih (fun r hr' => hl r (List.mem_cons_of_mem _ hr')) br hr
        refine ⟨i1 ++ i2, by rw [serialize_append, h1, h2], ?_⟩
        intro defs hd
        rw [ItemsFitD_append]
        exact ⟨f1 defs hd, f2 _ (by rw [defsAfterAll_length]; exact hd)⟩

theorem isBlock_nil (P : Profile) : IsBlock P (.ok []) := by
  intro bs h; cases h; exact ⟨[], rfl, fun _ _ => trivial⟩

theorem isBlock_one (P : Profile) (hwf : ProfileWF P = true) (arch : Endian) (m : Msg) : IsBlock P (encodeOne P arch m) := by
  intro bs h
  obtain ⟨d, parts, _, _, hbs, hfit⟩ := encodeOne_fitsD P hwf arch m bs h
  exact ⟨_, hbs, hfit⟩

theorem isBlock_group (P : Profile) (hwf : ProfileWF P = true) (arch : Endian) (ms : List Msg) :
    IsBlock P (encodeGroup P arch ms) := by
  intro bs h
  cases ms with
  | nil => simp only [encodeGroup] at h; cases h; exact ⟨[], rfl, fun _ _ => trivial⟩
  | cons m0 rest =>
    obtain ⟨d, partss, hbs, _, hfit⟩ := encodeGroup_fitsD P hwf arch (m0 :: rest) bs (by simp) h
    exact ⟨_, hbs, hfit⟩

/-- **The record area `Encode` writes is self-describing**: it is the serialisation of a list of
    items in which every data record fits the definition live for its local type, whatever the
    decoder's definition table held before; and it starts with the file_id definition and its data
    record. -/
theorem encodeBody_items (P : Profile) (hwf : ProfileWF P = true) (arch : Endian) (f : FileSt) (c : Container)
    (body : Bytes) (h : encodeBody P arch f c = .ok body) :
    ∃ (d0 : DefMsg) (parts0 : List Bytes) (rest : List Item),
      d0.global = f.fileId.num ∧ d0.localT = 0 ∧
      body = serialize (.defn d0 false :: .data 0 parts0 [] :: rest) ∧
      ∀ defs : List (Option DefMsg), 0 < defs.length →
        ItemsFitD P defs (.defn d0 false :: .data 0 parts0 [] :: rest) := by
  unfold encodeBody at h
  simp only [List.cons_append, List.nil_append] at h
  -- head: the file_id block
  cases hfid : encodeOne P arch f.fileId with
  | error e => rw [hfid] at h; simp [concatE] at h
  | ok b0 =>
    rw [hfid] at h
    simp only [concatE] at h
    generalize htl : concatE _ = tl at h
    cases tl with
    | error e => cases h
    | ok br =>
      cases h
      obtain ⟨d0, parts0, hg, hl0, hb0, hf0⟩ := encodeOne_fitsD P hwf arch f.fileId b0 hfid
      have hblocks : ∀ r ∈ ((match f.creator with | some m => encodeOne P arch m | none => Except.ok []) ::
          (match f.tscorr with | some m => encodeOne P arch m | none => Except.ok []) ::
          (c.slots.zip f.slots).map (fun (cs, ms) =>
            if cs.many then encodeGroup P arch ms
            else match ms with
              | m :: _ => encodeOne P arch m
              | [] => .ok [])), IsBlock P r := by
        intro r hr
        simp only [List.mem_cons, List.mem_map] at hr
        rcases hr with rfl | rfl | ⟨⟨cs, ms⟩, _, rfl⟩
        · cases f.creator with
          | none => exact isBlock_nil P
          | some m => exact isBlock_one P hwf arch m
        · cases f.tscorr with
          | none => exact isBlock_nil P
          | some m => exact isBlock_one P hwf arch m
        · simp only
          split
          · exact isBlock_group P hwf arch ms
          · cases ms with
            | nil => exact isBlock_nil P
            | cons m _ => exact isBlock_one P hwf arch m
      obtain ⟨irest, hbr, hfr⟩ := blocks_concat P _ hblocks br htl
      refine ⟨d0, parts0, irest, hg, hl0, ?_, ?_⟩
      · rw [hb0, hbr]
        have : (Item.defn d0 false :: Item.data 0 parts0 [] :: irest) = [.defn d0 false, .data 0 parts0 []] ++ irest := rfl
        rw [this, serialize_append]
      · intro defs hd
        have : (Item.defn d0 false :: Item.data 0 parts0 [] :: irest) = [.defn d0 false, .data 0 parts0 []] ++ irest := rfl
        rw [this, ItemsFitD_append]
        exact ⟨hf0 defs hd, hfr _ (by rw [defsAfterAll_length]; exact hd)⟩

end Fit

namespace Fit
open Fit.Crc

theorem lo_toNat' (c : BitVec 16) : (lo c).toNat = c.toNat % 256 := by
  simp [lo, UInt8.toNat, BitVec.toNat_setWidth]

theorem hi_toNat' (c : BitVec 16) : (hi c).toNat = c.toNat / 256 % 256 := by
  simp [hi, UInt8.toNat, BitVec.toNat_setWidth, BitVec.toNat_ushiftRight, Nat.shiftRight_eq_div_pow]

theorem natLE2_lo_hi (c : BitVec 16) : natLE 2 c.toNat = [lo c, hi c] := by
  simp only [natLE]
  congr 1
  · apply UInt8.toNat_inj.mp; rw [lo_toNat']; simp
  · congr 1
    apply UInt8.toNat_inj.mp; rw [hi_toNat']; simp

/-- with a 12- or 14-byte header and the ".FIT" tag, what `Encode` lays out is a frame: a header
    without CRC for size 12, with its CRC for size 14 -/
theorem finishEncode_frame (f : FileSt) (body : Bytes) (hs : f.hdr.size = headerSizeNoCRC ∨ f.hdr.size = headerSizeCRC)
    (ht : f.hdr.dtype = fitTag) (hl : body.length < 4294967296) :
    (finishEncode f body).1 = frameBytesK (kindOfSize f.hdr.size) f.hdr.proto f.hdr.profile body := by
  have htk : fitTag.take 4 = fitTag := rfl
  rcases hs with hs | hs
  · unfold finishEncode frameBytesK marshalHeader
    simp only [hs, ht, Nat.mod_eq_of_lt hl, htk]
    simp [natLE2_lo_hi, headerSizeCRC, headerSizeNoCRC, u8, kindOfSize, frameHdr, hdr12, hdrExtra, HdrKind.size]
  · unfold finishEncode frameBytesK marshalHeader
    simp only [hs, ↓reduceIte, ht, Nat.mod_eq_of_lt hl, htk]
    simp [natLE2_lo_hi, headerSizeCRC, u8, kindOfSize, frameHdr, hdr12, hdrExtra, HdrKind.size]

/-- **What `Encode` writes is a well-formed, self-describing FIT file**: a 12-byte header, or a 14-byte header with its
    CRC, then records that are the serialisation of items in which every data record fits the
    definition live for its local type — starting with the file_id definition and data record —
    then the file CRC. -/
theorem encode_wellformed (P : Profile) (hwf : ProfileWF P = true) (arch : Endian) (f f' : FileSt) (bs : Bytes)
    (h : encode P arch f = .ok bs f') (hs : f.hdr.size = headerSizeNoCRC ∨ f.hdr.size = headerSizeCRC) (ht : f.hdr.dtype = fitTag)
    (hsmall : bs.length < 4294967296) :
    ∃ (d0 : DefMsg) (parts0 : List Bytes) (rest : List Item),
      d0.global = f.fileId.num ∧ d0.localT = 0 ∧
      bs = frameBytesK (kindOfSize f.hdr.size) f.hdr.proto f.hdr.profile (serialize (.defn d0 false :: .data 0 parts0 [] :: rest)) ∧
      ItemsFitD P (List.replicate 16 none) (.defn d0 false :: .data 0 parts0 [] :: rest) := by
  unfold encode at h
  split at h
  · cases h
  · cases h
  · split at h
    · cases h
    · split at h
      · cases h
      · split at h
        · cases h
        · cases h
        · rename_i body hbody
          injection h with h1 h2
          obtain ⟨d0, parts0, rest, hg, hl0, hb, hfit⟩ := encodeBody_items P hwf arch f _ body hbody
          have hblen : body.length < 4294967296 := by
            rw [← h1] at hsmall
            simp only [finishEncode, List.length_append] at hsmall
            omega
          refine ⟨d0, parts0, rest, hg, hl0, ?_, hfit _ (by simp)⟩
          rw [← h1, finishEncode_frame f body hs ht hblen, hb]

end Fit
