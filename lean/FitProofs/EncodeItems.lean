import FitModel.Encode
import FitModel.Items
import FitProofs.NoPanicField
import FitProofs.Framing
import FitProofs.ListLemmas
/-
  C05: what `Encode` writes for a message is the serialisation of a definition item and a data item
  that fits it: the stream is self-describing.
-/
namespace Fit

theorem concatE_ok (l : List (Except EncErr Bytes)) (b : Bytes) (h : concatE l = .ok b) :
    ∃ parts : List Bytes, l = parts.map .ok ∧ b = parts.flatten := by
  induction l generalizing b with
  | nil => simp only [concatE] at h; cases h; exact ⟨[], rfl, rfl⟩
  | cons x xs ih =>
    cases x with
    | error e => simp [concatE] at h
    | ok bx =>
      simp only [concatE] at h
      cases hr : concatE xs with
      | error e => rw [hr] at h; cases h
      | ok r =>
        rw [hr] at h
        cases h
        obtain ⟨parts, h1, h2⟩ := ih r hr
        exact ⟨bx :: parts, by rw [h1]; rfl, by rw [h2]; rfl⟩

theorem concatE_map_length {α} (f : α → Except EncErr Bytes) (w : Nat) (l : List α) (b : Bytes)
    (hw : ∀ x bs, f x = .ok bs → bs.length = w) (h : concatE (l.map f) = .ok b) : b.length = l.length * w := by
  induction l generalizing b with
  | nil => simp only [List.map_nil, concatE] at h; cases h; simp
  | cons x xs ih =>
    simp only [List.map_cons] at h
    cases hx : f x with
    | error e => rw [hx] at h; simp [concatE] at h
    | ok bx =>
      rw [hx] at h
      simp only [concatE] at h
      cases hr : concatE (xs.map f) with
      | error e => rw [hr] at h; cases h
      | ok r =>
        rw [hr] at h
        cases h
        rw [List.length_append, hw x bx hx, ih r hr, List.length_cons]
        rw [Nat.add_mul]; omega

/-- Go width of a scalar kind = size of the base type it holds (finite check) -/
theorem scWidth_of_base : ∀ b : Fin 256, Base.known b.val = true → Base.index b.val ≠ 7 →
    (match scOfBase b.val with | some k => scWidth k == Base.size b.val | none => false) = true := by
  decide +kernel

theorem scWidth_of_base' (b : Nat) (hlt : b < 256) (hk : Base.known b = true) (h7 : Base.index b ≠ 7) (k : Sc)
    (hs : scOfBase b = some k) : scWidth k = Base.size b := by
  have := scWidth_of_base ⟨b, hlt⟩ hk h7
  simp only [hs] at this
  simpa using this

/-- the size byte the encoder writes into the definition for a field -/
def szOf (pf : PField) : Nat :=
  let b := tcBase pf.tcode
  (if b = Base.string then pf.length
   else if tcArray pf.tcode then (Base.size b * pf.length) % 256 else Base.size b) % 256

def fdOf (pf : PField) : FieldDef := ⟨pf.num, szOf pf, tcBase pf.tcode⟩

/-- the definition item the encoder writes for a list of fields -/
def defOf (arch : Endian) (global : Nat) (fs : List PField) : DefMsg := ⟨0, arch, global, fs.map fdOf, []⟩

theorem u8_mod (n : Nat) : UInt8.ofNat (n % 256) = UInt8.ofNat n := by
  apply UInt8.toNat_inj.mp
  simp

theorem defBytes_eq (arch : Endian) (global : Nat) (fs : List PField) :
    defBytes arch global fs = serializeItem (.defn (defOf arch global fs) false) := by
  unfold defBytes serializeItem defOf
  simp only [Bool.false_eq_true, ↓reduceIte, Nat.add_zero, List.append_nil, List.length_map]
  have h1 : (fs.map fun pf =>
      [UInt8.ofNat pf.num,
        UInt8.ofNat ((if tcBase pf.tcode = Base.string then pf.length
          else if tcArray pf.tcode = true then (Base.size (tcBase pf.tcode) * pf.length) % 256
          else Base.size (tcBase pf.tcode)) % 256),
        UInt8.ofNat (tcBase pf.tcode)]).flatten = serializeFieldDefs (fs.map fdOf) := by
    induction fs with
    | nil => rfl
    | cons f fs ih =>
      simp only [List.map_cons, List.flatten_cons, serializeFieldDefs, ih]
      simp [fdOf, szOf, u8]
  have h2 : defBytes.archByteOf arch = archByte arch := by cases arch <;> rfl
  rw [h1, h2]
  simp [u8, u8_mod]

end Fit

namespace Fit

theorem encodeString_len (b : Bytes) (n : Nat) (bs : Bytes) (h : encodeString b n = .ok bs) : bs.length = n := by
  unfold encodeString at h
  split at h
  · cases h
  · simp only at h
    split at h
    · injection h with h
      subst h
      simp only [List.length_append, List.length_take, List.length_replicate]
      omega
    · cases h

/-- length of one encoded scalar (or array element) of a native, non-string field -/
theorem encodeScalar_native_len (arch : Endian) (pf : PField) (k : Sc) (v : Val) (bs : Bytes)
    (hk : tcKind pf.tcode = .native) (hs : tcBase pf.tcode ≠ Base.string)
    (h : encodeScalar arch pf k v = .ok bs) : bs.length = scWidth k := by
  unfold encodeScalar at h
  rw [hk] at h
  split at h <;> first
    | (rename_i heq; cases heq; done)
    | (split at h
       · cases h
       · injection h with h; subst h; exact enc_length _ _ _)
    | (split at h
       · exact absurd ‹tcBase pf.tcode = Base.string› hs
       · cases h)
    | cases h

end Fit

namespace Fit

theorem flatten_replicate_length (k : Nat) (x : Bytes) : (List.replicate k x).flatten.length = k * x.length := by
  induction k with
  | zero => simp
  | succ k ih => simp only [List.replicate_succ, List.flatten_cons, List.length_append, ih]; rw [Nat.add_mul]; omega

theorem szOf_lt (pf : PField) : szOf pf < 256 := by
  unfold szOf; exact Nat.mod_lt _ (by decide)

/-- **every field the encoder writes has exactly the size its definition declares** -/
theorem writeField_length (arch : Endian) (pm : PMsg) (pf : PField) (k : SlotKind) (v : Val) (bs : Bytes)
    (facts : FieldFacts pm pf) (hslot : slotOfType pf.tcode = some k)
    (h : writeField arch pf k v = .ok bs) : bs.length = szOf pf := by
  have hkind := facts.kind
  unfold writeField at h
  by_cases ha : tcArray pf.tcode = true
  · -- arrays
    simp only [ha, Bool.not_true, Bool.false_eq_true, ↓reduceIte] at h
    split at h
    · cases h
    · rename_i hstr
      try dsimp only at h
      split at h
      · cases h
      · rename_i body hbody
        injection h with h
        subst h
        -- kind is native (time and coordinate kinds are never arrays)
        have hnat : tcKind pf.tcode = .native := by
          cases hk : tcKind pf.tcode with
          | native => rfl
          | timeUTC => rw [hk] at hkind; rw [hkind.2] at ha; cases ha
          | timeLocal => rw [hk] at hkind; rw [hkind.2] at ha; cases ha
          | lat => rw [hk] at hkind; rw [hkind.2] at ha; cases ha
          | lng => rw [hk] at hkind; rw [hkind.2] at ha; cases ha
          | unknown n => rw [hk] at hkind; exact absurd hkind (by simp)
        unfold slotOfType at hslot
        rw [hnat] at hslot
        dsimp only at hslot
        cases hsc : scOfBase (tcBase pf.tcode) with
        | none => rw [hsc] at hslot; cases hslot
        | some sck =>
          rw [hsc] at hslot
          simp only [ha, ↓reduceIte, Option.some.injEq] at hslot
          subst hslot
          dsimp only at hbody
          have hw := scWidth_of_base' _ (tcBase_lt _) facts.known (tcBase_string _ hstr) sck hsc
          have hlb := concatE_map_length (encodeScalar arch pf sck) (scWidth sck) _ body
            (fun x bs hx => encodeScalar_native_len arch pf sck x bs hnat hstr hx) hbody
          have hB := facts.lenB (Or.inl ha)
          simp only [List.length_append, flatten_replicate_length, enc_length, hlb, List.length_take]
          unfold szOf
          simp only [hstr, ↓reduceIte, ha]
          rw [hw]
          have hmm : ∀ (e : Nat), min (min e pf.length) e = min e pf.length := by
            intro e
            omega
          generalize (match v with
            | Val.us (some xs) => List.map Val.u xs
            | Val.is (some xs) => List.map Val.i xs
            | Val.fs (some xs) => List.map Val.f xs
            | _ => []).length = e
          rw [hmm e]
          have hle : min e pf.length ≤ pf.length := Nat.min_le_right _ _
          have : min e pf.length * Base.size (tcBase pf.tcode) +
              (pf.length - min e pf.length) * Base.size (tcBase pf.tcode) =
              Base.size (tcBase pf.tcode) * pf.length := by
            rw [← Nat.add_mul, Nat.add_sub_cancel' hle, Nat.mul_comm]
          rw [this, Nat.mod_eq_of_lt (by omega), Nat.mod_eq_of_lt (by omega)]
  · -- scalars
    have ha' : tcArray pf.tcode = false := by simpa using ha
    simp only [ha', Bool.not_false, ↓reduceIte] at h
    unfold slotOfType at hslot
    cases hk : tcKind pf.tcode with
    | native =>
      rw [hk] at hslot
      dsimp only at hslot
      cases hsc : scOfBase (tcBase pf.tcode) with
      | none => rw [hsc] at hslot; cases hslot
      | some sck =>
        rw [hsc] at hslot
        simp only [ha', Bool.false_eq_true, ↓reduceIte, Option.some.injEq] at hslot
        subst hslot
        simp only at h
        by_cases hstr : tcBase pf.tcode = Base.string
        · -- string: the profile's fixed length
          unfold encodeScalar at h
          rw [hk] at h
          simp only [hstr, ↓reduceIte] at h
          have hB := facts.lenB (Or.inr hstr)
          have hs1 : Base.size (tcBase pf.tcode) = 1 := by rw [hstr]; decide
          have : bs.length = pf.length := by
            split at h <;> first
              | (rename_i heq; cases heq; done)
              | (split at h
                 · rename_i b' hb'
                   injection h with h; subst h
                   exact encodeString_len _ _ _ hb'
                 · cases h)
              | (cases h; done)
          rw [this]
          unfold szOf
          simp only [hstr, ↓reduceIte]
          rw [Nat.mod_eq_of_lt (by rw [hs1] at hB; omega)]
        · have := encodeScalar_native_len arch pf sck v bs hk hstr h
          rw [this, scWidth_of_base' _ (tcBase_lt _) facts.known (tcBase_string _ hstr) sck hsc]
          unfold szOf
          simp only [hstr, ↓reduceIte, ha', Bool.false_eq_true]
          have := facts.small
          rw [Nat.mod_eq_of_lt (by omega)]
    | unknown n => rw [hk] at hkind; exact absurd hkind (by simp)
    | _ =>
      rw [hk] at hslot hkind
      simp only [ha', Bool.false_eq_true, ↓reduceIte, Option.some.injEq] at hslot
      subst hslot
      simp only at h
      have hps : tcBase pf.tcode ≠ Base.string := by rw [hkind.1]; decide
      have h4 : Base.size (tcBase pf.tcode) = 4 := by rw [hkind.1]; decide
      have : bs.length = 4 := by
        unfold encodeScalar at h
        rw [hk] at h
        split at h <;> first
          | (injection h with h; subst h; exact enc_length _ _ _)
          | (rename_i heq; cases heq; done)
          | cases h
      rw [this]
      unfold szOf
      simp only [hps, ↓reduceIte, ha', Bool.false_eq_true, h4]

end Fit

namespace Fit

theorem fieldBySindex_mem (pm : PMsg) (i : Nat) (pf : PField) (h : fieldBySindex pm i = some pf) : pf ∈ pm.fields :=
  List.mem_of_find?_eq_some h

theorem encodeMesgDef_aux (pm : PMsg) (m : Msg) (idx : List Nat) (fs : List PField)
    (h : idx.foldr (fun i acc =>
      match acc with
      | none => none
      | some fs =>
        let v := m.vals.getD i (.u 0)
        if isInvalidVal pm i v then some fs
        else match fieldBySindex pm i with
          | some pf => some (pf :: fs)
          | none => none) (some []) = some fs) :
    (∀ pf ∈ fs, pf ∈ pm.fields) ∧ fs.length ≤ idx.length := by
  induction idx generalizing fs with
  | nil => simp only [List.foldr_nil, Option.some.injEq] at h; subst h; simp
  | cons i idx ih =>
    simp only [List.foldr_cons] at h
    generalize hacc : idx.foldr _ (some []) = acc at h
    cases acc with
    | none => cases h
    | some fs0 =>
      obtain ⟨h1, h2⟩ := ih fs0 hacc
      simp only at h
      split at h
      · cases h; exact ⟨h1, by simp only [List.length_cons]; omega⟩
      · split at h
        · rename_i pf hpf
          cases h
          refine ⟨?_, by simp only [List.length_cons]; omega⟩
          intro p hp
          cases hp with
          | head => exact fieldBySindex_mem pm i _ hpf
          | tail _ hp' => exact h1 p hp'
        · cases h

theorem encodeMesgDef_mem (pm : PMsg) (m : Msg) (fs : List PField) (h : encodeMesgDef pm m = some fs) :
    (∀ pf ∈ fs, pf ∈ pm.fields) ∧ fs.length ≤ m.vals.length := by
  unfold encodeMesgDef at h
  have := encodeMesgDef_aux pm m (List.range m.vals.length) fs h
  simpa using this

/-- the parts written for the fields fit the definition written for them -/
theorem parts_fit (arch : Endian) (pm : PMsg) (m : Msg) (fs : List PField) (parts : List Bytes)
    (hfw : ∀ pf ∈ fs, fieldWF pm pf = true)
    (h : (fs.map fun pf =>
      match pm.layout[pf.sindex]?, m.vals[pf.sindex]? with
      | some k, some v => writeField arch pf k v
      | _, _ => .error .panic) = parts.map .ok) :
    FieldsFit (fs.map fdOf) parts := by
  induction fs generalizing parts with
  | nil =>
    cases parts with
    | nil => trivial
    | cons _ _ => simp at h
  | cons pf fs ih =>
    cases parts with
    | nil => simp at h
    | cons part parts =>
      simp only [List.map_cons, List.cons.injEq] at h
      obtain ⟨h1, h2⟩ := h
      refine ⟨?_, ih parts (fun p hp => hfw p (List.mem_cons_of_mem _ hp)) h2⟩
      have facts := fieldWF_facts pm pf (hfw pf (List.mem_cons_self ..))
      obtain ⟨k, hl, hslot⟩ := facts.slot
      rw [hl] at h1
      cases hv : m.vals[pf.sindex]? with
      | none => rw [hv] at h1; cases h1
      | some v =>
        rw [hv] at h1
        simp only at h1
        exact writeField_length arch pm pf k v part facts hslot h1

end Fit

namespace Fit

theorem msgWF_bounds (pm : PMsg) (h : msgWF pm = true) :
    pm.num < 65535 ∧ pm.layout.length < 256 ∧ (pm.hasType = true → pm.hasCtor = true → pm.invalid.length = pm.layout.length) ∧
    (∀ pf ∈ pm.fields, fieldWF pm pf = true) := by
  unfold msgWF at h
  simp only [Bool.and_eq_true, decide_eq_true_eq, Bool.or_eq_true, Bool.not_eq_true', List.all_eq_true] at h
  obtain ⟨⟨⟨⟨⟨⟨⟨⟨⟨_, _⟩, hinv⟩, _⟩, hnum⟩, hlay⟩, _⟩, _⟩, hall⟩, _⟩ := h
  refine ⟨hnum, hlay, ?_, hall⟩
  intro ht hc
  rcases hinv with h | h
  · simp [ht, hc] at h
  · simpa using h

theorem msg?_num (P : Profile) (n : Nat) (pm : PMsg) (h : P.msg? n = some pm) : pm.num = n := by
  unfold Profile.msg? at h
  have := List.find?_some h
  simpa using this

/-- **What `Encode` writes for one message is a definition record followed by a data record that
    fits it**: same local type, one byte string per declared field, each of exactly the declared
    size; and the definition is one the decoder can read back. -/
theorem encodeOne_items (P : Profile) (hwf : ProfileWF P = true) (arch : Endian) (m : Msg) (bs : Bytes)
    (h : encodeOne P arch m = .ok bs) :
    ∃ (fs : List PField) (parts : List Bytes),
      bs = serialize [.defn (defOf arch m.num fs) false, .data 0 parts []] ∧
      FieldsFit (defOf arch m.num fs).fields parts ∧ DefnWF (defOf arch m.num fs) false ∧
      ∃ pm, P.msg? m.num = some pm ∧ ∀ pf ∈ fs, pf ∈ pm.fields := by
  unfold encodeOne at h
  cases hpm : P.msg? m.num with
  | none => rw [hpm] at h; cases h
  | some pm =>
    rw [hpm] at h
    simp only at h
    split at h
    · cases h
    · rename_i hcond
      cases hdef : encodeMesgDef pm m with
      | none => rw [hdef] at h; cases h
      | some fs =>
        rw [hdef] at h
        simp only at h
        cases hmb : mesgBytes arch pm m fs with
        | error e => rw [hmb] at h; cases h
        | ok b =>
          rw [hmb] at h
          injection h with h
          subst h
          have hmw := msg?_wf P hwf m.num pm hpm
          obtain ⟨hnum, hlay, hinv, hall⟩ := msgWF_bounds pm hmw
          obtain ⟨hmem, hlen⟩ := encodeMesgDef_mem pm m fs hdef
          have hfw : ∀ pf ∈ fs, fieldWF pm pf = true := fun pf hp => hall pf (hmem pf hp)
          -- the data record
          unfold mesgBytes at hmb
          split at hmb
          · rename_i body hc
            injection hmb with hmb
            subst hmb
            obtain ⟨parts, hp1, hp2⟩ := concatE_ok _ _ hc
            refine ⟨fs, parts, ?_, parts_fit arch pm m fs parts hfw hp1, ?_, ⟨pm, rfl, hmem⟩⟩
            · rw [defBytes_eq, hp2]
              simp [serialize, serializeItem, u8]
            · have hvl : m.vals.length = pm.invalid.length := by
                by_cases hv : m.vals.length = pm.invalid.length
                · exact hv
                · exact absurd (Or.inr hv) hcond
              have htc : pm.hasCtor = true ∧ pm.hasType = true := by
                cases h1 : pm.hasCtor <;> cases h2 : pm.hasType <;> simp [h1, h2] at hcond ⊢
              have hil := hinv htc.2 htc.1
              refine ⟨by show (0 : Nat) < 16; omega, ?_, ?_, ?_, (fun h => by cases h), (fun h => by cases h)⟩
              · show m.num < 65536
                rw [← msg?_num P m.num pm hpm]; omega
              · show (fs.map fdOf).length < 256
                rw [List.length_map]; omega
              · intro f hf
                simp only [defOf, List.mem_map] at hf
                obtain ⟨pf, hpf, rfl⟩ := hf
                have facts := fieldWF_facts pm pf (hfw pf hpf)
                exact ⟨by have := facts.num; show pf.num < 256; omega, szOf_lt pf, tcBase_lt _⟩
          · cases hmb

end Fit

namespace Fit

theorem getD_setAt_same {α} (l : List α) (i : Nat) (v d : α) (h : i < l.length) : (setAt l i v).getD i d = v := by
  induction l generalizing i with
  | nil => simp at h
  | cons x xs ih =>
    cases i with
    | zero => simp [setAt]
    | succ i => simp only [setAt, List.getD_cons_succ]; exact ih i (by simpa using h)

/-- a definition item followed by a data item of the same local type that fits it is a
    well-formed stream for the decoder, from any decoder state -/
theorem pair_fits (P : Profile) (st : DecSt) (d : DefMsg) (parts : List Bytes) (hdefs : 0 < st.defs.length)
    (hl : d.localT = 0) (hdev : d.dev = []) (hwf : DefnWF d false) (hfit : FieldsFit d.fields parts) :
    ItemsFit P st [.defn d false, .data 0 parts []] := by
  refine ⟨hwf, ?_⟩
  intro st' hstep
  refine ⟨⟨by omega, ?_⟩, fun _ _ => trivial⟩
  intro dm hdm
  unfold stepItem at hstep
  simp only at hstep
  split at hstep
  · cases hstep
  · split at hstep
    · cases hstep
    · cases hstep
      simp only [Bool.false_eq_true, ↓reduceIte, DecSt.eat, hl] at hdm
      rw [getD_setAt_same _ _ _ _ hdefs] at hdm
      cases hdm
      simp only [hdev]
      exact ⟨hfit, trivial⟩

/-- **Self-describing.** What `Encode` writes for one message is, for the decoder, the
    serialisation of two items that fit: a definition and a data record it describes. -/
theorem encodeOne_self_describing (P : Profile) (hwf : ProfileWF P = true) (arch : Endian) (m : Msg) (bs : Bytes)
    (h : encodeOne P arch m = .ok bs) :
    ∃ its : List Item, bs = serialize its ∧ ∀ st : DecSt, 0 < st.defs.length → ItemsFit P st its := by
  obtain ⟨fs, parts, hbs, hfit, hd, _⟩ := encodeOne_items P hwf arch m bs h
  exact ⟨_, hbs, fun st hst => pair_fits P st _ parts hst rfl rfl hd hfit⟩

end Fit

namespace Fit

/-! ### message groups: one shared definition, then one data record per message -/

theorem insertField_mem (pf : PField) (l : List PField) (x : PField) (h : x ∈ insertField pf l) : x = pf ∨ x ∈ l := by
  induction l with
  | nil => simp only [insertField, List.mem_singleton] at h; exact Or.inl h
  | cons y ys ih =>
    unfold insertField at h
    split at h
    · exact Or.inr h
    · split at h
      · cases h with
        | head => exact Or.inl rfl
        | tail _ h' => exact Or.inr h'
      · cases h with
        | head => exact Or.inr (List.mem_cons_self ..)
        | tail _ h' =>
          rcases ih h' with h1 | h1
          · exact Or.inl h1
          · exact Or.inr (List.mem_cons_of_mem _ h1)

theorem foldl_insertField_mem (l acc : List PField) (x : PField)
    (h : x ∈ l.foldl (fun acc pf => insertField pf acc) acc) : x ∈ l ∨ x ∈ acc := by
  induction l generalizing acc with
  | nil => exact Or.inr h
  | cons y ys ih =>
    simp only [List.foldl_cons] at h
    rcases ih _ h with h1 | h1
    · exact Or.inl (List.mem_cons_of_mem _ h1)
    · rcases insertField_mem y acc x h1 with h2 | h2
      · exact Or.inl (h2 ▸ List.mem_cons_self ..)
      · exact Or.inr h2

theorem mapM_some_all {α β} (f : α → Option β) (l : List α) (r : List β) (h : l.mapM f = some r) :
    ∀ y ∈ r, ∃ x ∈ l, f x = some y := by
  induction l generalizing r with
  | nil => simp at h; subst h; intro y hy; cases hy
  | cons a as ih =>
    simp only [List.mapM_cons] at h
    cases ha : f a with
    | none => rw [ha] at h; simp at h
    | some b =>
      rw [ha] at h
      cases hr : as.mapM f with
      | none => rw [hr] at h; simp at h
      | some bs =>
        rw [hr] at h
        simp at h
        subst h
        intro y hy
        cases hy with
        | head => exact ⟨a, List.mem_cons_self .., ha⟩
        | tail _ hy' =>
          obtain ⟨x, hx, hfx⟩ := ih bs hr y hy'
          exact ⟨x, List.mem_cons_of_mem _ hx, hfx⟩

/-- data records of a group, all fitting one definition -/
theorem group_datas (arch : Endian) (pm : PMsg) (fs : List PField) (ms : List Msg) (b : Bytes)
    (hfw : ∀ pf ∈ fs, fieldWF pm pf = true)
    (h : concatE (ms.map fun m => mesgBytes arch pm m fs) = .ok b) :
    ∃ partss : List (List Bytes), partss.length = ms.length ∧
      b = serialize (partss.map fun parts => Item.data 0 parts []) ∧
      ∀ parts ∈ partss, FieldsFit (fs.map fdOf) parts := by
  induction ms generalizing b with
  | nil =>
    simp only [List.map_nil, concatE] at h
    cases h
    exact ⟨[], rfl, rfl, fun _ h => by cases h⟩
  | cons m ms ih =>
    simp only [List.map_cons] at h
    cases hm : mesgBytes arch pm m fs with
    | error e => rw [hm] at h; simp [concatE] at h
    | ok bm =>
      rw [hm] at h
      simp only [concatE] at h
      cases hr : concatE (ms.map fun m => mesgBytes arch pm m fs) with
      | error e => rw [hr] at h; cases h
      | ok br =>
        rw [hr] at h
        cases h
        obtain ⟨partss, hl, hb, hfit⟩ := ih br hr
        unfold mesgBytes at hm
        split at hm
        · rename_i body hc
          injection hm with hm
          subst hm
          obtain ⟨parts, hp1, hp2⟩ := concatE_ok _ _ hc
          refine ⟨parts :: partss, by simp [hl], ?_, ?_⟩
          · rw [hb, hp2]
            simp [serialize, serializeItem, u8]
          · intro p hp
            cases hp with
            | head => exact parts_fit arch pm m fs parts hfw hp1
            | tail _ hp' => exact hfit p hp'
        · cases hm

/-- items of a group fit, from any state with a definition table -/
theorem group_fits (P : Profile) (st : DecSt) (d : DefMsg) (partss : List (List Bytes)) (hdefs : 0 < st.defs.length)
    (hl : d.localT = 0) (hdev : d.dev = []) (hwf : DefnWF d false)
    (hfit : ∀ parts ∈ partss, FieldsFit d.fields parts) :
    ItemsFit P st (.defn d false :: partss.map fun parts => Item.data 0 parts []) := by
  refine ⟨hwf, ?_⟩
  intro st' hstep
  have hd0 : st'.defs.getD 0 none = some d ∧ 0 < st'.defs.length := by
    unfold stepItem at hstep
    simp only at hstep
    split at hstep
    · cases hstep
    · split at hstep
      · cases hstep
      · cases hstep
        simp only [Bool.false_eq_true, ↓reduceIte, DecSt.eat, hl]
        refine ⟨?_, by rw [length_setAt]; exact hdefs⟩
        rw [getD_setAt_same _ _ _ _ hdefs]
        congr 1
        cases d; simp_all
  clear hstep
  induction partss generalizing st' with
  | nil => trivial
  | cons parts rest ih =>
    simp only [List.map_cons]
    refine ⟨⟨by omega, ?_⟩, ?_⟩
    · intro dm hdm
      rw [hd0.1] at hdm
      cases hdm
      rw [hdev]
      exact ⟨hfit parts (List.mem_cons_self ..), trivial⟩
    · intro st'' hstep
      apply ih (fun p hp => hfit p (List.mem_cons_of_mem _ hp)) st''
      -- a data record does not touch the definition table
      unfold stepItem at hstep
      have := (stepData_n P 0 false parts [] (st'.eat [u8 0]) st'' (by
        intro dm hdm
        simp only [Bool.false_eq_true, ↓reduceIte, DecSt.eat] at hdm
        rw [hd0.1] at hdm
        cases hdm
        rw [hdev]
        exact ⟨hfit parts (List.mem_cons_self ..), trivial⟩) hstep).2
      simp only [DecSt.eat] at this
      rw [this]
      exact hd0

end Fit

namespace Fit

/-- **Message groups are self-describing too**: what `Encode` writes for a slice of messages is one
    definition record followed by one data record per message, each fitting the definition — as
    long as the union of the valid fields has fewer than 256 members (the definition record counts
    fields in one byte). -/
theorem encodeGroup_self_describing (P : Profile) (hwf : ProfileWF P = true) (arch : Endian) (ms : List Msg)
    (bs : Bytes) (hne : ms ≠ []) (h : encodeGroup P arch ms = .ok bs) :
    ∃ (d : DefMsg) (partss : List (List Bytes)),
      bs = serialize (.defn d false :: partss.map fun parts => Item.data 0 parts []) ∧
      partss.length = ms.length ∧
      (d.fields.length < 256 → ∀ st : DecSt, 0 < st.defs.length →
        ItemsFit P st (.defn d false :: partss.map fun parts => Item.data 0 parts [])) := by
  unfold encodeGroup at h
  cases ms with
  | nil => exact absurd rfl hne
  | cons m0 rest =>
    simp only at h
    cases hpm : P.msg? m0.num with
    | none => rw [hpm] at h; cases h
    | some pm =>
      rw [hpm] at h
      simp only at h
      split at h
      · cases h
      · cases hdefs : (m0 :: rest).mapM (encodeMesgDef pm) with
        | none => rw [hdefs] at h; cases h
        | some defs =>
          rw [hdefs] at h
          simp only at h
          generalize hfs : defs.flatten.foldl (fun acc pf => insertField pf acc) [] = fs at h
          cases hc : concatE ((m0 :: rest).map fun m => mesgBytes arch pm m fs) with
          | error e => rw [hc] at h; cases h
          | ok b =>
            rw [hc] at h
            injection h with h
            subst h
            have hmw := msg?_wf P hwf m0.num pm hpm
            obtain ⟨hnum, hlay, hinv, hall⟩ := msgWF_bounds pm hmw
            -- every field of the union is a lookup entry of the message
            have hmem : ∀ pf ∈ fs, pf ∈ pm.fields := by
              intro pf hp
              rw [← hfs] at hp
              rcases foldl_insertField_mem _ _ _ hp with h1 | h1
              · rw [List.mem_flatten] at h1
                obtain ⟨l, hl, hpl⟩ := h1
                obtain ⟨mx, _, hmx⟩ := mapM_some_all _ _ _ hdefs l hl
                exact (encodeMesgDef_mem pm mx l hmx).1 pf hpl
              · cases h1
            have hfw : ∀ pf ∈ fs, fieldWF pm pf = true := fun pf hp => hall pf (hmem pf hp)
            obtain ⟨partss, hlen, hb, hfit⟩ := group_datas arch pm fs (m0 :: rest) b hfw hc
            refine ⟨defOf arch m0.num fs, partss, ?_, hlen, ?_⟩
            · rw [defBytes_eq, hb]
              simp [serialize]
            · intro hlt st hst
              apply group_fits P st _ partss hst rfl rfl ?_ hfit
              refine ⟨by show (0 : Nat) < 16; omega, ?_, hlt, ?_, (fun h => by cases h), (fun h => by cases h)⟩
              · show m0.num < 65536
                rw [← msg?_num P m0.num pm hpm]; omega
              · intro f hf
                simp only [defOf, List.mem_map] at hf
                obtain ⟨pf, hpf, rfl⟩ := hf
                have facts := fieldWF_facts pm pf (hfw pf hpf)
                exact ⟨by have := facts.num; show pf.num < 256; omega, szOf_lt pf, tcBase_lt _⟩

end Fit
