import FitModel.ExpandSpec
/-
  C18: the hand-transcribed expansion functions (`expand`, tied to messages.go by the
  correspondence run) equal the generic interpretation of the profile's component rules
  (`expandSpec`) — for the messages whose rules are plain 16-bit → 32-bit copies.
-/
namespace Fit
open Fit.XSpec

/-- the value stored for a 16-bit scalar source: an unsigned number below 2^16 (never an array) -/
def Src16 (m : Msg) (si : Nat) : Prop :=
  ∀ v, m.vals[si]? = some v → ∃ n, v = .u n ∧ n < 65536

theorem idx_lt (pm : PMsg) (name : String) (i : Nat) (h : pm.idx name = some i) :
    i < pm.fnames.length ∧ pm.fnames[i]? = some name := by
  unfold PMsg.idx at h
  simp only at h
  split at h
  · rename_i hlt
    cases h
    refine ⟨hlt, ?_⟩
    have := List.getElem_idxOf hlt
    rw [List.getElem?_eq_getElem hlt, this]
  · cases h

theorem idx_inj (pm : PMsg) (a b : String) (i : Nat) (ha : pm.idx a = some i) (hb : pm.idx b = some i) : a = b := by
  have h1 := (idx_lt pm a i ha).2
  have h2 := (idx_lt pm b i hb).2
  rw [h1] at h2
  cases h2; rfl

theorem getElem?_setAt_ne {α} (l : List α) (i j : Nat) (v : α) (h : i ≠ j) : (setAt l i v)[j]? = l[j]? := by
  induction l generalizing i j with
  | nil => simp [setAt]
  | cons x xs ih =>
    cases i with
    | zero =>
      cases j with
      | zero => exact absurd rfl h
      | succ j => simp [setAt]
    | succ i =>
      cases j with
      | zero => simp [setAt]
      | succ j => simp only [setAt, List.getElem?_cons_succ]; exact ih i j (by omega)

/-- one 16-bit copy rule, interpreted generically, is `copyIfValid` -/
theorem rule16_step (q : Quirks) (pm : PMsg) (src dst : String) (rs : List Rule) (m : Msg) (g : Globals)
    (ht : ∀ si, pm.idx src = some si → Src16 m si) :
    applyRules q pm (⟨src, 0xFFFF, [⟨dst, 16, false⟩], []⟩ :: rs) m g =
      applyRules q pm rs (copyIfValid pm m src dst 0xFFFF) g := by
  simp only [applyRules, List.isEmpty_nil, Bool.true_or, ↓reduceIte]
  unfold copyIfValid
  cases hs : pm.idx src with
  | none => rfl
  | some si =>
    simp only
    have ht' := ht si hs
    unfold srcValue Msg.getU
    cases hv : m.vals[si]? with
    | none =>
      cases hd : pm.idx dst <;> simp [hv]
    | some v =>
      obtain ⟨n, rfl, hn⟩ := ht' v hv
      by_cases hinv : n = 0xFFFF
      · cases hd : pm.idx dst <;> simp [hinv, hv]
      · have hmod : n % 65536 = n := Nat.mod_eq_of_lt hn
        cases hd : pm.idx dst with
        | none => simp [applyComps, hinv, hd, hv]
        | some di => simp [applyComps, hinv, hd, hmod, hv]

end Fit

namespace Fit
open Fit.XSpec

theorem copy_preserves (pm : PMsg) (m : Msg) (src dst : String) (inv : Nat) (s' : String) (hne : s' ≠ dst)
    (h : ∀ si, pm.idx s' = some si → Src16 m si) :
    ∀ si, pm.idx s' = some si → Src16 (copyIfValid pm m src dst inv) si := by
  intro si hsi
  unfold copyIfValid
  split
  · rename_i s0 di hs0 hdi
    split
    · split
      · intro v hv
        have hne' : di ≠ si := fun e => hne (idx_inj pm s' dst si hsi (e ▸ hdi))
        simp only [Msg.setU] at hv
        rw [getElem?_setAt_ne _ _ _ _ hne'] at hv
        exact h si hsi v hv
      · exact h si hsi
    · exact h si hsi
  · exact h si hsi

/-- **lap / session**: the generic interpretation of the five speed / altitude rules is the
    transcribed `expandSpeedAlt5` -/
theorem speedAlt5_eq (q : Quirks) (pm : PMsg) (m : Msg) (g : Globals)
    (h1 : ∀ si, pm.idx "AvgSpeed" = some si → Src16 m si)
    (h2 : ∀ si, pm.idx "MaxSpeed" = some si → Src16 m si)
    (h3 : ∀ si, pm.idx "AvgAltitude" = some si → Src16 m si)
    (h4 : ∀ si, pm.idx "MaxAltitude" = some si → Src16 m si)
    (h5 : ∀ si, pm.idx "MinAltitude" = some si → Src16 m si) :
    applyRules q pm speedAlt5 m g = (expandSpeedAlt5 pm m, g) := by
  unfold speedAlt5 expandSpeedAlt5
  rw [rule16_step q pm _ _ _ m g h1]
  have h2a := copy_preserves pm m "AvgSpeed" "EnhancedAvgSpeed" 0xFFFF "MaxSpeed" (by decide) h2
  have h3a := copy_preserves pm m "AvgSpeed" "EnhancedAvgSpeed" 0xFFFF "AvgAltitude" (by decide) h3
  have h4a := copy_preserves pm m "AvgSpeed" "EnhancedAvgSpeed" 0xFFFF "MaxAltitude" (by decide) h4
  have h5a := copy_preserves pm m "AvgSpeed" "EnhancedAvgSpeed" 0xFFFF "MinAltitude" (by decide) h5
  rw [rule16_step q pm _ _ _ _ g h2a]
  have h3b := copy_preserves pm _ "MaxSpeed" "EnhancedMaxSpeed" 0xFFFF "AvgAltitude" (by decide) h3a
  have h4b := copy_preserves pm _ "MaxSpeed" "EnhancedMaxSpeed" 0xFFFF "MaxAltitude" (by decide) h4a
  have h5b := copy_preserves pm _ "MaxSpeed" "EnhancedMaxSpeed" 0xFFFF "MinAltitude" (by decide) h5a
  rw [rule16_step q pm _ _ _ _ g h3b]
  have h4c := copy_preserves pm _ "AvgAltitude" "EnhancedAvgAltitude" 0xFFFF "MaxAltitude" (by decide) h4b
  have h5c := copy_preserves pm _ "AvgAltitude" "EnhancedAvgAltitude" 0xFFFF "MinAltitude" (by decide) h5b
  rw [rule16_step q pm _ _ _ _ g h4c]
  have h5d := copy_preserves pm _ "MaxAltitude" "EnhancedMaxAltitude" 0xFFFF "MinAltitude" (by decide) h5c
  rw [rule16_step q pm _ _ _ _ g h5d]
  rfl

/-- **segment_lap** -/
theorem segmentLap_eq (q : Quirks) (pm : PMsg) (m : Msg) (g : Globals)
    (h3 : ∀ si, pm.idx "AvgAltitude" = some si → Src16 m si)
    (h4 : ∀ si, pm.idx "MaxAltitude" = some si → Src16 m si)
    (h5 : ∀ si, pm.idx "MinAltitude" = some si → Src16 m si) :
    applyRules q pm (speedAlt5.drop 2) m g = (expandSegmentLap pm m, g) := by
  unfold speedAlt5 expandSegmentLap
  simp only [List.drop_succ_cons, List.drop_zero]
  rw [rule16_step q pm _ _ _ m g h3]
  have h4c := copy_preserves pm m "AvgAltitude" "EnhancedAvgAltitude" 0xFFFF "MaxAltitude" (by decide) h4
  have h5c := copy_preserves pm m "AvgAltitude" "EnhancedAvgAltitude" 0xFFFF "MinAltitude" (by decide) h5
  rw [rule16_step q pm _ _ _ _ g h4c]
  have h5d := copy_preserves pm _ "MaxAltitude" "EnhancedMaxAltitude" 0xFFFF "MinAltitude" (by decide) h5c
  rw [rule16_step q pm _ _ _ _ g h5d]
  rfl

end Fit
