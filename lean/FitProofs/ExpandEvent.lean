import FitProofs.ExpandRecord
/-
  C18, event messages: `expandEvent` (data16 → data; score / opponent_score for sport_point events;
  the four gear bytes for gear-change events) is the generic interpretation of the three component
  rules of event.
-/
namespace Fit
open Fit.XSpec

/-- the names an event message needs and the kinds of value its sources hold -/
structure EventTyped (pm : PMsg) (m : Msg) : Prop where
  data16 : ∀ i, pm.idx "Data16" = some i → Src16 m i
  data : ∀ i, pm.idx "Data" = some i → SrcU 32 m i
  names : (pm.idx "Data").isSome ∧ (pm.idx "Event").isSome ∧ (pm.idx "Score").isSome ∧ (pm.idx "OpponentScore").isSome ∧
    (pm.idx "RearGearNum").isSome ∧ (pm.idx "RearGear").isSome ∧ (pm.idx "FrontGearNum").isSome ∧
    (pm.idx "FrontGear").isSome

theorem getElem?_setAt_self_eq {α} (l : List α) (i : Nat) (v w : α) (h : (setAt l i v)[i]? = some w) : w = v := by
  induction l generalizing i with
  | nil => simp [setAt] at h
  | cons x xs ih =>
    cases i with
    | zero => simp [setAt] at h; exact h.symm
    | succ i => simp only [setAt, List.getElem?_cons_succ] at h; exact ih i h

theorem copyIfValid_dst_typed (pm : PMsg) (m : Msg) (src dst : String) (di : Nat) (hd : pm.idx dst = some di)
    (hsrc : ∀ i, pm.idx src = some i → Src16 m i) (hdst : SrcU 32 m di) :
    SrcU 32 (copyIfValid pm m src dst 0xFFFF) di := by
  unfold copyIfValid
  cases hs : pm.idx src with
  | none => exact hdst
  | some si =>
    simp only [hd]
    unfold Msg.getU
    cases hv : m.vals[si]? with
    | none => exact hdst
    | some v =>
      obtain ⟨n, rfl, hn⟩ := hsrc si hs v hv
      simp only
      split
      · intro w hw
        simp only [Msg.setU] at hw
        have := getElem?_setAt_self_eq _ _ _ _ hw
        subst this
        exact ⟨n, rfl, by omega⟩
      · exact hdst

theorem setU_getU_other (m : Msg) (i j n : Nat) (h : i ≠ j) : (m.setU i n).getU j = m.getU j := by
  unfold Msg.getU
  rw [setU_vals m i j n h]

/-- rules 2 and 3 of event (score halves; gear bytes), interpreted generically, are `expandEventData` -/
theorem eventData_eq (q : Quirks) (pm : PMsg) (m : Msg) (g : Globals) (di ei s o a b c e : Nat)
    (hdi : pm.idx "Data" = some di) (hei : pm.idx "Event" = some ei)
    (hs : pm.idx "Score" = some s) (ho : pm.idx "OpponentScore" = some o)
    (ha : pm.idx "RearGearNum" = some a) (hb : pm.idx "RearGear" = some b)
    (hc : pm.idx "FrontGearNum" = some c) (he : pm.idx "FrontGear" = some e)
    (ht : SrcU 32 m di) :
    applyRules q pm
      [⟨"Data", 0xFFFFFFFF, [⟨"Score", 16, false⟩, ⟨"OpponentScore", 16, false⟩], [evSportPoint]⟩,
       ⟨"Data", 0xFFFFFFFF, [⟨"RearGearNum", 8, false⟩, ⟨"RearGear", 8, false⟩, ⟨"FrontGearNum", 8, false⟩, ⟨"FrontGear", 8, false⟩],
         [evFrontGearChange, evRearGearChange]⟩] m g =
      ((match m.getU di, m.getU ei with
        | some d, some ev => expandEventData pm m d ev
        | _, _ => m), g) := by
  have nes : s ≠ ei := idx_ne pm _ _ s ei hs hei (by decide)
  have neo : o ≠ ei := idx_ne pm _ _ o ei ho hei (by decide)
  have nesd : s ≠ di := idx_ne pm _ _ s di hs hdi (by decide)
  have neod : o ≠ di := idx_ne pm _ _ o di ho hdi (by decide)
  cases hE : m.getU ei with
  | none =>
    -- no event kind: neither rule applies
    simp only [applyRules, List.isEmpty_cons, Bool.false_or, hei, hE, hdi, ↓reduceIte, Bool.false_eq_true]
    cases m.getU di <;> rfl
  | some ev =>
    cases hD : m.getU di with
    | none =>
      have hsv : srcValue m di 0xFFFFFFFF = none := by
        unfold srcValue
        unfold Msg.getU at hD
        cases hv : m.vals[di]? with
        | none => rfl
        | some v =>
          obtain ⟨n, rfl, _⟩ := ht v hv
          rw [hv] at hD; cases hD
      simp only [applyRules, List.isEmpty_cons, Bool.false_or, hei, hE, hdi, hsv, ite_self]
    | some d =>
      have hval : m.vals[di]? = some (.u d) := by
        unfold Msg.getU at hD
        cases hv : m.vals[di]? with
        | none => rw [hv] at hD; cases hD
        | some v =>
          obtain ⟨n, rfl, _⟩ := ht v hv
          rw [hv] at hD
          cases hD; rfl
      have hsv : srcValue m di 0xFFFFFFFF = if d = 0xFFFFFFFF then none else some d := by
        unfold srcValue; rw [hval]
      unfold expandEventData
      simp only [hs, ho, ha, hb, hc, he]
      by_cases hinv : d = 0xFFFFFFFF
      · -- invalid data: nothing expands
        simp only [applyRules, List.isEmpty_cons, Bool.false_or, hei, hE, hdi, hsv, hinv, ↓reduceIte, ne_eq,
          not_true_eq_false, ite_self]
      · by_cases hsp : ev = evSportPoint
        · -- sport point: the two 16-bit halves; the gear rule does not apply
          subst hsp
          have hE' : ((m.setU s (d % 2 ^ 16)).setU o (d / 2 ^ 16 % 2 ^ 16)).getU ei = some evSportPoint := by
            rw [setU_getU_other _ _ _ _ neo, setU_getU_other _ _ _ _ nes]; exact hE
          have hng : [evFrontGearChange, evRearGearChange].contains evSportPoint = false := by decide
          have hyes : [evSportPoint].contains evSportPoint = true := by decide
          simp only [applyRules, List.isEmpty_cons, Bool.false_or, hei, hE, hdi, hsv, hinv, ↓reduceIte, hyes,
            applyComps, hs, ho, hval, hE', hng, Bool.false_eq_true, ne_eq, not_false_eq_true, false_and, and_false]
        · have hno : [evSportPoint].contains ev = false := by
            simp only [List.contains_cons, List.contains_nil, Bool.or_false, beq_eq_false_iff_ne, ne_eq]
            exact hsp
          by_cases hgear : ev = evFrontGearChange ∨ ev = evRearGearChange
          · have hyes : [evFrontGearChange, evRearGearChange].contains ev = true := by
              rcases hgear with h | h <;> (rw [h]; decide)
            simp only [applyRules, List.isEmpty_cons, Bool.false_or, hei, hE, hdi, hsv, hinv, ↓reduceIte, hno, hyes,
              applyComps, ha, hb, hc, he, hval, Bool.false_eq_true, ne_eq, not_false_eq_true, hsp, hgear]
            have e1 : d / 2 ^ 8 / 2 ^ 8 % 2 ^ 8 = d / 65536 % 256 := by omega
            have e2 : d / 2 ^ 8 / 2 ^ 8 / 2 ^ 8 % 2 ^ 8 = d / 16777216 % 256 := by omega
            have e3 : d / 2 ^ 8 % 2 ^ 8 = d / 256 % 256 := by omega
            have e4 : d % 2 ^ 8 = d % 256 := by omega
            rw [e1, e2, e3, e4]
            simp only [false_and, and_false, ↓reduceIte]
          · have hng : [evFrontGearChange, evRearGearChange].contains ev = false := by
              simp only [List.contains_cons, List.contains_nil, Bool.or_false, Bool.or_eq_false_iff,
                beq_eq_false_iff_ne, ne_eq]
              exact ⟨fun h => hgear (Or.inl h), fun h => hgear (Or.inr h)⟩
            simp only [applyRules, List.isEmpty_cons, Bool.false_or, hei, hE, hdi, hsv, hinv, ↓reduceIte, hno, hng,
              Bool.false_eq_true, ne_eq, not_false_eq_true, hsp, hgear]

/-- **event**: the generic interpretation of the three component rules of event is the transcribed
    `expandEvent`, whatever deviations are switched on (they concern record only) -/
theorem event_eq (q : Quirks) (pm : PMsg) (m : Msg) (g : Globals) (h : EventTyped pm m) :
    applyRules q pm (rulesFor mnEvent) m g = (expandEvent pm m, g) := by
  obtain ⟨hd, hev, hs, ho, ha, hb, hc, he⟩ := h.names
  obtain ⟨di, hdi⟩ := Option.isSome_iff_exists.mp hd
  obtain ⟨ei, hei⟩ := Option.isSome_iff_exists.mp hev
  obtain ⟨s, hs⟩ := Option.isSome_iff_exists.mp hs
  obtain ⟨o, ho⟩ := Option.isSome_iff_exists.mp ho
  obtain ⟨a, ha⟩ := Option.isSome_iff_exists.mp ha
  obtain ⟨b, hb⟩ := Option.isSome_iff_exists.mp hb
  obtain ⟨c, hc⟩ := Option.isSome_iff_exists.mp hc
  obtain ⟨e, he⟩ := Option.isSome_iff_exists.mp he
  have rules : rulesFor mnEvent =
      [⟨"Data16", 0xFFFF, [⟨"Data", 16, false⟩], []⟩,
       ⟨"Data", 0xFFFFFFFF, [⟨"Score", 16, false⟩, ⟨"OpponentScore", 16, false⟩], [evSportPoint]⟩,
       ⟨"Data", 0xFFFFFFFF, [⟨"RearGearNum", 8, false⟩, ⟨"RearGear", 8, false⟩, ⟨"FrontGearNum", 8, false⟩, ⟨"FrontGear", 8, false⟩],
         [evFrontGearChange, evRearGearChange]⟩] := by
    unfold rulesFor; simp [mnEvent, mnRecord, mnSession, mnLap, mnSegmentLap]
  rw [rules, rule16_step q pm _ _ _ m g h.data16]
  rw [eventData_eq q pm _ g di ei s o a b c e hdi hei hs ho ha hb hc he
    (copyIfValid_dst_typed pm m "Data16" "Data" di hdi h.data16 (h.data di hdi))]
  unfold expandEvent
  simp only [hdi, hei]
  generalize (copyIfValid pm m "Data16" "Data" 65535).getU di = x
  generalize (copyIfValid pm m "Data16" "Data" 65535).getU ei = y
  cases x <;> cases y <;> rfl

end Fit
