import FitProofs.ExpandEq
import FitProofs.CsdBits
/-
  C18, record messages: the transcribed `expandRecord` (altitude, speed, compressed speed/distance,
  cycles, compressed accumulated power) is the generic interpretation of the profile's component
  rules with exactly the three recorded deviations switched on (D10: the distance half loses its
  top nibble; D11: the total_cycles and accumulated_power accumulators have mask 0).
-/
namespace Fit
open Fit.XSpec

/-- the deviations of the generated code -/
def codeQuirks : Quirks := { d10 := true, d11c := true, d11p := true }

/-- a scalar source of at most `bits` bits -/
def SrcU (bits : Nat) (m : Msg) (si : Nat) : Prop :=
  ∀ v, m.vals[si]? = some v → ∃ n, v = .u n ∧ n < 2 ^ bits

/-- a byte-array source -/
def SrcBytes (m : Msg) (si : Nat) : Prop :=
  ∀ v, m.vals[si]? = some v → ∃ o : Option (List Nat), v = .us o ∧ ∀ bs, o = some bs → ∀ b ∈ bs, b < 256

/-- the compressed_speed_distance rule, interpreted generically with D10, is `expandCsd` -/
theorem csd_step (pm : PMsg) (rs : List Rule) (m : Msg) (g : Globals) (ci si di : Nat)
    (hci : pm.idx "CompressedSpeedDistance" = some ci) (hsi : pm.idx "Speed" = some si)
    (hdi : pm.idx "Distance" = some di) (ht : SrcBytes m ci) :
    applyRules codeQuirks pm (⟨"CompressedSpeedDistance", 0xFF, [⟨"Speed", 12, false⟩, ⟨"Distance", 12, true⟩], []⟩ :: rs) m g =
      applyRules codeQuirks pm rs (expandCsd pm m g).1 (expandCsd pm m g).2 := by
  simp only [applyRules, List.isEmpty_nil, Bool.true_or, ↓reduceIte, hci]
  unfold expandCsd
  simp only [hci, hsi, hdi]
  unfold srcValue
  cases hv : m.vals[ci]? with
  | none => rfl
  | some v =>
    obtain ⟨o, rfl, hb⟩ := ht v hv
    cases o with
    | none => rfl
    | some bs =>
      match bs, hb with
      | [], _ => rfl
      | [_], _ => rfl
      | [_, _], _ => rfl
      | _ :: _ :: _ :: _ :: _, _ => rfl
      | [b0, b1, b2], hb =>
        have h0 : b0 < 256 := hb _ rfl b0 (by simp)
        have h1 : b1 < 256 := hb _ rfl b1 (by simp)
        have h2 : b2 < 256 := hb _ rfl b2 (by simp)
        by_cases hinv : b0 = 0xFF ∧ b1 = 0xFF ∧ b2 = 0xFF
        · simp only [hinv, and_self, ↓reduceIte, ne_eq, not_true_eq_false, or_self]
        · have hy : (b0 ≠ 0xFF ∨ b1 ≠ 0xFF ∨ b2 ≠ 0xFF) := by omega
          simp only [hinv, ↓reduceIte, hy]
          have e1 : (b0 + 256 * b1 + 65536 * b2) % 2 ^ 12 = (b0 ||| ((b1 &&& 0x0F) <<< 8)) := by
            rw [← csd_speed_bits ⟨b0, h0⟩ ⟨b1, h1⟩]
            show (b0 + 256 * b1 + 65536 * b2) % 4096 = (b0 + 256 * b1) % 4096
            omega
          have e2 : (b0 + 256 * b1 + 65536 * b2) / 2 ^ 12 % 2 ^ 12 % 256 = ((b1 >>> 4) ||| ((b2 <<< 4) % 256)) := by
            rw [← csd_distance_bits ⟨b1, h1⟩ ⟨b2, h2⟩]
            show (b0 + 256 * b1 + 65536 * b2) / 4096 % 4096 % 256 = (b1 / 16 + 16 * b2) % 256
            omega
          simp only [applyComps, hsi, hdi, codeQuirks, e1, e2, accuOf, setAccu, and_self, ↓reduceIte,
            Bool.false_eq_true, String.reduceEq, and_false, or_self]

/-- the cycles rule with D11 is `expandCycles` -/
theorem cycles_step (pm : PMsg) (rs : List Rule) (m : Msg) (g : Globals) (ci ti : Nat)
    (hci : pm.idx "Cycles" = some ci) (hti : pm.idx "TotalCycles" = some ti) (ht : SrcU 8 m ci) :
    applyRules codeQuirks pm (⟨"Cycles", 0xFF, [⟨"TotalCycles", 8, true⟩], []⟩ :: rs) m g =
      applyRules codeQuirks pm rs (expandCycles pm m g).1 (expandCycles pm m g).2 := by
  simp only [applyRules, List.isEmpty_nil, Bool.true_or, ↓reduceIte, hci]
  unfold expandCycles
  simp only [hci, hti]
  unfold srcValue Msg.getU
  cases hv : m.vals[ci]? with
  | none => rfl
  | some v =>
    obtain ⟨n, rfl, hn⟩ := ht v hv
    by_cases hinv : n = 0xFF
    · simp only [hinv, ↓reduceIte, ne_eq, not_true_eq_false]
    · have hmod : n % 2 ^ 8 = n := Nat.mod_eq_of_lt hn
      simp only [hinv, ↓reduceIte, ne_eq, not_false_eq_true, applyComps, hti, codeQuirks, hmod, accuOf, setAccu,
        String.reduceEq, and_self, true_or, or_true, and_true, true_and, Bool.false_eq_true, and_false, false_and]

/-- the compressed_accumulated_power rule with D11 is `expandPower` -/
theorem power_step (pm : PMsg) (rs : List Rule) (m : Msg) (g : Globals) (ci ai : Nat)
    (hci : pm.idx "CompressedAccumulatedPower" = some ci) (hai : pm.idx "AccumulatedPower" = some ai)
    (ht : SrcU 16 m ci) :
    applyRules codeQuirks pm (⟨"CompressedAccumulatedPower", 0xFFFF, [⟨"AccumulatedPower", 16, true⟩], []⟩ :: rs) m g =
      applyRules codeQuirks pm rs (expandPower pm m g).1 (expandPower pm m g).2 := by
  simp only [applyRules, List.isEmpty_nil, Bool.true_or, ↓reduceIte, hci]
  unfold expandPower
  simp only [hci, hai]
  unfold srcValue Msg.getU
  cases hv : m.vals[ci]? with
  | none => rfl
  | some v =>
    obtain ⟨n, rfl, hn⟩ := ht v hv
    by_cases hinv : n = 0xFFFF
    · simp only [hinv, ↓reduceIte, ne_eq, not_true_eq_false]
    · have hmod : n % 2 ^ 16 = n := Nat.mod_eq_of_lt hn
      simp only [hinv, ↓reduceIte, ne_eq, not_false_eq_true, applyComps, hai, codeQuirks, hmod, accuOf, setAccu,
        String.reduceEq, and_self, true_or, or_true, and_true, true_and, Bool.false_eq_true, and_false, false_and]

/-! ### what the steps leave alone -/

theorem idx_ne (pm : PMsg) (a b : String) (i j : Nat) (ha : pm.idx a = some i) (hb : pm.idx b = some j) (hab : a ≠ b) :
    i ≠ j := fun e => hab (idx_inj pm a b j (e ▸ ha) hb)

theorem setU_vals (m : Msg) (i j n : Nat) (h : i ≠ j) : (m.setU i n).vals[j]? = m.vals[j]? :=
  getElem?_setAt_ne _ _ _ _ h

theorem copyIfValid_vals (pm : PMsg) (m : Msg) (src dst : String) (inv j : Nat)
    (hne : ∀ di, pm.idx dst = some di → di ≠ j) : (copyIfValid pm m src dst inv).vals[j]? = m.vals[j]? := by
  unfold copyIfValid
  split
  · rename_i si di hs hd
    split
    · split
      · exact setU_vals _ _ _ _ (hne di hd)
      · rfl
    · rfl
  · rfl

theorem expandCsd_vals (pm : PMsg) (m : Msg) (g : Globals) (j : Nat)
    (hs : ∀ si, pm.idx "Speed" = some si → si ≠ j) (hd : ∀ di, pm.idx "Distance" = some di → di ≠ j) :
    (expandCsd pm m g).1.vals[j]? = m.vals[j]? := by
  unfold expandCsd
  split
  · rename_i ci si di hc hsi hdi
    split
    · split
      · simp only
        rw [setU_vals _ _ _ _ (hd di hdi), setU_vals _ _ _ _ (hs si hsi)]
      · rfl
    · rfl
  · rfl

theorem expandCycles_vals (pm : PMsg) (m : Msg) (g : Globals) (j : Nat)
    (ht : ∀ ti, pm.idx "TotalCycles" = some ti → ti ≠ j) : (expandCycles pm m g).1.vals[j]? = m.vals[j]? := by
  unfold expandCycles
  split
  · rename_i ci ti hc hti
    split
    · split
      · exact setU_vals _ _ _ _ (ht ti hti)
      · rfl
    · rfl
  · rfl

theorem SrcU.of_vals {bits : Nat} {m m' : Msg} {j : Nat} (h : SrcU bits m j) (e : m'.vals[j]? = m.vals[j]?) : SrcU bits m' j :=
  fun v hv => h v (e ▸ hv)

theorem SrcBytes.of_vals {m m' : Msg} {j : Nat} (h : SrcBytes m j) (e : m'.vals[j]? = m.vals[j]?) : SrcBytes m' j :=
  fun v hv => h v (e ▸ hv)

theorem Src16.of_vals {m m' : Msg} {j : Nat} (h : Src16 m j) (e : m'.vals[j]? = m.vals[j]?) : Src16 m' j :=
  fun v hv => h v (e ▸ hv)

/-- the names a record message needs, and the kinds of value its component sources hold (what the
    decoder stores, or the constructor's invalid values) -/
structure RecordTyped (pm : PMsg) (m : Msg) : Prop where
  alt : ∀ i, pm.idx "Altitude" = some i → Src16 m i
  speed : ∀ i, pm.idx "Speed" = some i → Src16 m i
  names : (pm.idx "Speed").isSome ∧ (pm.idx "Distance").isSome ∧ (pm.idx "CompressedSpeedDistance").isSome ∧
    (pm.idx "Cycles").isSome ∧ (pm.idx "TotalCycles").isSome ∧ (pm.idx "CompressedAccumulatedPower").isSome ∧
    (pm.idx "AccumulatedPower").isSome
  csd : ∀ i, pm.idx "CompressedSpeedDistance" = some i → SrcBytes m i
  cycles : ∀ i, pm.idx "Cycles" = some i → SrcU 8 m i
  power : ∀ i, pm.idx "CompressedAccumulatedPower" = some i → SrcU 16 m i

/-- **record**: the generic interpretation of the five component rules of record, with the three
    recorded deviations, is the transcribed `expandRecord` -/
theorem record_eq (pm : PMsg) (m : Msg) (g : Globals) (h : RecordTyped pm m) :
    applyRules codeQuirks pm (rulesFor mnRecord) m g = expandRecord pm m g := by
  obtain ⟨hs, hd, hc, hcy, htc, hcp, hap⟩ := h.names
  obtain ⟨si, hsi⟩ := Option.isSome_iff_exists.mp hs
  obtain ⟨di, hdi⟩ := Option.isSome_iff_exists.mp hd
  obtain ⟨ci, hci⟩ := Option.isSome_iff_exists.mp hc
  obtain ⟨cyi, hcyi⟩ := Option.isSome_iff_exists.mp hcy
  obtain ⟨tci, htci⟩ := Option.isSome_iff_exists.mp htc
  obtain ⟨cpi, hcpi⟩ := Option.isSome_iff_exists.mp hcp
  obtain ⟨api, hapi⟩ := Option.isSome_iff_exists.mp hap
  have rules : rulesFor mnRecord =
      [⟨"Altitude", 0xFFFF, [⟨"EnhancedAltitude", 16, false⟩], []⟩,
       ⟨"Speed", 0xFFFF, [⟨"EnhancedSpeed", 16, false⟩], []⟩,
       ⟨"CompressedSpeedDistance", 0xFF, [⟨"Speed", 12, false⟩, ⟨"Distance", 12, true⟩], []⟩,
       ⟨"Cycles", 0xFF, [⟨"TotalCycles", 8, true⟩], []⟩,
       ⟨"CompressedAccumulatedPower", 0xFFFF, [⟨"AccumulatedPower", 16, true⟩], []⟩] := by
    unfold rulesFor; simp
  rw [rules]
  unfold expandRecord
  -- altitude
  rw [rule16_step codeQuirks pm _ _ _ m g h.alt]
  have v1 : ∀ (name : String) (j : Nat), pm.idx name = some j → name ≠ "EnhancedAltitude" →
      (copyIfValid pm m "Altitude" "EnhancedAltitude" 0xFFFF).vals[j]? = m.vals[j]? :=
    fun name j hj hne => copyIfValid_vals pm m _ _ _ j fun d hd' => idx_ne pm _ _ d j hd' hj (Ne.symm hne)
  -- speed
  rw [rule16_step codeQuirks pm _ _ _ _ g (fun i hi => (h.speed i hi).of_vals (v1 "Speed" i hi (by decide)))]
  have v2 : ∀ (name : String) (j : Nat), pm.idx name = some j → name ≠ "EnhancedAltitude" → name ≠ "EnhancedSpeed" →
      (copyIfValid pm (copyIfValid pm m "Altitude" "EnhancedAltitude" 0xFFFF) "Speed" "EnhancedSpeed" 0xFFFF).vals[j]? =
        m.vals[j]? := by
    intro name j hj hne1 hne2
    rw [copyIfValid_vals pm _ _ _ _ j fun d hd' => idx_ne pm _ _ d j hd' hj (Ne.symm hne2)]
    exact v1 name j hj hne1
  -- compressed speed / distance
  rw [csd_step pm _ _ g ci si di hci hsi hdi ((h.csd ci hci).of_vals (v2 _ ci hci (by decide) (by decide)))]
  generalize hm2 : copyIfValid pm (copyIfValid pm m "Altitude" "EnhancedAltitude" 0xFFFF) "Speed" "EnhancedSpeed" 0xFFFF = m2 at v2 ⊢
  have v3 : ∀ (name : String) (j : Nat), pm.idx name = some j → name ≠ "EnhancedAltitude" → name ≠ "EnhancedSpeed" →
      name ≠ "Speed" → name ≠ "Distance" → (expandCsd pm m2 g).1.vals[j]? = m.vals[j]? := by
    intro name j hj hne1 hne2 hne3 hne4
    rw [expandCsd_vals pm m2 g j (fun s hs' => idx_ne pm _ _ s j hs' hj (Ne.symm hne3))
      (fun d hd' => idx_ne pm _ _ d j hd' hj (Ne.symm hne4))]
    exact v2 name j hj hne1 hne2
  -- cycles
  rw [cycles_step pm _ _ _ cyi tci hcyi htci ((h.cycles cyi hcyi).of_vals (v3 _ cyi hcyi (by decide) (by decide) (by decide) (by decide)))]
  -- power
  have v4 : (expandCycles pm (expandCsd pm m2 g).1 (expandCsd pm m2 g).2).1.vals[cpi]? = m.vals[cpi]? := by
    rw [expandCycles_vals pm _ _ cpi fun t ht' => idx_ne pm _ _ t cpi ht' hcpi (by decide)]
    exact v3 _ cpi hcpi (by decide) (by decide) (by decide) (by decide)
  rw [power_step pm _ _ _ cpi api hcpi hapi ((h.power cpi hcpi).of_vals v4)]
  simp only [applyRules]
  rw [← hm2]

end Fit
