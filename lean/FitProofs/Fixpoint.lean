import FitProofs.Pad
import FitProofs.MsgRoundtrip
/-!
Padding is idempotent: what `Decode (Encode f)` returns (`wireFile`) is a fixed point of
`f ↦ Decode (Encode f)` as far as padding goes. Used by C07 (`second_trip_fixpoint`).
-/
namespace Fit

theorem padVal_idem (pf : PField) (v : Val) : padVal pf (padVal pf v) = padVal pf v := by
  unfold padVal
  split
  · cases v with
    | us xs =>
      simp only [Option.getD_some, List.length_append, List.length_replicate]
      have : pf.length - ((xs.getD []).length + (pf.length - (xs.getD []).length)) = 0 := by omega
      rw [this]; simp
    | is zs =>
      simp only [Option.getD_some, List.length_append, List.length_replicate]
      have : pf.length - ((zs.getD []).length + (pf.length - (zs.getD []).length)) = 0 := by omega
      rw [this]; simp
    | _ => rfl
  · rfl

/-- the value a wired message holds at a struct position -/
theorem wireMsg_getD (pm : PMsg) (ms : List Msg) (m : Msg) (i : Nat) :
    (wireMsg pm ms m).vals.getD i (.u 0) =
      if i < m.vals.length then wireVal pm ms i (m.vals.getD i (.u 0)) else .u 0 := by
  rw [List.getD_eq_getElem?_getD, wireMsg_getElem?, List.getD_eq_getElem?_getD]
  by_cases h : i < m.vals.length
  · simp [h]
  · simp [h]

/-- a field no message of the group holds a valid value for is still such a field after the trip -/
theorem onIn_wire_false (pm : PMsg) (ms : List Msg) (pf : PField) (hpf : fieldBySindex pm pf.sindex = some pf)
    (h : onIn pm ms pf = false) : onIn pm (ms.map (wireMsg pm ms)) pf = false := by
  unfold onIn at h ⊢
  rw [List.any_eq_false] at h ⊢
  intro m' hm'
  simp only [List.mem_map] at hm'
  obtain ⟨m, hm, rfl⟩ := hm'
  have hm0 := h m hm
  rw [wireMsg_getD]
  by_cases hl : pf.sindex < m.vals.length
  · simp only [hl, ↓reduceIte]
    have : wireVal pm ms pf.sindex (m.vals.getD pf.sindex (.u 0)) = m.vals.getD pf.sindex (.u 0) := by
      unfold wireVal
      rw [hpf]
      simp only
      have : onIn pm ms pf = false := by unfold onIn; rw [List.any_eq_false]; exact h
      rw [this]; rfl
    rw [this]; exact hm0
  · simp only [hl, ↓reduceIte]
    have : m.vals.getD pf.sindex (.u 0) = .u 0 := by
      rw [List.getD_eq_getElem?_getD, List.getElem?_eq_none (Nat.le_of_not_lt hl)]; rfl
    rw [this] at hm0; exact hm0

/-- wiring a wired group again changes nothing -/
theorem wireVal_idem (pm : PMsg) (ms : List Msg) (i : Nat) (v : Val) :
    wireVal pm (ms.map (wireMsg pm ms)) i (wireVal pm ms i v) = wireVal pm ms i v := by
  unfold wireVal
  cases hf : fieldBySindex pm i with
  | none => rfl
  | some pf =>
    simp only
    have hs := fieldBySindex_sindex pm i pf hf
    cases ho : onIn pm ms pf with
    | true =>
      simp only [↓reduceIte]
      split
      · exact padVal_idem pf v
      · rfl
    | false =>
      simp only [Bool.false_eq_true, ↓reduceIte]
      rw [onIn_wire_false pm ms pf (by rw [hs]; exact hf) ho]
      rfl

theorem wireMsg_idem (pm : PMsg) (ms : List Msg) (m : Msg) :
    wireMsg pm (ms.map (wireMsg pm ms)) (wireMsg pm ms m) = wireMsg pm ms m := by
  have hv : (wireMsg pm (ms.map (wireMsg pm ms)) (wireMsg pm ms m)).vals = (wireMsg pm ms m).vals := by
    apply List.ext_getElem?
    intro i
    rw [wireMsg_getElem?, wireMsg_getElem?]
    cases m.vals[i]? with
    | none => rfl
    | some v => simp only [Option.map_some]; rw [wireVal_idem]
  have hv' : List.mapIdx (wireVal pm (ms.map (wireMsg pm ms))) (wireMsg pm ms m).vals = (wireMsg pm ms m).vals := hv
  show ({ num := (wireMsg pm ms m).num, vals := List.mapIdx (wireVal pm (ms.map (wireMsg pm ms))) (wireMsg pm ms m).vals } : Msg) = _
  rw [hv']

theorem wire1_idem (P : Profile) (m : Msg) : wire1 P (wire1 P m) = wire1 P m := by
  unfold wire1
  cases h : P.msg? m.num with
  | none => simp only [h]
  | some pm =>
    simp only [wireMsg_num, h]
    have := wireMsg_idem pm [m] m
    simpa using this

theorem wireSlot_idem (P : Profile) (many : Bool) (ms : List Msg) :
    wireSlot P many (wireSlot P many ms) = wireSlot P many ms := by
  cases ms with
  | nil => rfl
  | cons m0 rest =>
    unfold wireSlot
    cases many with
    | true =>
      simp only [↓reduceIte]
      cases h : P.msg? m0.num with
      | none => simp only [h]
      | some pm =>
        simp only [List.map_cons, wireMsg_num, h]
        have e : wireMsg pm (m0 :: rest) m0 :: rest.map (wireMsg pm (m0 :: rest)) = (m0 :: rest).map (wireMsg pm (m0 :: rest)) := rfl
        rw [e]
        rw [← List.map_cons (f := wireMsg pm ((m0 :: rest).map (wireMsg pm (m0 :: rest))))]
        rw [e, List.map_map]
        apply List.map_congr_left
        intro m _
        exact wireMsg_idem pm (m0 :: rest) m
    | false =>
      simp only [Bool.false_eq_true, ↓reduceIte]
      rw [wire1_idem]

end Fit
