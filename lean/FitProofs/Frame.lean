import FitModel.Decode
import FitProofs.Consume
/-
  The decoder program and the frame: success ⇒ exactly header + data + 2 bytes consumed.
-/
namespace Fit

def Outcome.success (o : Outcome) : Prop := o.err = none ∧ o.panic = false

instance (o : Outcome) : Decidable o.success := by unfold Outcome.success; exact inferInstance

/-- length of the frame the first bytes of a stream declare: header size + data size + 2 -/
def frameLen (data : Bytes) : Nat := (data.headD 0).toNat + leNat ((data.drop 4).take 4) + 2

theorem finalize_err (opts : Opts) (o : Outcome) : (finalize opts o).err = o.err ∧ (finalize opts o).panic = o.panic
    ∧ (finalize opts o).cleanEOF = o.cleanEOF := by
  unfold finalize
  split <;> simp

theorem fail_not_success (st : DecSt) (c : ErrClass) : ¬ (fail st c).success := by
  simp [fail, Outcome.success]

theorem headerCheck_ok (st st' : DecSt) (sb tmp : Bytes) (h : headerCheck st sb tmp = .ok st') :
    st'.hdr.dataSize = leNat ((tmp.drop 3).take 4) ∧ st'.hdr.size = st.hdr.size ∧
    st'.crc = Crc.update (Crc.update st.crc sb) tmp := by
  unfold headerCheck at h
  simp only at h
  split at h
  · cases h
  · split at h
    · cases h
    · split at h
      · cases h; exact ⟨rfl, rfl, rfl⟩
      · split at h
        · cases h; exact ⟨rfl, rfl, rfl⟩
        · split at h
          · cases h
          · cases h; exact ⟨rfl, rfl, rfl⟩

end Fit
namespace Fit

theorem FitCrcAux.update_append' (c : BitVec 16) (xs ys : List UInt8) :
    Crc.update c (xs ++ ys) = Crc.update (Crc.update c xs) ys := by
  simp [Crc.update, List.foldl_append]

theorem headD_take_one (l : Bytes) (h : 1 ≤ l.length) : (l.take 1).headD 0 = l.headD 0 := by
  cases l with
  | nil => simp at h
  | cons x xs => rfl

theorem drop3_take4 (l : Bytes) (n : Nat) (hn : 8 ≤ n) :
    (((l.drop 1).take (n - 1)).drop 3).take 4 = (l.drop 4).take 4 := by
  rw [List.drop_take, List.drop_drop, List.take_take]
  congr 1
  omega

theorem decodeHeader_success (st : DecSt) (cont : DecSt → HP) (s : SpecSt)
    (h : (runSpec (decodeHeader st cont) s).1.success) :
    ∃ st' size, (size = 12 ∨ size = 14) ∧ size ≤ s.rest.length ∧ size = (s.rest.headD 0).toNat ∧
      st'.hdr.dataSize = leNat ((s.rest.drop 4).take 4) ∧
      st'.crc = Crc.update st.crc (s.rest.take size) ∧
      headerCheck { st with hdr := { st.hdr with size := size } } (s.rest.take 1) ((s.rest.drop 1).take (size - 1)) = .ok st' ∧
      runSpec (decodeHeader st cont) s =
        runSpec (cont st') { s with rest := s.rest.drop size, taken := s.taken + size } := by
  unfold decodeHeader at h ⊢
  simp only [runSpec] at h ⊢
  by_cases h1 : 1 ≤ s.rest.length
  · simp only [h1, ↓reduceIte] at h ⊢
    rw [headD_take_one _ h1] at h ⊢
    generalize hsz : (s.rest.headD 0).toNat = size at h ⊢
    by_cases hs : size ≠ headerSizeCRC ∧ size ≠ headerSizeNoCRC
    · rw [if_pos hs] at h
      simp only [runSpec] at h
      exact absurd h (fail_not_success _ _)
    · rw [if_neg hs] at h ⊢
      simp only [runSpec] at h ⊢
      have hsz2 : size = 12 ∨ size = 14 := by
        simp only [headerSizeCRC, headerSizeNoCRC] at hs; omega
      by_cases h2 : size - 1 ≤ (s.rest.drop 1).length
      · simp only [h2, ↓reduceIte] at h ⊢
        cases hc : headerCheck { st with hdr := { st.hdr with size := size } } (s.rest.take 1)
            ((s.rest.drop 1).take (size - 1)) with
        | error e =>
          obtain ⟨c, st2⟩ := e
          simp only [hc, runSpec] at h
          exact absurd h (fail_not_success _ _)
        | ok st' =>
          simp only [hc] at h ⊢
          have hk := (headerCheck_ok _ _ _ _ hc).1
          rw [drop3_take4 _ _ (by omega)] at hk
          simp only [List.length_drop] at h2
          have hcrc := (headerCheck_ok _ _ _ _ hc).2.2
          have htk : s.rest.take size = s.rest.take 1 ++ (s.rest.drop 1).take (size - 1) := by
            have : size = 1 + (size - 1) := by omega
            rw [this, List.take_add]
            simp
          refine ⟨st', size, hsz2, by omega, rfl, hk, by rw [hcrc, htk, FitCrcAux.update_append'], hc, ?_⟩
          simp only [List.drop_drop]
          have e1 : 1 + (size - 1) = size := by omega
          have e2 : s.taken + 1 + (size - 1) = s.taken + size := by omega
          rw [e1, e2]
      · simp only [h2, ↓reduceIte] at h
        cases hst : s.stop <;> simp only [hst] at h <;> exact absurd h (fail_not_success _ _)
  · simp only [h1, ↓reduceIte] at h
    cases hst : s.stop <;> simp only [hst] at h
    · simp [Outcome.success, fail] at h
    · exact absurd h (fail_not_success _ _)

end Fit
namespace Fit

theorem toOutcome_not_success (e : ErrExit) : ¬ e.toOutcome.success := by
  unfold ErrExit.toOutcome
  cases e.err <;> simp [fail, panicOut, Outcome.success]

theorem checkCRC_success (st : DecSt) (s : SpecSt) (h : (runSpecT (checkCRC st) s).1.success) :
    (runSpecT (checkCRC st) s).2.taken = s.taken + 2 ∧ 2 ≤ s.rest.length ∧
    (runSpecT (checkCRC st) s).2.frameEnd = s.frameEnd ∧
    Crc.update st.crc (s.rest.take 2) = 0#16 := by
  have h2 : 2 ≤ s.rest.length := by
    unfold checkCRC at h
    simp only [runSpecT] at h
    by_cases h2 : 2 ≤ s.rest.length
    · exact h2
    · simp only [h2, ↓reduceIte] at h
      exact absurd h (fail_not_success _ _)
  refine ⟨?_, h2, (runSpecT_conserve (checkCRC st) s).2.2.1, ?_⟩
  · unfold checkCRC
    simp only [runSpecT, h2, ↓reduceIte]
  · unfold checkCRC at h
    simp only [runSpecT, h2, ↓reduceIte] at h
    by_cases hz : Crc.update st.crc (s.rest.take 2) = 0#16
    · exact hz
    · simp only [hz, ↓reduceIte] at h
      exact absurd h (fail_not_success _ _)

/-- the header phase when the header is accepted -/
theorem decodeHeader_run_ok (st st' : DecSt) (cont : DecSt → HP) (s : SpecSt) (size : Nat)
    (hsz : size = 12 ∨ size = 14) (hlen : size ≤ s.rest.length) (hsize : size = (s.rest.headD 0).toNat)
    (hc : headerCheck { st with hdr := { st.hdr with size := size } } (s.rest.take 1) ((s.rest.drop 1).take (size - 1)) = .ok st') :
    runSpec (decodeHeader st cont) s =
      runSpec (cont st') { s with rest := s.rest.drop size, taken := s.taken + size } := by
  unfold decodeHeader
  simp only [runSpec]
  have h1 : 1 ≤ s.rest.length := by omega
  simp only [h1, ↓reduceIte]
  rw [headD_take_one _ h1, ← hsize]
  have hs : ¬ (size ≠ headerSizeCRC ∧ size ≠ headerSizeNoCRC) := by
    simp only [headerSizeCRC, headerSizeNoCRC]; omega
  rw [if_neg hs]
  simp only [runSpec]
  have h2 : size - 1 ≤ (s.rest.drop 1).length := by simp only [List.length_drop]; omega
  simp only [h2, ↓reduceIte, hc, List.drop_drop]
  have e1 : 1 + (size - 1) = size := by omega
  have e2 : s.taken + 1 + (size - 1) = s.taken + size := by omega
  rw [e1, e2]

/-- If the decoder program (`Decode` = mode `full`, `CheckIntegrity` = mode `crcOnly`) succeeds from
    stream state `s`, it has consumed exactly the frame the stream's first bytes declare (header
    size + data size + 2), the header size is 12 or 14, and the data area ended 2 bytes earlier. -/
theorem prog_consumes_exactly (P : Profile) (m : Mode) (hm : m = .full ∨ m = .crcOnly)
    (g : Globals) (s : SpecSt)
    (hs : (runSpec (decodeProg P m g) s).1.success) :
    (runSpec (decodeProg P m g) s).2.taken = s.taken + frameLen s.rest ∧ 14 ≤ frameLen s.rest ∧
    (runSpec (decodeProg P m g) s).2.frameEnd + 2 = s.taken + frameLen s.rest := by
  unfold decodeProg at hs ⊢
  obtain ⟨st', size, hsz, hlen, hsize, hds, _, _, heq⟩ := decodeHeader_success _ _ _ hs
  rw [heq] at hs ⊢
  simp only at hs ⊢
  unfold frameLen
  rw [← hsize, ← hds]
  rcases hm with rfl | rfl
  · -- full
    simp only [runSpec] at hs ⊢
    have hd := runSpecD_conserve st'.hdr.dataSize
      (recordsProg P .full { st' with file := some { hdr := st'.hdr, fileId := zeroFileId P }, unkInit := true }) 0
      { rest := s.rest.drop size, stop := s.stop, taken := s.taken + size, frameEnd := s.taken + size + st'.hdr.dataSize }
    generalize runSpecD st'.hdr.dataSize
      (recordsProg P .full { st' with file := some { hdr := st'.hdr, fileId := zeroFileId P }, unkInit := true }) 0
      { rest := s.rest.drop size, stop := s.stop, taken := s.taken + size, frameEnd := s.taken + size + st'.hdr.dataSize } = r at hs hd ⊢
    obtain ⟨out, n, s'⟩ := r
    cases out with
    | inl e => exact absurd hs (toOutcome_not_success e)
    | inr x =>
      simp only at hs hd ⊢
      by_cases hn : n = st'.hdr.dataSize
      · simp only [hn, ↓reduceIte] at hs ⊢
        obtain ⟨h1, _, h2, _⟩ := checkCRC_success x s' hs
        rw [h1, h2]
        omega
      · simp only [hn, ↓reduceIte] at hs
        simp [panicOut, Outcome.success] at hs
  · -- crcOnly
    simp only [runSpec] at hs ⊢
    by_cases hl : st'.hdr.dataSize ≤ (s.rest.drop size).length
    · simp only [hl, ↓reduceIte] at hs ⊢
      obtain ⟨h1, _, h2, _⟩ := checkCRC_success _ _ hs
      rw [h1, h2]
      simp only
      omega
    · simp only [hl, ↓reduceIte] at hs
      cases s.stop <;> exact absurd hs (fail_not_success _ _)

end Fit

namespace Fit

/-! ### the clean-end flag -/

def notClean (o : Outcome) : Prop := o.cleanEOF = false

theorem checkCRC_notClean (st : DecSt) : (checkCRC st).All notClean := by
  unfold checkCRC
  refine ⟨fun n s => rfl, fun bs => ?_⟩
  simp only [TProg.All, notClean]
  split <;> rfl

theorem toOutcome_notClean (e : ErrExit) : notClean e.toOutcome := by
  unfold ErrExit.toOutcome notClean
  cases e.err <;> rfl

/-- Only a stream that ends (with EOF) before the first header byte gives the "clean end" answer
    (`errReadSize`); any stream with at least one byte, and any reader error, does not. -/
theorem cleanEOF_only_on_empty (P : Profile) (m : Mode) (g : Globals) (s : SpecSt)
    (h : (runSpec (decodeProg P m g) s).1.cleanEOF = true) : s.rest = [] ∧ s.stop = .eof := by
  by_cases h1 : 1 ≤ s.rest.length
  · exfalso
    have key : ∀ (p : HP), p.All notClean → ∀ s, ¬ (runSpec p s).1.cleanEOF = true := by
      intro p hp s hc
      have := HProg.All.run p hp s
      unfold notClean at this
      rw [this] at hc
      cases hc
    unfold decodeProg decodeHeader at h
    simp only [runSpec, h1, ↓reduceIte] at h
    refine key _ ?_ _ h
    split
    · exact rfl
    · refine ⟨fun n st => rfl, fun tmp => ?_⟩
      dsimp only
      split
      · exact rfl
      · cases m with
        | full => exact ⟨toOutcome_notClean, fun x => rfl, checkCRC_notClean⟩
        | headerOnly => exact rfl
        | fileIdOnly => exact ⟨toOutcome_notClean, fun x => rfl⟩
        | crcOnly => exact ⟨fun st => rfl, fun bs => checkCRC_notClean _⟩
  · unfold decodeProg decodeHeader at h
    simp only [runSpec, h1, ↓reduceIte] at h
    have hl : s.rest = [] := by
      cases hr : s.rest with
      | nil => rfl
      | cons _ _ => rw [hr] at h1; simp at h1
    refine ⟨hl, ?_⟩
    cases hst : s.stop with
    | eof => rfl
    | fault => rw [hst] at h; simp [fail] at h

end Fit

namespace Fit

theorem checkCRC_safe (st : DecSt) : (checkCRC st).Safe Outcome.success := by
  unfold checkCRC
  exact ⟨fun n s => fail_not_success _ _, fun bs => trivial⟩

/-- no failure path of the decoder (read failure, early exit of the record phase, the pre-CRC
    invariant) is reported as a success -/
theorem decodeProg_safe (P : Profile) (m : Mode) (g : Globals) : (decodeProg P m g).Safe Outcome.success := by
  unfold decodeProg decodeHeader
  refine ⟨fun n s => ?_, fun sb => ?_⟩
  · cases s <;> simp [fail, Outcome.success]
  · dsimp only
    split
    · trivial
    · refine ⟨fun n s => fail_not_success _ _, fun tmp => ?_⟩
      dsimp only
      split
      · trivial
      · cases m with
        | full => exact ⟨toOutcome_not_success, fun x => by simp [panicOut, Outcome.success], checkCRC_safe⟩
        | headerOnly => trivial
        | fileIdOnly => exact toOutcome_not_success
        | crcOnly => exact ⟨fun st => fail_not_success _ _, fun bs => checkCRC_safe _⟩

/-- **Whatever follows a frame is irrelevant.** A decode that succeeds on a stream gives the same
    outcome, and consumes the same bytes, when anything is appended to the stream. -/
theorem prog_extension (P : Profile) (m : Mode) (g : Globals) (s : SpecSt) (extra : Bytes)
    (h : (runSpec (decodeProg P m g) s).1.success) :
    runSpec (decodeProg P m g) (s.extend extra) =
      ((runSpec (decodeProg P m g) s).1, (runSpec (decodeProg P m g) s).2.extend extra) :=
  runSpec_extend _ (decodeProg_safe P m g) s extra h

end Fit
