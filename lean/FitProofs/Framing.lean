import FitModel.Items
import FitProofs.Consume
import FitProofs.Crc
import FitProofs.Codec
/-
  Framing: the byte-level record parser of `Decode.lean`, run on the serialisation of a list of
  items, performs `stepItem` on each item.
-/
namespace Fit
open Fit.Crc

/-- the early exit an outcome of the item machine corresponds to -/
def exitOf (o : Outcome) : ErrExit := ⟨if o.panic then none else o.err, o.st⟩

/-- what `readBuf` does when the bytes are there -/
theorem run_rd (limit : Nat) (st : DecSt) (k : Nat) (cont : Bytes → DecSt → DP) (n : Nat) (s : SpecSt)
    (bs tail : Bytes) (hs : s.rest = bs ++ tail) (hk : bs.length = k) (hl : n + k ≤ limit) :
    runSpecD limit (rd st k cont) n s =
      runSpecD limit (cont bs { st with n := st.n + k, crc := update st.crc bs }) (n + k)
        { s with rest := tail, taken := s.taken + k } := by
  unfold rd
  simp only [runSpecD]
  have h1 : k ≤ limit - n ∧ k ≤ s.rest.length := by
    rw [hs, List.length_append]; omega
  rw [if_pos h1, hs]
  have e1 : (bs ++ tail).take k = bs := by rw [← hk]; exact List.take_left' rfl
  have e2 : (bs ++ tail).drop k = tail := by rw [← hk]; exact List.drop_left' rfl
  rw [e1, e2]

/-- lengths of the field byte strings match the definition's sizes -/
def FieldsFit : List FieldDef → List Bytes → Prop
  | [], [] => True
  | fd :: fds, raw :: raws => raw.length = fd.size ∧ FieldsFit fds raws
  | _, _ => False

def DevFit : List DevDesc → List Bytes → Prop
  | [], [] => True
  | d :: ds, raw :: raws => raw.length = d.size ∧ DevFit ds raws
  | _, _ => False

theorem flatten_length_fit (fds : List FieldDef) (raws : List Bytes) (h : FieldsFit fds raws) :
    raws.flatten.length = (fds.map (·.size)).sum := by
  induction fds generalizing raws with
  | nil => cases raws with
    | nil => rfl
    | cons _ _ => cases h
  | cons fd fds ih =>
    cases raws with
    | nil => cases h
    | cons raw raws =>
      simp only [List.flatten_cons, List.length_append, List.map_cons, List.sum_cons]
      rw [h.1, ih raws h.2]

/-- **field loop.** -/
theorem run_parseFields (P : Profile) (dm : DefMsg) (known : Bool) (limit : Nat)
    (cont : Option Msg → DecSt → DP)
    (fds : List FieldDef) (raws : List Bytes) (hfit : FieldsFit fds raws)
    (m : Option Msg) (st : DecSt) (n : Nat) (s : SpecSt) (tail : Bytes)
    (hs : s.rest = raws.flatten ++ tail) (hl : n + raws.flatten.length ≤ limit) :
    match stepFields P dm known fds raws m st with
    | .ok m' st' =>
      runSpecD limit (parseFields P dm known fds m st cont) n s =
        runSpecD limit (cont m' st') (n + raws.flatten.length)
          { s with rest := tail, taken := s.taken + raws.flatten.length }
    | .fail o => (runSpecD limit (parseFields P dm known fds m st cont) n s).1 = .inl (exitOf o) := by
  induction fds generalizing raws m st n s with
  | nil =>
    cases raws with
    | nil =>
      simp only [stepFields, parseFields, List.flatten_nil, List.length_nil, Nat.add_zero]
      simp only [List.flatten_nil, List.nil_append] at hs
      cases s; simp_all
    | cons _ _ => cases hfit
  | cons fd fds ih =>
    cases raws with
    | nil => cases hfit
    | cons raw raws =>
      obtain ⟨hlen, hfit'⟩ := hfit
      simp only [List.flatten_cons, List.append_assoc, List.length_append] at hs hl
      unfold stepFields parseFields
      dsimp only
      generalize (if (P.getField dm.global fd.num).isNone = true ∧ known = true
        then { st with unkF := bump (dm.global, fd.num) st.unkF } else st) = st1
      rw [run_rd limit st1 fd.size _ n s raw (raws.flatten ++ tail) hs hlen (by omega)]
      cases hr : applyField P dm known fd raw m (DecSt.ts { st1 with n := st1.n + fd.size, crc := update st1.crc raw }) with
      | err =>
        simp only [runSpecD, dfail, exitOf, fail]
        rfl
      | panic =>
        simp only [runSpecD, dpanic, exitOf, panicOut]
        rfl
      | ok m' ts' =>
        simp only
        have := ih raws hfit' m' (DecSt.setTs { st1 with n := st1.n + fd.size, crc := update st1.crc raw } ts')
          (n + fd.size) { s with rest := raws.flatten ++ tail, taken := s.taken + fd.size } rfl (by omega)
        generalize stepFields P dm known fds raws m'
          (DecSt.setTs { st1 with n := st1.n + fd.size, crc := update st1.crc raw } ts') = r at this ⊢
        cases r with
        | ok m2 st2 =>
          simp only at this ⊢
          rw [this]
          simp only [List.flatten_cons, List.length_append, hlen, Nat.add_assoc]
        | fail o => exact this

end Fit

namespace Fit
open Fit.Crc

theorem run_skipDev (limit : Nat) (cont : DecSt → DP) (ds : List DevDesc) (raws : List Bytes)
    (hfit : DevFit ds raws) (st : DecSt) (n : Nat) (s : SpecSt) (tail : Bytes)
    (hs : s.rest = raws.flatten ++ tail) (hl : n + raws.flatten.length ≤ limit) :
    runSpecD limit (skipDev ds st cont) n s =
      runSpecD limit (cont (stepDev ds raws st)) (n + raws.flatten.length)
        { s with rest := tail, taken := s.taken + raws.flatten.length } := by
  induction ds generalizing raws st n s with
  | nil =>
    cases raws with
    | nil =>
      simp only [stepDev, skipDev, List.flatten_nil, List.length_nil, Nat.add_zero]
      simp only [List.flatten_nil, List.nil_append] at hs
      cases s; simp_all
    | cons _ _ => cases hfit
  | cons d ds ih =>
    cases raws with
    | nil => cases hfit
    | cons raw raws =>
      obtain ⟨hlen, hfit'⟩ := hfit
      simp only [List.flatten_cons, List.append_assoc, List.length_append] at hs hl
      unfold stepDev skipDev
      rw [run_rd limit st d.size _ n s raw (raws.flatten ++ tail) hs hlen (by omega)]
      rw [ih raws hfit' _ (n + d.size) _ rfl (by omega)]
      simp only [List.flatten_cons, List.length_append, hlen, Nat.add_assoc]

/-- the continuation `decodeFileData` passes to `parseData`: add the message, go on with `K` -/
def addThen (P : Profile) (K : DecSt → DP) : Option Msg → DecSt → DP :=
  fun m st => match addMsg P m st with
    | none => dpanic st
    | some st => K st

/-- what `parseDataMessage` decides before the field loop -/
inductive DataPre
  | stop (panic : Bool) (st : DecSt)
  | go (dm : DefMsg) (m : Option Msg) (st : DecSt)

def dataPre (P : Profile) (hb : Nat) (compressed : Bool) (st : DecSt) : DataPre :=
  let localT := if compressed then (hb / 32) % 4 else hb % 16
  let useTs : Bool := compressed && decide (st.timestamp ≠ 0)
  match st.defs.getD localT none with
  | none => .stop false st
  | some dm =>
    let known := P.known dm.global
    let ctor := match P.msg? dm.global with
      | some pm => if pm.hasCtor then some (Msg.mk dm.global pm.invalid) else none
      | none => none
    if known ∧ ctor.isNone then .stop true st
    else
      let m : Option Msg := if known then ctor else none
      let st := if !known then { st with unkM := bump dm.global st.unkM } else st
      if !useTs then .go dm m st
      else
        let off := hb % 32
        let ts : Nat := tsAdvance st.timestamp st.lastOff off
        let st := { st with timestamp := ts, lastOff := off }
        match P.getField dm.global fieldNumTimeStamp with
        | none => .go dm m st
        | some pf =>
          match m, P.msg? dm.global with
          | some msg, some pm =>
            match pm.layout[pf.sindex]? with
            | some .time => .go dm (some { msg with vals := setAt msg.vals pf.sindex (.t (Int.ofNat ts) 0 0) }) st
            | _ => .stop true st
          | _, _ => .stop true st

theorem parseData_pre (P : Profile) (hb : Nat) (compressed : Bool) (st : DecSt) (cont : Option Msg → DecSt → DP) :
    parseData P hb compressed st cont =
      match dataPre P hb compressed st with
      | .stop false st' => dfail st' .other
      | .stop true st' => dpanic st'
      | .go dm m st' => parseFields P dm (P.known dm.global) dm.fields m st' fun m st =>
          skipDev dm.dev st fun st => cont m st := by
  unfold parseData dataPre
  dsimp only
  cases hd : st.defs.getD (if compressed = true then hb / 32 % 4 else hb % 16) none with
  | none => rfl
  | some dm =>
    dsimp only
    cases hmsg : P.msg? dm.global with
    | none =>
      cases hk : P.known dm.global <;> cases hc : compressed <;> by_cases hts : st.timestamp = 0 <;>
        cases c3 : P.getField dm.global fieldNumTimeStamp <;> simp [hts, hk] <;> rfl
    | some pm =>
      cases hct : pm.hasCtor <;> cases hk : P.known dm.global <;> cases hc : compressed <;>
        by_cases hts : st.timestamp = 0 <;>
        cases c3 : P.getField dm.global fieldNumTimeStamp <;> simp [hts, hk, hct] <;>
        (first
          | rfl
          | (split <;> first | rfl | (simp_all; done) | (simp_all; rfl)))

theorem stepData_pre (P : Profile) (hb : Nat) (compressed : Bool) (fields dev : List Bytes) (st : DecSt) :
    stepData P hb compressed fields dev st =
      match dataPre P hb compressed st with
      | .stop false st' => .stop (fail st' .other)
      | .stop true st' => .stop (panicOut st')
      | .go dm m st' =>
        match stepFields P dm (P.known dm.global) dm.fields fields m st' with
        | .fail o => .stop o
        | .ok m st =>
          match addMsg P m (stepDev dm.dev dev st) with
          | none => .stop (panicOut (stepDev dm.dev dev st))
          | some st => .ok st := by
  unfold stepData dataPre
  dsimp only
  cases hd : st.defs.getD (if compressed = true then hb / 32 % 4 else hb % 16) none with
  | none => rfl
  | some dm =>
    dsimp only
    cases hmsg : P.msg? dm.global with
    | none =>
      cases hk : P.known dm.global <;> cases hc : compressed <;> by_cases hts : st.timestamp = 0 <;>
        cases c3 : P.getField dm.global fieldNumTimeStamp <;> simp [hts, hk] <;> rfl
    | some pm =>
      cases hct : pm.hasCtor <;> cases hk : P.known dm.global <;> cases hc : compressed <;>
        by_cases hts : st.timestamp = 0 <;>
        cases c3 : P.getField dm.global fieldNumTimeStamp <;> simp [hts, hk, hct] <;>
        (first
          | rfl
          | (split <;> first | rfl | (simp_all; done) | (simp_all; rfl)))

end Fit

namespace Fit
open Fit.Crc

theorem dataPre_go (P : Profile) (hb : Nat) (compressed : Bool) (st : DecSt) (dm : DefMsg) (m : Option Msg)
    (st' : DecSt) (h : dataPre P hb compressed st = .go dm m st') :
    st.defs.getD (if compressed then (hb / 32) % 4 else hb % 16) none = some dm := by
  unfold dataPre at h
  dsimp only at h
  cases hd : st.defs.getD (if compressed = true then hb / 32 % 4 else hb % 16) none with
  | none => rw [hd] at h; cases h
  | some dm0 =>
    rw [hd] at h
    dsimp only at h
    have : dm0 = dm := by
      repeat' (split at h)
      all_goals first | (cases h; rfl) | cases h
    rw [this]

/-- **one data record** (after its header byte): the byte parser does what `stepData` does -/
theorem run_parseData (P : Profile) (hb : Nat) (compressed : Bool) (limit : Nat) (K : DecSt → DP)
    (st : DecSt) (fields dev : List Bytes) (n : Nat) (s : SpecSt) (tail : Bytes)
    (hfit : ∀ dm, st.defs.getD (if compressed then (hb / 32) % 4 else hb % 16) none = some dm →
      FieldsFit dm.fields fields ∧ DevFit dm.dev dev)
    (hs : s.rest = (fields.flatten ++ dev.flatten) ++ tail)
    (hl : n + (fields.flatten ++ dev.flatten).length ≤ limit) :
    match stepData P hb compressed fields dev st with
    | .ok st' =>
      runSpecD limit (parseData P hb compressed st (addThen P K)) n s =
        runSpecD limit (K st') (n + (fields.flatten ++ dev.flatten).length)
          { s with rest := tail, taken := s.taken + (fields.flatten ++ dev.flatten).length }
    | .stop o => (runSpecD limit (parseData P hb compressed st (addThen P K)) n s).1 = .inl (exitOf o) := by
  rw [parseData_pre, stepData_pre]
  cases hp : dataPre P hb compressed st with
  | stop p st' =>
    cases p <;> simp only [runSpecD, dfail, dpanic, exitOf, fail, panicOut] <;> rfl
  | go dm m st1 =>
    obtain ⟨hf, hd⟩ := hfit dm (dataPre_go P hb compressed st dm m st1 hp)
    simp only
    simp only [List.append_assoc, List.length_append] at hs hl
    have h1 := run_parseFields P dm (P.known dm.global) limit
      (fun m st => skipDev dm.dev st fun st => addThen P K m st)
      dm.fields fields hf m st1 n s (dev.flatten ++ tail) hs (by omega)
    generalize stepFields P dm (P.known dm.global) dm.fields fields m st1 = r at h1 ⊢
    cases r with
    | fail o => exact h1
    | ok m2 st2 =>
      simp only at h1 ⊢
      rw [h1, run_skipDev limit _ dm.dev dev hd st2 _ _ tail rfl (by omega)]
      unfold addThen
      cases ha : addMsg P m2 (stepDev dm.dev dev st2) with
      | none =>
        simp only [runSpecD, dpanic, exitOf, panicOut]
        rfl
      | some st3 =>
        simp only [List.length_append, Nat.add_assoc]

end Fit

namespace Fit
open Fit.Crc

/-! ### definition records -/

theorem u8_toNat_lt (n : Nat) (h : n < 256) : (u8 n).toNat = n := by
  simp [u8, Nat.mod_eq_of_lt h]

def FieldDef.small (f : FieldDef) : Prop := f.num < 256 ∧ f.size < 256 ∧ f.btype < 256
def DevDesc.small (f : DevDesc) : Prop := f.num < 256 ∧ f.size < 256 ∧ f.idx < 256

theorem parse_serializeFieldDefs (fds : List FieldDef) (h : ∀ f ∈ fds, f.small) :
    parseFieldDefs (serializeFieldDefs fds) fds.length = fds := by
  induction fds with
  | nil => rfl
  | cons f fs ih =>
    obtain ⟨h1, h2, h3⟩ := h f (List.mem_cons_self ..)
    simp only [serializeFieldDefs, List.length_cons, parseFieldDefs, u8_toNat_lt _ h1, u8_toNat_lt _ h2,
      u8_toNat_lt _ h3]
    rw [ih (fun f hf => h f (List.mem_cons_of_mem _ hf))]

theorem parse_serializeDevDescs (ds : List DevDesc) (h : ∀ f ∈ ds, f.small) :
    parseDevDescs (serializeDevDescs ds) ds.length = ds := by
  induction ds with
  | nil => rfl
  | cons f fs ih =>
    obtain ⟨h1, h2, h3⟩ := h f (List.mem_cons_self ..)
    simp only [serializeDevDescs, List.length_cons, parseDevDescs, u8_toNat_lt _ h1, u8_toNat_lt _ h2,
      u8_toNat_lt _ h3]
    rw [ih (fun f hf => h f (List.mem_cons_of_mem _ hf))]

theorem serializeFieldDefs_length (fds : List FieldDef) : (serializeFieldDefs fds).length = 3 * fds.length := by
  induction fds with
  | nil => rfl
  | cons f fs ih => simp only [serializeFieldDefs, List.length_cons, ih]; omega

theorem serializeDevDescs_length (ds : List DevDesc) : (serializeDevDescs ds).length = 3 * ds.length := by
  induction ds with
  | nil => rfl
  | cons f fs ih => simp only [serializeDevDescs, List.length_cons, ih]; omega

/-- a definition item that can be written as bytes -/
structure DefnWF (d : DefMsg) (devBit : Bool) : Prop where
  localT : d.localT < 16
  global : d.global < 65536
  nfields : d.fields.length < 256
  fields : ∀ f ∈ d.fields, f.small
  ndev : devBit = true → d.dev.length < 256
  dev : devBit = true → ∀ f ∈ d.dev, f.small

/-- header byte of a definition record -/
def defHeader (d : DefMsg) (devBit : Bool) : Nat := 0x40 + (if devBit then 0x20 else 0) + d.localT

theorem defHeader_bits (d : DefMsg) (devBit : Bool) (h : d.localT < 16) :
    defHeader d devBit % 16 = d.localT ∧ hasBit (defHeader d devBit) devDataMask = devBit ∧
    hasBit (defHeader d devBit) compressedHeaderMask = false ∧
    hasBit (defHeader d devBit) mesgDefinitionMask = true ∧ defHeader d devBit < 256 := by
  unfold defHeader hasBit devDataMask compressedHeaderMask mesgDefinitionMask
  cases devBit <;> simp <;> omega

end Fit

namespace Fit
open Fit.Crc

/-- the bytes of a definition record after its header byte -/
def defBody (d : DefMsg) (devBit : Bool) : Bytes :=
  [0, archByte d.arch] ++ d.arch.enc 2 d.global ++ [u8 d.fields.length] ++ serializeFieldDefs d.fields
    ++ (if devBit then u8 d.dev.length :: serializeDevDescs d.dev else [])

theorem serializeItem_defn (d : DefMsg) (devBit : Bool) :
    serializeItem (.defn d devBit) = u8 (defHeader d devBit) :: defBody d devBit := by
  simp [serializeItem, defBody, defHeader]

theorem DecSt.eat_eat (st : DecSt) (a b : Bytes) : (st.eat a).eat b = st.eat (a ++ b) := by
  simp only [DecSt.eat, List.length_append, update_append, Nat.add_assoc]

theorem DecSt.eat_rd (st : DecSt) (k : Nat) (bs : Bytes) (h : bs.length = k) :
    ({ st with n := st.n + k, crc := update st.crc bs } : DecSt) = st.eat bs := by
  simp only [DecSt.eat, h]

/-- the part of `parseDefinitionMessage` after the reserved byte, the architecture byte and the
    global message number have been read -/
def defRest (P : Profile) (hb localT : Nat) (arch : Endian) (global : Nat) (st : DecSt)
    (cont : DefMsg → DecSt → DP) : DP :=
  if global = mesgNumInvalid then dfail st .format
  else rd st 1 fun nf st =>
    let nfields := (nf.headD 0).toNat
    if nfields = 0 ∧ !hasBit hb devDataMask then cont ⟨localT, arch, global, [], []⟩ st
    else rd st (3 * nfields) fun fb st =>
      let fds := parseFieldDefs fb nfields
      if !(fds.all (validateFieldDef P global)) then dfail st .other
      else if hasBit hb devDataMask then
        rd st 1 fun nd st =>
          let ndev := (nd.headD 0).toNat
          rd st (3 * ndev) fun db st =>
            cont ⟨localT, arch, global, fds, parseDevDescs db ndev⟩ st
      else cont ⟨localT, arch, global, fds, []⟩ st

/-- the first four bytes of a definition body -/
theorem run_defPrefix (P : Profile) (limit hb : Nat) (cont : DefMsg → DecSt → DP)
    (arch : Endian) (global : Nat) (hg : global < 65536) (st : DecSt) (n : Nat) (s : SpecSt) (tail : Bytes)
    (hs : s.rest = ([0, archByte arch] ++ arch.enc 2 global) ++ tail) (hl : n + 4 ≤ limit) :
    runSpecD limit (parseDefinition P hb st cont) n s =
      runSpecD limit (defRest P hb (hb % 16) arch global (st.eat ([0, archByte arch] ++ arch.enc 2 global)) cont)
        (n + 4) { s with rest := tail, taken := s.taken + 4 } := by
  unfold parseDefinition
  dsimp only
  rw [run_rd limit st 1 _ n s [0] ([archByte arch] ++ arch.enc 2 global ++ tail) (by rw [hs]; simp) rfl (by omega)]
  rw [run_rd limit _ 1 _ (n + 1) _ [archByte arch] (arch.enc 2 global ++ tail) (by simp) rfl (by omega)]
  dsimp only
  have harch : ¬ (([archByte arch].headD 0).toNat > 1) := by cases arch <;> decide
  rw [if_neg harch]
  have harch2 : (if ([archByte arch].headD 0).toNat = 0 then Endian.le else Endian.be) = arch := by
    cases arch <;> rfl
  rw [harch2]
  rw [run_rd limit _ 2 _ (n + 1 + 1) _ (arch.enc 2 global) tail (by simp) (enc_length _ _ _) (by omega)]
  dsimp only
  have hglob : arch.dec (arch.enc 2 global) = global := by
    rw [dec_enc]; exact Nat.mod_eq_of_lt (by omega)
  rw [hglob]
  unfold defRest
  have est : ({ st with n := st.n + 1 + 1 + 2, crc := update (update (update st.crc [0]) [archByte arch]) (arch.enc 2 global) } : DecSt) = st.eat ([0, archByte arch] ++ arch.enc 2 global) := by
    simp only [DecSt.eat, List.length_append, List.length_cons, List.length_nil, enc_length, update_append]
    rfl
  rw [est]

end Fit

namespace Fit
open Fit.Crc

theorem eat_rd' (st : DecSt) (k : Nat) (bs : Bytes) (h : bs.length = k) :
    ({ st with n := st.n + k, crc := update st.crc bs } : DecSt) = st.eat bs := by
  simp only [DecSt.eat, h]

/-- the rest of a definition body (from the field count on) -/
theorem run_defRest (P : Profile) (limit : Nat) (cont : DefMsg → DecSt → DP)
    (d : DefMsg) (devBit : Bool) (hwf : DefnWF d devBit) (st : DecSt) (n : Nat) (s : SpecSt) (tail : Bytes)
    (hs : s.rest = ([u8 d.fields.length] ++ serializeFieldDefs d.fields ++
      (if devBit then u8 d.dev.length :: serializeDevDescs d.dev else [])) ++ tail)
    (hl : n + ([u8 d.fields.length] ++ serializeFieldDefs d.fields ++
      (if devBit then u8 d.dev.length :: serializeDevDescs d.dev else [])).length ≤ limit) :
    if d.global = mesgNumInvalid then
      ∃ e, (runSpecD limit (defRest P (defHeader d devBit) d.localT d.arch d.global st cont) n s).1 = .inl e ∧
        e.err = some .format
    else if !(d.fields.all (validateFieldDef P d.global)) then
      ∃ e, (runSpecD limit (defRest P (defHeader d devBit) d.localT d.arch d.global st cont) n s).1 = .inl e ∧
        e.err = some .other
    else
      runSpecD limit (defRest P (defHeader d devBit) d.localT d.arch d.global st cont) n s =
        runSpecD limit (cont (if devBit then d else { d with dev := [] })
          (st.eat ([u8 d.fields.length] ++ serializeFieldDefs d.fields ++
            (if devBit then u8 d.dev.length :: serializeDevDescs d.dev else []))))
          (n + ([u8 d.fields.length] ++ serializeFieldDefs d.fields ++
            (if devBit then u8 d.dev.length :: serializeDevDescs d.dev else [])).length)
          { s with rest := tail, taken := s.taken + ([u8 d.fields.length] ++ serializeFieldDefs d.fields ++
            (if devBit then u8 d.dev.length :: serializeDevDescs d.dev else [])).length } := by
  obtain ⟨_, hdev, _, _, _⟩ := defHeader_bits d devBit hwf.localT
  unfold defRest
  by_cases hg : d.global = mesgNumInvalid
  · rw [if_pos hg, if_pos hg]
    exact ⟨_, rfl, rfl⟩
  · rw [if_neg hg, if_neg hg]
    have hnf : ([u8 d.fields.length].headD 0).toNat = d.fields.length := u8_toNat_lt _ hwf.nfields
    cases devBit with
    | false =>
      simp only [Bool.false_eq_true, ↓reduceIte, List.append_nil] at hs hl hdev ⊢
      simp only [List.length_append, List.length_cons, List.length_nil, serializeFieldDefs_length] at hl
      rw [run_rd limit st 1 _ n s [u8 d.fields.length] (serializeFieldDefs d.fields ++ tail)
        (by rw [hs]; simp) rfl (by omega)]
      rw [eat_rd' _ 1 [u8 d.fields.length] rfl]
      try dsimp only
      rw [hnf, hdev]
      by_cases hz : d.fields.length = 0
      · have hf0 : d.fields = [] := List.eq_nil_of_length_eq_zero hz
        simp only [hz, Bool.not_false, and_self, ↓reduceIte, hf0, List.all_nil, Bool.not_true, Bool.false_eq_true,
          serializeFieldDefs, List.append_nil, List.length_nil, List.length_cons, Nat.zero_add]
        have e2 : ({ localT := d.localT, arch := d.arch, global := d.global, fields := [], dev := [] } : DefMsg) =
            { d with dev := [] } := by cases d; simp_all
        rw [e2]
        simp
      · have hz' : ¬ (d.fields.length = 0 ∧ (!false) = true) := fun h => hz h.1
        rw [if_neg hz']
        rw [run_rd limit _ (3 * d.fields.length) _ (n + 1) _ (serializeFieldDefs d.fields) tail rfl
          (serializeFieldDefs_length _) (by omega)]
        rw [eat_rd' _ (3 * d.fields.length) (serializeFieldDefs d.fields) (serializeFieldDefs_length _), DecSt.eat_eat]
        try dsimp only
        rw [parse_serializeFieldDefs d.fields hwf.fields]
        by_cases hall : (!(d.fields.all (validateFieldDef P d.global))) = true
        · rw [if_pos hall, if_pos hall]
          exact ⟨_, rfl, rfl⟩
        · rw [if_neg hall, if_neg hall]
          simp only [Bool.false_eq_true, ↓reduceIte, List.length_append, List.length_cons, List.length_nil,
            serializeFieldDefs_length, Nat.add_assoc]
          simp [Nat.add_assoc, Nat.add_comm]
    | true =>
      simp only [↓reduceIte] at hs hl hdev ⊢
      simp only [List.length_append, List.length_cons, List.length_nil, serializeFieldDefs_length,
        serializeDevDescs_length] at hl
      rw [run_rd limit st 1 _ n s [u8 d.fields.length]
        (serializeFieldDefs d.fields ++ (u8 d.dev.length :: serializeDevDescs d.dev) ++ tail)
        (by rw [hs]; simp) rfl (by omega)]
      rw [eat_rd' _ 1 [u8 d.fields.length] rfl]
      try dsimp only
      rw [hnf, hdev]
      have hz' : ¬ (d.fields.length = 0 ∧ (!true) = true) := fun h => by simp at h
      rw [if_neg hz']
      rw [run_rd limit _ (3 * d.fields.length) _ (n + 1) _ (serializeFieldDefs d.fields)
        ((u8 d.dev.length :: serializeDevDescs d.dev) ++ tail) (by simp)
        (serializeFieldDefs_length _) (by omega)]
      rw [eat_rd' _ (3 * d.fields.length) (serializeFieldDefs d.fields) (serializeFieldDefs_length _), DecSt.eat_eat]
      try dsimp only
      rw [parse_serializeFieldDefs d.fields hwf.fields]
      by_cases hall : (!(d.fields.all (validateFieldDef P d.global))) = true
      · rw [if_pos hall, if_pos hall]
        exact ⟨_, rfl, rfl⟩
      · rw [if_neg hall, if_neg hall]
        simp only [↓reduceIte]
        rw [run_rd limit _ 1 _ _ _ [u8 d.dev.length] (serializeDevDescs d.dev ++ tail) (by simp) rfl (by omega)]
        rw [eat_rd' _ 1 [u8 d.dev.length] rfl, DecSt.eat_eat]
        try dsimp only
        have hnd : ([u8 d.dev.length].headD 0).toNat = d.dev.length := u8_toNat_lt _ (hwf.ndev rfl)
        rw [hnd]
        rw [run_rd limit _ (3 * d.dev.length) _ _ _ (serializeDevDescs d.dev) tail rfl
          (serializeDevDescs_length _) (by omega)]
        rw [eat_rd' _ (3 * d.dev.length) (serializeDevDescs d.dev) (serializeDevDescs_length _), DecSt.eat_eat]
        rw [parse_serializeDevDescs d.dev (hwf.dev rfl)]
        simp only [List.length_append, List.length_cons, List.length_nil, serializeFieldDefs_length,
          serializeDevDescs_length, List.append_assoc, Nat.add_assoc, List.cons_append, List.nil_append]
        have ed : ({ localT := d.localT, arch := d.arch, global := d.global, fields := d.fields, dev := d.dev } : DefMsg) = d := rfl
        rw [ed]
        have e1 : 1 + (1 + (3 * d.dev.length + 3 * d.fields.length)) = 2 + (3 * d.dev.length + 3 * d.fields.length) := by omega
        first | rfl | (simp only [Nat.add_assoc, Nat.add_comm, Nat.add_left_comm]; rw [e1]) | (rw [e1]) | (simp [Nat.add_assoc, Nat.add_comm, Nat.add_left_comm]; rw [e1])

end Fit

namespace Fit
open Fit.Crc

/-! ### byte counter of the item machine -/

theorem stepFields_n (P : Profile) (dm : DefMsg) (known : Bool) (fds : List FieldDef) (raws : List Bytes)
    (hfit : FieldsFit fds raws) (m : Option Msg) (st : DecSt) (m' : Option Msg) (st' : DecSt)
    (h : stepFields P dm known fds raws m st = .ok m' st') :
    st'.n = st.n + raws.flatten.length ∧ st'.defs = st.defs := by
  induction fds generalizing raws m st with
  | nil =>
    cases raws with
    | nil => simp only [stepFields] at h; cases h; simp
    | cons _ _ => cases hfit
  | cons fd fds ih =>
    cases raws with
    | nil => cases hfit
    | cons raw raws =>
      obtain ⟨hlen, hfit'⟩ := hfit
      unfold stepFields at h
      dsimp only at h
      split at h
      · cases h
      · cases h
      · rename_i m2 ts2 _
        have := ih raws hfit' m2 _ h
        simp only [DecSt.setTs] at this
        obtain ⟨h1, h2⟩ := this
        constructor
        · rw [h1]; simp only [List.flatten_cons, List.length_append, hlen]
          split <;> (try simp only) <;> omega
        · rw [h2]; split <;> rfl

theorem stepDev_n (ds : List DevDesc) (raws : List Bytes) (hfit : DevFit ds raws) (st : DecSt) :
    (stepDev ds raws st).n = st.n + raws.flatten.length ∧ (stepDev ds raws st).defs = st.defs ∧
    (stepDev ds raws st).file = st.file ∧ (stepDev ds raws st).glob = st.glob := by
  induction ds generalizing raws st with
  | nil =>
    cases raws with
    | nil => simp [stepDev]
    | cons _ _ => cases hfit
  | cons d ds ih =>
    cases raws with
    | nil => cases hfit
    | cons raw raws =>
      obtain ⟨hlen, hfit'⟩ := hfit
      unfold stepDev
      obtain ⟨h1, h2, h3, h4⟩ := ih raws hfit' { st with n := st.n + d.size, crc := update st.crc raw }
      refine ⟨?_, h2, h3, h4⟩
      rw [h1]; simp only [List.flatten_cons, List.length_append, hlen]; omega

theorem dataPre_go_n (P : Profile) (hb : Nat) (compressed : Bool) (st : DecSt) (dm : DefMsg) (m : Option Msg)
    (st' : DecSt) (h : dataPre P hb compressed st = .go dm m st') : st'.n = st.n ∧ st'.defs = st.defs := by
  unfold dataPre at h
  dsimp only at h
  cases hd : st.defs.getD (if compressed = true then hb / 32 % 4 else hb % 16) none with
  | none => rw [hd] at h; cases h
  | some dm0 =>
    rw [hd] at h
    dsimp only at h
    repeat' (split at h)
    all_goals first | (cases h; exact ⟨rfl, rfl⟩) | cases h

theorem addMsg_defs (P : Profile) (m : Option Msg) (st st' : DecSt) (h : addMsg P m st = some st') :
    st'.n = st.n ∧ st'.defs = st.defs := by
  unfold addMsg at h
  split at h
  · cases h; exact ⟨rfl, rfl⟩
  · split at h
    · cases h
    · split at h
      · cases h
      · cases h; exact ⟨rfl, rfl⟩

theorem stepData_n (P : Profile) (hb : Nat) (compressed : Bool) (fields dev : List Bytes) (st st' : DecSt)
    (hfit : ∀ dm, st.defs.getD (if compressed then (hb / 32) % 4 else hb % 16) none = some dm →
      FieldsFit dm.fields fields ∧ DevFit dm.dev dev)
    (h : stepData P hb compressed fields dev st = .ok st') :
    st'.n = st.n + (fields.flatten ++ dev.flatten).length ∧ st'.defs = st.defs := by
  rw [stepData_pre] at h
  cases hp : dataPre P hb compressed st with
  | stop p st1 => rw [hp] at h; cases p <;> cases h
  | go dm m st1 =>
    rw [hp] at h
    simp only at h
    obtain ⟨hf, hd⟩ := hfit dm (dataPre_go P hb compressed st dm m st1 hp)
    obtain ⟨hn1, hd1⟩ := dataPre_go_n P hb compressed st dm m st1 hp
    cases hsf : stepFields P dm (P.known dm.global) dm.fields fields m st1 with
    | fail o => rw [hsf] at h; cases h
    | ok m2 st2 =>
      rw [hsf] at h
      simp only at h
      obtain ⟨hn2, hd2⟩ := stepFields_n P dm _ dm.fields fields hf m st1 m2 st2 hsf
      obtain ⟨hn3, hd3, _, _⟩ := stepDev_n dm.dev dev hd st2
      cases ha : addMsg P m2 (stepDev dm.dev dev st2) with
      | none => rw [ha] at h; cases h
      | some st3 =>
        rw [ha] at h
        cases h
        obtain ⟨hn4, hd4⟩ := addMsg_defs P m2 _ _ ha
        refine ⟨?_, by rw [hd4, hd3, hd2, hd1]⟩
        rw [hn4, hn3, hn2, hn1, List.length_append]; omega

end Fit

namespace Fit
open Fit.Crc

/-! ### the record loop over items -/

/-- an item that can be written as bytes and whose payload fits the live definition -/
def ItemOK (st : DecSt) : Item → Prop
  | .defn d devBit => DefnWF d devBit
  | .data l fs dev => l < 16 ∧ ∀ dm, st.defs.getD l none = some dm → FieldsFit dm.fields fs ∧ DevFit dm.dev dev
  | .cdata l off fs dev => l < 4 ∧ off < 32 ∧
      ∀ dm, st.defs.getD l none = some dm → FieldsFit dm.fields fs ∧ DevFit dm.dev dev

/-- every item is fine in the state the previous items leave -/
def ItemsFit (P : Profile) : DecSt → List Item → Prop
  | _, [] => True
  | st, it :: its => ItemOK st it ∧ ∀ st', stepItem P st it = .ok st' → ItemsFit P st' its

theorem data_header_bits (l : Nat) (h : l < 16) :
    hasBit l compressedHeaderMask = false ∧ hasBit l mesgDefinitionMask = false ∧ l % 16 = l ∧ (u8 l).toNat = l := by
  refine ⟨?_, ?_, Nat.mod_eq_of_lt h, u8_toNat_lt _ (by omega)⟩ <;>
    (simp only [hasBit, compressedHeaderMask, mesgDefinitionMask]; simp; omega)

theorem cdata_header_bits (l off : Nat) (hl : l < 4) (ho : off < 32) :
    hasBit (0x80 + l * 32 + off) compressedHeaderMask = true ∧ (0x80 + l * 32 + off) / 32 % 4 = l ∧
    (u8 (0x80 + l * 32 + off)).toNat = 0x80 + l * 32 + off := by
  refine ⟨?_, by omega, u8_toNat_lt _ (by omega)⟩
  simp only [hasBit, compressedHeaderMask]; simp; omega

/-- the state after one accepted item: counter advanced by the item's length -/
theorem stepItem_n (P : Profile) (st st' : DecSt) (it : Item) (hok : ItemOK st it)
    (h : stepItem P st it = .ok st') : st'.n = st.n + (serializeItem it).length := by
  cases it with
  | defn d devBit =>
    unfold stepItem at h
    simp only at h
    split at h
    · cases h
    · split at h
      · cases h
      · cases h; simp [DecSt.eat]
  | data l fs dev =>
    unfold stepItem at h
    obtain ⟨hl, hfit⟩ := hok
    have := (stepData_n P l false fs dev (st.eat [u8 l]) st' (by
      intro dm hdm
      simp only [Bool.false_eq_true, ↓reduceIte, DecSt.eat, Nat.mod_eq_of_lt hl] at hdm
      exact hfit dm hdm) h).1
    rw [this]
    simp [DecSt.eat, serializeItem]; omega
  | cdata l off fs dev =>
    unfold stepItem at h
    obtain ⟨hl, ho, hfit⟩ := hok
    obtain ⟨_, hlt, _⟩ := cdata_header_bits l off hl ho
    have := (stepData_n P (0x80 + l * 32 + off) true fs dev (st.eat [u8 (0x80 + l * 32 + off)]) st' (by
      intro dm hdm
      simp only [↓reduceIte, DecSt.eat, hlt] at hdm
      exact hfit dm hdm) h).1
    rw [this]
    simp [DecSt.eat, serializeItem]; omega

end Fit

namespace Fit
open Fit.Crc

theorem decodeFileData_succ (P : Profile) (limit fuel : Nat) (st : DecSt) (cont : DecSt → DP) (h : st.n < limit) :
    decodeFileData P limit (fuel + 1) st cont =
      rd st 1 fun hbs st =>
        let hb := (hbs.headD 0).toNat
        if hasBit hb compressedHeaderMask then
          parseData P hb true st (addThen P fun st => decodeFileData P limit fuel st cont)
        else if hasBit hb mesgDefinitionMask then
          parseDefinition P hb st fun dm st =>
            decodeFileData P limit fuel { st with defs := setAt st.defs dm.localT (some dm) } cont
        else
          parseData P hb false st (addThen P fun st => decodeFileData P limit fuel st cont) := by
  rw [decodeFileData]
  rw [if_pos h]
  rfl

/-- **one record of the loop** -/
theorem run_item (P : Profile) (limit fuel : Nat) (cont : DecSt → DP) (st : DecSt) (n : Nat) (s : SpecSt)
    (tail : Bytes) (it : Item) (hok : ItemOK st it)
    (hs : s.rest = serializeItem it ++ tail) (hl : n + (serializeItem it).length ≤ limit) (hn : st.n = n) :
    match stepItem P st it with
    | .ok st' =>
      runSpecD limit (decodeFileData P limit (fuel + 1) st cont) n s =
        runSpecD limit (decodeFileData P limit fuel st' cont) (n + (serializeItem it).length)
          { s with rest := tail, taken := s.taken + (serializeItem it).length }
    | .stop o =>
      ∃ e, (runSpecD limit (decodeFileData P limit (fuel + 1) st cont) n s).1 = .inl e ∧ e.err = (exitOf o).err := by
  cases it with
  | data l fs dev =>
    obtain ⟨hl16, hfit⟩ := hok
    obtain ⟨hc, hd, hm, hu⟩ := data_header_bits l hl16
    have hlen : (serializeItem (.data l fs dev)).length = 1 + (fs.flatten ++ dev.flatten).length := by
      simp [serializeItem]; omega
    rw [hlen] at hl ⊢
    rw [decodeFileData_succ P limit fuel st cont (by omega)]
    rw [run_rd limit st 1 _ n s [u8 l] ((fs.flatten ++ dev.flatten) ++ tail) (by rw [hs]; simp [serializeItem]) rfl (by omega)]
    rw [eat_rd' st 1 [u8 l] rfl]
    dsimp only
    have hh : ([u8 l].headD 0).toNat = l := hu
    rw [hh, hc, hd]
    simp only [Bool.false_eq_true, ↓reduceIte]
    have key := run_parseData P l false limit (fun st => decodeFileData P limit fuel st cont) (st.eat [u8 l]) fs dev
      (n + 1) { s with rest := (fs.flatten ++ dev.flatten) ++ tail, taken := s.taken + 1 } tail
      (by
        intro dm hdm
        simp only [Bool.false_eq_true, ↓reduceIte, DecSt.eat, hm] at hdm
        exact hfit dm hdm) rfl (by omega)
    simp only [stepItem]
    generalize stepData P l false fs dev (st.eat [u8 l]) = r at key ⊢
    cases r with
    | ok st' =>
      simp only at key ⊢
      rw [key]
      simp only [Nat.add_assoc]
    | stop o => exact ⟨_, key, rfl⟩
  | cdata l off fs dev =>
    obtain ⟨hl4, ho, hfit⟩ := hok
    obtain ⟨hc, hlt, hu⟩ := cdata_header_bits l off hl4 ho
    have hlen : (serializeItem (.cdata l off fs dev)).length = 1 + (fs.flatten ++ dev.flatten).length := by
      simp [serializeItem]; omega
    rw [hlen] at hl ⊢
    rw [decodeFileData_succ P limit fuel st cont (by omega)]
    rw [run_rd limit st 1 _ n s [u8 (0x80 + l * 32 + off)] ((fs.flatten ++ dev.flatten) ++ tail)
      (by rw [hs]; simp [serializeItem]) rfl (by omega)]
    rw [eat_rd' st 1 [u8 (0x80 + l * 32 + off)] rfl]
    dsimp only
    have hh : ([u8 (0x80 + l * 32 + off)].headD 0).toNat = 0x80 + l * 32 + off := hu
    rw [hh, hc]
    simp only [↓reduceIte]
    have key := run_parseData P (0x80 + l * 32 + off) true limit (fun st => decodeFileData P limit fuel st cont)
      (st.eat [u8 (0x80 + l * 32 + off)]) fs dev
      (n + 1) { s with rest := (fs.flatten ++ dev.flatten) ++ tail, taken := s.taken + 1 } tail
      (by
        intro dm hdm
        simp only [↓reduceIte, DecSt.eat, hlt] at hdm
        exact hfit dm hdm) rfl (by omega)
    simp only [stepItem]
    generalize stepData P (0x80 + l * 32 + off) true fs dev (st.eat [u8 (0x80 + l * 32 + off)]) = r at key ⊢
    cases r with
    | ok st' =>
      simp only at key ⊢
      rw [key]
      simp only [Nat.add_assoc]
    | stop o => exact ⟨_, key, rfl⟩
  | defn d devBit =>
    have hwf : DefnWF d devBit := hok
    obtain ⟨hb16, hdevb, hcb, hdb, hlt⟩ := defHeader_bits d devBit hwf.localT
    rw [serializeItem_defn] at hs hl ⊢
    simp only [List.length_cons] at hl ⊢
    rw [decodeFileData_succ P limit fuel st cont (by omega)]
    rw [run_rd limit st 1 _ n s [u8 (defHeader d devBit)] (defBody d devBit ++ tail) (by rw [hs]; simp) rfl (by omega)]
    rw [eat_rd' st 1 [u8 (defHeader d devBit)] rfl]
    dsimp only
    have hh : ([u8 (defHeader d devBit)].headD 0).toNat = defHeader d devBit := u8_toNat_lt _ hlt
    rw [hh, hcb, hdb]
    simp only [Bool.false_eq_true, ↓reduceIte]
    -- prefix, then the rest
    have hbody : defBody d devBit = ([0, archByte d.arch] ++ d.arch.enc 2 d.global) ++
        ([u8 d.fields.length] ++ serializeFieldDefs d.fields ++
          (if devBit then u8 d.dev.length :: serializeDevDescs d.dev else [])) := by
      simp [defBody]
    have hplen : ([0, archByte d.arch] ++ d.arch.enc 2 d.global).length = 4 := by simp [enc_length]
    have hblen : (defBody d devBit).length = 4 + ([u8 d.fields.length] ++ serializeFieldDefs d.fields ++
          (if devBit then u8 d.dev.length :: serializeDevDescs d.dev else [])).length := by
      rw [hbody, List.length_append, hplen]
    rw [run_defPrefix P limit _ _ d.arch d.global hwf.global _ (n + 1) _
      (([u8 d.fields.length] ++ serializeFieldDefs d.fields ++
          (if devBit then u8 d.dev.length :: serializeDevDescs d.dev else [])) ++ tail)
      (by simp only [hbody, List.append_assoc]) (by omega)]
    rw [hb16, DecSt.eat_eat]
    have key := run_defRest P limit (fun dm st =>
        decodeFileData P limit fuel { st with defs := setAt st.defs dm.localT (some dm) } cont) d devBit hwf
      (st.eat ([u8 (defHeader d devBit)] ++ ([0, archByte d.arch] ++ d.arch.enc 2 d.global))) (n + 1 + 4)
      { s with rest := ([u8 d.fields.length] ++ serializeFieldDefs d.fields ++
          (if devBit then u8 d.dev.length :: serializeDevDescs d.dev else [])) ++ tail, taken := s.taken + 1 + 4 }
      tail rfl (by omega)
    simp only [stepItem, serializeItem_defn]
    by_cases hg : d.global = mesgNumInvalid
    · rw [if_pos hg] at key ⊢
      obtain ⟨e, he1, he2⟩ := key
      exact ⟨e, he1, by rw [he2]; rfl⟩
    · rw [if_neg hg] at key ⊢
      by_cases hall : (!(d.fields.all (validateFieldDef P d.global))) = true
      · rw [if_pos hall] at key ⊢
        obtain ⟨e, he1, he2⟩ := key
        exact ⟨e, he1, by rw [he2]; rfl⟩
      · rw [if_neg hall] at key ⊢
        simp only
        rw [key, DecSt.eat_eat]
        have e1 : [u8 (defHeader d devBit)] ++ ([0, archByte d.arch] ++ d.arch.enc 2 d.global) ++
            ([u8 d.fields.length] ++ serializeFieldDefs d.fields ++
              (if devBit then u8 d.dev.length :: serializeDevDescs d.dev else [])) =
            u8 (defHeader d devBit) :: defBody d devBit := by
          rw [hbody]; simp
        rw [e1]
        have e2 : (if devBit = true then d else { d with dev := [] }).localT = d.localT := by
          cases devBit <;> rfl
        rw [e2]
        have e3 : ((st.eat (u8 (defHeader d devBit) :: defBody d devBit)).defs) = st.defs := rfl
        rw [e3, hblen]
        simp only [Nat.add_assoc]
        have ea : ∀ X : Nat, 1 + (4 + X) = 4 + (X + 1) := by intro X; omega
        rw [ea]

end Fit

namespace Fit
open Fit.Crc

theorem serialize_cons (it : Item) (its : List Item) : serialize (it :: its) = serializeItem it ++ serialize its := by
  simp [serialize]

/-- **Framing.** Running the byte-level record loop on the serialisation of a list of items (each
    fitting the definitions live when it is reached) does exactly what the item machine does: it
    arrives, with the same decoder state, at the loop over whatever follows — or stops with the
    same error class. -/
theorem run_items (P : Profile) (limit : Nat) (cont : DecSt → DP) (its : List Item) (fuel : Nat)
    (st : DecSt) (n : Nat) (s : SpecSt) (tail : Bytes) (hfit : ItemsFit P st its)
    (hs : s.rest = serialize its ++ tail) (hl : n + (serialize its).length ≤ limit) (hn : st.n = n) :
    match stepItems P st its with
    | .ok st' =>
      runSpecD limit (decodeFileData P limit (fuel + its.length) st cont) n s =
        runSpecD limit (decodeFileData P limit fuel st' cont) (n + (serialize its).length)
          { s with rest := tail, taken := s.taken + (serialize its).length } ∧ st'.n = n + (serialize its).length
    | .stop o =>
      ∃ e, (runSpecD limit (decodeFileData P limit (fuel + its.length) st cont) n s).1 = .inl e ∧
        e.err = (exitOf o).err := by
  induction its generalizing st n s with
  | nil =>
    simp only [stepItems, serialize, List.map_nil, List.flatten_nil, List.length_nil, Nat.add_zero]
    simp only [serialize, List.map_nil, List.flatten_nil, List.nil_append] at hs
    refine ⟨?_, hn⟩
    cases s; simp_all
  | cons it its ih =>
    obtain ⟨hok, hrest⟩ := hfit
    rw [serialize_cons] at hs hl ⊢
    simp only [List.append_assoc, List.length_append] at hs hl ⊢
    have e : fuel + (it :: its).length = (fuel + its.length) + 1 := by simp only [List.length_cons]; omega
    rw [e]
    have key := run_item P limit (fuel + its.length) cont st n s (serialize its ++ tail) it hok hs (by omega) hn
    unfold stepItems
    cases hstep : stepItem P st it with
    | stop o =>
      rw [hstep] at key
      exact key
    | ok st1 =>
      rw [hstep] at key
      simp only at key ⊢
      have hn1 := stepItem_n P st st1 it hok hstep
      have := ih st1 (n + (serializeItem it).length)
        { s with rest := serialize its ++ tail, taken := s.taken + (serializeItem it).length }
        (hrest st1 hstep) rfl (by omega) (by omega)
      generalize stepItems P st1 its = r at this ⊢
      cases r with
      | stop o =>
        obtain ⟨e, he1, he2⟩ := this
        exact ⟨e, by rw [key]; exact he1, he2⟩
      | ok st2 =>
        simp only at this ⊢
        rw [key, this.1]
        exact ⟨by simp only [Nat.add_assoc], by rw [this.2]; omega⟩

end Fit

namespace Fit
open Fit.Crc

/-! ### well-formedness of an item list in terms of the definition table alone -/

/-- the definition table after an item (when the machine accepts it) -/
def defsAfter (P : Profile) (defs : List (Option DefMsg)) : Item → List (Option DefMsg)
  | .defn d devBit =>
    if d.global = mesgNumInvalid ∨ (!(d.fields.all (validateFieldDef P d.global))) = true then defs
    else setAt defs d.localT (some (if devBit then d else { d with dev := [] }))
  | _ => defs

def ItemOKD (defs : List (Option DefMsg)) : Item → Prop
  | .defn d devBit => DefnWF d devBit
  | .data l fs dev => l < 16 ∧ ∀ dm, defs.getD l none = some dm → FieldsFit dm.fields fs ∧ DevFit dm.dev dev
  | .cdata l off fs dev => l < 4 ∧ off < 32 ∧ ∀ dm, defs.getD l none = some dm → FieldsFit dm.fields fs ∧ DevFit dm.dev dev

/-- every item can be written as bytes and every data item fits the definition that is live for
    its local type at that point of the list -/
def ItemsFitD (P : Profile) : List (Option DefMsg) → List Item → Prop
  | _, [] => True
  | defs, it :: its => ItemOKD defs it ∧ ItemsFitD P (defsAfter P defs it) its

theorem ItemOKD.toOK (st : DecSt) (it : Item) (h : ItemOKD st.defs it) : ItemOK st it := by
  cases it <;> exact h

theorem stepItem_defs (P : Profile) (st st' : DecSt) (it : Item) (hok : ItemOK st it)
    (h : stepItem P st it = .ok st') : st'.defs = defsAfter P st.defs it := by
  cases it with
  | defn d devBit =>
    unfold stepItem at h
    simp only at h
    simp only [defsAfter]
    split at h
    · cases h
    · rename_i hg
      split at h
      · cases h
      · rename_i hall
        cases h
        have : ¬ (d.global = mesgNumInvalid ∨ (!(d.fields.all (validateFieldDef P d.global))) = true) := by
          intro hh; rcases hh with hh | hh
          · exact hg hh
          · exact hall hh
        simp only [if_neg this]
        rfl
  | data l fs dev =>
    simp only [stepItem] at h
    obtain ⟨hl, hfit⟩ := hok
    have := (stepData_n P l false fs dev (st.eat [u8 l]) st' (by
      intro dm hdm
      simp only [Bool.false_eq_true, ↓reduceIte, DecSt.eat, Nat.mod_eq_of_lt hl] at hdm
      exact hfit dm hdm) h).2
    rw [this]; rfl
  | cdata l off fs dev =>
    simp only [stepItem] at h
    obtain ⟨hl, ho, hfit⟩ := hok
    obtain ⟨_, hlt, _⟩ := cdata_header_bits l off hl ho
    have := (stepData_n P (0x80 + l * 32 + off) true fs dev (st.eat [u8 (0x80 + l * 32 + off)]) st' (by
      intro dm hdm
      simp only [↓reduceIte, DecSt.eat, hlt] at hdm
      exact hfit dm hdm) h).2
    rw [this]; rfl

theorem ItemsFitD.toFit (P : Profile) (its : List Item) (st : DecSt) (h : ItemsFitD P st.defs its) :
    ItemsFit P st its := by
  induction its generalizing st with
  | nil => trivial
  | cons it its ih =>
    obtain ⟨hok, hrest⟩ := h
    refine ⟨hok.toOK, ?_⟩
    intro st' hstep
    apply ih
    rw [stepItem_defs P st st' it hok.toOK hstep]
    exact hrest

end Fit
