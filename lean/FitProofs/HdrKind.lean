import FitModel.Items
import FitProofs.Crc
import FitProofs.Codec
/-
  The three header layouts a FIT reader accepts, and a whole frame under each of them.
-/
namespace Fit
open Fit.Crc

/-- the three header layouts a FIT reader accepts -/
inductive HdrKind
  | noCrc     -- 12 bytes
  | zeroCrc   -- 14 bytes, CRC field 0 ("not computed")
  | withCrc   -- 14 bytes, CRC of the first 12
deriving DecidableEq, Repr

def HdrKind.size : HdrKind → Nat
  | .noCrc => 12
  | _ => 14

theorem HdrKind.size_cases (k : HdrKind) : k.size = 12 ∨ k.size = 14 := by cases k <;> simp [HdrKind.size]

/-- the 12 header bytes before the header CRC -/
def hdr12 (k : HdrKind) (proto profile len : Nat) : Bytes :=
  [u8 k.size, u8 proto] ++ natLE 2 profile ++ natLE 4 len ++ fitTag

/-- what follows them in the header: nothing, a zero CRC field, or their CRC -/
def hdrExtra (k : HdrKind) (proto profile len : Nat) : Bytes :=
  match k with
  | .noCrc => []
  | .zeroCrc => [0, 0]
  | .withCrc => [lo (checksum (hdr12 .withCrc proto profile len)), hi (checksum (hdr12 .withCrc proto profile len))]

/-- the header bytes of a frame -/
def frameHdr (k : HdrKind) (proto profile len : Nat) : Bytes :=
  hdr12 k proto profile len ++ hdrExtra k proto profile len

theorem frameHdr_length (k : HdrKind) (proto profile len : Nat) : (frameHdr k proto profile len).length = k.size := by
  cases k <;> simp [frameHdr, hdr12, hdrExtra, natLE_length, fitTag, HdrKind.size]

/-- header of any of the three kinds + record bytes + file CRC (over header and records) -/
def frameBytesK (k : HdrKind) (proto profile : Nat) (records : Bytes) : Bytes :=
  frameHdr k proto profile records.length ++ records ++
    [lo (checksum (frameHdr k proto profile records.length ++ records)),
     hi (checksum (frameHdr k proto profile records.length ++ records))]

/-- the model's `frameBytes` (what `Encode` lays out for a 14-byte header) is the `withCrc` kind -/
theorem frameBytes_eq (proto profile : Nat) (records : Bytes) :
    frameBytes proto profile records = frameBytesK .withCrc proto profile records := by
  simp [frameBytes, frameBytesK, frameHdr, hdr12, hdrExtra, HdrKind.size, u8]

/-- the kind of header `Encode` writes for a File whose header says `size` -/
def kindOfSize (size : Nat) : HdrKind := if size = headerSizeCRC then .withCrc else .noCrc

theorem kindOfSize_size (size : Nat) (h : size = headerSizeNoCRC ∨ size = headerSizeCRC) : (kindOfSize size).size = size := by
  rcases h with h | h <;> subst h <;> rfl

end Fit
