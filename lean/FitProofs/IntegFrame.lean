import FitProofs.WholeFile
import FitProofs.DecodeAccepts
/-!
  `CheckIntegrity` accepts every frame: a header of one of the three layouts declaring the number of
  record bytes that follow, any record bytes at all, and the CRC of both — whatever comes after.
  (For `Decode` the records must also parse; for the integrity pass they are only hashed.)
-/
namespace Fit
open Fit.Crc

theorem integ_accepts_frame (P : Profile) (o : Opts) (k : HdrKind) (g : Globals) (proto profile : Nat) (recs tail : Bytes)
    (stop : Stop) (hp : proto < 256) (hp2 : proto / 16 ≤ protoMajorMax) (hlen : recs.length < 4294967296) :
    (decodeSpec P o .crcOnly g (frameBytesK k proto profile recs ++ tail) stop).1.success := by
  generalize hfc : checksum (frameHdr k proto profile recs.length ++ recs) = fc
  have hsplit : frameBytesK k proto profile recs ++ tail =
      u8 k.size :: (hdrTail k proto profile recs.length ++ (recs ++ ([lo fc, hi fc] ++ tail))) := by
    rw [frameBytes_split, hfc]; simp
  rw [hsplit]
  unfold decodeSpec
  simp only
  unfold decodeProg
  rw [frame_header_step' P .crcOnly k g proto profile recs.length _ stop hp hp2]
  have hds : (afterHeader k g proto profile recs.length).hdr.dataSize = recs.length := Nat.mod_eq_of_lt hlen
  simp only [runSpec, hds]
  have hle : recs.length ≤ (recs ++ ([lo fc, hi fc] ++ tail)).length := by simp only [List.length_append]; omega
  simp only [hle, ↓reduceIte, List.take_left', List.drop_left']
  unfold checkCRC
  simp only [runSpecT]
  have h2 : 2 ≤ ([lo fc, hi fc] ++ tail).length := by simp
  simp only [h2, ↓reduceIte]
  have htk : ([lo fc, hi fc] ++ tail).take 2 = [lo fc, hi fc] := rfl
  rw [htk]
  have hc : update (update (afterHeader k g proto profile recs.length).crc recs) [lo fc, hi fc] = 0#16 := by
    show update (update (checksum (frameHdr k proto profile recs.length)) recs) [lo fc, hi fc] = 0#16
    unfold checksum
    rw [← update_append, ← update_append]
    have := Props.C14.residue_from 0#16 (frameHdr k proto profile recs.length ++ recs)
    unfold checksum at hfc
    rw [hfc] at this
    rw [List.append_assoc] at this
    exact this
  simp only [hc, ↓reduceIte]
  exact finalize_okOut_success o _

end Fit
