import FitModel.Basic
namespace Fit

theorem getD_setAt_ne {α} (l : List α) (i j : Nat) (v d : α) (h : i ≠ j) :
    (setAt l i v).getD j d = l.getD j d := by
  induction l generalizing i j with
  | nil => simp [setAt]
  | cons x xs ih =>
    cases i with
    | zero =>
      cases j with
      | zero => exact absurd rfl h
      | succ j => simp [setAt]
    | succ i =>
      cases j with
      | zero => simp [setAt]
      | succ j =>
        simp only [setAt, List.getD_cons_succ]
        exact ih i j (by omega)

theorem getD_setAt_eq {α} (l : List α) (i : Nat) (v d : α) (h : i < l.length) :
    (setAt l i v).getD i d = v := by
  induction l generalizing i with
  | nil => simp at h
  | cons x xs ih =>
    cases i with
    | zero => simp [setAt]
    | succ i =>
      simp only [setAt, List.getD_cons_succ]
      exact ih i (by simpa using h)

theorem length_setAt {α} (l : List α) (i : Nat) (v : α) : (setAt l i v).length = l.length := by
  induction l generalizing i with
  | nil => simp [setAt]
  | cons x xs ih => cases i <;> simp [setAt, ih]

end Fit
