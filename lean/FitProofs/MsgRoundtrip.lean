import FitProofs.EncodeItems
/-
  C06, message level: the field loop of the decoder, run on the parts the encoder wrote for a
  message, rebuilds the message — given that every written field round-trips (supplied per field
  kind by the theorems of FitProps/C06.lean).
-/
namespace Fit

/-- field `pf` with value `v` goes through `writeField` / `applyField` unchanged -/
def FieldRT (P : Profile) (dm : DefMsg) (pf : PField) (k : SlotKind) (v : Val) : Prop :=
  ∀ (msg : Msg) (ts : TsRef) (part : Bytes), writeField dm.arch pf k v = .ok part →
    ∃ ts', applyField P dm true (fdOf pf) part (some msg) ts =
      .ok (some { msg with vals := setAt msg.vals pf.sindex v }) ts'

theorem getElem?_setAt_same {α} (l : List α) (i : Nat) (v : α) (h : i < l.length) : (setAt l i v)[i]? = some v := by
  induction l generalizing i with
  | nil => simp at h
  | cons x xs ih =>
    cases i with
    | zero => simp [setAt]
    | succ i => simp only [setAt, List.getElem?_cons_succ]; exact ih i (by simpa using h)

theorem getElem?_setAt_other {α} (l : List α) (i j : Nat) (v : α) (h : i ≠ j) : (setAt l i v)[j]? = l[j]? := by
  induction l generalizing i j with
  | nil => simp [setAt]
  | cons x xs ih =>
    cases i with
    | zero =>
      cases j with
      | zero => exact absurd rfl h
      | succ j => simp [setAt]
    | succ i =>
      cases j with
      | zero => simp [setAt]
      | succ j => simp only [setAt, List.getElem?_cons_succ]; exact ih i j (by omega)

theorem length_setAt' {α} (l : List α) (i : Nat) (v : α) : (setAt l i v).length = l.length := by
  induction l generalizing i with
  | nil => simp [setAt]
  | cons x xs ih => cases i <;> simp [setAt, ih]

/-- **the field loop rebuilds the values**: starting from any message of the right length, after
    the loop every encoded position holds the source message's value and every other position is
    untouched -/
theorem stepFields_rebuilds (P : Profile) (dm : DefMsg) (pm : PMsg) (src : Msg)
    (fs : List PField) (parts : List Bytes)
    (hparts : (fs.map fun pf =>
      match pm.layout[pf.sindex]?, src.vals[pf.sindex]? with
      | some k, some v => writeField dm.arch pf k v
      | _, _ => .error .panic) = parts.map .ok)
    (hrt : ∀ pf ∈ fs, ∀ k v, pm.layout[pf.sindex]? = some k → src.vals[pf.sindex]? = some v → FieldRT P dm pf k v)
    (hgf : ∀ pf ∈ fs, P.getField dm.global pf.num = some pf)
    (msg : Msg) (st : DecSt) (hlen : msg.vals.length = src.vals.length) :
    ∃ msg' st', stepFields P dm true (fs.map fdOf) parts (some msg) st = .ok (some msg') st' ∧
      msg'.num = msg.num ∧ msg'.vals.length = src.vals.length ∧
      (∀ i, (∃ pf ∈ fs, pf.sindex = i) → msg'.vals[i]? = src.vals[i]?) ∧
      (∀ i, (¬ ∃ pf ∈ fs, pf.sindex = i) → msg'.vals[i]? = msg.vals[i]?) := by
  induction fs generalizing parts msg st with
  | nil =>
    cases parts with
    | nil => exact ⟨msg, st, rfl, rfl, hlen, (fun i h => by obtain ⟨_, h, _⟩ := h; cases h), (fun i _ => rfl)⟩
    | cons _ _ => simp at hparts
  | cons pf fs ih =>
    cases parts with
    | nil => simp at hparts
    | cons part parts =>
      simp only [List.map_cons, List.cons.injEq] at hparts
      obtain ⟨hp1, hp2⟩ := hparts
      cases hk : pm.layout[pf.sindex]? with
      | none => rw [hk] at hp1; cases hp1
      | some k =>
        cases hv : src.vals[pf.sindex]? with
        | none => rw [hk, hv] at hp1; cases hp1
        | some v =>
          rw [hk, hv] at hp1
          simp only at hp1
          have hsi : pf.sindex < src.vals.length := by
            cases h : src.vals[pf.sindex]? with
            | none => rw [h] at hv; cases hv
            | some _ => exact (List.getElem?_eq_some_iff.mp h).1
          simp only [List.map_cons]
          unfold stepFields
          have hg := hgf pf (List.mem_cons_self ..)
          have hnone : ¬ ((P.getField dm.global (fdOf pf).num).isNone = true ∧ true = true) := by
            simp [fdOf, hg]
          rw [if_neg hnone]
          dsimp only
          obtain ⟨ts', hap⟩ := hrt pf (List.mem_cons_self ..) k v hk hv msg
            (DecSt.ts { st with n := st.n + (fdOf pf).size, crc := Crc.update st.crc part }) part hp1
          rw [hap]
          simp only
          have hlen2 : ({ msg with vals := setAt msg.vals pf.sindex v } : Msg).vals.length = src.vals.length := by
            simp only [length_setAt', hlen]
          obtain ⟨msg', st', h1, h2, h3, h4, h5⟩ := ih parts hp2
            (fun p hp => hrt p (List.mem_cons_of_mem _ hp)) (fun p hp => hgf p (List.mem_cons_of_mem _ hp))
            { msg with vals := setAt msg.vals pf.sindex v } _ hlen2
          refine ⟨msg', st', h1, h2, h3, ?_, ?_⟩
          · intro i hi
            obtain ⟨p, hp, hpi⟩ := hi
            by_cases hin : ∃ q ∈ fs, q.sindex = i
            · exact h4 i hin
            · -- only the head field writes position i
              rw [h5 i hin]
              cases hp with
              | head =>
                subst hpi
                simp only
                rw [getElem?_setAt_same _ _ _ (by rw [hlen]; exact hsi), hv]
              | tail _ hp' => exact absurd ⟨p, hp', hpi⟩ hin
          · intro i hi
            have hin : ¬ ∃ q ∈ fs, q.sindex = i := fun ⟨q, hq, hqi⟩ => hi ⟨q, List.mem_cons_of_mem _ hq, hqi⟩
            rw [h5 i hin]
            have hne : pf.sindex ≠ i := fun e => hi ⟨pf, List.mem_cons_self .., e⟩
            simp only
            exact getElem?_setAt_other _ _ _ _ hne

end Fit

namespace Fit

theorem fieldBySindex_sindex (pm : PMsg) (i : Nat) (pf : PField) (h : fieldBySindex pm i = some pf) : pf.sindex = i := by
  have := List.find?_some h
  simpa using this

/-- the fields `getEncodeMesgDef` selects: exactly one lookup entry per valid struct position -/
theorem encodeMesgDef_spec_aux (pm : PMsg) (m : Msg) (idx : List Nat) (fs : List PField)
    (h : idx.foldr (fun i acc =>
      match acc with
      | none => none
      | some fs =>
        let v := m.vals.getD i (.u 0)
        if isInvalidVal pm i v then some fs
        else match fieldBySindex pm i with
          | some pf => some (pf :: fs)
          | none => none) (some []) = some fs) :
    (∀ pf ∈ fs, pf.sindex ∈ idx ∧ isInvalidVal pm pf.sindex (m.vals.getD pf.sindex (.u 0)) = false) ∧
    (∀ i ∈ idx, isInvalidVal pm i (m.vals.getD i (.u 0)) = false → ∃ pf ∈ fs, pf.sindex = i) := by
  induction idx generalizing fs with
  | nil => simp only [List.foldr_nil, Option.some.injEq] at h; subst h; simp
  | cons i idx ih =>
    simp only [List.foldr_cons] at h
    generalize hacc : idx.foldr _ (some []) = acc at h
    cases acc with
    | none => cases h
    | some fs0 =>
      obtain ⟨h1, h2⟩ := ih fs0 hacc
      simp only at h
      by_cases hiv : isInvalidVal pm i (m.vals.getD i (.u 0)) = true
      · rw [if_pos hiv] at h
        cases h
        refine ⟨fun pf hp => ⟨List.mem_cons_of_mem _ (h1 pf hp).1, (h1 pf hp).2⟩, ?_⟩
        intro j hj hjv
        cases hj with
        | head => rw [hiv] at hjv; cases hjv
        | tail _ hj' => exact h2 j hj' hjv
      · rw [if_neg hiv] at h
        cases hf : fieldBySindex pm i with
        | none => rw [hf] at h; cases h
        | some pf =>
          rw [hf] at h
          cases h
          have hsi := fieldBySindex_sindex pm i pf hf
          refine ⟨?_, ?_⟩
          · intro p hp
            cases hp with
            | head => rw [hsi]; exact ⟨List.mem_cons_self .., by simpa using hiv⟩
            | tail _ hp' => exact ⟨List.mem_cons_of_mem _ (h1 p hp').1, (h1 p hp').2⟩
          · intro j hj hjv
            cases hj with
            | head => exact ⟨pf, List.mem_cons_self .., hsi⟩
            | tail _ hj' =>
              obtain ⟨p, hp, hpj⟩ := h2 j hj' hjv
              exact ⟨p, List.mem_cons_of_mem _ hp, hpj⟩

theorem encodeMesgDef_spec (pm : PMsg) (m : Msg) (fs : List PField) (h : encodeMesgDef pm m = some fs) :
    (∀ pf ∈ fs, pf.sindex < m.vals.length ∧ isInvalidVal pm pf.sindex (m.vals.getD pf.sindex (.u 0)) = false) ∧
    (∀ i, i < m.vals.length → isInvalidVal pm i (m.vals.getD i (.u 0)) = false → ∃ pf ∈ fs, pf.sindex = i) := by
  unfold encodeMesgDef at h
  obtain ⟨h1, h2⟩ := encodeMesgDef_spec_aux pm m (List.range m.vals.length) fs h
  refine ⟨fun pf hp => ⟨by simpa using (h1 pf hp).1, (h1 pf hp).2⟩, fun i hi hv => h2 i (by simpa using hi) hv⟩

theorem find?_distinct (l : List PField) (pf : PField) (hd : allDistinct (l.map (·.num)) = true) (hm : pf ∈ l) :
    l.find? (·.num == pf.num) = some pf := by
  induction l with
  | nil => cases hm
  | cons x xs ih =>
    simp only [List.map_cons, allDistinct, Bool.and_eq_true, Bool.not_eq_true'] at hd
    cases hm with
    | head => simp
    | tail _ hm' =>
      have hne : ¬ (x.num == pf.num) = true := by
        intro he
        have he' : x.num = pf.num := by simpa using he
        have : (xs.map (·.num)).contains x.num = true := by
          rw [he']
          simp only [List.contains_eq_mem, List.mem_map, decide_eq_true_eq]
          exact ⟨pf, hm', rfl⟩
        rw [this] at hd
        cases hd.1
      simp only [List.find?_cons, hne]
      exact ih hd.2 hm'

end Fit

namespace Fit

theorem msgWF_distinct (pm : PMsg) (h : msgWF pm = true) : allDistinct (pm.fields.map (·.num)) = true ∧
    (pm.known = true → pm.inFields = true) := by
  unfold msgWF at h
  simp only [Bool.and_eq_true, decide_eq_true_eq, Bool.or_eq_true, Bool.not_eq_true', List.all_eq_true] at h
  obtain ⟨⟨⟨⟨⟨⟨⟨⟨⟨_, hk⟩, _⟩, _⟩, _⟩, _⟩, hd⟩, _⟩, _⟩, _⟩ := h
  refine ⟨hd, ?_⟩
  intro hkn
  rcases hk with h | h
  · rw [hkn] at h; cases h
  · exact h.1.1

/-- **Message round trip.** On a well-formed profile, take any message of a known type that
    `Encode` accepts, such that (a) every valid field is of a kind that round-trips (`FieldRT`,
    supplied for unsigned and signed scalars, strings and date_time values by FitProps/C06.lean)
    and (b) every field left out as invalid holds the constructor's invalid value. Then the decoder's
    field loop, run on the data record `Encode` wrote with the definition `Encode` wrote, starting
    from the constructor's all-invalid message, rebuilds exactly the message that was encoded. -/
theorem message_roundtrip (P : Profile) (hwf : ProfileWF P = true) (arch : Endian) (m : Msg) (bs : Bytes)
    (pm : PMsg) (hpm : P.msg? m.num = some pm) (hkn : pm.known = true)
    (h : encodeOne P arch m = .ok bs)
    (hrt : ∀ pf ∈ pm.fields, ∀ k v, pm.layout[pf.sindex]? = some k → m.vals[pf.sindex]? = some v →
      isInvalidVal pm pf.sindex v = false → ∀ fs, FieldRT P (defOf arch m.num fs) pf k v)
    (hinv : ∀ i v, m.vals[i]? = some v → isInvalidVal pm i v = true → pm.invalid[i]? = some v) :
    ∃ (fs : List PField) (parts : List Bytes),
      bs = serialize [.defn (defOf arch m.num fs) false, .data 0 parts []] ∧
      (∀ pf ∈ fs, pf ∈ pm.fields) ∧ FieldsFit (fs.map fdOf) parts ∧ fs.length < 256 ∧
      ∀ st : DecSt, ∃ st', stepFields P (defOf arch m.num fs) true (defOf arch m.num fs).fields parts
        (some ⟨m.num, pm.invalid⟩) st = .ok (some m) st' := by
  -- redo the decomposition of encodeOne, keeping the link between parts and fields
  unfold encodeOne at h
  rw [hpm] at h
  simp only at h
  split at h
  · cases h
  · rename_i hcond
    cases hdef : encodeMesgDef pm m with
    | none => rw [hdef] at h; cases h
    | some fs =>
      rw [hdef] at h
      simp only at h
      cases hmb : mesgBytes arch pm m fs with
      | error e => rw [hmb] at h; cases h
      | ok b =>
        rw [hmb] at h
        injection h with h
        subst h
        have hmw := msg?_wf P hwf m.num pm hpm
        obtain ⟨hmem, _⟩ := encodeMesgDef_mem pm m fs hdef
        obtain ⟨hsp1, hsp2⟩ := encodeMesgDef_spec pm m fs hdef
        obtain ⟨hdist, hinf⟩ := msgWF_distinct pm hmw
        have hvl : m.vals.length = pm.invalid.length := by
          by_cases hv : m.vals.length = pm.invalid.length
          · exact hv
          · exact absurd (Or.inr hv) hcond
        unfold mesgBytes at hmb
        split at hmb
        · rename_i body hc
          injection hmb with hmb
          subst hmb
          obtain ⟨parts, hp1, hp2⟩ := concatE_ok _ _ hc
          have hfsl : fs.length < 256 := by
            obtain ⟨_, hlay, hinvl, _⟩ := msgWF_bounds pm hmw
            have htc : pm.hasCtor = true ∧ pm.hasType = true := by
              cases h1 : pm.hasCtor <;> cases h2 : pm.hasType <;> simp [h1, h2] at hcond ⊢
            have := hinvl htc.2 htc.1
            have := (encodeMesgDef_mem pm m fs hdef).2
            omega
          refine ⟨fs, parts, ?_, hmem, parts_fit arch pm m fs parts (fun pf hp => (msgWF_bounds pm hmw).2.2.2 pf (hmem pf hp)) hp1, hfsl, ?_⟩
          · rw [defBytes_eq, hp2]
            simp [serialize, serializeItem, u8]
          · intro st
            have hgf : ∀ pf ∈ fs, P.getField (defOf arch m.num fs).global pf.num = some pf := by
              intro pf hp
              show P.getField m.num pf.num = some pf
              unfold Profile.getField
              rw [hpm]
              simp only [hinf hkn, ↓reduceIte]
              exact find?_distinct pm.fields pf hdist (hmem pf hp)
            have hrt' : ∀ pf ∈ fs, ∀ k v, pm.layout[pf.sindex]? = some k → m.vals[pf.sindex]? = some v →
                FieldRT P (defOf arch m.num fs) pf k v := by
              intro pf hp k v hk hv
              have hiv := (hsp1 pf hp).2
              have : m.vals.getD pf.sindex (.u 0) = v := by
                simp [List.getD_eq_getElem?_getD, hv]
              rw [this] at hiv
              exact hrt pf (hmem pf hp) k v hk hv hiv fs
            obtain ⟨msg', st', h1, h2, h3, h4, h5⟩ := stepFields_rebuilds P (defOf arch m.num fs) pm m fs parts hp1 hrt' hgf
              ⟨m.num, pm.invalid⟩ st hvl.symm
            refine ⟨st', ?_⟩
            have hm' : msg' = m := by
              cases msg' with
              | mk num' vals' =>
                cases m with
                | mk num vals =>
                  simp only at h2 h3 h4 h5 hvl hinv hsp2
                  simp only [Msg.mk.injEq]
                  refine ⟨h2, ?_⟩
                  apply List.ext_getElem?
                  intro i
                  by_cases hin : ∃ pf ∈ fs, pf.sindex = i
                  · exact h4 i hin
                  · rw [h5 i hin]
                    by_cases hil : i < vals.length
                    · have hv : vals[i]? = some vals[i] := List.getElem?_eq_getElem hil
                      have hiv : isInvalidVal pm i (vals.getD i (.u 0)) = true := by
                        cases hh : isInvalidVal pm i (vals.getD i (.u 0)) with
                        | true => rfl
                        | false => exact absurd (hsp2 i hil hh) hin
                      have : vals.getD i (.u 0) = vals[i] := by simp [List.getD_eq_getElem?_getD, hv]
                      rw [this] at hiv
                      rw [hinv i vals[i] hv hiv, hv]
                    · have h1' : vals[i]? = none := List.getElem?_eq_none (by omega)
                      have h2' : pm.invalid[i]? = none := List.getElem?_eq_none (by omega)
                      rw [h1', h2']
            rw [hm'] at h1
            exact h1
        · cases hmb

end Fit

namespace Fit

/-! ### fields that only round-trip from the constructor's value (fillers of a group definition) -/

/-- field `pf` with value `v` goes through `writeField` / `applyField` unchanged when the message
    under construction still holds `inv` at that position -/
def FieldRTI (P : Profile) (dm : DefMsg) (pf : PField) (k : SlotKind) (v inv : Val) : Prop :=
  ∀ (msg : Msg) (ts : TsRef) (part : Bytes), msg.vals[pf.sindex]? = some inv → writeField dm.arch pf k v = .ok part →
    ∃ ts', applyField P dm true (fdOf pf) part (some msg) ts =
      .ok (some { msg with vals := setAt msg.vals pf.sindex v }) ts'

theorem FieldRT.toI {P : Profile} {dm : DefMsg} {pf : PField} {k : SlotKind} {v : Val} (h : FieldRT P dm pf k v) (inv : Val) :
    FieldRTI P dm pf k v inv := fun msg ts part _ hp => h msg ts part hp

/-- `stepFields_rebuilds` for fields in strictly increasing struct order, each of which round-trips
    from the value `inv` the starting message holds at its position -/
theorem stepFields_rebuildsI (P : Profile) (dm : DefMsg) (pm : PMsg) (src : Msg)
    (fs : List PField) (parts : List Bytes) (inv : PField → Val)
    (hsorted : fs.Pairwise (fun a b => a.sindex < b.sindex))
    (hparts : (fs.map fun pf =>
      match pm.layout[pf.sindex]?, src.vals[pf.sindex]? with
      | some k, some v => writeField dm.arch pf k v
      | _, _ => .error .panic) = parts.map .ok)
    (hrt : ∀ pf ∈ fs, ∀ k v, pm.layout[pf.sindex]? = some k → src.vals[pf.sindex]? = some v → FieldRTI P dm pf k v (inv pf))
    (hgf : ∀ pf ∈ fs, P.getField dm.global pf.num = some pf)
    (msg : Msg) (st : DecSt) (hlen : msg.vals.length = src.vals.length)
    (hinit : ∀ pf ∈ fs, msg.vals[pf.sindex]? = some (inv pf)) :
    ∃ msg' st', stepFields P dm true (fs.map fdOf) parts (some msg) st = .ok (some msg') st' ∧
      msg'.num = msg.num ∧ msg'.vals.length = src.vals.length ∧
      (∀ i, (∃ pf ∈ fs, pf.sindex = i) → msg'.vals[i]? = src.vals[i]?) ∧
      (∀ i, (¬ ∃ pf ∈ fs, pf.sindex = i) → msg'.vals[i]? = msg.vals[i]?) := by
  induction fs generalizing parts msg st with
  | nil =>
    cases parts with
    | nil => exact ⟨msg, st, rfl, rfl, hlen, (fun i h => by obtain ⟨_, h, _⟩ := h; cases h), (fun i _ => rfl)⟩
    | cons _ _ => simp at hparts
  | cons pf fs ih =>
    cases parts with
    | nil => simp at hparts
    | cons part parts =>
      simp only [List.map_cons, List.cons.injEq] at hparts
      obtain ⟨hp1, hp2⟩ := hparts
      rw [List.pairwise_cons] at hsorted
      obtain ⟨hlt, hsorted'⟩ := hsorted
      cases hk : pm.layout[pf.sindex]? with
      | none => rw [hk] at hp1; cases hp1
      | some k =>
        cases hv : src.vals[pf.sindex]? with
        | none => rw [hk, hv] at hp1; cases hp1
        | some v =>
          rw [hk, hv] at hp1
          simp only at hp1
          have hsi : pf.sindex < src.vals.length := by
            cases h : src.vals[pf.sindex]? with
            | none => rw [h] at hv; cases hv
            | some _ => exact (List.getElem?_eq_some_iff.mp h).1
          simp only [List.map_cons]
          unfold stepFields
          have hg := hgf pf (List.mem_cons_self ..)
          have hnone : ¬ ((P.getField dm.global (fdOf pf).num).isNone = true ∧ true = true) := by
            simp [fdOf, hg]
          rw [if_neg hnone]
          dsimp only
          obtain ⟨ts', hap⟩ := hrt pf (List.mem_cons_self ..) k v hk hv msg
            (DecSt.ts { st with n := st.n + (fdOf pf).size, crc := Crc.update st.crc part }) part
            (hinit pf (List.mem_cons_self ..)) hp1
          rw [hap]
          simp only
          have hlen2 : ({ msg with vals := setAt msg.vals pf.sindex v } : Msg).vals.length = src.vals.length := by
            simp only [length_setAt', hlen]
          have hinit2 : ∀ q ∈ fs, ({ msg with vals := setAt msg.vals pf.sindex v } : Msg).vals[q.sindex]? = some (inv q) := by
            intro q hq
            have hne : pf.sindex ≠ q.sindex := Nat.ne_of_lt (hlt q hq)
            simp only
            rw [getElem?_setAt_other _ _ _ _ hne]
            exact hinit q (List.mem_cons_of_mem _ hq)
          obtain ⟨msg', st', h1, h2, h3, h4, h5⟩ := ih parts hsorted' hp2
            (fun p hp => hrt p (List.mem_cons_of_mem _ hp)) (fun p hp => hgf p (List.mem_cons_of_mem _ hp))
            { msg with vals := setAt msg.vals pf.sindex v } _ hlen2 hinit2
          refine ⟨msg', st', h1, h2, h3, ?_, ?_⟩
          · intro i hi
            obtain ⟨p, hp, hpi⟩ := hi
            by_cases hin : ∃ q ∈ fs, q.sindex = i
            · exact h4 i hin
            · rw [h5 i hin]
              cases hp with
              | head =>
                subst hpi
                simp only
                rw [getElem?_setAt_same _ _ _ (by rw [hlen]; exact hsi), hv]
              | tail _ hp' => exact absurd ⟨p, hp', hpi⟩ hin
          · intro i hi
            have hin : ¬ ∃ q ∈ fs, q.sindex = i := fun ⟨q, hq, hqi⟩ => hi ⟨q, List.mem_cons_of_mem _ hq, hqi⟩
            rw [h5 i hin]
            have hne : pf.sindex ≠ i := fun e => hi ⟨pf, List.mem_cons_self .., e⟩
            simp only
            exact getElem?_setAt_other _ _ _ _ hne

end Fit
