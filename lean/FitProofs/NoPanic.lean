import FitProofs.NoPanicField
import FitProofs.CrcTrack
/-
  C01: on a well-formed profile no path of the record phase ends in a panic.
  A small Hoare logic over the record-phase programs (`wp`), an invariant (a File is attached,
  every stored definition passed `validateFieldDef`, the byte counter only grows), and one lemma
  per decoder function.
-/
namespace Fit

/-- an early exit that is an error, not a panic -/
def NP (e : ErrExit) : Prop := e.err.isSome = true

/-- `Q` holds at every normal end, every early exit is an error (never a panic); reads deliver
    exactly the number of bytes asked for -/
def wp (Q : DecSt → Prop) : DP → Prop
  | .done st => Q st
  | .exit e => NP e
  | .readBuf k onErr cont => (∀ r, NP (onErr r)) ∧ ∀ bs, bs.length = k → wp Q (cont bs)

theorem wp.run {Q : DecSt → Prop} (p : DP) (h : wp Q p) (limit n : Nat) (s : SpecSt) :
    match (runSpecD limit p n s).1 with
    | .inl e => NP e
    | .inr st => Q st := by
  induction p generalizing n s with
  | done x => exact h
  | exit e => exact h
  | readBuf k onErr cont ih =>
    simp only [runSpecD]
    by_cases hk : k ≤ limit - n ∧ k ≤ s.rest.length
    · rw [if_pos hk]
      exact ih _ (h.2 _ (by rw [List.length_take]; omega)) _ _
    · rw [if_neg hk]
      by_cases hl : limit - n ≤ s.rest.length
      · rw [if_pos hl]; exact h.1 _
      · rw [if_neg hl]; exact h.1 _

theorem wp_dfail (Q : DecSt → Prop) (st : DecSt) (c : ErrClass) : wp Q (dfail st c) := rfl

theorem wp_rd (Q : DecSt → Prop) (st : DecSt) (k : Nat) (cont : Bytes → DecSt → DP)
    (h : ∀ bs, bs.length = k → wp Q (cont bs { st with n := st.n + k, crc := Crc.update st.crc bs })) :
    wp Q (rd st k cont) := by
  unfold rd
  exact ⟨fun r => rfl, h⟩

/-! ### the invariant -/

def DefsOK (P : Profile) (defs : List (Option DefMsg)) : Prop :=
  ∀ i dm, defs.getD i none = some dm → ∀ fd ∈ dm.fields, validateFieldDef P dm.global fd = true

def FileOK (c : Bool) (file : Option FileSt) : Prop :=
  ∃ f, file = some f ∧ (c = true → f.cidx.isSome = true)

/-- a File is attached (with its container once `c`), every stored definition is validated, at
    least `n0` bytes of the data area have been consumed -/
def Inv (P : Profile) (h0 : Header) (c : Bool) (n0 : Nat) (st : DecSt) : Prop :=
  FileOK c st.file ∧ DefsOK P st.defs ∧ n0 ≤ st.n ∧ st.hdr = h0

theorem Inv.of_eq {P : Profile} {h0 : Header} {c : Bool} {n0 : Nat} {st st' : DecSt} (h : Inv P h0 c n0 st)
    (h1 : st'.file = st.file) (h2 : st'.defs = st.defs) (h3 : st.n ≤ st'.n)
    (h4 : st'.hdr = st.hdr := by rfl) : Inv P h0 c n0 st' := by
  unfold Inv at h ⊢
  rw [h1, h2, h4]
  exact ⟨h.1, h.2.1, by have := h.2.2.1; omega, h.2.2.2⟩

theorem Inv.mono {P : Profile} {h0 : Header} {c : Bool} {n0 n1 : Nat} {st : DecSt} (h : Inv P h0 c n0 st) (hn : n1 ≤ n0) :
    Inv P h0 c n1 st := ⟨h.1, h.2.1, by have := h.2.2.1; omega, h.2.2.2⟩

theorem getD_setAt {α} (l : List α) (i j : Nat) (v d : α) :
    (setAt l i v).getD j d = if i = j ∧ j < l.length then v else l.getD j d := by
  induction l generalizing i j with
  | nil => simp [setAt]
  | cons x xs ih =>
    cases i with
    | zero =>
      cases j with
      | zero => simp [setAt]
      | succ j => simp [setAt]
    | succ i =>
      cases j with
      | zero => simp [setAt]
      | succ j =>
        simp only [setAt, List.getD_cons_succ, ih, List.length_cons]
        simp

theorem DefsOK.setAt {P : Profile} {defs : List (Option DefMsg)} (h : DefsOK P defs) (i : Nat) (dm : DefMsg)
    (hdm : ∀ fd ∈ dm.fields, validateFieldDef P dm.global fd = true) : DefsOK P (setAt defs i (some dm)) := by
  intro j dm' hj
  rw [getD_setAt] at hj
  split at hj
  · cases hj; exact hdm
  · exact h j dm' hj

end Fit

namespace Fit

theorem wp_parseFields (P : Profile) (hwf : ProfileWF P = true) (dm : DefMsg) (known : Bool)
    (hknown : known = P.known dm.global) (cont : Option Msg → DecSt → DP) (Q : DecSt → Prop)
    (h0 : Header) (c : Bool) (n0 : Nat)
    (hc : ∀ m st, (known = true → m.isSome = true) → Inv P h0 c n0 st → wp Q (cont m st))
    (fds : List FieldDef) (hfds : ∀ fd ∈ fds, validateFieldDef P dm.global fd = true)
    (m : Option Msg) (hm : known = true → m.isSome = true) (st : DecSt) (hI : Inv P h0 c n0 st) :
    wp Q (parseFields P dm known fds m st cont) := by
  induction fds generalizing m st with
  | nil => exact hc m st hm hI
  | cons fd fds ih =>
    unfold parseFields
    have hI1 : Inv P h0 c n0 (if (P.getField dm.global fd.num).isNone = true ∧ known = true
        then { st with unkF := bump (dm.global, fd.num) st.unkF } else st) := by
      split
      · exact hI.of_eq rfl rfl (Nat.le_refl _)
      · exact hI
    generalize (if (P.getField dm.global fd.num).isNone = true ∧ known = true
        then { st with unkF := bump (dm.global, fd.num) st.unkF } else st) = st1 at hI1 ⊢
    apply wp_rd
    intro raw hraw
    have hg := applyField_good P hwf dm known fd raw m (DecSt.ts { st1 with n := st1.n + fd.size, crc := Crc.update st1.crc raw })
      hknown (hfds fd (List.mem_cons_self ..)) hraw hm
    generalize applyField P dm known fd raw m (DecSt.ts { st1 with n := st1.n + fd.size, crc := Crc.update st1.crc raw }) = r at hg ⊢
    cases r with
    | err => rfl
    | panic => exact absurd hg (by simp [FieldsRes.Good])
    | ok m' ts' =>
      dsimp only
      apply ih (fun fd h => hfds fd (List.mem_cons_of_mem _ h)) m' hg
      exact hI1.of_eq rfl rfl (by simp only [DecSt.setTs]; omega)

theorem wp_skipDev (P : Profile) (cont : DecSt → DP) (Q : DecSt → Prop) (h0 : Header) (c : Bool) (n0 : Nat)
    (hc : ∀ st, Inv P h0 c n0 st → wp Q (cont st)) (ds : List DevDesc) (st : DecSt) (hI : Inv P h0 c n0 st) :
    wp Q (skipDev ds st cont) := by
  induction ds generalizing st with
  | nil => exact hc st hI
  | cons d ds ih =>
    unfold skipDev
    apply wp_rd
    intro _ _
    exact ih _ (hI.of_eq rfl rfl (by simp only; omega))

end Fit

namespace Fit

theorem known_hasCtor (P : Profile) (hwf : ProfileWF P = true) (g : Nat) (h : P.known g = true) :
    ∃ pm, P.msg? g = some pm ∧ pm.hasCtor = true := by
  obtain ⟨pm, hpm, hk⟩ := known_msg P g h
  have hm := msg?_wf P hwf g pm hpm
  unfold msgWF at hm
  simp only [Bool.and_eq_true, Bool.or_eq_true, Bool.not_eq_true'] at hm
  have := hm.1.1.1.1.1.1.1.1.2
  rcases this with h1 | h1
  · rw [hk] at h1; cases h1
  · exact ⟨pm, hpm, h1.2⟩

theorem getField_known (P : Profile) (hwf : ProfileWF P = true) (g n : Nat) (pf : PField)
    (h : P.getField g n = some pf) : P.known g = true ∧ pf.num = n := by
  unfold Profile.getField at h
  split at h
  · rename_i pm hpm
    split at h
    · have hmem := find?_mem' _ _ _ h
      have hm := msg?_wf P hwf g pm hpm
      unfold msgWF at hm
      simp only [Bool.and_eq_true, Bool.or_eq_true, Bool.not_eq_true'] at hm
      have := hm.1.1.1.1.1.1.1.1.1
      refine ⟨?_, by simpa using hmem.2⟩
      unfold Profile.known
      rw [hpm]
      rcases this with h1 | h1
      · have : pm.fields = [] := by simpa using h1
        rw [this] at hmem; cases hmem.1
      · exact h1.2
    · cases h
  · cases h

end Fit

namespace Fit

theorem wp_parseData (P : Profile) (hwf : ProfileWF P = true) (hb : Nat) (compressed : Bool)
    (cont : Option Msg → DecSt → DP) (Q : DecSt → Prop) (h0 : Header) (c : Bool) (n0 : Nat)
    (st : DecSt)
    (hc : ∀ m st', (∃ dm, st.defs.getD (if compressed = true then hb / 32 % 4 else hb % 16) none = some dm ∧
        (P.known dm.global = true → m.isSome = true)) → Inv P h0 c n0 st' → wp Q (cont m st'))
    (hI : Inv P h0 c n0 st) :
    wp Q (parseData P hb compressed st cont) := by
  unfold parseData
  dsimp only
  cases hd : st.defs.getD (if compressed = true then hb / 32 % 4 else hb % 16) none with
  | none => rfl
  | some dm =>
    dsimp only
    have hfds := hI.2.1 _ dm hd
    have body : ∀ (m : Option Msg) (st : DecSt), (P.known dm.global = true → m.isSome = true) → Inv P h0 c n0 st →
        wp Q (parseFields P dm (P.known dm.global) dm.fields m st fun m st =>
          skipDev dm.dev st fun st => cont m st) := by
      intro m st2 hm hI
      apply wp_parseFields P hwf dm _ rfl _ Q h0 c n0 _ _ hfds m hm st2 hI
      intro m st3 hm3 hI
      exact wp_skipDev P _ Q h0 c n0 (fun st4 hI => hc m st4 ⟨dm, hd, hm3⟩ hI) _ st3 hI
    by_cases hk : P.known dm.global = true
    · obtain ⟨pm, hpm, hctor⟩ := known_hasCtor P hwf _ hk
      simp only [hk, hpm, hctor, ↓reduceIte, Option.isNone_some, Bool.false_eq_true, and_false, Bool.not_true]
      rw [hk] at body
      by_cases hts : (!(compressed && decide (st.timestamp ≠ 0))) = true
      · rw [if_pos hts]
        exact body _ _ (fun _ => rfl) hI
      · rw [if_neg hts]
        cases hg : P.getField dm.global fieldNumTimeStamp with
        | none =>
          dsimp only
          exact body _ _ (fun _ => rfl) (hI.of_eq rfl rfl (Nat.le_refl _))
        | some pf =>
          dsimp only
          obtain ⟨pm', hpm', hfw⟩ := getField_wf P hwf _ _ _ hg
          rw [hpm] at hpm'
          cases hpm'
          have facts := fieldWF_facts pm pf hfw
          obtain ⟨k, hl, hslot⟩ := facts.slot
          have hnum := (getField_known P hwf _ _ _ hg).2
          have hkind := facts.ts hnum
          have hkk := facts.kind
          rw [hkind] at hkk
          unfold slotOfType at hslot
          rw [hkind] at hslot
          simp only [hkk.2, Bool.false_eq_true, ↓reduceIte, Option.some.injEq] at hslot
          subst hslot
          simp only [hl]
          exact body _ _ (fun _ => rfl) (hI.of_eq rfl rfl (Nat.le_refl _))
    · have hkf : P.known dm.global = false := by simpa using hk
      simp only [hkf, Bool.false_eq_true, false_and, ↓reduceIte, Bool.not_false]
      rw [hkf] at body
      by_cases hts : (!(compressed && decide (st.timestamp ≠ 0))) = true
      · rw [if_pos hts]
        exact body _ _ (fun h => by cases h) (hI.of_eq rfl rfl (Nat.le_refl _))
      · rw [if_neg hts]
        cases hg : P.getField dm.global fieldNumTimeStamp with
        | none =>
          dsimp only
          exact body _ _ (fun h => by cases h) (hI.of_eq rfl rfl (Nat.le_refl _))
        | some pf =>
          have := (getField_known P hwf _ _ _ hg).1
          rw [hkf] at this; cases this


end Fit

namespace Fit

macro "wp_rd_step" : tactic => `(tactic| (apply wp_rd; intro _ _; try dsimp only))

theorem mem_valid {α} {l : List α} {p : α → Bool} (h : ¬ (!(l.all p)) = true) : ∀ x ∈ l, p x = true := by
  simp only [Bool.not_eq_true', Bool.not_eq_false] at h
  rw [List.all_eq_true] at h
  exact h

theorem wp_parseDefinition (P : Profile) (hb : Nat) (cont : DefMsg → DecSt → DP) (Q : DecSt → Prop)
    (h0 : Header) (c : Bool) (n0 : Nat)
    (st : DecSt)
    (hc : ∀ dm st', (∀ fd ∈ dm.fields, validateFieldDef P dm.global fd = true) → Inv P h0 c n0 st' →
      st'.defs = st.defs → wp Q (cont dm st'))
    (hI : Inv P h0 c n0 st) :
    wp Q (parseDefinition P hb st cont) := by
  unfold parseDefinition
  dsimp only
  repeat (first
    | rfl
    | (apply hc
       · first | (intro fd h; cases h) | exact mem_valid (by assumption)
       · exact hI.of_eq rfl rfl (by simp only; omega)
       · rfl)
    | wp_rd_step
    | split)

end Fit

namespace Fit

theorem add_some (P : Profile) (f : FileSt) (msg : Msg) (g : Globals)
    (h : f.cidx.isSome = true ∨ msg.num = mnFileId) :
    ∃ f' g', f.add P msg g = some (f', g') ∧ f'.cidx = f.cidx := by
  unfold FileSt.add
  split
  · exact ⟨_, _, rfl, rfl⟩
  · rename_i hne
    split
    · exact ⟨_, _, rfl, rfl⟩
    · split
      · exact ⟨_, _, rfl, rfl⟩
      · split
        · exact ⟨_, _, rfl, rfl⟩
        · split
          · exact ⟨_, _, rfl, rfl⟩
          · rcases h with h | h
            · cases hc : f.cidx with
              | none => rw [hc] at h; cases h
              | some i => exact ⟨_, _, rfl, by simp [hc]⟩
            · exact absurd h hne

/-- `d.file.add(msg)` never hits a nil adder once the container is attached (or for file_id) -/
theorem addMsg_inv (P : Profile) (h0 : Header) (c : Bool) (n0 : Nat) (m : Option Msg) (st : DecSt) (hI : Inv P h0 c n0 st)
    (h : c = true ∨ ∀ msg, m = some msg → msg.num = mnFileId) :
    ∃ st', addMsg P m st = some st' ∧ Inv P h0 c n0 st' := by
  unfold addMsg
  cases m with
  | none => exact ⟨st, rfl, hI⟩
  | some msg =>
    obtain ⟨f, hf, hcx⟩ := hI.1
    simp only [hf]
    have hcond : f.cidx.isSome = true ∨ msg.num = mnFileId := by
      rcases h with h | h
      · exact Or.inl (hcx h)
      · exact Or.inr (h msg rfl)
    obtain ⟨f', g', hadd, hci⟩ := add_some P f msg st.glob hcond
    simp only [hadd]
    refine ⟨_, rfl, ⟨f', rfl, fun hc => by rw [hci]; exact hcx hc⟩, hI.2.1, hI.2.2.1, hI.2.2.2⟩

theorem wp_decodeFileData (P : Profile) (hwf : ProfileWF P = true) (limit : Nat) (cont : DecSt → DP)
    (Q : DecSt → Prop) (h0 : Header) (n0 : Nat)
    (hc : ∀ st, Inv P h0 true n0 st → limit ≤ st.n → wp Q (cont st))
    (fuel : Nat) (st : DecSt) (hI : Inv P h0 true n0 st) (hfuel : limit < fuel + st.n) :
    wp Q (decodeFileData P limit fuel st cont) := by
  induction fuel generalizing st with
  | zero => exact hc st hI (by omega)
  | succ fuel ih =>
    unfold decodeFileData
    by_cases hlt : st.n < limit
    · rw [if_pos hlt]
      apply wp_rd
      intro hbs _
      dsimp only
      have hI1 : Inv P h0 true (st.n + 1) { st with n := st.n + 1, crc := Crc.update st.crc hbs } :=
        ⟨hI.1, hI.2.1, Nat.le_refl _, hI.2.2.2⟩
      have data : ∀ comp : Bool, wp Q (parseData P (hbs.headD 0).toNat comp
          { st with n := st.n + 1, crc := Crc.update st.crc hbs } fun m st =>
            match addMsg P m st with
            | none => dpanic st
            | some st => decodeFileData P limit fuel st cont) := by
        intro comp
        apply wp_parseData P hwf _ _ _ Q h0 true (st.n + 1) _ _ hI1
        intro m st2 _ hI2
        obtain ⟨st3, h3, hI3⟩ := addMsg_inv P h0 true (st.n + 1) m st2 hI2 (Or.inl rfl)
        simp only [h3]
        have hn3 := hI3.2.2.1
        exact ih st3 ⟨hI3.1, hI3.2.1, by have := hI.2.2.1; omega, hI3.2.2.2⟩ (by omega)
      split
      · exact data true
      · split
        · apply wp_parseDefinition P _ _ Q h0 true (st.n + 1) _ _ hI1
          intro dm st2 hdm hI2 _
          have hI3 : Inv P h0 true (st.n + 1) { st2 with defs := setAt st2.defs dm.localT (some dm) } :=
            ⟨hI2.1, hI2.2.1.setAt _ _ hdm, hI2.2.2.1, hI2.2.2.2⟩
          have hn3 := hI3.2.2.1
          exact ih _ ⟨hI3.1, hI3.2.1, by have := hI.2.2.1; simp only at hn3 ⊢; omega, hI3.2.2.2⟩ (by simp only at hn3 ⊢; omega)
        · exact data false
    · rw [if_neg hlt]
      exact hc st hI (by omega)

theorem wp_parseFileIdMsg (P : Profile) (hwf : ProfileWF P = true) (cont : DecSt → DP) (Q : DecSt → Prop)
    (h0 : Header) (n0 : Nat) (hc : ∀ st, Inv P h0 false n0 st → wp Q (cont st)) (st : DecSt) (hI : Inv P h0 false n0 st)
    (hnone : ∀ i, st.defs.getD i none = none) :
    wp Q (parseFileIdMsg P st cont) := by
  unfold parseFileIdMsg
  apply wp_rd
  intro hbs _
  dsimp only
  split
  · rfl
  · have hI1 : Inv P h0 false n0 { st with n := st.n + 1, crc := Crc.update st.crc hbs } :=
      hI.of_eq rfl rfl (by simp only; omega)
    apply wp_parseDefinition P _ _ Q h0 false n0 _ _ hI1
    intro dm st2 hdm hI2 hdefs
    split
    · rfl
    · rename_i hglob
      have hglob' : dm.global = mnFileId := by simpa using hglob
      apply wp_rd
      intro hbs2 _
      refine wp_parseData P hwf _ _ _ Q h0 false n0 _ ?_ ⟨hI2.1, hI2.2.1.setAt _ _ hdm, ?_, hI2.2.2.2⟩
      rotate_left
      · have := hI2.2.2.1; simp only; omega
      intro m st4 hm4 hI4
      try dsimp only
      cases m with
      | none =>
        -- the only definition stored so far is the file_id one, and file_id is a known message
        exfalso
        obtain ⟨dm', hlook, hkm⟩ := hm4
        simp only at hlook
        have hkn : P.known mnFileId = true := by
          unfold ProfileWF at hwf
          simp only [Bool.and_eq_true] at hwf
          exact hwf.2
        simp only [Bool.false_eq_true, ↓reduceIte] at hlook
        rw [getD_setAt, hdefs] at hlook
        by_cases hcond : dm.localT = (hbs2.headD 0).toNat % 16 ∧ (hbs2.headD 0).toNat % 16 < st.defs.length
        · rw [if_pos hcond] at hlook
          cases hlook
          rw [hglob'] at hkm
          cases hkm hkn
        · rw [if_neg hcond] at hlook
          have := hnone ((hbs2.headD 0).toNat % 16)
          rw [this] at hlook
          cases hlook
      | some msg =>
        dsimp only
        split
        · rfl
        · rename_i hnum
          have hnum' : msg.num = mnFileId := by simpa using hnum
          obtain ⟨st5, h5, hI5⟩ := addMsg_inv P h0 false n0 (some msg) st4 hI4
            (Or.inr (fun m' hm' => by cases hm'; exact hnum'))
          simp only [h5]
          exact hc st5 hI5

end Fit

namespace Fit

theorem init_cidx (P : Profile) (f f' : FileSt) (h : f.init P = .ok f') : f'.cidx.isSome = true := by
  unfold FileSt.init at h
  split at h
  · cases h; rfl
  · cases h
  · cases h

/-- the whole record phase: no early exit is a panic, and (unless only the file_id is wanted) it
    ends normally only when the whole data area has been consumed -/
theorem wp_recordsProg (P : Profile) (hwf : ProfileWF P = true) (mode : Mode) (st : DecSt)
    (hI : Inv P st.hdr false 0 st) (hnone : ∀ i, st.defs.getD i none = none) :
    wp (fun st' => (mode ≠ .fileIdOnly → st.hdr.dataSize ≤ st'.n) ∧ st'.file.isSome = true)
      (recordsProg P mode st) := by
  unfold recordsProg
  apply wp_parseFileIdMsg P hwf _ _ st.hdr 0 _ st hI hnone
  intro st2 hI2
  split
  · rename_i hm
    obtain ⟨f, hf, _⟩ := hI2.1
    exact ⟨fun hne => absurd hm hne, by rw [hf]; rfl⟩
  · obtain ⟨f, hf, _⟩ := hI2.1
    simp only [hf]
    cases hinit : f.init P with
    | error c => rfl
    | ok f' =>
      dsimp only
      have hh : st2.hdr = st.hdr := hI2.2.2.2
      rw [hh]
      apply wp_decodeFileData P hwf _ _ _ st.hdr 0
      · intro st3 hI3 hle
        obtain ⟨f3, hf3, _⟩ := hI3.1
        exact ⟨fun _ => hle, by rw [hf3]; rfl⟩
      · exact ⟨⟨f', rfl, fun _ => init_cidx P f f' hinit⟩, hI2.2.1, Nat.zero_le _, rfl⟩
      · simp only; omega

end Fit

namespace Fit

theorem headerCheck_ok_rest (st st' : DecSt) (sb tmp : Bytes) (h : headerCheck st sb tmp = .ok st') :
    st'.n = st.n ∧ st'.defs = st.defs := by
  unfold headerCheck at h
  simp only at h
  split at h
  · cases h
  · split at h
    · cases h
    · split at h
      · cases h; exact ⟨rfl, rfl⟩
      · split at h
        · cases h; exact ⟨rfl, rfl⟩
        · split at h
          · cases h
          · cases h; exact ⟨rfl, rfl⟩

/-- case analysis of the header phase: it ends with a failure outcome, or hands a state accepted by
    `headerCheck` to the continuation -/
theorem decodeHeader_cases (Q : Outcome → Prop) (st : DecSt) (cont : DecSt → HP) (s : SpecSt)
    (hfail : ∀ st2 c b, Q { fail st2 c with cleanEOF := b })
    (hcont : ∀ st' s1 size sb tmp, headerCheck { st with hdr := { st.hdr with size := size } } sb tmp = .ok st' →
      Q (runSpec (cont st') s1).1) :
    Q (runSpec (decodeHeader st cont) s).1 := by
  unfold decodeHeader
  simp only [runSpec]
  by_cases h1 : 1 ≤ s.rest.length
  · rw [if_pos h1]
    split
    · simp only [runSpec]
      exact hfail _ _ false
    · simp only [runSpec]
      split
      · split
        · simp only [runSpec]
          exact hfail _ _ false
        · rename_i st' hc
          exact hcont st' _ _ _ _ hc
      · exact hfail _ _ false
  · rw [if_neg h1]
    cases s.stop
    · exact hfail _ _ true
    · exact hfail _ _ false

theorem checkCRC_no_panic (st : DecSt) (s : SpecSt) : (runSpecT (checkCRC st) s).1.panic = false := by
  unfold checkCRC
  simp only [runSpecT]
  split
  · split <;> rfl
  · rfl

theorem toOutcome_no_panic (e : ErrExit) (h : NP e) : e.toOutcome.panic = false := by
  unfold ErrExit.toOutcome
  unfold NP at h
  cases he : e.err with
  | none => rw [he] at h; cases h
  | some c => rfl

/-- **C01: no entry point panics.** On a well-formed profile, for every mode (Decode,
    DecodeHeader, DecodeHeaderAndFileID, CheckIntegrity), every package state and every input, the
    outcome of the decoder program is a result or an error — never a panic. -/
theorem prog_never_panics (P : Profile) (hwf : ProfileWF P = true) (m : Mode) (g : Globals) (s : SpecSt) :
    (runSpec (decodeProg P m g) s).1.panic = false := by
  unfold decodeProg
  apply decodeHeader_cases (fun o => o.panic = false)
  · intro _ _ _; rfl
  · intro st' s1 size sb tmp hc
    obtain ⟨hn, hdefs⟩ := headerCheck_ok_rest _ _ _ _ hc
    have hn0 : st'.n = 0 := by rw [hn]; rfl
    have hd0 : st'.defs = List.replicate 16 none := by rw [hdefs]; rfl
    have hnone : ∀ i, st'.defs.getD i none = none := by
      intro i; rw [hd0]
      simp only [List.getD_eq_getElem?_getD, List.getElem?_replicate]
      split <;> rfl
    have hInv : Inv P st'.hdr false 0
        { st' with file := some { hdr := st'.hdr, fileId := zeroFileId P }, unkInit := true } := by
      refine ⟨⟨_, rfl, fun h => by cases h⟩, ?_, Nat.zero_le _, rfl⟩
      intro i dm hdm
      have := hnone i
      simp only at hdm
      rw [this] at hdm; cases hdm
    cases m with
    | headerOnly => rfl
    | crcOnly =>
      simp only [runSpec]
      split
      · exact checkCRC_no_panic _ _
      · rfl
    | fileIdOnly =>
      simp only [runSpec]
      have hw := wp.run _ (wp_recordsProg P hwf .fileIdOnly _ hInv hnone) st'.hdr.dataSize 0
        { s1 with frameEnd := s1.taken + st'.hdr.dataSize }
      generalize runSpecD st'.hdr.dataSize (recordsProg P .fileIdOnly
        { st' with file := some { hdr := st'.hdr, fileId := zeroFileId P }, unkInit := true }) 0
        { s1 with frameEnd := s1.taken + st'.hdr.dataSize } = r at hw
      obtain ⟨o, n, s'⟩ := r
      cases o with
      | inl e => exact toOutcome_no_panic e hw
      | inr x => rfl
    | full =>
      simp only [runSpec]
      have hw := wp.run _ (wp_recordsProg P hwf .full _ hInv hnone) st'.hdr.dataSize 0
        { s1 with frameEnd := s1.taken + st'.hdr.dataSize }
      have ht := Tracks.run st'.hdr.dataSize _ _ (recordsProg_tracks P .full
        { st' with file := some { hdr := st'.hdr, fileId := zeroFileId P }, unkInit := true }) 0
        { s1 with frameEnd := s1.taken + st'.hdr.dataSize }
      have hd := runSpecD_conserve st'.hdr.dataSize (recordsProg P .full
        { st' with file := some { hdr := st'.hdr, fileId := zeroFileId P }, unkInit := true }) 0
        { s1 with frameEnd := s1.taken + st'.hdr.dataSize }
      generalize runSpecD st'.hdr.dataSize (recordsProg P .full
        { st' with file := some { hdr := st'.hdr, fileId := zeroFileId P }, unkInit := true }) 0
        { s1 with frameEnd := s1.taken + st'.hdr.dataSize } = r at hw ht hd
      obtain ⟨o, n, s'⟩ := r
      cases o with
      | inl e => exact toOutcome_no_panic e hw
      | inr x =>
        simp only at hw ht hd ⊢
        have hxn := (ht x rfl).2
        simp only [DecSt.ctr] at hxn
        have hle := hw.1 (by decide)
        have hle2 := hd.2.2.2.2.1 (Nat.zero_le _)
        have : n = st'.hdr.dataSize := by omega
        rw [if_pos this]
        exact checkCRC_no_panic _ _

end Fit

namespace Fit

theorem checkCRC_file (st : DecSt) (s : SpecSt) (hf : st.file.isSome = true) :
    (runSpecT (checkCRC st) s).1.st.file.isSome = true := by
  unfold checkCRC
  simp only [runSpecT]
  split
  · split <;> (simp only [okOut, fail]; cases h : st.file <;> simp_all)
  · exact hf

/-- a successful `Decode` returns a File -/
theorem success_has_file (P : Profile) (hwf : ProfileWF P = true) (g : Globals) (s : SpecSt)
    (hs : (runSpec (decodeProg P .full g) s).1.success) :
    (runSpec (decodeProg P .full g) s).1.st.file.isSome = true := by
  revert hs
  unfold decodeProg
  apply decodeHeader_cases (fun o => o.success → o.st.file.isSome = true)
  · intro st2 c b h; exact absurd h (by simp [fail, Outcome.success])
  · intro st' s1 size sb tmp hc
    obtain ⟨hn, hdefs⟩ := headerCheck_ok_rest _ _ _ _ hc
    have hd0 : st'.defs = List.replicate 16 none := by rw [hdefs]; rfl
    have hnone : ∀ i, st'.defs.getD i none = none := by
      intro i; rw [hd0]
      simp only [List.getD_eq_getElem?_getD, List.getElem?_replicate]
      split <;> rfl
    have hInv : Inv P st'.hdr false 0
        { st' with file := some { hdr := st'.hdr, fileId := zeroFileId P }, unkInit := true } := by
      refine ⟨⟨_, rfl, fun h => by cases h⟩, ?_, Nat.zero_le _, rfl⟩
      intro i dm hdm
      have := hnone i
      simp only at hdm
      rw [this] at hdm; cases hdm
    simp only [runSpec]
    have hw := wp.run _ (wp_recordsProg P hwf .full _ hInv hnone) st'.hdr.dataSize 0
      { s1 with frameEnd := s1.taken + st'.hdr.dataSize }
    generalize runSpecD st'.hdr.dataSize (recordsProg P .full
      { st' with file := some { hdr := st'.hdr, fileId := zeroFileId P }, unkInit := true }) 0
      { s1 with frameEnd := s1.taken + st'.hdr.dataSize } = r at hw
    obtain ⟨o, n, s'⟩ := r
    cases o with
    | inl e => intro h; exact absurd h (toOutcome_not_success e)
    | inr x =>
      simp only at hw ⊢
      split
      · intro _; exact checkCRC_file x s' hw.2
      · intro h; simp [panicOut, Outcome.success] at h

end Fit
