import FitModel.Decode
import FitModel.WF
/-
  Field level of C01: on a well-formed profile, a field of a validated definition never makes
  `applyField` panic (reflection SetUint/SetInt on the wrong kind, short slices, missing struct field).
-/
namespace Fit

/-! ### what `validateFieldDef` guarantees for a listed field -/

theorem validate_known (P : Profile) (g : Nat) (fd : FieldDef) (h : validateFieldDef P g fd = true) :
    Base.known fd.btype = true := by
  unfold validateFieldDef at h
  split at h
  · cases h
  · rename_i hk; simpa using hk

/-- scalar (non-array) listed field -/
theorem validate_scalar (P : Profile) (g : Nat) (fd : FieldDef) (pf : PField)
    (hk : P.known g = true) (hf : P.getField g fd.num = some pf) (ha : tcArray pf.tcode = false)
    (h : validateFieldDef P g fd = true) :
    (fd.btype = Base.string → tcBase pf.tcode = Base.string) ∧
    (fd.btype ≠ Base.string →
      Base.size fd.btype ≤ fd.size ∧ fd.size ≤ Base.size (tcBase pf.tcode) ∧
      Base.signed (tcBase pf.tcode) = Base.signed fd.btype ∧
      tcBase pf.tcode ≠ Base.string ∧
      (Base.isFloat fd.btype = true → Base.isFloat (tcBase pf.tcode) = true)) := by
  unfold validateFieldDef at h
  simp only [hk, ↓reduceIte, hf, ha] at h
  split at h
  · cases h
  · constructor
    · intro hs
      simp only [hs, ↓reduceIte] at h
      simpa using h
    · intro hs
      simp only [hs, ↓reduceIte] at h
      split at h
      · cases h
      · rename_i hsz
        simp only [Bool.not_false, ↓reduceIte] at h
        split at h
        · cases h
        · rename_i hsz2
          split at h
          · rename_i hne
            split at h
            · cases h
            · rename_i hsg
              split at h
              · cases h
              · rename_i hfl
                split at h
                · cases h
                · rename_i hst
                  refine ⟨by omega, by omega, by simpa using hsg, ?_, ?_⟩
                  · intro hp; exact hst ⟨hp, hs⟩
                  · intro hfb
                    simp only [hfb, Bool.true_and, Bool.not_eq_true'] at hfl
                    simpa using hfl
          · rename_i heq
            have heq' : fd.btype = tcBase pf.tcode := by simpa using heq
            refine ⟨by omega, by omega, by rw [heq'], ?_, ?_⟩
            · rw [← heq']; exact hs
            · intro hfb; rw [← heq']; exact hfb

end Fit
namespace Fit

/-! ### slot kinds by signedness (finite checks over all base-type bytes) -/

def isUSlot : Option Sc → Bool | some (.u _) => true | _ => false
def isISlot : Option Sc → Bool | some (.i _) => true | _ => false

theorem slot_unsigned : ∀ pb : Fin 256, Base.known pb.val = true → Base.isFloat pb.val = false →
    Base.signed pb.val = false → Base.index pb.val ≠ 7 → isUSlot (scOfBase pb.val) = true := by
  decide +kernel

theorem slot_signed : ∀ pb : Fin 256, Base.known pb.val = true → Base.isFloat pb.val = false →
    Base.signed pb.val = true → isISlot (scOfBase pb.val) = true := by
  decide +kernel

theorem slot_string : scOfBase Base.string = some .s := by decide

theorem decompress_lt (b : Nat) : Base.decompress b < 256 := by
  unfold Base.decompress
  simp only [Base.sint16, Base.uint16, Base.sint32, Base.uint32, Base.float32, Base.float64, Base.uint16z,
    Base.uint32z, Base.sint64, Base.uint64, Base.uint64z]
  repeat (split; · omega)
  omega

theorem tcBase_lt (t : Nat) : tcBase t < 256 := decompress_lt _

theorem decompress_string : ∀ x : Fin 256, Base.decompress x.val ≠ Base.string → Base.index (Base.decompress x.val) ≠ 7 := by
  decide +kernel

theorem tcBase_string (t : Nat) (h : tcBase t ≠ Base.string) : Base.index (tcBase t) ≠ 7 := by
  unfold tcBase at h ⊢
  exact decompress_string ⟨t % 256, Nat.mod_lt _ (by decide)⟩ h

theorem slot_unsigned' (pb : Nat) (hlt : pb < 256) (h1 : Base.known pb = true) (h2 : Base.isFloat pb = false)
    (h3 : Base.signed pb = false) (h4 : Base.index pb ≠ 7) : ∃ w, scOfBase pb = some (.u w) := by
  have := slot_unsigned ⟨pb, hlt⟩ h1 h2 h3 h4
  simp only at this
  cases h : scOfBase pb with
  | none => rw [h] at this; cases this
  | some k => cases k with
    | u w => exact ⟨w, rfl⟩
    | _ => rw [h] at this; cases this

theorem slot_signed' (pb : Nat) (hlt : pb < 256) (h1 : Base.known pb = true) (h2 : Base.isFloat pb = false)
    (h3 : Base.signed pb = true) : ∃ w, scOfBase pb = some (.i w) := by
  have := slot_signed ⟨pb, hlt⟩ h1 h2 h3
  simp only at this
  cases h : scOfBase pb with
  | none => rw [h] at this; cases this
  | some k => cases k with
    | i w => exact ⟨w, rfl⟩
    | _ => rw [h] at this; cases this

end Fit
namespace Fit

theorem parseFitField_no_panic (arch : Endian) (fd : FieldDef) (sck : Sc) (tmp : Bytes)
    (hS : fd.btype = Base.string → sck = .s)
    (hU : fd.btype ≠ Base.string → Base.signed fd.btype = false → ∃ w, sck = .u w)
    (hI : Base.signed fd.btype = true → ∃ w, sck = .i w)
    (hF : Base.isFloat fd.btype = false)
    (hlen : fd.btype ≠ Base.string → Base.size fd.btype ≤ tmp.length) :
    parseFitField arch fd (.sc sck) tmp ≠ .panic := by
  unfold parseFitField
  dsimp only
  by_cases h1 : fd.btype = Base.byte ∨ fd.btype = Base.enum ∨ fd.btype = Base.uint8 ∨ fd.btype = Base.uint8z
  · rw [if_pos h1]
    have hb : fd.btype ≠ Base.string ∧ Base.signed fd.btype = false ∧ Base.size fd.btype = 1 := by
      rcases h1 with h | h | h | h <;> rw [h] <;> decide
    obtain ⟨w, rfl⟩ := hU hb.1 hb.2.1
    have := hlen hb.1
    have hne : tmp.isEmpty = false := by
      cases tmp with
      | nil => simp at this; omega
      | cons _ _ => rfl
    simp [hne, setUint]
  · rw [if_neg h1]
    by_cases h2 : fd.btype = Base.sint8
    · rw [if_pos h2]
      have hb : fd.btype ≠ Base.string ∧ Base.signed fd.btype = true ∧ Base.size fd.btype = 1 := by
        rw [h2]; decide
      obtain ⟨w, rfl⟩ := hI hb.2.1
      have := hlen hb.1
      have hne : tmp.isEmpty = false := by
        cases tmp with
        | nil => simp at this; omega
        | cons _ _ => rfl
      simp [hne, setInt]
    · rw [if_neg h2]
      by_cases h3 : fd.btype = Base.sint16
      · rw [if_pos h3]
        have hb : fd.btype ≠ Base.string ∧ Base.signed fd.btype = true ∧ Base.size fd.btype = 2 := by
          rw [h3]; decide
        obtain ⟨w, rfl⟩ := hI hb.2.1
        have := hlen hb.1
        have hl : ¬ tmp.length < 2 := by omega
        simp [hl, setInt]
      · rw [if_neg h3]
        by_cases h4 : fd.btype = Base.uint16 ∨ fd.btype = Base.uint16z
        · rw [if_pos h4]
          have hb : fd.btype ≠ Base.string ∧ Base.signed fd.btype = false ∧ Base.size fd.btype = 2 := by
            rcases h4 with h | h <;> rw [h] <;> decide
          obtain ⟨w, rfl⟩ := hU hb.1 hb.2.1
          have := hlen hb.1
          have hl : ¬ tmp.length < 2 := by omega
          simp [hl, setUint]
        · rw [if_neg h4]
          by_cases h5 : fd.btype = Base.sint32
          · rw [if_pos h5]
            have hb : fd.btype ≠ Base.string ∧ Base.signed fd.btype = true ∧ Base.size fd.btype = 4 := by
              rw [h5]; decide
            obtain ⟨w, rfl⟩ := hI hb.2.1
            have := hlen hb.1
            have hl : ¬ tmp.length < 4 := by omega
            simp [hl, setInt]
          · rw [if_neg h5]
            by_cases h6 : fd.btype = Base.uint32 ∨ fd.btype = Base.uint32z
            · rw [if_pos h6]
              have hb : fd.btype ≠ Base.string ∧ Base.signed fd.btype = false ∧ Base.size fd.btype = 4 := by
                rcases h6 with h | h <;> rw [h] <;> decide
              obtain ⟨w, rfl⟩ := hU hb.1 hb.2.1
              have := hlen hb.1
              have hl : ¬ tmp.length < 4 := by omega
              simp [hl, setUint]
            · rw [if_neg h6]
              by_cases h7 : fd.btype = Base.float32
              · exfalso; rw [h7] at hF; revert hF; decide
              · rw [if_neg h7]
                by_cases h8 : fd.btype = Base.float64
                · exfalso; rw [h8] at hF; revert hF; decide
                · rw [if_neg h8]
                  by_cases h9 : fd.btype = Base.string
                  · rw [if_pos h9]
                    rw [hS h9]
                    split <;> simp
                  · rw [if_neg h9]
                    simp

end Fit
namespace Fit

theorem mapM_some {α β} (f : α → Option β) (l : List α) (h : ∀ x, ∃ y, f x = some y) :
    ∃ ys, l.mapM f = some ys := by
  induction l with
  | nil => exact ⟨[], by simp⟩
  | cons x xs ih =>
    obtain ⟨y, hy⟩ := h x
    obtain ⟨ys, hys⟩ := ih
    exact ⟨y :: ys, by simp [List.mapM_cons, hy, hys]⟩

theorem size_pos_of_known : ∀ i : Fin 32, i.val < Base.nNames → 1 ≤ Base.bsize.getD i.val 0 := by decide

theorem known_size_pos (b : Nat) (h : Base.known b = true) : 1 ≤ Base.size b := by
  unfold Base.known at h
  simp only [Bool.and_eq_true, decide_eq_true_eq] at h
  unfold Base.size
  exact size_pos_of_known ⟨Base.index b, by unfold Base.index; omega⟩ h.1

theorem parseFitFieldArray_no_panic (arch : Endian) (fd : FieldDef) (ek : Sc) (tmp : Bytes)
    (hk : Base.known fd.btype = true) (hF : Base.isFloat fd.btype = false)
    (hek : scOfBase fd.btype = some ek) :
    parseFitFieldArray arch fd (.sl ek) tmp ≠ .panic := by
  unfold parseFitFieldArray
  dsimp only
  by_cases h0 : fd.btype = Base.byte
  · rw [if_pos h0]
    rw [h0] at hek
    have : ek = .u 8 := by
      have : scOfBase Base.byte = some (.u 8) := by decide
      rw [this] at hek; cases hek; rfl
    subst this
    simp
  · rw [if_neg h0]
    have hw : ¬ Base.size fd.btype = 0 := by have := known_size_pos _ hk; omega
    rw [if_neg hw]
    by_cases h1 : fd.btype = Base.uint8 ∨ fd.btype = Base.uint8z ∨ fd.btype = Base.enum ∨ fd.btype = Base.uint16 ∨
        fd.btype = Base.uint16z ∨ fd.btype = Base.uint32 ∨ fd.btype = Base.uint32z
    · rw [if_pos h1]
      have : ∃ w, ek = .u w := by
        rcases h1 with h | h | h | h | h | h | h <;> rw [h] at hek <;>
          (first
            | (have e : scOfBase Base.uint8 = some (.u 8) := by decide
               rw [e] at hek; cases hek; exact ⟨_, rfl⟩)
            | (have e : scOfBase Base.uint8z = some (.u 8) := by decide
               rw [e] at hek; cases hek; exact ⟨_, rfl⟩)
            | (have e : scOfBase Base.enum = some (.u 8) := by decide
               rw [e] at hek; cases hek; exact ⟨_, rfl⟩)
            | (have e : scOfBase Base.uint16 = some (.u 16) := by decide
               rw [e] at hek; cases hek; exact ⟨_, rfl⟩)
            | (have e : scOfBase Base.uint16z = some (.u 16) := by decide
               rw [e] at hek; cases hek; exact ⟨_, rfl⟩)
            | (have e : scOfBase Base.uint32 = some (.u 32) := by decide
               rw [e] at hek; cases hek; exact ⟨_, rfl⟩)
            | (have e : scOfBase Base.uint32z = some (.u 32) := by decide
               rw [e] at hek; cases hek; exact ⟨_, rfl⟩))
      obtain ⟨w, rfl⟩ := this
      obtain ⟨ys, hys⟩ := mapM_some (fun e => setUint (.sc (.u w)) (arch.dec e))
        (chunks (Base.size fd.btype) tmp tmp.length) (fun x => ⟨_, rfl⟩)
      simp only [hys]
      simp
    · rw [if_neg h1]
      by_cases h2 : fd.btype = Base.sint8 ∨ fd.btype = Base.sint16 ∨ fd.btype = Base.sint32
      · rw [if_pos h2]
        have : ∃ w, ek = .i w := by
          rcases h2 with h | h | h <;> rw [h] at hek <;>
            (first
              | (have e : scOfBase Base.sint8 = some (.i 8) := by decide
                 rw [e] at hek; cases hek; exact ⟨_, rfl⟩)
              | (have e : scOfBase Base.sint16 = some (.i 16) := by decide
                 rw [e] at hek; cases hek; exact ⟨_, rfl⟩)
              | (have e : scOfBase Base.sint32 = some (.i 32) := by decide
                 rw [e] at hek; cases hek; exact ⟨_, rfl⟩))
        obtain ⟨w, rfl⟩ := this
        obtain ⟨ys, hys⟩ := mapM_some (fun e => setInt (.sc (.i w)) (arch.dec e))
          (chunks (Base.size fd.btype) tmp tmp.length) (fun x => ⟨_, rfl⟩)
        simp only [hys]
        simp
      · rw [if_neg h2]
        by_cases h3 : fd.btype = Base.float32 ∨ fd.btype = Base.float64
        · exfalso
          rcases h3 with h | h <;> rw [h] at hF <;> revert hF <;> decide
        · rw [if_neg h3]
          by_cases h4 : fd.btype = Base.string
          · rw [if_pos h4]
            rw [h4, slot_string] at hek
            cases hek
            split <;> simp
          · rw [if_neg h4]
            simp

end Fit
namespace Fit

/-! ### unpacking well-formedness -/

theorem find?_mem' {α} (p : α → Bool) (l : List α) (x : α) (h : l.find? p = some x) : x ∈ l ∧ p x = true := by
  exact ⟨List.mem_of_find?_eq_some h, List.find?_some h⟩

theorem msg?_wf (P : Profile) (hwf : ProfileWF P = true) (g : Nat) (pm : PMsg) (h : P.msg? g = some pm) :
    msgWF pm = true := by
  unfold ProfileWF at hwf
  simp only [Bool.and_eq_true] at hwf
  have hall := hwf.1.1.1.2
  rw [List.all_eq_true] at hall
  exact hall pm (find?_mem' _ _ _ h).1

theorem getField_wf (P : Profile) (hwf : ProfileWF P = true) (g n : Nat) (pf : PField)
    (h : P.getField g n = some pf) :
    ∃ pm, P.msg? g = some pm ∧ fieldWF pm pf = true := by
  unfold Profile.getField at h
  split at h
  · rename_i pm hpm
    split at h
    · have hm := msg?_wf P hwf g pm hpm
      unfold msgWF at hm
      simp only [Bool.and_eq_true] at hm
      have hall := hm.1.2
      rw [List.all_eq_true] at hall
      exact ⟨pm, hpm, hall pf (find?_mem' _ _ _ h).1⟩
    · cases h
  · cases h

structure FieldFacts (pm : PMsg) (pf : PField) : Prop where
  known : Base.known (tcBase pf.tcode) = true
  nofloat : Base.isFloat (tcBase pf.tcode) = false
  small : Base.size (tcBase pf.tcode) ≤ 4
  kind : match tcKind pf.tcode with
    | .native => True
    | .timeUTC | .timeLocal => tcBase pf.tcode = Base.uint32 ∧ tcArray pf.tcode = false
    | .lat | .lng => tcBase pf.tcode = Base.sint32 ∧ tcArray pf.tcode = false
    | .unknown _ => False
  slot : ∃ k, pm.layout[pf.sindex]? = some k ∧ slotOfType pf.tcode = some k
  ts : pf.num = 253 → tcKind pf.tcode = .timeUTC
  num : pf.num < 255
  len1 : 1 ≤ pf.length
  lenB : (tcArray pf.tcode = true ∨ tcBase pf.tcode = Base.string) → Base.size (tcBase pf.tcode) * pf.length ≤ 255

theorem fieldWF_facts (pm : PMsg) (pf : PField) (h : fieldWF pm pf = true) : FieldFacts pm pf := by
  unfold fieldWF at h
  simp only [Bool.and_eq_true, decide_eq_true_eq, Bool.not_eq_true'] at h
  obtain ⟨⟨⟨⟨⟨⟨⟨⟨⟨⟨hnum, _⟩, hk⟩, hf⟩, hs⟩, hkind⟩, hts⟩, hslot⟩, _⟩, hl1⟩, hlB⟩ := h
  refine ⟨hk, hf, hs, ?_, ?_, ?_, hnum, hl1, ?_⟩
  rotate_left 3
  · intro hor
    have hc : (tcArray pf.tcode || tcBase pf.tcode == Base.string) = true := by
      rcases hor with h | h
      · simp [h]
      · simp [h]
    rw [if_pos hc] at hlB
    simpa using hlB
  · split at hkind <;> simp_all
  · split at hslot
    · rename_i k k' h1 h2
      have : k = k' := by simpa using hslot
      subst this
      exact ⟨k, h1, h2⟩
    · cases hslot
  · intro h253
    rw [Bool.or_eq_true] at hts
    rcases hts with h | h
    · simp [h253] at h
    · simpa using h

end Fit
namespace Fit

theorem padTmp_length (arch : Endian) (btype : Nat) (raw : Bytes) (dsize psize : Nat)
    (hr : raw.length = dsize) (h1 : 1 ≤ dsize) (h2 : dsize ≤ psize) :
    (padTmp arch btype raw dsize psize).length = psize := by
  unfold padTmp
  split
  · cases arch <;> simp <;> omega
  · omega

theorem known_msg (P : Profile) (g : Nat) (h : P.known g = true) : ∃ pm, P.msg? g = some pm ∧ pm.known = true := by
  unfold Profile.known at h
  split at h
  · rename_i pm hpm; exact ⟨pm, hpm, h⟩
  · cases h

/-- not a panic; and with a known message the message under construction is still there -/
def FieldsRes.Good (known : Bool) : FieldsRes → Prop
  | .panic => False
  | .err => True
  | .ok m' _ => known = true → m'.isSome = true

theorem store_good (kn : Bool) (msg : Msg) (idx : Nat) (v : Option Val) (ts : TsRef) :
    FieldsRes.Good kn (match v with
      | none => FieldsRes.ok (some msg) ts
      | some v => FieldsRes.ok (some { msg with vals := setAt msg.vals idx v }) ts) := by
  cases v <;> intro _ <;> rfl

theorem native_good (kn : Bool) (msg : Msg) (idx : Nat) (ts : TsRef) (r : FieldRes) :
    r ≠ .panic → FieldsRes.Good kn (match r with
      | .ok v => (match v with
        | none => FieldsRes.ok (some msg) ts
        | some v => FieldsRes.ok (some { msg with vals := setAt msg.vals idx v }) ts)
      | .err => .err
      | .panic => .panic) := by
  intro h
  cases r with
  | ok v => exact store_good kn msg idx v ts
  | err => trivial
  | panic => exact absurd rfl h

theorem validate_array (P : Profile) (g : Nat) (fd : FieldDef) (pf : PField)
    (hk : P.known g = true) (hf : P.getField g fd.num = some pf) (ha : tcArray pf.tcode = true)
    (h : validateFieldDef P g fd = true) : fd.btype = tcBase pf.tcode := by
  unfold validateFieldDef at h
  simp only [hk, ↓reduceIte, hf, ha] at h
  split at h
  · cases h
  · split at h
    · rename_i hs
      have : tcBase pf.tcode = fd.btype := by simpa using h
      exact this.symm
    · split at h
      · cases h
      · simp only [Bool.not_true, Bool.false_eq_true, ↓reduceIte] at h
        split at h
        · cases h
        · split at h
          · cases h
          · rename_i hne; simpa using hne

/-- the result of `applyField` on a validated definition of a well-formed profile: never a panic,
    and a message under construction stays one -/
theorem applyField_good (P : Profile) (hwf : ProfileWF P = true) (dm : DefMsg) (known : Bool)
    (fd : FieldDef) (raw : Bytes) (m : Option Msg) (ts : TsRef)
    (hknown : known = P.known dm.global)
    (hv : validateFieldDef P dm.global fd = true)
    (hraw : raw.length = fd.size)
    (hm : known = true → m.isSome = true) :
    FieldsRes.Good known (applyField P dm known fd raw m ts) := by
  unfold applyField
  split
  · exact hm
  · rename_i pf hpf
    dsimp only
    by_cases hkn : known = true
    · simp only [hkn, Bool.not_true, Bool.false_eq_true, ↓reduceIte]
      obtain ⟨pm, hpm, hfw⟩ := getField_wf P hwf _ _ _ hpf
      have facts := fieldWF_facts pm pf hfw
      obtain ⟨k, hl, hslot⟩ := facts.slot
      have hms := hm hkn
      cases m with
      | none => cases hms
      | some msg =>
        simp only [hpm, hl]
        have hkg : P.known dm.global = true := by rw [← hknown]; exact hkn
        have hkind := facts.kind
        cases hk : tcKind pf.tcode with
        | native =>
          dsimp only
          have hnat : ¬ (tcBase pf.tcode ≠ Base.string ∧ (!tcArray pf.tcode) = true ∧ Kind.native ≠ Kind.native) := by
            intro h; exact h.2.2 rfl
          rw [if_neg hnat]
          have htake : raw.take fd.size = raw := by rw [← hraw]; exact List.take_length
          rw [htake]
          apply native_good
          unfold slotOfType at hslot
          rw [hk] at hslot
          dsimp only at hslot
          cases hsc : scOfBase (tcBase pf.tcode) with
          | none => rw [hsc] at hslot; cases hslot
          | some sck =>
            rw [hsc] at hslot
            simp only [Option.some.injEq] at hslot
            by_cases ha : tcArray pf.tcode = true
            · -- array
              simp only [ha, Bool.not_true, Bool.false_eq_true, ↓reduceIte] at hslot ⊢
              subst hslot
              have hb := validate_array P dm.global fd pf hkg hpf ha hv
              apply parseFitFieldArray_no_panic
              · rw [hb]; exact facts.known
              · rw [hb]; exact facts.nofloat
              · rw [hb]; exact hsc
            · have ha' : tcArray pf.tcode = false := by simpa using ha
              simp only [ha', Bool.not_false, ↓reduceIte, Bool.false_eq_true] at hslot ⊢
              subst hslot
              obtain ⟨v1, v2⟩ := validate_scalar P dm.global fd pf hkg hpf ha' hv
              apply parseFitField_no_panic
              · intro hs
                have := v1 hs
                rw [this, slot_string] at hsc
                cases hsc; rfl
              · intro hs hsg
                obtain ⟨_, _, e3, e4, _⟩ := v2 hs
                obtain ⟨w, hw⟩ := slot_unsigned' _ (tcBase_lt _) facts.known facts.nofloat (by rw [e3]; exact hsg)
                  (tcBase_string _ e4)
                rw [hw] at hsc; cases hsc; exact ⟨w, rfl⟩
              · intro hsg
                have hs : fd.btype ≠ Base.string := by
                  intro h; rw [h] at hsg; revert hsg; decide
                obtain ⟨_, _, e3, e4, _⟩ := v2 hs
                obtain ⟨w, hw⟩ := slot_signed' _ (tcBase_lt _) facts.known facts.nofloat (by rw [e3]; exact hsg)
                rw [hw] at hsc; cases hsc; exact ⟨w, rfl⟩
              · by_cases hs : fd.btype = Base.string
                · rw [hs]; decide
                · obtain ⟨_, _, _, _, e5⟩ := v2 hs
                  cases hf : Base.isFloat fd.btype with
                  | false => rfl
                  | true => have := e5 hf; rw [facts.nofloat] at this; cases this
              · intro hs
                obtain ⟨e1, _⟩ := v2 hs
                omega
        | timeUTC =>
          dsimp only
          rw [hk] at hkind
          obtain ⟨hpb, ha'⟩ := hkind
          have hps : tcBase pf.tcode ≠ Base.string := by rw [hpb]; decide
          have hcond : tcBase pf.tcode ≠ Base.string ∧ (!tcArray pf.tcode) = true ∧ Kind.timeUTC ≠ Kind.native := by
            refine ⟨hps, by rw [ha']; rfl, by simp⟩
          rw [if_pos hcond]
          obtain ⟨v1, v2⟩ := validate_scalar P dm.global fd pf hkg hpf ha' hv
          have hbs : fd.btype ≠ Base.string := fun h => hps (v1 h)
          obtain ⟨e1, e2, _, _, _⟩ := v2 hbs
          have hp4 : Base.size (tcBase pf.tcode) = 4 := by rw [hpb]; decide
          have h1 := known_size_pos _ (validate_known P dm.global fd hv)
          have hlen0 := padTmp_length dm.arch fd.btype raw fd.size (Base.size (tcBase pf.tcode)) hraw (by omega) e2
          have hlen : (padTmp dm.arch fd.btype raw fd.size (Base.size (tcBase pf.tcode))).length = 4 := by rw [hlen0, hp4]
          generalize padTmp dm.arch fd.btype raw fd.size (Base.size (tcBase pf.tcode)) = tmp at hlen ⊢
          rw [if_neg (by omega)]
          unfold slotOfType at hslot
          rw [hk] at hslot
          simp only [ha', Bool.false_eq_true, ↓reduceIte, Option.some.injEq] at hslot
          subst hslot
          simp only [ne_eq, not_true_eq_false, and_false, ↓reduceIte]
          exact store_good true msg pf.sindex _ _
        | timeLocal =>
          dsimp only
          rw [hk] at hkind
          obtain ⟨hpb, ha'⟩ := hkind
          have hps : tcBase pf.tcode ≠ Base.string := by rw [hpb]; decide
          have hcond : tcBase pf.tcode ≠ Base.string ∧ (!tcArray pf.tcode) = true ∧ Kind.timeLocal ≠ Kind.native := by
            refine ⟨hps, by rw [ha']; rfl, by simp⟩
          rw [if_pos hcond]
          obtain ⟨v1, v2⟩ := validate_scalar P dm.global fd pf hkg hpf ha' hv
          have hbs : fd.btype ≠ Base.string := fun h => hps (v1 h)
          obtain ⟨e1, e2, _, _, _⟩ := v2 hbs
          have hp4 : Base.size (tcBase pf.tcode) = 4 := by rw [hpb]; decide
          have h1 := known_size_pos _ (validate_known P dm.global fd hv)
          have hlen0 := padTmp_length dm.arch fd.btype raw fd.size (Base.size (tcBase pf.tcode)) hraw (by omega) e2
          have hlen : (padTmp dm.arch fd.btype raw fd.size (Base.size (tcBase pf.tcode))).length = 4 := by rw [hlen0, hp4]
          generalize padTmp dm.arch fd.btype raw fd.size (Base.size (tcBase pf.tcode)) = tmp at hlen ⊢
          rw [if_neg (by omega)]
          unfold slotOfType at hslot
          rw [hk] at hslot
          simp only [ha', Bool.false_eq_true, ↓reduceIte, Option.some.injEq] at hslot
          subst hslot
          simp only [ne_eq, not_true_eq_false, and_false, ↓reduceIte]
          exact store_good true msg pf.sindex _ _
        | lat =>
          dsimp only
          rw [hk] at hkind
          obtain ⟨hpb, ha'⟩ := hkind
          have hps : tcBase pf.tcode ≠ Base.string := by rw [hpb]; decide
          have hcond : tcBase pf.tcode ≠ Base.string ∧ (!tcArray pf.tcode) = true ∧ Kind.lat ≠ Kind.native := by
            refine ⟨hps, by rw [ha']; rfl, by simp⟩
          rw [if_pos hcond]
          obtain ⟨v1, v2⟩ := validate_scalar P dm.global fd pf hkg hpf ha' hv
          have hbs : fd.btype ≠ Base.string := fun h => hps (v1 h)
          obtain ⟨e1, e2, _, _, _⟩ := v2 hbs
          have hp4 : Base.size (tcBase pf.tcode) = 4 := by rw [hpb]; decide
          have h1 := known_size_pos _ (validate_known P dm.global fd hv)
          have hlen0 := padTmp_length dm.arch fd.btype raw fd.size (Base.size (tcBase pf.tcode)) hraw (by omega) e2
          have hlen : (padTmp dm.arch fd.btype raw fd.size (Base.size (tcBase pf.tcode))).length = 4 := by rw [hlen0, hp4]
          generalize padTmp dm.arch fd.btype raw fd.size (Base.size (tcBase pf.tcode)) = tmp at hlen ⊢
          rw [if_neg (by omega)]
          unfold slotOfType at hslot
          rw [hk] at hslot
          simp only [ha', Bool.false_eq_true, ↓reduceIte, Option.some.injEq] at hslot
          subst hslot
          simp only [ne_eq, not_true_eq_false, ↓reduceIte]
          intro _; rfl
        | lng =>
          dsimp only
          rw [hk] at hkind
          obtain ⟨hpb, ha'⟩ := hkind
          have hps : tcBase pf.tcode ≠ Base.string := by rw [hpb]; decide
          have hcond : tcBase pf.tcode ≠ Base.string ∧ (!tcArray pf.tcode) = true ∧ Kind.lng ≠ Kind.native := by
            refine ⟨hps, by rw [ha']; rfl, by simp⟩
          rw [if_pos hcond]
          obtain ⟨v1, v2⟩ := validate_scalar P dm.global fd pf hkg hpf ha' hv
          have hbs : fd.btype ≠ Base.string := fun h => hps (v1 h)
          obtain ⟨e1, e2, _, _, _⟩ := v2 hbs
          have hp4 : Base.size (tcBase pf.tcode) = 4 := by rw [hpb]; decide
          have h1 := known_size_pos _ (validate_known P dm.global fd hv)
          have hlen0 := padTmp_length dm.arch fd.btype raw fd.size (Base.size (tcBase pf.tcode)) hraw (by omega) e2
          have hlen : (padTmp dm.arch fd.btype raw fd.size (Base.size (tcBase pf.tcode))).length = 4 := by rw [hlen0, hp4]
          generalize padTmp dm.arch fd.btype raw fd.size (Base.size (tcBase pf.tcode)) = tmp at hlen ⊢
          rw [if_neg (by omega)]
          unfold slotOfType at hslot
          rw [hk] at hslot
          simp only [ha', Bool.false_eq_true, ↓reduceIte, Option.some.injEq] at hslot
          subst hslot
          simp only [ne_eq, not_true_eq_false, ↓reduceIte]
          intro _; rfl
        | unknown n => rw [hk] at hkind; exact absurd hkind (by simp)
    · have hkf : known = false := by simpa using hkn
      simp only [hkf, Bool.not_false, ↓reduceIte]
      intro h; cases h

end Fit
