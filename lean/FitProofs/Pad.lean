import FitProofs.MsgRoundtrip
import FitProofs.EncodeFile
/-
  Arrays shorter than the profile length (C06: "arrays are compared up to trailing invalid
  padding"). `Encode` fills an array field up to the profile's length with the base type's invalid
  value, and writes a field that is invalid in this message — but valid in another message of the
  same slice — as a filler; `Decode` returns what is on the wire. `wireMsg` is the message that
  comes back: the message that was encoded, with every array field the record carries padded to
  the profile length.
-/
namespace Fit

/-- an array value padded with the base type's invalid value up to the profile length; other
    values unchanged -/
def padVal (pf : PField) (v : Val) : Val :=
  if tcArray pf.tcode then
    match v with
    | .us xs => .us (some (xs.getD [] ++
        List.replicate (pf.length - (xs.getD []).length) (Base.invalidNat (tcBase pf.tcode))))
    | .is zs => .is (some (zs.getD [] ++
        List.replicate (pf.length - (zs.getD []).length) ((Base.invalidNat (tcBase pf.tcode) : Nat) : Int)))
    | v => v
  else v

theorem padVal_scalar (pf : PField) (v : Val) (h : tcArray pf.tcode = false) : padVal pf v = v := by
  simp [padVal, h]

theorem padVal_full (pf : PField) (xs : List Nat) (h : pf.length ≤ xs.length) : padVal pf (.us (some xs)) = .us (some xs) := by
  unfold padVal
  split
  · simp only [Option.getD_some]
    have : pf.length - xs.length = 0 := by omega
    rw [this]; simp
  · rfl

/-- does the definition written for the messages `ms` carry field `pf`? It does when the field is
    valid in one of them. -/
def onIn (pm : PMsg) (ms : List Msg) (pf : PField) : Bool :=
  ms.any fun m => !isInvalidVal pm pf.sindex (m.vals.getD pf.sindex (.u 0))

def wireVal (pm : PMsg) (ms : List Msg) (i : Nat) (v : Val) : Val :=
  match fieldBySindex pm i with
  | some pf => if onIn pm ms pf then padVal pf v else v
  | none => v

/-- what `Decode` returns for message `m` written under the definition shared by `ms` -/
def wireMsg (pm : PMsg) (ms : List Msg) (m : Msg) : Msg :=
  { m with vals := m.vals.mapIdx (wireVal pm ms) }

@[simp] theorem wireMsg_num (pm : PMsg) (ms : List Msg) (m : Msg) : (wireMsg pm ms m).num = m.num := rfl

theorem wireMsg_length (pm : PMsg) (ms : List Msg) (m : Msg) : (wireMsg pm ms m).vals.length = m.vals.length := by
  simp [wireMsg]

theorem wireMsg_getElem? (pm : PMsg) (ms : List Msg) (m : Msg) (i : Nat) :
    (wireMsg pm ms m).vals[i]? = (m.vals[i]?).map (wireVal pm ms i) := by
  simp [wireMsg, List.getElem?_mapIdx]

/-- the lookup entry of a struct position is the entry itself (distinct numbers and struct indices) -/
theorem fieldBySindex_of_mem (pm : PMsg) (hmw : msgWF pm = true) (pf : PField) (h : pf ∈ pm.fields) :
    fieldBySindex pm pf.sindex = some pf := by
  have hinj := msgWF_inj pm hmw
  obtain ⟨hdist, _⟩ := msgWF_distinct pm hmw
  unfold fieldBySindex
  cases hf : pm.fields.find? (·.sindex == pf.sindex) with
  | none =>
    have := List.find?_eq_none.mp hf pf h
    simp at this
  | some q =>
    have hq := List.mem_of_find?_eq_some hf
    have hs : q.sindex = pf.sindex := by simpa using List.find?_some hf
    have hn : q.num = pf.num := (hinj q hq pf h).mpr hs
    have h1 := find?_distinct pm.fields pf hdist h
    have h2 := find?_distinct pm.fields q hdist hq
    rw [hn, h1] at h2
    exact h2.symm

end Fit

namespace Fit

/-- field `pf` with value `v`, written by `writeField`, is read back by `applyField` as `out`, when
    the message under construction holds `inv` at that position -/
def FieldRTG (P : Profile) (dm : DefMsg) (pf : PField) (k : SlotKind) (v inv out : Val) : Prop :=
  ∀ (msg : Msg) (ts : TsRef) (part : Bytes), msg.vals[pf.sindex]? = some inv → writeField dm.arch pf k v = .ok part →
    ∃ ts', applyField P dm true (fdOf pf) part (some msg) ts =
      .ok (some { msg with vals := setAt msg.vals pf.sindex out }) ts'

theorem FieldRTI.toG {P : Profile} {dm : DefMsg} {pf : PField} {k : SlotKind} {v inv : Val}
    (h : FieldRTI P dm pf k v inv) : FieldRTG P dm pf k v inv v := h

theorem FieldRT.toG {P : Profile} {dm : DefMsg} {pf : PField} {k : SlotKind} {v : Val} (h : FieldRT P dm pf k v) (inv : Val) :
    FieldRTG P dm pf k v inv v := fun msg ts part _ hp => h msg ts part hp

/-- the field loop over fields in strictly increasing struct order: every encoded position ends up
    holding what its field is read back as, every other position is untouched -/
theorem stepFields_rebuildsG (P : Profile) (dm : DefMsg) (pm : PMsg) (src : Msg)
    (fs : List PField) (parts : List Bytes) (inv out : PField → Val)
    (hsorted : fs.Pairwise (fun a b => a.sindex < b.sindex))
    (hparts : (fs.map fun pf =>
      match pm.layout[pf.sindex]?, src.vals[pf.sindex]? with
      | some k, some v => writeField dm.arch pf k v
      | _, _ => .error .panic) = parts.map .ok)
    (hrt : ∀ pf ∈ fs, ∀ k v, pm.layout[pf.sindex]? = some k → src.vals[pf.sindex]? = some v →
      FieldRTG P dm pf k v (inv pf) (out pf))
    (hgf : ∀ pf ∈ fs, P.getField dm.global pf.num = some pf)
    (msg : Msg) (st : DecSt) (hlen : msg.vals.length = src.vals.length)
    (hinit : ∀ pf ∈ fs, msg.vals[pf.sindex]? = some (inv pf)) :
    ∃ msg' st', stepFields P dm true (fs.map fdOf) parts (some msg) st = .ok (some msg') st' ∧
      msg'.num = msg.num ∧ msg'.vals.length = src.vals.length ∧
      (∀ pf ∈ fs, msg'.vals[pf.sindex]? = some (out pf)) ∧
      (∀ i, (¬ ∃ pf ∈ fs, pf.sindex = i) → msg'.vals[i]? = msg.vals[i]?) := by
  induction fs generalizing parts msg st with
  | nil =>
    cases parts with
    | nil => exact ⟨msg, st, rfl, rfl, hlen, (fun pf h => by cases h), (fun i _ => rfl)⟩
    | cons _ _ => simp at hparts
  | cons pf fs ih =>
    cases parts with
    | nil => simp at hparts
    | cons part parts =>
      simp only [List.map_cons, List.cons.injEq] at hparts
      obtain ⟨hp1, hp2⟩ := hparts
      rw [List.pairwise_cons] at hsorted
      obtain ⟨hlt, hsorted'⟩ := hsorted
      cases hk : pm.layout[pf.sindex]? with
      | none => rw [hk] at hp1; cases hp1
      | some k =>
        cases hv : src.vals[pf.sindex]? with
        | none => rw [hk, hv] at hp1; cases hp1
        | some v =>
          rw [hk, hv] at hp1
          simp only at hp1
          have hsi : pf.sindex < src.vals.length := by
            cases h : src.vals[pf.sindex]? with
            | none => rw [h] at hv; cases hv
            | some _ => exact (List.getElem?_eq_some_iff.mp h).1
          simp only [List.map_cons]
          unfold stepFields
          have hg := hgf pf (List.mem_cons_self ..)
          have hnone : ¬ ((P.getField dm.global (fdOf pf).num).isNone = true ∧ true = true) := by
            simp [fdOf, hg]
          rw [if_neg hnone]
          dsimp only
          obtain ⟨ts', hap⟩ := hrt pf (List.mem_cons_self ..) k v hk hv msg
            (DecSt.ts { st with n := st.n + (fdOf pf).size, crc := Crc.update st.crc part }) part
            (hinit pf (List.mem_cons_self ..)) hp1
          rw [hap]
          simp only
          have hlen2 : ({ msg with vals := setAt msg.vals pf.sindex (out pf) } : Msg).vals.length = src.vals.length := by
            simp only [length_setAt', hlen]
          have hinit2 : ∀ q ∈ fs, ({ msg with vals := setAt msg.vals pf.sindex (out pf) } : Msg).vals[q.sindex]? = some (inv q) := by
            intro q hq
            have hne : pf.sindex ≠ q.sindex := Nat.ne_of_lt (hlt q hq)
            simp only
            rw [getElem?_setAt_other _ _ _ _ hne]
            exact hinit q (List.mem_cons_of_mem _ hq)
          obtain ⟨msg', st', h1, h2, h3, h4, h5⟩ := ih parts hsorted' hp2
            (fun p hp => hrt p (List.mem_cons_of_mem _ hp)) (fun p hp => hgf p (List.mem_cons_of_mem _ hp))
            { msg with vals := setAt msg.vals pf.sindex (out pf) } _ hlen2 hinit2
          refine ⟨msg', st', h1, h2, h3, ?_, ?_⟩
          · intro p hp
            cases hp with
            | head =>
              have hin : ¬ ∃ q ∈ fs, q.sindex = pf.sindex := by
                intro ⟨q, hq, hqi⟩
                have := hlt q hq
                omega
              rw [h5 _ hin]
              simp only
              exact getElem?_setAt_same _ _ _ (by rw [hlen]; exact hsi)
            | tail _ hp' => exact h4 p hp'
          · intro i hi
            have hin : ¬ ∃ q ∈ fs, q.sindex = i := fun ⟨q, hq, hqi⟩ => hi ⟨q, List.mem_cons_of_mem _ hq, hqi⟩
            rw [h5 i hin]
            have hne : pf.sindex ≠ i := fun e => hi ⟨pf, List.mem_cons_self .., e⟩
            simp only
            exact getElem?_setAt_other _ _ _ _ hne

/-- `getEncodeMesgDef` lists the fields in strictly increasing struct order -/
theorem encodeMesgDef_sorted_aux (pm : PMsg) (m : Msg) (idx : List Nat) (fs : List PField)
    (hidx : idx.Pairwise (· < ·))
    (h : idx.foldr (fun i acc =>
      match acc with
      | none => none
      | some fs =>
        let v := m.vals.getD i (.u 0)
        if isInvalidVal pm i v then some fs
        else match fieldBySindex pm i with
          | some pf => some (pf :: fs)
          | none => none) (some []) = some fs) :
    fs.Pairwise (fun a b => a.sindex < b.sindex) ∧ ∀ pf ∈ fs, pf.sindex ∈ idx := by
  induction idx generalizing fs with
  | nil => simp only [List.foldr_nil, Option.some.injEq] at h; subst h; simp
  | cons i idx ih =>
    simp only [List.foldr_cons] at h
    rw [List.pairwise_cons] at hidx
    generalize hacc : idx.foldr _ (some []) = acc at h
    cases acc with
    | none => cases h
    | some fs0 =>
      obtain ⟨h1, h2⟩ := ih fs0 hidx.2 hacc
      simp only at h
      by_cases hiv : isInvalidVal pm i (m.vals.getD i (.u 0)) = true
      · rw [if_pos hiv] at h
        cases h
        exact ⟨h1, fun pf hp => List.mem_cons_of_mem _ (h2 pf hp)⟩
      · rw [if_neg hiv] at h
        cases hf : fieldBySindex pm i with
        | none => rw [hf] at h; cases h
        | some pf =>
          rw [hf] at h
          cases h
          have hsi := fieldBySindex_sindex pm i pf hf
          refine ⟨?_, ?_⟩
          · rw [List.pairwise_cons]
            refine ⟨fun q hq => ?_, h1⟩
            rw [hsi]
            exact hidx.1 _ (h2 q hq)
          · intro p hp
            cases hp with
            | head => rw [hsi]; exact List.mem_cons_self ..
            | tail _ hp' => exact List.mem_cons_of_mem _ (h2 p hp')

theorem encodeMesgDef_sorted (pm : PMsg) (m : Msg) (fs : List PField) (h : encodeMesgDef pm m = some fs) :
    fs.Pairwise (fun a b => a.sindex < b.sindex) := by
  unfold encodeMesgDef at h
  exact (encodeMesgDef_sorted_aux pm m (List.range m.vals.length) fs (List.pairwise_lt_range) h).1

end Fit
namespace Fit

/-- `message_roundtrip` with padding: the field loop, run on the data record `Encode` wrote, rebuilds
    the message with its arrays padded to the profile length -/
theorem message_roundtripG (P : Profile) (hwf : ProfileWF P = true) (arch : Endian) (m : Msg) (bs : Bytes)
    (pm : PMsg) (hpm : P.msg? m.num = some pm) (hkn : pm.known = true)
    (h : encodeOne P arch m = .ok bs)
    (hrt : ∀ pf ∈ pm.fields, ∀ k v, pm.layout[pf.sindex]? = some k → m.vals[pf.sindex]? = some v →
      isInvalidVal pm pf.sindex v = false → ∀ fs, FieldRTG P (defOf arch m.num fs) pf k v
        (pm.invalid.getD pf.sindex (.u 0)) (padVal pf v))
    (hinv : ∀ i v, m.vals[i]? = some v → isInvalidVal pm i v = true → pm.invalid[i]? = some v) :
    ∃ (fs : List PField) (parts : List Bytes),
      bs = serialize [.defn (defOf arch m.num fs) false, .data 0 parts []] ∧
      (∀ pf ∈ fs, pf ∈ pm.fields) ∧ FieldsFit (fs.map fdOf) parts ∧ fs.length < 256 ∧
      ∀ st : DecSt, ∃ st', stepFields P (defOf arch m.num fs) true (defOf arch m.num fs).fields parts
        (some ⟨m.num, pm.invalid⟩) st = .ok (some (wireMsg pm [m] m)) st' := by
  -- redo the decomposition of encodeOne, keeping the link between parts and fields
  unfold encodeOne at h
  rw [hpm] at h
  simp only at h
  split at h
  · cases h
  · rename_i hcond
    cases hdef : encodeMesgDef pm m with
    | none => rw [hdef] at h; cases h
    | some fs =>
      rw [hdef] at h
      simp only at h
      cases hmb : mesgBytes arch pm m fs with
      | error e => rw [hmb] at h; cases h
      | ok b =>
        rw [hmb] at h
        injection h with h
        subst h
        have hmw := msg?_wf P hwf m.num pm hpm
        obtain ⟨hmem, _⟩ := encodeMesgDef_mem pm m fs hdef
        obtain ⟨hsp1, hsp2⟩ := encodeMesgDef_spec pm m fs hdef
        obtain ⟨hdist, hinf⟩ := msgWF_distinct pm hmw
        have hvl : m.vals.length = pm.invalid.length := by
          by_cases hv : m.vals.length = pm.invalid.length
          · exact hv
          · exact absurd (Or.inr hv) hcond
        unfold mesgBytes at hmb
        split at hmb
        · rename_i body hc
          injection hmb with hmb
          subst hmb
          obtain ⟨parts, hp1, hp2⟩ := concatE_ok _ _ hc
          have hfsl : fs.length < 256 := by
            obtain ⟨_, hlay, hinvl, _⟩ := msgWF_bounds pm hmw
            have htc : pm.hasCtor = true ∧ pm.hasType = true := by
              cases h1 : pm.hasCtor <;> cases h2 : pm.hasType <;> simp [h1, h2] at hcond ⊢
            have := hinvl htc.2 htc.1
            have := (encodeMesgDef_mem pm m fs hdef).2
            omega
          refine ⟨fs, parts, ?_, hmem, parts_fit arch pm m fs parts (fun pf hp => (msgWF_bounds pm hmw).2.2.2 pf (hmem pf hp)) hp1, hfsl, ?_⟩
          · rw [defBytes_eq, hp2]
            simp [serialize, serializeItem, u8]
          · intro st
            have hgf : ∀ pf ∈ fs, P.getField (defOf arch m.num fs).global pf.num = some pf := by
              intro pf hp
              show P.getField m.num pf.num = some pf
              unfold Profile.getField
              rw [hpm]
              simp only [hinf hkn, ↓reduceIte]
              exact find?_distinct pm.fields pf hdist (hmem pf hp)
            have hrt' : ∀ pf ∈ fs, ∀ k v, pm.layout[pf.sindex]? = some k → m.vals[pf.sindex]? = some v →
                FieldRTG P (defOf arch m.num fs) pf k v (pm.invalid.getD pf.sindex (.u 0))
                  (padVal pf (m.vals.getD pf.sindex (.u 0))) := by
              intro pf hp k v hk hv
              have hiv := (hsp1 pf hp).2
              have e : m.vals.getD pf.sindex (.u 0) = v := by
                simp [List.getD_eq_getElem?_getD, hv]
              rw [e] at hiv ⊢
              exact hrt pf (hmem pf hp) k v hk hv hiv fs
            have hinit : ∀ pf ∈ fs, (⟨m.num, pm.invalid⟩ : Msg).vals[pf.sindex]? = some (pm.invalid.getD pf.sindex (.u 0)) := by
              intro pf hp
              have hlt : pf.sindex < pm.invalid.length := by rw [← hvl]; exact (hsp1 pf hp).1
              simp only [List.getD_eq_getElem?_getD, List.getElem?_eq_getElem hlt, Option.getD_some]
            obtain ⟨msg', st', h1, h2, h3, h4, h5⟩ := stepFields_rebuildsG P (defOf arch m.num fs) pm m fs parts
              (fun pf => pm.invalid.getD pf.sindex (.u 0)) (fun pf => padVal pf (m.vals.getD pf.sindex (.u 0)))
              (encodeMesgDef_sorted pm m fs hdef) hp1 hrt' hgf ⟨m.num, pm.invalid⟩ st hvl.symm hinit
            refine ⟨st', ?_⟩
            have hm' : msg' = wireMsg pm [m] m := by
              cases msg' with
              | mk num' vals' =>
                simp only at h2 h3 h4 h5
                have hw : wireMsg pm [m] m = ⟨m.num, (wireMsg pm [m] m).vals⟩ := rfl
                rw [hw]
                simp only [Msg.mk.injEq]
                refine ⟨h2, ?_⟩
                apply List.ext_getElem?
                intro i
                rw [wireMsg_getElem?]
                by_cases hin : ∃ pf ∈ fs, pf.sindex = i
                · obtain ⟨pf, hp, hpi⟩ := hin
                  subst hpi
                  rw [h4 pf hp]
                  have hlt := (hsp1 pf hp).1
                  have hv : m.vals[pf.sindex]? = some m.vals[pf.sindex] := List.getElem?_eq_getElem hlt
                  have e : m.vals.getD pf.sindex (.u 0) = m.vals[pf.sindex] := by
                    simp [List.getD_eq_getElem?_getD, hv]
                  rw [hv]
                  simp only [Option.map_some]
                  congr 1
                  unfold wireVal
                  rw [fieldBySindex_of_mem pm hmw pf (hmem pf hp)]
                  have hon : onIn pm [m] pf = true := by
                    simp only [onIn, List.any_cons, List.any_nil, Bool.or_false, (hsp1 pf hp).2]; rfl
                  simp only [hon, ↓reduceIte, e]
                · rw [h5 i hin]
                  by_cases hil : i < m.vals.length
                  · have hv : m.vals[i]? = some m.vals[i] := List.getElem?_eq_getElem hil
                    have e : m.vals.getD i (.u 0) = m.vals[i] := by simp [List.getD_eq_getElem?_getD, hv]
                    have hiv : isInvalidVal pm i (m.vals.getD i (.u 0)) = true := by
                      cases hh : isInvalidVal pm i (m.vals.getD i (.u 0)) with
                      | true => rfl
                      | false => exact absurd (hsp2 i hil hh) hin
                    have hiv' := hiv
                    rw [e] at hiv'
                    show pm.invalid[i]? = _
                    rw [hinv i m.vals[i] hv hiv', hv]
                    simp only [Option.map_some]
                    congr 1
                    unfold wireVal
                    cases hf : fieldBySindex pm i with
                    | none => rfl
                    | some pf =>
                      have hsi := fieldBySindex_sindex pm i pf hf
                      have hon : onIn pm [m] pf = false := by
                        simp only [onIn, List.any_cons, List.any_nil, Bool.or_false, hsi, hiv]; rfl
                      simp only [hon, Bool.false_eq_true, ↓reduceIte]
                  · have h1' : m.vals[i]? = none := List.getElem?_eq_none (by omega)
                    have h2' : pm.invalid[i]? = none := List.getElem?_eq_none (by omega)
                    show pm.invalid[i]? = _
                    rw [h1', h2']; rfl
            rw [hm'] at h1
            exact h1
        · cases hmb

end Fit

namespace Fit

/-- a message written alone (`encodeDefAndDataMesg`), as it comes back -/
def wire1 (P : Profile) (m : Msg) : Msg :=
  match P.msg? m.num with
  | some pm => wireMsg pm [m] m
  | none => m

/-- the messages of one container field, as they come back: a slice is written under one shared
    definition, a pointer field alone -/
def wireSlot (P : Profile) (many : Bool) (ms : List Msg) : List Msg :=
  match ms with
  | [] => []
  | m0 :: rest =>
    if many then
      match P.msg? m0.num with
      | some pm => (m0 :: rest).map (wireMsg pm (m0 :: rest))
      | none => m0 :: rest
    else wire1 P m0 :: rest

/-- the File as it comes back from `Decode (Encode f)`, before component expansion: every array
    field a record carries is padded with invalid values to the profile length -/
def wireFile (P : Profile) (c : Container) (f : FileSt) : FileSt :=
  { f with fileId := wire1 P f.fileId, creator := f.creator.map (wire1 P), tscorr := f.tscorr.map (wire1 P),
           slots := (c.slots.zip f.slots).map fun z => wireSlot P z.1.many z.2 }

@[simp] theorem wire1_num (P : Profile) (m : Msg) : (wire1 P m).num = m.num := by
  unfold wire1; split <;> rfl

theorem wireSlot_nums (P : Profile) (many : Bool) (ms : List Msg) (n : Nat) (h : ∀ m ∈ ms, m.num = n) :
    ∀ m ∈ wireSlot P many ms, m.num = n := by
  intro m hm
  unfold wireSlot at hm
  split at hm
  · cases hm
  · rename_i m0 rest
    split at hm
    · split at hm
      · simp only [List.mem_map] at hm
        obtain ⟨x, hx, rfl⟩ := hm
        rw [wireMsg_num]; exact h x hx
      · exact h m hm
    · cases hm with
      | head => rw [wire1_num]; exact h m0 (List.mem_cons_self ..)
      | tail _ hm' => exact h m (List.mem_cons_of_mem _ hm')

theorem wireSlot_length (P : Profile) (many : Bool) (ms : List Msg) : (wireSlot P many ms).length = ms.length := by
  unfold wireSlot
  split
  · rfl
  · split
    · split <;> simp
    · simp

theorem zip_map_zip {α β γ} (l : List α) (r : List β) (g : α × β → γ) :
    l.zip ((l.zip r).map g) = (l.zip r).map (fun z => (z.1, g z)) := by
  induction l generalizing r with
  | nil => simp
  | cons a l ih =>
    cases r with
    | nil => simp
    | cons b r => simp [ih]

end Fit

namespace Fit

theorem padVal_u_iff (pf : PField) (v : Val) (t : Nat) : padVal pf v = .u t ↔ v = .u t := by
  unfold padVal
  split
  · cases v <;> simp
  · rfl

theorem wireVal_u_iff (pm : PMsg) (ms : List Msg) (i : Nat) (v : Val) (t : Nat) : wireVal pm ms i v = .u t ↔ v = .u t := by
  unfold wireVal
  split
  · split
    · exact padVal_u_iff _ _ _
    · rfl
  · rfl

/-- padding does not change the file type a file_id message declares -/
theorem fileTypeOf_wire (pm : PMsg) (ms : List Msg) (f : FileSt) (m : Msg) :
    fileTypeOf { f with fileId := wireMsg pm ms m } = fileTypeOf { f with fileId := m } := by
  unfold fileTypeOf
  simp only [wireMsg]
  cases hv : m.vals with
  | nil => rfl
  | cons v rest =>
    simp only [List.mapIdx_cons]
    cases hw : wireVal pm ms 0 v with
    | u t =>
      have := (wireVal_u_iff pm ms 0 v t).mp hw
      rw [this]
    | _ =>
      cases v with
      | u t =>
        have := (wireVal_u_iff pm ms 0 (.u t) t).mpr rfl
        rw [this] at hw; cases hw
      | _ => rfl

end Fit
