import FitProofs.Framing
/-
  C11, the partial File: a stream cut (or a reader failing) inside a record makes the record loop
  stop with an error, and the File it hands back is the File as it stood after the last complete
  record — the incomplete record leaves no trace.

  The decoder is written in continuation-passing style; `DProg.bind` and the `*_bind` equalities
  below show that each parser is "its own run, then the continuation", which lets a statement about
  one record (proved with the continuation `done`) be used inside the loop.
-/
namespace Fit

/-- sequencing of data-phase programs -/
def DProg.bind {ε β γ} : DProg ε β → (β → DProg ε γ) → DProg ε γ
  | .done x, k => k x
  | .exit e, _ => .exit e
  | .readBuf n onErr cont, k => .readBuf n onErr (fun bs => (cont bs).bind k)

theorem runSpecD_bind {ε β γ} (limit : Nat) (p : DProg ε β) (k : β → DProg ε γ) (n : Nat) (s : SpecSt) :
    runSpecD limit (p.bind k) n s =
      match runSpecD limit p n s with
      | (.inl e, n', s') => (.inl e, n', s')
      | (.inr x, n', s') => runSpecD limit (k x) n' s' := by
  induction p generalizing n s with
  | done x => rfl
  | exit e => rfl
  | readBuf m onErr cont ih =>
    simp only [DProg.bind, runSpecD]
    split
    · exact ih _ _ _
    · split <;> rfl

/-! ### every parser is its own run followed by the continuation -/

theorem rd_bind {γ} (st : DecSt) (k : Nat) (c : Bytes → DecSt → DP) (K : DecSt → DProg ErrExit γ) :
    (rd st k c).bind K = .readBuf k (fun e => ⟨some (bufErr e), st⟩)
      (fun bs => (c bs { st with n := st.n + k, crc := Crc.update st.crc bs }).bind K) := rfl

theorem parseFields_bind (P : Profile) (dm : DefMsg) (known : Bool) (fds : List FieldDef) (m : Option Msg) (st : DecSt)
    (c : Option Msg → DecSt → DP) (K : DecSt → DP) :
    parseFields P dm known fds m st (fun m st => (c m st).bind K) = (parseFields P dm known fds m st c).bind K := by
  induction fds generalizing m st with
  | nil => rfl
  | cons fd fds ih =>
    simp only [parseFields, rd, DProg.bind]
    congr 1
    funext raw
    split
    · rfl
    · rfl
    · exact ih _ _

theorem skipDev_bind (ds : List DevDesc) (st : DecSt) (c : DecSt → DP) (K : DecSt → DP) :
    skipDev ds st (fun st => (c st).bind K) = (skipDev ds st c).bind K := by
  induction ds generalizing st with
  | nil => rfl
  | cons d ds ih =>
    simp only [skipDev, rd, DProg.bind]
    congr 1
    funext raw
    exact ih _

theorem parseData_bind (P : Profile) (hb : Nat) (compressed : Bool) (st : DecSt)
    (c : Option Msg → DecSt → DP) (K : DecSt → DP) :
    parseData P hb compressed st (fun m st => (c m st).bind K) = (parseData P hb compressed st c).bind K := by
  have body : ∀ (dm : DefMsg) (known : Bool) (m : Option Msg) (st : DecSt),
      parseFields P dm known dm.fields m st (fun m st => skipDev dm.dev st fun st => (c m st).bind K) =
        (parseFields P dm known dm.fields m st (fun m st => skipDev dm.dev st fun st => c m st)).bind K := by
    intro dm known m st
    rw [← parseFields_bind]
    congr 1
    funext m st
    exact skipDev_bind dm.dev st (c m) K
  rw [parseData_pre, parseData_pre]
  cases dataPre P hb compressed st with
  | stop b st' => cases b <;> rfl
  | go dm m st' => exact body _ _ _ _

theorem ite_bind {c : Prop} [Decidable c] (a b : DP) (K : DecSt → DP) :
    (if c then a else b).bind K = if c then a.bind K else b.bind K := by
  split <;> rfl

theorem parseDefinition_bind (P : Profile) (hb : Nat) (st : DecSt) (c : DefMsg → DecSt → DP) (K : DecSt → DP) :
    parseDefinition P hb st (fun dm st => (c dm st).bind K) = (parseDefinition P hb st c).bind K := by
  unfold parseDefinition
  simp only [rd, DProg.bind, ite_bind, dfail]

/-- once the declared data size is reached the loop hands over, whatever fuel is left -/
theorem loop_done (P : Profile) (limit fuel : Nat) (st : DecSt) (cont : DecSt → DP) (h : ¬ st.n < limit) :
    decodeFileData P limit fuel st cont = cont st := by
  cases fuel with
  | zero => rfl
  | succ f => simp only [decodeFileData, h, ↓reduceIte]

/-- one record of the loop, on its own: it ends with the state after the record -/
def oneRecord (P : Profile) (limit : Nat) (st : DecSt) : DP := decodeFileData P limit 1 st fun st => .done st

theorem addThen_bind (P : Profile) (m : Option Msg) (st : DecSt) (K : DecSt → DP) :
    (match addMsg P m st with
      | none => dpanic st
      | some st => (DProg.done st : DP)).bind K =
    match addMsg P m st with
      | none => dpanic st
      | some st => K st := by
  cases addMsg P m st <;> rfl

/-- **the loop is one record, then the loop** -/
theorem loop_step (P : Profile) (limit fuel : Nat) (st : DecSt) (cont : DecSt → DP) :
    decodeFileData P limit (fuel + 1) st cont =
      (oneRecord P limit st).bind fun st' => decodeFileData P limit fuel st' cont := by
  unfold oneRecord
  by_cases h : st.n < limit
  · simp only [decodeFileData, h, ↓reduceIte, rd, DProg.bind]
    congr 1
    funext hbs
    simp only [ite_bind]
    split
    · rw [← parseData_bind]
      congr 1
      funext m st2
      exact (addThen_bind P m st2 _).symm
    · split
      · rw [← parseDefinition_bind]
        rfl
      · rw [← parseData_bind]
        congr 1
        funext m st2
        exact (addThen_bind P m st2 _).symm
  · rw [loop_done P limit (fuel + 1) st cont h, loop_done P limit 1 st _ h]
    simp only [DProg.bind]
    exact (loop_done P limit fuel st cont h).symm

/-! ### an incomplete record leaves the File alone -/

/-- what a caller gets back of the decoder state with an error: the File and the accumulators -/
def DecSt.fileOf (st : DecSt) : Option FileSt × Globals := (st.file, st.glob)

/-- every early exit of the program carries the File `F` -/
def ExitsKeep (F : Option FileSt × Globals) : DP → Prop
  | .done _ => True
  | .exit e => e.st.fileOf = F
  | .readBuf _ onErr cont => (∀ r, (onErr r).st.fileOf = F) ∧ ∀ bs, ExitsKeep F (cont bs)

theorem ExitsKeep.run {F : Option FileSt × Globals} (p : DP) (h : ExitsKeep F p) (limit n : Nat) (s : SpecSt) (e : ErrExit)
    (hr : (runSpecD limit p n s).1 = .inl e) : e.st.fileOf = F := by
  induction p generalizing n s with
  | done x => simp [runSpecD] at hr
  | exit e' => simp only [runSpecD] at hr; cases hr; exact h
  | readBuf k onErr cont ih =>
    simp only [runSpecD] at hr
    split at hr
    · exact ih _ (h.2 _) _ _ hr
    · split at hr <;> (cases hr; exact h.1 _)

/-- every early exit of the program ends in a state satisfying `R` -/
def ExitsSat (R : DecSt → Prop) : DP → Prop
  | .done _ => True
  | .exit e => R e.st
  | .readBuf _ onErr cont => (∀ r, R (onErr r).st) ∧ ∀ bs, ExitsSat R (cont bs)

theorem ExitsSat.run {R : DecSt → Prop} (p : DP) (h : ExitsSat R p) (limit n : Nat) (s : SpecSt) (e : ErrExit)
    (hr : (runSpecD limit p n s).1 = .inl e) : R e.st := by
  induction p generalizing n s with
  | done x => simp [runSpecD] at hr
  | exit e' => simp only [runSpecD] at hr; cases hr; exact h
  | readBuf k onErr cont ih =>
    simp only [runSpecD] at hr
    split at hr
    · exact ih _ (h.2 _) _ _ hr
    · split at hr <;> (cases hr; exact h.1 _)

theorem trivialSat (p : DP) : ExitsSat (fun _ => True) p := by
  induction p with
  | done x => trivial
  | exit e => trivial
  | readBuf k onErr cont ih => exact ⟨fun _ => trivial, ih⟩

theorem rd_keep (F : Option FileSt × Globals) (st : DecSt) (k : Nat) (c : Bytes → DecSt → DP) (hst : st.fileOf = F)
    (hc : ∀ bs st', st'.fileOf = F → ExitsKeep F (c bs st')) : ExitsKeep F (rd st k c) :=
  ⟨fun _ => hst, fun bs => hc bs _ hst⟩

theorem parseFields_keep (F : Option FileSt × Globals) (P : Profile) (dm : DefMsg) (known : Bool) (fds : List FieldDef)
    (m : Option Msg) (st : DecSt) (c : Option Msg → DecSt → DP) (hst : st.fileOf = F)
    (hc : ∀ m st', st'.fileOf = F → ExitsKeep F (c m st')) : ExitsKeep F (parseFields P dm known fds m st c) := by
  induction fds generalizing m st with
  | nil => exact hc m st hst
  | cons fd fds ih =>
    unfold parseFields
    dsimp only
    apply rd_keep
    · split <;> exact hst
    · intro raw st2 h2
      split
      · exact h2
      · exact h2
      · exact ih _ _ h2

theorem skipDev_keep (F : Option FileSt × Globals) (ds : List DevDesc) (st : DecSt) (c : DecSt → DP) (hst : st.fileOf = F)
    (hc : ∀ st', st'.fileOf = F → ExitsKeep F (c st')) : ExitsKeep F (skipDev ds st c) := by
  induction ds generalizing st with
  | nil => exact hc st hst
  | cons d ds ih =>
    unfold skipDev
    exact rd_keep F st _ _ hst fun _ st2 h2 => ih st2 h2

def DataPre.st : DataPre → DecSt
  | .stop _ st => st
  | .go _ _ st => st

theorem dataPre_fileOf (P : Profile) (hb : Nat) (compressed : Bool) (st : DecSt) :
    (dataPre P hb compressed st).st.fileOf = st.fileOf := by
  unfold dataPre
  dsimp only
  repeat' split
  all_goals rfl

theorem parseData_keep (F : Option FileSt × Globals) (P : Profile) (hb : Nat) (compressed : Bool) (st : DecSt)
    (c : Option Msg → DecSt → DP) (hst : st.fileOf = F)
    (hc : ∀ m st', st'.fileOf = F → ExitsKeep F (c m st')) : ExitsKeep F (parseData P hb compressed st c) := by
  rw [parseData_pre]
  have hp := dataPre_fileOf P hb compressed st
  cases hd : dataPre P hb compressed st with
  | stop b st' =>
    rw [hd] at hp
    have : st'.fileOf = F := hp.trans hst
    cases b <;> exact this
  | go dm m st' =>
    rw [hd] at hp
    have h' : st'.fileOf = F := hp.trans hst
    exact parseFields_keep F P dm _ dm.fields m st' _ h' fun m st2 h2 =>
      skipDev_keep F dm.dev st2 _ h2 fun st3 h3 => hc m st3 h3

theorem parseDefinition_keep (F : Option FileSt × Globals) (P : Profile) (hb : Nat) (st : DecSt)
    (c : DefMsg → DecSt → DP) (hst : st.fileOf = F)
    (hc : ∀ dm st', st'.fileOf = F → ExitsKeep F (c dm st')) : ExitsKeep F (parseDefinition P hb st c) := by
  unfold parseDefinition
  dsimp only
  apply rd_keep F _ _ _ hst
  intro _ st1 h1
  apply rd_keep F _ _ _ h1
  intro a st2 h2
  split
  · exact h2
  · generalize (if (a.headD 0).toNat = 0 then Endian.le else Endian.be) = arch
    apply rd_keep F _ _ _ h2
    intro g st3 h3
    split
    · exact h3
    · apply rd_keep F _ _ _ h3
      intro nf st4 h4
      split
      · exact hc _ _ h4
      · apply rd_keep F _ _ _ h4
        intro fb st5 h5
        split
        · exact h5
        · split
          · apply rd_keep F _ _ _ h5
            intro nd st6 h6
            apply rd_keep F _ _ _ h6
            intro db st7 h7
            exact hc _ _ h7
          · exact hc _ _ h5

/-- every early exit of one record — a failed read, a rejected definition, a malformed field —
    carries the File as it was before the record -/
theorem oneRecord_keep (P : Profile) (limit : Nat) (st : DecSt) : ExitsKeep st.fileOf (oneRecord P limit st) := by
  unfold oneRecord
  simp only [decodeFileData]
  split
  · apply rd_keep _ _ _ _ rfl
    intro hbs st1 h1
    have addK : ∀ (m : Option Msg) (st' : DecSt), st'.fileOf = st.fileOf →
        ExitsKeep st.fileOf (match addMsg P m st' with
          | none => dpanic st'
          | some st => (DProg.done st : DP)) := by
      intro m st' h'
      cases addMsg P m st' with
      | none => exact h'
      | some _ => trivial
    split
    · exact parseData_keep _ P _ true st1 _ h1 addK
    · split
      · exact parseDefinition_keep _ P _ st1 _ h1 fun _ _ _ => trivial
      · exact parseData_keep _ P _ false st1 _ h1 addK
  · trivial

/-- **A record cut short.** If the stream ends (or the reader fails) inside a record — any strict
    prefix of the record's bytes is all there is — the loop stops with an early exit carrying the
    File exactly as it was before that record. -/
theorem cut_record (P : Profile) (limit fuel : Nat) (cont : DecSt → DP) (st : DecSt) (it : Item) (hok : ItemOK st it)
    (n : Nat) (hn : st.n = n) (hl : n + (serializeItem it).length ≤ limit) (s : SpecSt) (j : Nat)
    (hj : j < (serializeItem it).length) (hs : s.rest = (serializeItem it).take j)
    (R : DecSt → DecSt → Prop := fun _ _ => True)
    (hR : ∀ limit st, ExitsSat (R st) (oneRecord P limit st) := by intros; exact trivialSat _) :
    ∃ e, (runSpecD limit (decodeFileData P limit (fuel + 1) st cont) n s).1 = .inl e ∧ e.st.fileOf = st.fileOf ∧ R st e.st := by
  rw [loop_step, runSpecD_bind]
  have hkeep := oneRecord_keep P limit st
  have hcons := runSpecD_conserve limit (oneRecord P limit st) n s
  cases hr : runSpecD limit (oneRecord P limit st) n s with
  | mk o rest =>
    obtain ⟨n', s'⟩ := rest
    cases o with
    | inl e =>
      refine ⟨e, rfl, ?_, ?_⟩
      · exact hkeep.run _ limit n s e (by rw [hr])
      · exact (hR limit st).run _ limit n s e (by rw [hr])
    | inr x =>
      exfalso
      have hext := runSpecD_extend limit (oneRecord P limit st) n s ((serializeItem it).drop j) x (by rw [hr])
      have hrest : (s.extend ((serializeItem it).drop j)).rest = serializeItem it ++ [] := by
        simp only [SpecSt.extend, hs, List.take_append_drop, List.append_nil]
      have hitem := run_item P limit 0 (fun st => .done st) st n (s.extend ((serializeItem it).drop j)) [] it hok hrest hl hn
      have hone : decodeFileData P limit (0 + 1) st (fun st => .done st) = oneRecord P limit st := rfl
      rw [hone, hext] at hitem
      rw [hr] at hcons
      simp only at hcons
      have hlen : s.rest.length = j := by
        rw [hs, List.length_take]; omega
      cases hst : stepItem P st it with
      | ok st' =>
        rw [hst] at hitem
        simp only [decodeFileData, runSpecD, hr] at hitem
        have : n' = n + (serializeItem it).length := by
          have := congrArg (fun r => r.2.1) hitem
          simpa using this
        omega
      | stop o =>
        rw [hst] at hitem
        obtain ⟨e, he, _⟩ := hitem
        cases he

theorem ItemsFit.split (P : Profile) (st : DecSt) (a : List Item) (it : Item) (b : List Item)
    (h : ItemsFit P st (a ++ it :: b)) :
    ItemsFit P st a ∧ ∀ st1, stepItems P st a = .ok st1 → ItemOK st1 it := by
  induction a generalizing st with
  | nil =>
    refine ⟨trivial, ?_⟩
    intro st1 h1
    simp only [stepItems] at h1
    cases h1
    exact h.1
  | cons x xs ih =>
    obtain ⟨hx, hrest⟩ := h
    refine ⟨⟨hx, fun st' hs => (ih st' (hrest st' hs)).1⟩, ?_⟩
    intro st1 h1
    simp only [stepItems] at h1
    cases hs : stepItem P st x with
    | ok st' =>
      rw [hs] at h1
      exact (ih st' (hrest st' hs)).2 st1 h1
    | stop o => rw [hs] at h1; cases h1

/-- **The partial File of a cut stream.** The record loop, run on the bytes of complete records
    `done` followed by a strict prefix of the next record's bytes (and then the end of the stream,
    or a reader error), stops with an early exit that carries the File as the complete records left
    it: exactly the messages that were complete before the cut. -/
theorem cut_items (P : Profile) (limit fuel : Nat) (cont : DecSt → DP) (done : List Item) (it : Item) (more : List Item)
    (st : DecSt) (n : Nat) (s : SpecSt) (j : Nat)
    (hfit : ItemsFit P st (done ++ it :: more)) (hj : j < (serializeItem it).length)
    (hs : s.rest = serialize done ++ (serializeItem it).take j)
    (hl : n + (serialize done).length + (serializeItem it).length ≤ limit) (hn : st.n = n)
    (st1 : DecSt) (h1 : stepItems P st done = .ok st1)
    (R : DecSt → DecSt → Prop := fun _ _ => True)
    (hR : ∀ limit st, ExitsSat (R st) (oneRecord P limit st) := by intros; exact trivialSat _) :
    ∃ e, (runSpecD limit (decodeFileData P limit (fuel + 1 + done.length) st cont) n s).1 = .inl e ∧
      e.st.fileOf = st1.fileOf ∧ R st1 e.st := by
  obtain ⟨hfd, hok⟩ := hfit.split P st done it more
  have hrun := run_items P limit cont done (fuel + 1) st n s ((serializeItem it).take j) hfd hs (by omega) hn
  rw [h1] at hrun
  obtain ⟨hrun, hn1⟩ := hrun
  rw [hrun]
  exact cut_record P limit fuel cont st1 it (hok st1 h1) _ hn1 (by omega) _ j hj rfl R hR

end Fit
