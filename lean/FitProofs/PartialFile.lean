import FitProofs.Partial
import FitProofs.WholeFile
import FitProofs.DecodeEncode
/-
  C11 at file level: `Decode` of a frame cut inside a record (or read through a reader that fails
  there) returns an error together with the File holding exactly the messages of the records that
  were complete.
-/
namespace Fit
open Fit.Crc

/-- a frame cut after the whole header and `j` record bytes -/
theorem frameBytes_take (k : HdrKind) (proto profile : Nat) (recs : Bytes) (j : Nat) (hj : j ≤ recs.length) :
    (frameBytesK k proto profile recs).take (k.size + j) = u8 k.size :: (hdrTail k proto profile recs.length ++ recs.take j) := by
  rw [frameBytes_split]
  have h13 := hdrTail_length k proto profile recs.length
  have hsz := k.size_cases
  have e : k.size + j = ((k.size - 1) + j) + 1 := by omega
  rw [e, List.take_succ_cons]
  congr 1
  rw [List.take_append, h13]
  have : List.take (k.size - 1 + j) (hdrTail k proto profile recs.length) = hdrTail k proto profile recs.length :=
    List.take_of_length_le (by omega)
  rw [this]
  congr 1
  have e2 : k.size - 1 + j - (k.size - 1) = j := by omega
  rw [e2, List.take_append_of_le_length hj]

/-- **Whole-file form of the partial-File theorem.** A header (of any of the three kinds) declaring `L` record bytes;
    then the bytes of a file_id definition and data record and of further complete records
    (`done`); then only a strict prefix of the next record `it`, after which the stream ends or the
    reader fails.  If the item machine accepts the complete records, `Decode` stops with an early
    exit (an error — never a success) whose File and accumulators are exactly the item machine's
    after the complete records. -/
theorem decode_cut_partial (P : Profile) (o : Opts) (k : HdrKind) (g : Globals) (proto profile : Nat)
    (d0 : DefMsg) (b0 : Bool) (fs dev : List Bytes) (done : List Item) (it : Item) (more : List Item) (j : Nat)
    (stop : Stop) (st1 : DecSt)
    (hp : proto < 256) (hp2 : proto / 16 ≤ protoMajorMax)
    (hwf0 : DefnWF d0 b0) (hg : d0.global = mnFileId) (hkn : P.known mnFileId = true)
    (L : Nat) (hL : L = (serialize (.defn d0 b0 :: .data d0.localT fs dev :: (done ++ it :: more))).length)
    (hlen : L < 4294967296)
    (hfit : ItemsFitD P (List.replicate 16 none) (.defn d0 b0 :: .data d0.localT fs dev :: (done ++ it :: more)))
    (hrun : runItems P (afterHeader k g proto profile L).hdr g (.defn d0 b0 :: .data d0.localT fs dev :: done) (afterHeader k g proto profile L).crc = .ok st1)
    (hj : j < (serializeItem it).length)
    (R : DecSt → DecSt → Prop := fun _ _ => True)
    (hR : ∀ limit st, ExitsSat (R st) (oneRecord P limit st) := by intros; exact trivialSat _) :
    ∃ e : ErrExit,
      (decodeSpec P o .full g (u8 k.size :: (hdrTail k proto profile L ++
        (serialize (.defn d0 b0 :: .data d0.localT fs dev :: done) ++ (serializeItem it).take j))) stop).1 =
        finalize o e.toOutcome ∧ e.st.fileOf = st1.fileOf ∧ R st1 e.st := by
  -- what the item machine did on the complete records
  unfold runItems at hrun
  simp only at hrun
  cases h1 : stepItem P (recState0 P k g proto profile L) (.defn d0 b0) with
  | stop o1 =>
    have : stepItem P { DecSt.init g with hdr := (afterHeader k g proto profile L).hdr, crc := (afterHeader k g proto profile L).crc, file := some { hdr := (afterHeader k g proto profile L).hdr, fileId := zeroFileId P }, unkInit := true } (.defn d0 b0) = .stop o1 := h1
    rw [this] at hrun; cases hrun
  | ok sa =>
    have e1 : stepItem P { DecSt.init g with hdr := (afterHeader k g proto profile L).hdr, crc := (afterHeader k g proto profile L).crc, file := some { hdr := (afterHeader k g proto profile L).hdr, fileId := zeroFileId P }, unkInit := true } (.defn d0 b0) = .ok sa := h1
    rw [e1] at hrun
    simp only at hrun
    cases h2 : stepItem P sa (.data d0.localT fs dev) with
    | stop o2 => rw [h2] at hrun; cases hrun
    | ok sb =>
      rw [h2] at hrun
      simp only at hrun
      cases hf2 : sb.file with
      | none => rw [hf2] at hrun; cases hrun
      | some f =>
        rw [hf2] at hrun
        simp only at hrun
        cases hinit : f.init P with
        | error c => rw [hinit] at hrun; cases hrun
        | ok f' =>
          rw [hinit] at hrun
          simp only at hrun
          obtain ⟨hokd0, hokdr, hfitrest⟩ := hfit
          have hd1 := stepItem_defs P _ sa _ (ItemOKD.toOK (recState0 P k g proto profile _) _ hokd0) h1
          have hok2 : ItemOK sa (.data d0.localT fs dev) := by
            apply ItemOKD.toOK
            rw [hd1]; exact hokdr
          have hd2 := stepItem_defs P sa sb _ hok2 h2
          have hfit3 : ItemsFit P { sb with file := some f' } (done ++ it :: more) := by
            apply ItemsFitD.toFit
            show ItemsFitD P sb.defs (done ++ it :: more)
            rw [hd2, hd1]
            exact hfitrest
          have hser : serialize (.defn d0 b0 :: .data d0.localT fs dev :: (done ++ it :: more)) =
              serializeItem (.defn d0 b0) ++ (serializeItem (.data d0.localT fs dev) ++
                (serialize done ++ (serializeItem it ++ serialize more))) := by
            rw [serialize_cons, serialize_cons, serialize_append, serialize_cons]
          have hLsum : L = (serializeItem (.defn d0 b0)).length + (serializeItem (.data d0.localT fs dev)).length +
              (serialize done).length + (serializeItem it).length + (serialize more).length := by
            rw [hL, hser]; simp only [List.length_append]; omega
          have hn1 := stepItem_n P _ sa _ (ItemOKD.toOK (recState0 P k g proto profile L) _ hokd0) h1
          have hn2 := stepItem_n P sa sb _ hok2 h2
          have hh1 := stepItem_hdr P _ sa _ h1
          have hh2 := stepItem_hdr P sa sb _ h2
          have hds : sb.hdr.dataSize = L := by
            rw [hh2, hh1]
            show L % 4294967296 = L
            exact Nat.mod_eq_of_lt hlen
          have hn0 : (recState0 P k g proto profile L).n = 0 := rfl
          have hserd : serialize (.defn d0 b0 :: .data d0.localT fs dev :: done) =
              serializeItem (.defn d0 b0) ++ (serializeItem (.data d0.localT fs dev) ++ serialize done) := by
            rw [serialize_cons, serialize_cons]
          -- the data phase stops inside the cut record
          have hD : ∀ fe : Nat, ∃ e : ErrExit,
              (runSpecD L (recordsProg P .full (recState0 P k g proto profile L)) 0
                { rest := serialize (.defn d0 b0 :: .data d0.localT fs dev :: done) ++ (serializeItem it).take j,
                  stop := stop, taken := k.size, frameEnd := fe }).1 = .inl e ∧ e.st.fileOf = st1.fileOf ∧ R st1 e.st := by
            intro fe
            unfold recordsProg
            rw [run_parseFileIdMsg_ok P L _ d0 b0 hwf0 hg hkn fs dev _ sa sb 0 _ (serialize done ++ (serializeItem it).take j)
              h1 h2 hok2 (by show d0.localT < (List.replicate 16 none).length; simp; exact hwf0.localT)
              (by rw [hserd]; simp only [List.append_assoc]) (by omega)]
            have hmode : ¬ (Mode.full = Mode.fileIdOnly) := by decide
            simp only [hmode, ↓reduceIte, hf2, hinit, hds]
            have hdl := serialize_length_ge done
            have hfuel : (L - done.length) + 1 + done.length = L + 1 := by omega
            rw [← hfuel]
            exact cut_items P L (L - done.length) (fun st => DProg.done st) done it more { sb with file := some f' }
              (0 + (serializeItem (.defn d0 b0)).length + (serializeItem (.data d0.localT fs dev)).length) _ j
              hfit3 hj rfl (by omega) (by show sb.n = _; rw [hn2, hn1, hn0]) st1 hrun R hR
          -- put the pieces together
          unfold decodeSpec
          simp only
          unfold decodeProg
          rw [frame_header_step' P .full k g proto profile L _ stop hp hp2]
          simp only [runSpec]
          have hlim : (afterHeader k g proto profile L).hdr.dataSize = L := Nat.mod_eq_of_lt hlen
          rw [hlim]
          have hst0 : ({ afterHeader k g proto profile L with
              file := some { hdr := (afterHeader k g proto profile L).hdr, fileId := zeroFileId P },
              unkInit := true } : DecSt) = recState0 P k g proto profile L := rfl
          rw [hst0]
          obtain ⟨e, he, hfe⟩ := hD (k.size + L)
          refine ⟨e, ?_, hfe⟩
          generalize runSpecD L (recordsProg P .full (recState0 P k g proto profile L)) 0
            { rest := serialize (.defn d0 b0 :: .data d0.localT fs dev :: done) ++ (serializeItem it).take j,
              stop := stop, taken := k.size, frameEnd := k.size + L } = r at he
          obtain ⟨ro, rn, rs⟩ := r
          simp only at he
          subst he
          rfl

end Fit
