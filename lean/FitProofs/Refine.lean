import FitModel.Source
/-!
  The buffered interpreter (reader.go's `fill`/`readFull` over an `io.Reader` that may split the
  stream arbitrarily) refines the specification interpreter (consume from a list).
-/
namespace Fit

/-! ### facts about one `Read` -/

/-- `r'` is `r` after delivering `k` more bytes -/
structure Reader.After (r r' : Reader) (k : Nat) : Prop where
  data : r'.data = r.data.drop k
  stop : r'.stop = r.stop
  pos : r'.pos = r.pos + k
  sched : r'.sched = r.sched
  ewd : r'.errWithData = r.errWithData
  le : k ≤ r.data.length

theorem Reader.After.refl (r : Reader) : r.After r 0 := ⟨by simp, rfl, rfl, rfl, rfl, by omega⟩

theorem Reader.After.trans {r r' r'' : Reader} {a b : Nat} (h1 : r.After r' a) (h2 : r'.After r'' b) :
    r.After r'' (a + b) := by
  refine ⟨?_, ?_, ?_, ?_, ?_, ?_⟩
  · rw [h2.data, h1.data, List.drop_drop]
  · rw [h2.stop, h1.stop]
  · rw [h2.pos, h1.pos]; omega
  · rw [h2.sched, h1.sched]
  · rw [h2.ewd, h1.ewd]
  · have := h2.le; rw [h1.data, List.length_drop] at this; have := h1.le; omega

theorem Reader.chunk_pos (r : Reader) (c : Nat) (h : r.chunk = some c) : 1 ≤ c := by
  unfold Reader.chunk at h
  split at h
  · cases h
  · cases h; omega

theorem Reader.amount_bounds (r : Reader) (want : Nat) (hw : 1 ≤ want) (hd : 1 ≤ r.data.length) :
    1 ≤ r.amount want ∧ r.amount want ≤ want ∧ r.amount want ≤ r.data.length := by
  unfold Reader.amount
  split
  · omega
  · rename_i c hc
    have := Reader.chunk_pos r c hc
    omega

/-- a `Read` on an exhausted reader reports the end and delivers nothing -/
theorem Reader.read_nil (r : Reader) (want : Nat) (h : r.data = []) :
    ∃ r', r.read want = ([], some r.stop, r') ∧ r.After r' 0 := by
  unfold Reader.read
  rw [h]
  exact ⟨_, rfl, ⟨by simp [h], rfl, rfl, rfl, rfl, by omega⟩⟩

/-- a `Read` with data left delivers `a` bytes, `1 ≤ a ≤ want` -/
theorem Reader.read_cons (r : Reader) (want : Nat) (hw : 1 ≤ want) (hd : r.data ≠ []) :
    ∃ a e r', r.read want = (r.data.take a, e, r') ∧ r.After r' a ∧ 1 ≤ a ∧ a ≤ want ∧
      (e = none ∨ (e = some r.stop ∧ r'.data = [])) := by
  have hlen : 1 ≤ r.data.length := by
    cases hdd : r.data with
    | nil => exact absurd hdd hd
    | cons _ _ => simp
  obtain ⟨h1, h2, h3⟩ := Reader.amount_bounds r want hw hlen
  cases hdd : r.data with
  | nil => exact absurd hdd hd
  | cons x xs =>
    refine ⟨r.amount want,
      (if r.errWithData && (r.data.drop (r.amount want)).isEmpty then some r.stop else none),
      { r with data := r.data.drop (r.amount want), tick := r.tick + 1, pos := r.pos + r.amount want },
      ?_, ⟨rfl, rfl, rfl, rfl, rfl, h3⟩, h1, h2, ?_⟩
    · unfold Reader.read
      rw [hdd]
    · split
      · rename_i hc
        right
        simp only [Bool.and_eq_true, List.isEmpty_iff] at hc
        exact ⟨rfl, hc.2⟩
      · left; rfl

/-! ### `io.ReadFull` -/

theorem take_length_eq (l : Bytes) (a : Nat) (h : a ≤ l.length) : (l.take a).length = a := by
  rw [List.length_take]; omega

theorem take_nonempty (l : Bytes) (a : Nat) (h : a ≤ l.length) (h1 : 1 ≤ a) : (l.take a).isEmpty = false := by
  cases hl : l.take a with
  | nil => have := take_length_eq l a h; rw [hl] at this; simp at this; omega
  | cons _ _ => rfl

theorem readDirectB_spec (fuel k : Nat) (r : Reader) (acc : Bytes) (hf : k ≤ fuel) :
    (k ≤ r.data.length →
      ∃ r', readDirectB fuel k r acc = (.ok (acc ++ r.data.take k), r') ∧ r.After r' k) ∧
    (r.data.length < k →
      ∃ r', readDirectB fuel k r acc = (.error (acc.length + r.data.length, r.stop), r') ∧
        r.After r' r.data.length) := by
  induction fuel generalizing k r acc with
  | zero =>
    have : k = 0 := by omega
    subst this
    constructor
    · intro _
      exact ⟨r, by simp [readDirectB], Reader.After.refl r⟩
    · intro h; omega
  | succ fuel ih =>
    by_cases hk : k = 0
    · subst hk
      constructor
      · intro _; exact ⟨r, by simp [readDirectB], Reader.After.refl r⟩
      · intro h; omega
    · unfold readDirectB
      simp only [hk, ↓reduceIte]
      by_cases hd : r.data = []
      · obtain ⟨r', hr, ha⟩ := Reader.read_nil r k hd
        constructor
        · intro h; rw [hd] at h; simp at h; omega
        · intro _
          refine ⟨r', ?_, ?_⟩
          · rw [hr]; simp [hd]
          · rw [hd]; simpa using ha
      · obtain ⟨a, e, r', hr, ha, h1, h2, _⟩ := Reader.read_cons r k (by omega) hd
        have hale := ha.le
        have hlen := take_length_eq r.data a ha.le
        have hne := take_nonempty r.data a ha.le h1
        rw [hr]
        simp only [hne, Bool.false_eq_true, ↓reduceIte, hlen]
        obtain ⟨ih1, ih2⟩ := ih (k - a) r' (acc ++ r.data.take a) (by omega)
        have hdl : r'.data.length = r.data.length - a := by rw [ha.data, List.length_drop]
        constructor
        · intro hle
          obtain ⟨r'', h1', h2'⟩ := ih1 (by rw [hdl]; omega)
          refine ⟨r'', ?_, ?_⟩
          · rw [h1', ha.data, List.append_assoc]
            have e : k = a + (k - a) := by omega
            conv => rhs; rw [e, List.take_add]
          · have := Reader.After.trans ha h2'
            have e : a + (k - a) = k := by omega
            rw [e] at this; exact this
        · intro hlt
          obtain ⟨r'', h1', h2'⟩ := ih2 (by rw [hdl]; omega)
          refine ⟨r'', ?_, ?_⟩
          · rw [h1', ha.stop]
            simp only [List.length_append, hlen, hdl]
            have := ha.le
            congr 2; congr 1; omega
          · have := Reader.After.trans ha h2'
            rw [hdl] at this
            have e : a + (r.data.length - a) = r.data.length := by have := ha.le; omega
            rw [e] at this; exact this

/-! ### `io.CopyN` -/

theorem copyNB_spec (fuel k : Nat) (r : Reader) (acc : Bytes) (hf : k ≤ fuel) :
    (k ≤ r.data.length →
      ∃ r', copyNB fuel k r acc = (.ok (acc ++ r.data.take k), r') ∧ r.After r' k) ∧
    (r.data.length < k →
      ∃ r', copyNB fuel k r acc = (.error r.stop, r') ∧ r.After r' r.data.length) := by
  induction fuel generalizing k r acc with
  | zero =>
    have : k = 0 := by omega
    subst this
    constructor
    · intro _; exact ⟨r, by simp [copyNB], Reader.After.refl r⟩
    · intro h; omega
  | succ fuel ih =>
    by_cases hk : k = 0
    · subst hk
      constructor
      · intro _; exact ⟨r, by simp [copyNB], Reader.After.refl r⟩
      · intro h; omega
    · unfold copyNB
      simp only [hk, ↓reduceIte]
      by_cases hd : r.data = []
      · obtain ⟨r', hr, ha⟩ := Reader.read_nil r (min copyBufSize k) hd
        constructor
        · intro h; rw [hd] at h; simp at h; omega
        · intro _
          refine ⟨r', ?_, ?_⟩
          · rw [hr]; simp
          · rw [hd]; simpa using ha
      · have hw : 1 ≤ min copyBufSize k := by unfold copyBufSize; omega
        obtain ⟨a, e, r', hr, ha, h1, h2, he⟩ := Reader.read_cons r (min copyBufSize k) hw hd
        have hak : a ≤ k := by omega
        have hale := ha.le
        have hlen := take_length_eq r.data a ha.le
        have hne := take_nonempty r.data a ha.le h1
        rw [hr]
        simp only [hne, Bool.false_eq_true, ↓reduceIte, hlen]
        have hdl : r'.data.length = r.data.length - a := by rw [ha.data, List.length_drop]
        obtain ⟨ih1, ih2⟩ := ih (k - a) r' (acc ++ r.data.take a) (by omega)
        have cont_ok : k ≤ r.data.length →
            ∃ r'', copyNB fuel (k - a) r' (acc ++ r.data.take a) = (.ok (acc ++ r.data.take k), r'') ∧ r.After r'' k := by
          intro hle
          obtain ⟨r'', h1', h2'⟩ := ih1 (by rw [hdl]; omega)
          refine ⟨r'', ?_, ?_⟩
          · rw [h1', ha.data, List.append_assoc]
            have e : k = a + (k - a) := by omega
            conv => rhs; rw [e, List.take_add]
          · have := Reader.After.trans ha h2'
            have e : a + (k - a) = k := by omega
            rw [e] at this; exact this
        have cont_err : r.data.length < k →
            ∃ r'', copyNB fuel (k - a) r' (acc ++ r.data.take a) = (.error r.stop, r'') ∧ r.After r'' r.data.length := by
          intro hlt
          obtain ⟨r'', h1', h2'⟩ := ih2 (by rw [hdl]; omega)
          refine ⟨r'', ?_, ?_⟩
          · rw [h1', ha.stop]
          · have := Reader.After.trans ha h2'
            rw [hdl] at this
            have e : a + (r.data.length - a) = r.data.length := by have := ha.le; omega
            rw [e] at this; exact this
        by_cases hef : e = some Stop.fault
        · -- data delivered together with a fault: the reader is exhausted afterwards
          simp only [hef, ↓reduceIte]
          rcases he with he | ⟨he, hex⟩
          · rw [he] at hef; cases hef
          · have hst : r.stop = Stop.fault := by rw [he] at hef; exact Option.some.inj hef
            have hal : a = r.data.length := by
              have h0 : r'.data.length = 0 := by rw [hex]; rfl
              rw [hdl] at h0
              have := ha.le
              omega
            by_cases hak' : a = k
            · simp only [hak', ↓reduceIte]
              constructor
              · intro _
                exact ⟨r', by rw [← hak'], by rw [← hak']; exact ha⟩
              · intro hlt; omega
            · simp only [hak', ↓reduceIte]
              constructor
              · intro hle; omega
              · intro _
                exact ⟨r', by rw [hst], by rw [← hal]; exact ha⟩
        · simp only [hef, ↓reduceIte]
          exact ⟨cont_ok, cont_err⟩

/-! ### `readFull` through the buffer -/

/-- buffer invariants: never more than `limit` bytes consumed or buffered; the reader's position
    accounts for exactly the consumed and the buffered bytes (`base` = position at the start
    of the data area) -/
structure BufInv (b : BufSt) (base : Nat) : Prop where
  inv : b.n + b.pending.length ≤ b.limit
  pos : b.r.pos = base + b.n + b.pending.length

/-- bytes of the stream not yet consumed by the program -/
def BufSt.avail (b : BufSt) : Bytes := b.pending ++ b.r.data

structure RFSpec (k : Nat) (b : BufSt) (base : Nat) (res : Except RdStop Bytes × BufSt) : Prop where
  inv : BufInv res.2 base
  limit : res.2.limit = b.limit
  stop : res.2.r.stop = b.r.stop
  mono : b.n ≤ res.2.n
  ok : k ≤ b.limit - b.n → k ≤ b.avail.length →
    res.1 = .ok (b.avail.take k) ∧ res.2.avail = b.avail.drop k ∧ res.2.n = b.n + k
  lim : ¬(k ≤ b.limit - b.n ∧ k ≤ b.avail.length) → b.limit - b.n ≤ b.avail.length → res.1 = .error .limit
  fin : ¬(k ≤ b.limit - b.n ∧ k ≤ b.avail.length) → b.avail.length < b.limit - b.n →
    res.1 = .error (RdStop.ofStop b.r.stop)

/-- copying from the buffer, then continuing -/
theorem serve_step (k : Nat) (b : BufSt) (base : Nat) (h : BufInv b base) (hk : k ≠ 0)
    (res1 : Except RdStop Bytes × BufSt)
    (ih : RFSpec (k - (b.pending.take k).length)
      { r := b.r, pending := b.pending.drop k, n := b.n + (b.pending.take k).length, limit := b.limit } base res1) :
    RFSpec k b base
      (match res1.1 with
        | .ok rest => (.ok (b.pending.take k ++ rest), res1.2)
        | .error e => (.error e, res1.2)) := by
  have hcl : (b.pending.take k).length = min k b.pending.length := List.length_take
  have hinv := h.inv
  -- facts about the remaining bytes
  have hav1 : ({ r := b.r, pending := b.pending.drop k, n := b.n + (b.pending.take k).length, limit := b.limit } : BufSt).avail
      = b.avail.drop (b.pending.take k).length := by
    simp only [BufSt.avail]
    rw [List.drop_append, hcl]
    by_cases hkp : k ≤ b.pending.length
    · rw [Nat.min_eq_left hkp]
      have : k - b.pending.length = 0 := by omega
      simp [this]
    · have : b.pending.length ≤ k := by omega
      rw [Nat.min_eq_right this]
      simp [List.drop_eq_nil_of_le this]
  have hlen_av : b.avail.length = b.pending.length + b.r.data.length := by simp [BufSt.avail]
  have htake : b.avail.take k = b.pending.take k ++ (b.avail.drop (b.pending.take k).length).take (k - (b.pending.take k).length) := by
    have e : k = (b.pending.take k).length + (k - (b.pending.take k).length) := by rw [hcl]; omega
    conv => lhs; rw [e, List.take_add]
    congr 1
    simp only [BufSt.avail, List.take_append, hcl]
    by_cases hkp : k ≤ b.pending.length
    · rw [Nat.min_eq_left hkp]
      have : k - b.pending.length = 0 := by omega
      simp [this]
    · have : b.pending.length ≤ k := by omega
      rw [Nat.min_eq_right this]; simp [List.take_of_length_le this]
  have hdrop : b.avail.drop k = (b.avail.drop (b.pending.take k).length).drop (k - (b.pending.take k).length) := by
    rw [List.drop_drop]; congr 1; rw [hcl]; omega
  obtain ⟨i1, i2, i3, im, i4, i5, i6⟩ := ih
  simp only at i2 i3 im i4 i5 i6
  rw [hav1] at i4 i5 i6
  have hlen1 : (b.avail.drop (b.pending.take k).length).length = b.avail.length - (b.pending.take k).length := List.length_drop
  rw [hlen1] at i4 i5 i6
  -- pure arithmetic, on plain variables
  generalize hCL : (b.pending.take k).length = cl at *
  generalize hA : b.avail.length = A at *
  generalize hPL : b.pending.length = pl at *
  generalize hN : b.n = n at *
  generalize hL : b.limit = lim at *
  have c1 : cl ≤ k := by omega
  have c2 : cl ≤ pl := by omega
  have c3 : pl ≤ A := by omega
  have e1 : (k - cl ≤ lim - (n + cl)) ↔ (k ≤ lim - n) := by omega
  have e2 : (k - cl ≤ A - cl) ↔ (k ≤ A) := by omega
  have e3 : (lim - (n + cl) ≤ A - cl) ↔ (lim - n ≤ A) := by omega
  have e4 : (A - cl < lim - (n + cl)) ↔ (A < lim - n) := by omega
  rw [e1, e2] at i4 i5 i6
  rw [e3] at i5
  rw [e4] at i6
  clear e1 e2 e3 e4 c1 c2 c3
  subst hL hN hA
  cases hres : res1.1 with
  | ok rest =>
    simp only
    refine ⟨i1, i2, i3, by simp only; omega, ?_, ?_, ?_⟩
    · intro h1 h2
      obtain ⟨q1, q2, q3⟩ := i4 h1 h2
      rw [hres] at q1
      cases q1
      refine ⟨?_, ?_, ?_⟩
      · simp only; rw [htake]
      · rw [q2, hdrop]
      · rw [q3]; omega
    · intro hn hl
      have := i5 hn hl
      rw [hres] at this; cases this
    · intro hn hl
      have := i6 hn hl
      rw [hres] at this; cases this
  | error e =>
    simp only
    refine ⟨i1, i2, i3, by simp only; omega, ?_, ?_, ?_⟩
    · intro h1 h2
      obtain ⟨q1, _, _⟩ := i4 h1 h2
      rw [hres] at q1; cases q1
    · intro hn hl
      have := i5 hn hl
      rw [hres] at this; exact this
    · intro hn hl
      have := i6 hn hl
      rw [hres] at this; exact this

theorem serve_inv (k : Nat) (b : BufSt) (base : Nat) (h : BufInv b base) :
    BufInv { r := b.r, pending := b.pending.drop k, n := b.n + (b.pending.take k).length, limit := b.limit } base := by
  have hcl : (b.pending.take k).length = min k b.pending.length := List.length_take
  have := h.inv
  have := h.pos
  constructor
  · simp only [List.length_drop, hcl]; omega
  · simp only [List.length_drop, hcl]; omega

theorem readFullB_spec (k : Nat) (b : BufSt) (base : Nat) (h : BufInv b base) :
    RFSpec k b base (readFullB k b) := by
  induction k, b using readFullB.induct with
  | case1 b =>
    rw [readFullB]
    simp only [↓reduceIte]
    exact ⟨h, rfl, rfl, Nat.le_refl _, fun _ _ => ⟨by simp, by simp, by simp⟩, fun hn _ => absurd ⟨by omega, by omega⟩ hn,
      fun hn _ => absurd ⟨by omega, by omega⟩ hn⟩
  | case2 k b hk hp c r rest hr ih =>
    rw [readFullB]
    simp only [hk, ↓reduceIte, hp, ne_eq, not_false_eq_true, ↓reduceDIte]
    exact serve_step k b base h hk _ (ih (serve_inv k b base h))
  | case3 k b hk hp c r e hr ih =>
    rw [readFullB]
    simp only [hk, ↓reduceIte, hp, ne_eq, not_false_eq_true, ↓reduceDIte]
    exact serve_step k b base h hk _ (ih (serve_inv k b base h))
  | case4 k b hk hp hl =>
    rw [readFullB]
    simp only [hk, ↓reduceIte, hp, ↓reduceDIte, hl]
    refine ⟨h, rfl, rfl, Nat.le_refl _, ?_, ?_, ?_⟩
    · intro h1 _; omega
    · intro _ _; rfl
    · intro _ h2; omega
  | case5 k b hk hp hl res hr =>
    have hpn : b.pending = [] := by
      cases hb : b.pending with
      | nil => rfl
      | cons _ _ => rw [hb] at hp; simp at hp
    have hw : 1 ≤ min bufSize (b.limit - b.n) := by unfold bufSize; omega
    have hdn : b.r.data = [] := by
      by_cases hd : b.r.data = []
      · exact hd
      · obtain ⟨a, e, r', hrd, ha, h1, _, _⟩ := Reader.read_cons b.r _ hw hd
        have : res.1 = b.r.data.take a := by show (b.r.read _).1 = _; rw [hrd]
        rw [this, take_nonempty _ _ ha.le h1] at hr
        cases hr
    obtain ⟨r', hrd, ha⟩ := Reader.read_nil b.r (min bufSize (b.limit - b.n)) hdn
    rw [readFullB]
    simp only [hk, ↓reduceIte, hp, ↓reduceDIte, hl]
    have hres : b.r.read (min bufSize (b.limit - b.n)) = ([], some b.r.stop, r') := hrd
    simp only [hres, List.isEmpty_nil, ↓reduceDIte]
    have hav : b.avail = [] := by simp [BufSt.avail, hpn, hdn]
    refine ⟨⟨?_, ?_⟩, rfl, ha.stop, Nat.le_refl _, ?_, ?_, ?_⟩
    · exact h.inv
    · simp only; rw [ha.pos]; have := h.pos; omega
    · intro _ h2; rw [hav] at h2; simp at h2; omega
    · intro _ h2; rw [hav] at h2; simp at h2; omega
    · intro _ _
      cases b.r.stop <;> rfl
  | case6 k b hk hp hl res hr ih =>
    have hpn : b.pending = [] := by
      cases hb : b.pending with
      | nil => rfl
      | cons _ _ => rw [hb] at hp; simp at hp
    have hw : 1 ≤ min bufSize (b.limit - b.n) := by unfold bufSize; omega
    have hd : b.r.data ≠ [] := by
      intro hdn
      obtain ⟨r', hrd, _⟩ := Reader.read_nil b.r (min bufSize (b.limit - b.n)) hdn
      have : res.1 = [] := by show (b.r.read _).1 = _; rw [hrd]
      rw [this] at hr
      exact hr rfl
    obtain ⟨a, e, r', hrd, ha, h1, h2, _⟩ := Reader.read_cons b.r _ hw hd
    have hres : b.r.read (min bufSize (b.limit - b.n)) = (b.r.data.take a, e, r') := hrd
    have hne := take_nonempty _ _ ha.le h1
    have hlen := take_length_eq _ _ ha.le
    have hinv2 : BufInv { r := r', pending := b.r.data.take a, n := b.n, limit := b.limit } base := by
      constructor
      · simp only [hlen]; omega
      · simp only [hlen]; rw [ha.pos]; have := h.pos; rw [hpn] at this; simp at this; omega
    have hres1 : res.1 = b.r.data.take a := by show (b.r.read _).1 = _; rw [hrd]
    have hres2 : res.2.2 = r' := by show (b.r.read _).2.2 = _; rw [hrd]
    rw [hres1, hres2] at ih
    have ih' := ih hinv2
    rw [readFullB]
    simp only [hk, ↓reduceIte, hp, ↓reduceDIte, hl, hres, hne, Bool.false_eq_true]
    have hav : ({ r := r', pending := b.r.data.take a, n := b.n, limit := b.limit } : BufSt).avail = b.avail := by
      simp [BufSt.avail, hpn, ha.data]
    obtain ⟨i1, i2, i3, im, i4, i5, i6⟩ := ih'
    simp only [hav] at i2 i3 im i4 i5 i6
    exact ⟨i1, i2, by rw [i3, ha.stop], im, i4, i5, by rw [← ha.stop]; exact i6⟩

/-! ### the three interpreters -/

def SpecSt.ofReader (r : Reader) : SpecSt := { rest := r.data, stop := r.stop, taken := r.pos }

theorem runT_refines {α} (p : TProg α) (r : Reader) (fe : Nat) :
    (runBufferedT p r).1 = (runSpecT p { rest := r.data, stop := r.stop, taken := r.pos, frameEnd := fe }).1 ∧
    (runBufferedT p r).2.pos = (runSpecT p { rest := r.data, stop := r.stop, taken := r.pos, frameEnd := fe }).2.taken ∧
    (runBufferedT p r).2.data = (runSpecT p { rest := r.data, stop := r.stop, taken := r.pos, frameEnd := fe }).2.rest ∧
    (runSpecT p { rest := r.data, stop := r.stop, taken := r.pos, frameEnd := fe }).2.frameEnd = fe := by
  induction p generalizing r with
  | done a => simp [runBufferedT, runSpecT]
  | readDirect k onErr cont ih =>
    obtain ⟨h1, h2⟩ := readDirectB_spec k k r [] (Nat.le_refl k)
    by_cases hk : k ≤ r.data.length
    · obtain ⟨r', hr, ha⟩ := h1 hk
      simp only [runBufferedT, runSpecT, hr, hk, ↓reduceIte, List.nil_append]
      have := ih (r.data.take k) r'
      rw [ha.data, ha.stop, ha.pos] at this
      exact this
    · obtain ⟨r', hr, ha⟩ := h2 (by omega)
      simp only [runBufferedT, runSpecT, hr, hk, ↓reduceIte, List.length_nil, Nat.zero_add]
      refine ⟨trivial, ha.pos, ?_, trivial⟩
      rw [ha.data]; simp

macro "triv" : tactic => `(tactic| first | rfl | trivial)
macro "sarith" : tactic => `(tactic| first | omega | (simp only; omega))

/-- what the data-phase runs have in common -/
structure DRel {ε β} (base lim : Nat) (bb : (ε ⊕ β) × BufSt) (sp : (ε ⊕ β) × Nat × SpecSt) : Prop where
  out : bb.1 = sp.1
  inv : BufInv bb.2 base
  limit : bb.2.limit = lim
  stop : bb.2.r.stop = sp.2.2.stop
  taken : sp.2.2.taken ≤ bb.2.r.pos
  bound : bb.2.r.pos ≤ base + lim
  /-- a normal end is exact: same count, same remaining bytes -/
  exact : ∀ x, sp.1 = .inr x → bb.2.n = sp.2.1 ∧ bb.2.avail = sp.2.2.rest ∧ sp.2.2.taken = base + sp.2.1

theorem runD_refines {ε β} (p : DProg ε β) (b : BufSt) (base fe : Nat) (h : BufInv b base) :
    DRel base b.limit (runBufferedD p b)
      (runSpecD b.limit p b.n { rest := b.avail, stop := b.r.stop, taken := base + b.n, frameEnd := fe }) ∧
    (runSpecD b.limit p b.n { rest := b.avail, stop := b.r.stop, taken := base + b.n, frameEnd := fe }).2.2.frameEnd = fe := by
  induction p generalizing b with
  | done x =>
    simp only [runBufferedD, runSpecD]
    have := h.pos; have := h.inv
    exact ⟨⟨rfl, h, rfl, rfl, by sarith, by sarith, fun _ _ => ⟨rfl, rfl, rfl⟩⟩, by triv⟩
  | exit e =>
    simp only [runBufferedD, runSpecD]
    have := h.pos; have := h.inv
    exact ⟨⟨rfl, h, rfl, rfl, by sarith, by sarith, fun _ hx => by cases hx⟩, by triv⟩
  | readBuf k onErr cont ih =>
    have sp := readFullB_spec k b base h
    simp only [runBufferedD, runSpecD]
    by_cases hc : k ≤ b.limit - b.n ∧ k ≤ b.avail.length
    · obtain ⟨e1, e2, e3⟩ := sp.ok hc.1 hc.2
      have hres : readFullB k b = (.ok (b.avail.take k), (readFullB k b).2) := by
        rw [← e1]
      rw [hres]
      simp only [hc, and_self, ↓reduceIte]
      have := ih (b.avail.take k) (readFullB k b).2 sp.inv
      rw [e2, e3, sp.limit, sp.stop] at this
      have e : base + (b.n + k) = base + b.n + k := by omega
      rw [e] at this
      exact this
    · simp only [hc, ↓reduceIte]
      have hpos := sp.inv.pos
      have hinv := sp.inv.inv
      have hl := sp.limit
      have hm := sp.mono
      by_cases hl2 : b.limit - b.n ≤ b.avail.length
      · have e1 := sp.lim hc hl2
        have hres : readFullB k b = (.error .limit, (readFullB k b).2) := by rw [← e1]
        rw [hres]
        simp only [hl2, ↓reduceIte]
        exact ⟨⟨rfl, sp.inv, sp.limit, sp.stop, by sarith, by sarith, fun _ hx => by cases hx⟩, by triv⟩
      · have e1 := sp.fin hc (by omega)
        have hres : readFullB k b = (.error (RdStop.ofStop b.r.stop), (readFullB k b).2) := by rw [← e1]
        rw [hres]
        simp only [hl2, ↓reduceIte]
        exact ⟨⟨rfl, sp.inv, sp.limit, sp.stop, by sarith, by sarith, fun _ hx => by cases hx⟩, by triv⟩

/-- **Refinement.**  Whatever the reader's chunking, the buffered run returns the outcome of
    the specification run on the plain byte list; it pulls at least the bytes the specification run
    consumes and — unless it stops inside the data area, where at most the rest of the data area has
    been buffered — exactly those. -/
theorem run_refines {α ε β} (p : HProg α ε β) (r : Reader) (fe : Nat) :
    let sp := runSpec p { rest := r.data, stop := r.stop, taken := r.pos, frameEnd := fe }
    (runBuffered p r).1 = sp.1 ∧ sp.2.taken ≤ (runBuffered p r).2.pos ∧
    ((runBuffered p r).2.pos = sp.2.taken ∨ (runBuffered p r).2.pos ≤ sp.2.frameEnd) := by
  induction p generalizing r fe with
  | done a => simp [runBuffered, runSpec]
  | readDirect k onErr cont ih =>
    obtain ⟨h1, h2⟩ := readDirectB_spec k k r [] (Nat.le_refl k)
    by_cases hk : k ≤ r.data.length
    · obtain ⟨r', hr, ha⟩ := h1 hk
      simp only [runBuffered, runSpec, hr, hk, ↓reduceIte, List.nil_append]
      have := ih (r.data.take k) r' fe
      rw [ha.data, ha.stop, ha.pos] at this
      exact this
    · obtain ⟨r', hr, ha⟩ := h2 (by omega)
      simp only [runBuffered, runSpec, hr, hk, ↓reduceIte, List.length_nil, Nat.zero_add]
      refine ⟨trivial, ?_, Or.inl ha.pos⟩
      rw [ha.pos]; exact Nat.le_refl _
  | data limit p onExit onBad after =>
    have hb : BufInv { r := r, pending := [], n := 0, limit := limit } r.pos := ⟨by simp, by simp⟩
    obtain ⟨rel, hfe⟩ := runD_refines p { r := r, pending := [], n := 0, limit := limit } r.pos (r.pos + limit) hb
    simp only [BufSt.avail, List.nil_append, Nat.add_zero] at rel hfe
    simp only [runBuffered, runSpec]
    generalize hbb : runBufferedD p { r := r, pending := [], n := 0, limit := limit } = bb at rel
    generalize hsp : runSpecD limit p 0 { rest := r.data, stop := r.stop, taken := r.pos, frameEnd := r.pos + limit } = sp at rel hfe
    obtain ⟨bo, b'⟩ := bb
    obtain ⟨so, n', s'⟩ := sp
    have hout : bo = so := rel.out
    subst hout
    cases bo with
    | inl e =>
      simp only
      exact ⟨by first | rfl | trivial, rel.taken, Or.inr (by rw [hfe]; exact rel.bound)⟩
    | inr x =>
      simp only
      obtain ⟨x1, x2, x3⟩ := rel.exact x rfl
      simp only at x1 x2 x3 hfe
      have hl : b'.limit = limit := rel.limit
      rw [x1, hl]
      by_cases hn : n' = limit
      · simp only [hn, ↓reduceIte]
        -- all of the data area is consumed: nothing is buffered
        have hp : b'.pending = [] := by
          have := rel.inv.inv
          cases hbp : b'.pending with
          | nil => rfl
          | cons _ _ => rw [hbp] at this; simp at this; omega
        have hpos : b'.r.pos = s'.taken := by
          have := rel.inv.pos; rw [hp] at this; simp at this; omega
        have hdata : b'.r.data = s'.rest := by
          rw [← x2]; simp [BufSt.avail, hp]
        have hst : b'.r.stop = s'.stop := rel.stop
        have key := runT_refines (after x) b'.r s'.frameEnd
        rw [hdata, hst, hpos] at key
        cases s' with
        | mk sr ss stk sf =>
          simp only at key ⊢
          obtain ⟨t1, t2, t3, t4⟩ := key
          exact ⟨t1, by omega, Or.inl t2⟩
      · simp only [hn, ↓reduceIte]
        exact ⟨by first | rfl | trivial, rel.taken, Or.inr (by rw [hfe]; exact rel.bound)⟩
  | dataOnly limit p onExit fin =>
    have hb : BufInv { r := r, pending := [], n := 0, limit := limit } r.pos := ⟨by simp, by simp⟩
    obtain ⟨rel, hfe⟩ := runD_refines p { r := r, pending := [], n := 0, limit := limit } r.pos (r.pos + limit) hb
    simp only [BufSt.avail, List.nil_append, Nat.add_zero] at rel hfe
    simp only [runBuffered, runSpec]
    generalize hbb : runBufferedD p { r := r, pending := [], n := 0, limit := limit } = bb at rel
    generalize hsp : runSpecD limit p 0 { rest := r.data, stop := r.stop, taken := r.pos, frameEnd := r.pos + limit } = sp at rel hfe
    obtain ⟨bo, b'⟩ := bb
    obtain ⟨so, n', s'⟩ := sp
    have hout : bo = so := rel.out
    subst hout
    cases bo with
    | inl e => exact ⟨by first | rfl | trivial, rel.taken, Or.inr (by rw [hfe]; exact rel.bound)⟩
    | inr x => exact ⟨by first | rfl | trivial, rel.taken, Or.inr (by rw [hfe]; exact rel.bound)⟩
  | copyAll limit onErr cont =>
    obtain ⟨h1, h2⟩ := copyNB_spec limit limit r [] (Nat.le_refl limit)
    by_cases hk : limit ≤ r.data.length
    · obtain ⟨r', hr, ha⟩ := h1 hk
      simp only [runBuffered, runSpec, hr, hk, ↓reduceIte, List.nil_append]
      have := runT_refines (cont (r.data.take limit)) r' (r.pos + limit)
      rw [ha.data, ha.stop, ha.pos] at this
      obtain ⟨t1, t2, t3, t4⟩ := this
      exact ⟨t1, by omega, Or.inl t2⟩
    · obtain ⟨r', hr, ha⟩ := h2 (by omega)
      simp only [runBuffered, runSpec, hr, hk, ↓reduceIte]
      refine ⟨trivial, ?_, Or.inl ha.pos⟩
      rw [ha.pos]; exact Nat.le_refl _

/-- the specification run does not look at positions -/
theorem runSpecT_pos_irrelevant {α} (q : TProg α) (s1 s2 : SpecSt) (e1 : s1.rest = s2.rest) (e2 : s1.stop = s2.stop) :
    (runSpecT q s1).1 = (runSpecT q s2).1 := by
  induction q generalizing s1 s2 with
  | done a => rfl
  | readDirect k onErr cont ih =>
    simp only [runSpecT, e1, e2]
    split
    · exact ih _ _ _ rfl rfl
    · rfl

theorem runSpecD_pos_irrelevant {ε β} (limit : Nat) (q : DProg ε β) (n : Nat) (s1 s2 : SpecSt)
    (e1 : s1.rest = s2.rest) (e2 : s1.stop = s2.stop) :
    (runSpecD limit q n s1).1 = (runSpecD limit q n s2).1 ∧
    (runSpecD limit q n s1).2.1 = (runSpecD limit q n s2).2.1 ∧
    (runSpecD limit q n s1).2.2.rest = (runSpecD limit q n s2).2.2.rest ∧
    (runSpecD limit q n s1).2.2.stop = (runSpecD limit q n s2).2.2.stop := by
  induction q generalizing n s1 s2 with
  | done a => exact ⟨rfl, rfl, e1, e2⟩
  | exit e => exact ⟨rfl, rfl, e1, e2⟩
  | readBuf k onErr cont ih =>
    simp only [runSpecD, e1, e2]
    split
    · exact ih _ _ _ _ rfl rfl
    · split <;> exact ⟨rfl, rfl, e1, e2⟩

theorem runSpec_pos_irrelevant {α ε β} (q : HProg α ε β) (s1 s2 : SpecSt)
    (e1 : s1.rest = s2.rest) (e2 : s1.stop = s2.stop) :
    (runSpec q s1).1 = (runSpec q s2).1 := by
  induction q generalizing s1 s2 with
  | done a => rfl
  | readDirect k onErr cont ih =>
    simp only [runSpec, e1, e2]
    split
    · exact ih _ _ _ rfl rfl
    · rfl
  | data limit p onExit onBad after =>
    simp only [runSpec]
    obtain ⟨h1, h2, h3, h4⟩ := runSpecD_pos_irrelevant limit p 0
      { s1 with frameEnd := s1.taken + limit } { s2 with frameEnd := s2.taken + limit } e1 e2
    generalize runSpecD limit p 0 { s1 with frameEnd := s1.taken + limit } = a at h1 h2 h3 h4
    generalize runSpecD limit p 0 { s2 with frameEnd := s2.taken + limit } = b at h1 h2 h3 h4
    obtain ⟨ao, an, as⟩ := a
    obtain ⟨bo, bn, bs⟩ := b
    simp only at h1 h2 h3 h4
    subst h1 h2
    cases ao with
    | inl e => rfl
    | inr x =>
      simp only
      split
      · exact runSpecT_pos_irrelevant _ _ _ h3 h4
      · rfl
  | dataOnly limit p onExit fin =>
    simp only [runSpec]
    obtain ⟨h1, h2, h3, h4⟩ := runSpecD_pos_irrelevant limit p 0
      { s1 with frameEnd := s1.taken + limit } { s2 with frameEnd := s2.taken + limit } e1 e2
    generalize runSpecD limit p 0 { s1 with frameEnd := s1.taken + limit } = a at h1 h2 h3 h4
    generalize runSpecD limit p 0 { s2 with frameEnd := s2.taken + limit } = b at h1 h2 h3 h4
    obtain ⟨ao, an, as⟩ := a
    obtain ⟨bo, bn, bs⟩ := b
    simp only at h1
    subst h1
    cases ao <;> rfl
  | copyAll limit onErr cont =>
    simp only [runSpec, e1, e2]
    split
    · exact runSpecT_pos_irrelevant _ _ _ rfl rfl
    · rfl

/-- Chunk independence: two readers over the same bytes that end the same way give the same
    outcome, however differently they split the stream into `Read` results. -/
theorem run_chunk_independent {α ε β} (p : HProg α ε β) (r1 r2 : Reader)
    (hd : r1.data = r2.data) (hs : r1.stop = r2.stop) :
    (runBuffered p r1).1 = (runBuffered p r2).1 := by
  rw [(run_refines p r1 0).1, (run_refines p r2 0).1]
  exact runSpec_pos_irrelevant p _ _ hd hs

end Fit
